"""C14 — a collider after update_pose behaves like a freshly built one at that pose.

Proof: coq/theories/Proofs/CollidersProofs.v + Props/C14.v about the state machine
Model/Colliders.v (attributes with layout tags, numba signature layouts and the
"stores a contiguous copy" flags re-read from the sources into Gen/CollidersTables.v by
harness/tables_c14.py before the build; the same reader compares every method of every
collider class and of the mesh functor as a whole with the text the model transliterates and
scans the callees for layout sensitivity / side effects - a refused source => all theorems
reported broken, nothing counted, the stale tables only serve the search).

Tie to the code, on every run:
  * property oracle (independent of the model): EVERY query of the history is repeated on a NEW
    object built at the pose reached so far and must agree; after the history the object that
    lived through it and a NEW object built directly at the last pose must give the same
    support points / AABB / centre / first vertex / collider2origin (bitwise; MeshGraph:
    support VALUE within 1e-9 L since the cached start vertex may differ) and the same
    gjk.gjk distance (1e-9 L) / gjk_intersection answer, and nothing may raise;
  * correspondence: `arr.flags.c_contiguous` of every array attribute after every operation
    must equal the model's layout tag, and "raised TypeError" must equal the model's
    prediction — also on the malformed stream (Fortran-ordered / strided poses, strided
    search directions) which is NOT judged against the property but is where the layout
    rules of the model actually predict exceptions.
"""
import hashlib
import json
import math

from .. import common as cm
from .. import tables_c14

PID = "C14"
PROOF_FILES = ["theories/Props/C14.v", "theories/Proofs/CollidersProofs.v"]
TABLE = cm.COQ / "theories" / "Gen" / "CollidersTables.v"

HEADER = """From Coq Require Import List.
From D3 Require Import Model.Colliders Model.CollidersRun.
Import ListNotations.
"""

CLASSES = ["sphere", "capsule", "cylinder", "cone", "box", "ellipsoid", "disk", "ellipse", "mesh"]
# attribute keys (worker's flags dict) in the order of the model's [tags]
ATTRS = {
    "sphere": ["c"], "capsule": ["capsule2origin"], "cylinder": ["cylinder2origin"], "cone": ["cone2origin"],
    "ellipsoid": ["ellipsoid2origin", "radii"], "box": ["box2origin", "size", "vertices"],
    "disk": ["c", "normal"], "ellipse": ["axes", "c", "radii"],
    "mesh": ["_support_function.mesh2origin", "mesh2origin", "vertices"],
}
SPEC = {
    "sphere": "(PSphere _ _ tt)", "capsule": "(PCapsule _ _ tt tt)", "cylinder": "(PCylinder _ _ tt tt)",
    "cone": "(PCone _ _ tt tt)", "ellipsoid": "(PEllipsoid _ _ uv)", "box": "(PBox _ _ uv)",
    "disk": "(PDisk _ _ tt)", "ellipse": "(PEllipse _ _ (tt, tt))", "mesh": "(PMesh _ _ [] tt 0)",
}
WELL_FORMED_SRC = ["fresh", "stack", "tm", "tm2", "inplace", "stack_inplace"]
SRC_LAYOUT = {"fresh": "U LC", "stack": "US LC", "tm": "U LC", "tm2": "U LC", "inplace": "U LC", "stack_inplace": "US LC",
              "fortran": "U LF", "strided": "U LA"}


# ---------------------------------------------------------------- generators
def quat_to_rot(q):
    w, x, y, z = q
    n = math.sqrt(w * w + x * x + y * y + z * z)
    w, x, y, z = w / n, x / n, y / n, z / n
    return [[1 - 2 * (y * y + z * z), 2 * (x * y - z * w), 2 * (x * z + y * w)],
            [2 * (x * y + z * w), 1 - 2 * (x * x + z * z), 2 * (y * z - x * w)],
            [2 * (x * z - y * w), 2 * (y * z + x * w), 1 - 2 * (x * x + y * y)]]


def lattice_rot(rng):
    """one of the 24 axis permutations with signs (det +1), possibly times 45 deg about an axis"""
    while True:
        perm = rng.sample(range(3), 3)
        signs = [rng.choice([-1.0, 1.0]) for _ in range(3)]
        R = [[0.0] * 3 for _ in range(3)]
        for i in range(3):
            R[i][perm[i]] = signs[i]
        det = (R[0][0] * (R[1][1] * R[2][2] - R[1][2] * R[2][1]) - R[0][1] * (R[1][0] * R[2][2] - R[1][2] * R[2][0])
               + R[0][2] * (R[1][0] * R[2][1] - R[1][1] * R[2][0]))
        if det > 0:
            break
    if rng.random() < 0.3:
        a = math.pi / 4
        c, s = math.cos(a), math.sin(a)
        k = rng.randrange(3)
        i, j = [(1, 2), (0, 2), (0, 1)][k]
        Q = [[float(r == cc) for cc in range(3)] for r in range(3)]
        Q[i][i], Q[i][j], Q[j][i], Q[j][j] = c, -s, s, c
        R = [[sum(R[r][m] * Q[m][cc] for m in range(3)) for cc in range(3)] for r in range(3)]
    return R


def gen_pose(rng):
    kind = rng.random()
    if kind < 0.08:
        R = [[1.0, 0, 0], [0, 1.0, 0], [0, 0, 1.0]]
    elif kind < 0.3:
        R = lattice_rot(rng)
    else:
        R = quat_to_rot([rng.gauss(0, 1) for _ in range(4)])
    tk = rng.random()
    if tk < 0.1:
        t = [0.0, 0.0, 0.0]
    elif tk < 0.3:
        t = [rng.choice([-2.0, -1.0, -0.5, 0.0, 0.5, 1.0, 2.0]) for _ in range(3)]
    elif tk < 0.9:
        t = [rng.uniform(-3, 3) for _ in range(3)]
    else:
        t = [rng.uniform(-1e3, 1e3) for _ in range(3)]
    return [R[0][0], R[0][1], R[0][2], t[0], R[1][0], R[1][1], R[1][2], t[1],
            R[2][0], R[2][1], R[2][2], t[2], 0.0, 0.0, 0.0, 1.0]


def gen_size(rng):
    if rng.random() < 0.3:
        return rng.choice([0.25, 0.5, 1.0, 2.0])
    return 10 ** rng.uniform(-1.3, 0.5)


def gen_mesh(rng):
    from scipy.spatial import ConvexHull
    import numpy as np
    n = rng.randint(5, 14)
    while True:
        if rng.random() < 0.5:   # points on an ellipsoid: all of them are hull vertices
            s = [gen_size(rng) for _ in range(3)]
            pts = []
            for _ in range(n):
                v = [rng.gauss(0, 1) for _ in range(3)]
                nv = math.sqrt(sum(x * x for x in v))
                pts.append([s[i] * v[i] / nv for i in range(3)])
        else:
            sc = gen_size(rng)
            pts = [[rng.uniform(-sc, sc) for _ in range(3)] for _ in range(n)]
        try:
            tri = ConvexHull(np.array(pts)).simplices
            break
        except Exception:
            continue
    return dict(vertices=[x for p in pts for x in p], triangles=[int(i) for t in tri for i in t])


def gen_params(rng, cls):
    if cls == "sphere":
        return dict(radius=gen_size(rng))
    if cls == "capsule":
        return dict(radius=gen_size(rng), height=gen_size(rng))
    if cls == "cylinder":
        return dict(radius=gen_size(rng), length=gen_size(rng))
    if cls == "cone":
        return dict(radius=gen_size(rng), height=gen_size(rng))
    if cls == "box":
        return dict(size=[gen_size(rng) for _ in range(3)])
    if cls == "ellipsoid":
        return dict(radii=[gen_size(rng) for _ in range(3)])
    if cls == "disk":
        return dict(radius=gen_size(rng))
    if cls == "ellipse":
        return dict(radii=[gen_size(rng) for _ in range(2)])
    if cls == "mesh":
        return gen_mesh(rng)
    raise ValueError(cls)


def gen_other(rng, near):
    cls = rng.choice(["sphere", "box", "capsule", "cylinder", "ellipsoid", "cone"])
    p = gen_pose(rng)
    gap = rng.choice([0.0, 0.3, 1.0, 3.0])
    for k, i in enumerate((3, 7, 11)):
        p[i] = near[i] + rng.uniform(-1, 1) * gap
    return dict(cls=cls, params=gen_params(rng, cls), pose=p)


def gen_dir(rng):
    k = rng.random()
    if k < 0.25:
        d = [0.0, 0.0, 0.0]
        d[rng.randrange(3)] = rng.choice([-1.0, 1.0])
        return d
    if k < 0.3:
        return [0.0, 0.0, 0.0]
    if k < 0.4:
        return [rng.choice([0.0, 1.0, -1.0, 1e-300, -1e-9]) for _ in range(3)]
    return [rng.gauss(0, 1) for _ in range(3)]


def gen_update(rng, malformed):
    src = rng.choices(WELL_FORMED_SRC, [0.3, 0.25, 0.1, 0.1, 0.15, 0.1])[0]
    if malformed and rng.random() < 0.6:
        src = rng.choice(["fortran", "strided"])
    op = dict(op="update", src=src, pose=gen_pose(rng))
    if src == "stack_inplace":
        op["i"] = rng.randrange(3)
    if src == "stack":
        n = rng.randint(1, 5)
        i = rng.randrange(n)
        st = [gen_pose(rng) for _ in range(n)]
        st[i] = op["pose"]
        op.update(stack=st, i=i)
    if src == "tm2":
        op.update(pose_a=gen_pose(rng), pose_b=gen_pose(rng))
        del op["pose"]
    return op


def gen_case(rng, malformed=False):
    cls = rng.choice(CLASSES)
    margins = []
    mk = rng.random()
    if mk < 0.25:
        margins = [rng.choice([0.0, 0.01, 0.1, 0.5])]
    elif mk < 0.3:
        margins = [0.05, 0.2]
    pose0 = gen_pose(rng)
    n = rng.randint(1, 8)
    ops = []
    cur = pose0
    track = None
    drift = (not malformed) and rng.random() < 0.12
    if drift:
        # a slowly turning object: every update_pose differs from the previous pose by a tiny rotation (a fast path
        # guarded by np.allclose on the orientation would keep stale caches) and an arbitrary translation
        n = rng.randint(3, 8)
        for _ in range(n):
            ang = 10 ** rng.uniform(-7, -4.5)
            ax = rng.randrange(3)
            i, j = [(1, 2), (0, 2), (0, 1)][ax]
            c_, s_ = math.cos(ang), math.sin(ang)
            R = [[cur[4 * r + cc] for cc in range(3)] for r in range(3)]
            Q = [[float(r == cc) for cc in range(3)] for r in range(3)]
            Q[i][i], Q[i][j], Q[j][i], Q[j][j] = c_, -s_, s_, c_
            R2 = [[sum(R[r][m] * Q[m][cc] for m in range(3)) for cc in range(3)] for r in range(3)]
            t = [cur[3] + rng.uniform(-0.5, 0.5) * (rng.random() < 0.5), cur[7], cur[11] + rng.uniform(-0.1, 0.1)]
            pose = [R2[0][0], R2[0][1], R2[0][2], t[0], R2[1][0], R2[1][1], R2[1][2], t[1],
                    R2[2][0], R2[2][1], R2[2][2], t[2], 0.0, 0.0, 0.0, 1.0]
            src = rng.choice(["fresh", "fresh", "inplace", "tm"])
            ops.append(dict(op="update", src=src, pose=pose))
            cur = pose
            if rng.random() < 0.4:
                ops.append(dict(op=rng.choice(["aabb", "first_vertex"])) if rng.random() < 0.5
                           else dict(op="support", d=gen_dir(rng)))
        n = 0
    if not malformed and not drift and rng.random() < 0.3:
        # "tracking" history: the SAME query repeated immediately before and after update_pose (and twice in a
        # row), as a trajectory player asking for the highest point / the AABB along a path does
        track = gen_dir(rng) if rng.random() < 0.8 else [0.0, 0.0, 1.0]
        qk = rng.choice(["support", "support", "support", "aabb", "first_vertex", "center", "gjk"])
        other = gen_other(rng, cur)

        def q():
            if qk == "support":
                return dict(op="support", d=list(track))
            if qk == "gjk":
                return dict(op="gjk", other=other)
            return dict(op=qk)
        for _ in range(rng.randint(1, 4)):
            if rng.random() < 0.8:
                ops.append(q())
            if rng.random() < 0.25:
                ops.append(q())
            o = gen_update(rng, False)
            cur = o.get("pose", cur)
            ops.append(o)
            if rng.random() < 0.7:
                ops.append(q())
        n = 0
    if not malformed and not drift and track is None and rng.random() < 0.16:
        # "buffer player": the caller owns ONE pose array (or one slot of a pose stack), overwrites it IN PLACE, hands the
        # very same array to update_pose again and looks at the object after every step: a result cached under the
        # identity or the content of the remembered pose array (which IS that buffer) would survive the step
        how = rng.choice(["inplace", "inplace", "stack_inplace"])
        slot = rng.randrange(3)
        other = gen_other(rng, cur)
        for _ in range(rng.randint(2, 5)):
            o = dict(op="update", src=how, pose=gen_pose(rng))
            if how == "stack_inplace":
                o["i"] = slot
            ops.append(o)
            cur = o["pose"]
            for _ in range(rng.randint(1, 3)):
                qk = rng.choice(["aabb", "aabb", "aabb", "support", "first_vertex", "center", "c2o", "gjk"])
                ops.append(dict(op="support", d=gen_dir(rng)) if qk == "support" else
                           dict(op="gjk", other=other) if qk == "gjk" else dict(op=qk))
        n = 0
    for _ in range(n):
        k = rng.random()
        if k < 0.42 or not ops:
            o = gen_update(rng, malformed)
            cur = o.get("pose", cur)
        elif k < 0.62:
            o = dict(op="support", d=gen_dir(rng))
            if malformed and rng.random() < 0.3:
                o["dsrc"] = "strided"
        elif k < 0.72:
            o = dict(op="aabb")
        elif k < 0.77:
            o = dict(op="center")
        elif k < 0.86:
            o = dict(op="first_vertex")
        elif k < 0.9:
            o = dict(op="c2o")
        else:
            o = dict(op="gjk", other=gen_other(rng, cur))
        ops.append(o)
    if not malformed and rng.random() < 0.15:
        # a trajectory player: ONE pose buffer (or one slot of a pose stack) is overwritten for every step
        how = rng.choice(["inplace", "inplace", "stack_inplace"])
        slot = rng.randrange(3)
        for o in ops:
            if o["op"] == "update":
                pose = o.get("pose") or gen_pose(rng)
                for key in ("stack", "pose_a", "pose_b", "i"):
                    o.pop(key, None)
                o.update(src=how, pose=pose)
                if how == "stack_inplace":
                    o["i"] = slot
                cur = pose
    dirs = [[1.0, 0, 0], [0, -1.0, 0], [0, 0, 1.0]] + [gen_dir(rng) for _ in range(4)]
    if track is not None:
        dirs[0] = list(track)      # the final battery starts with the tracked direction once more
    return dict(cls=cls, params=gen_params(rng, cls), margins=margins, pose0=pose0, ops=ops,
                probe_dirs=dirs, probe_others=[gen_other(rng, cur) for _ in range(2)],
                malformed=malformed)


# ---------------------------------------------------------------- oracle
def fkey(x):
    return None if x is None else [float(v).hex() if v == v else "nan" for v in x]


def scale_of(case, r):
    L = 1.0
    for v in r.get("last_pose", [0] * 16)[3:12:4]:
        L = max(L, abs(v))
    for v in case["params"].values():
        for x in (v if isinstance(v, list) else [v]):
            if isinstance(x, float):
                L = max(L, abs(x))
    return L


def judge_case(case, r):
    """Property verdict on the implementation's behaviour.  -> (failures, stats)"""
    fails, stats = [], dict(bitwise=0, gjk_both_raise=0, mesh_value=0, borderline=0)
    if r.get("harness_exc") == "PROCESS-UNCONFIRMED-TIMEOUT":
        return [], stats
    if "harness_exc" in r:
        return [f"worker could not run the case: {r['harness_exc']}: {r.get('harness_msg')}"], stats
    for k, (op, t) in enumerate(zip(case["ops"], r["trace"])):
        if t["exc"] is not None:
            if op["op"] == "gjk" and t["exc"] == "AssertionError":
                continue   # GJK's own sanity assertion (C19), judged below against the fresh object
            fails.append(f"op {k} ({op['op']}{'/' + op.get('src', '') if op['op'] == 'update' else ''}) "
                         f"raised {t['exc']}: {t.get('msg', '')[:80]}")
        ref = t.get("ref")
        if ref is not None and t["exc"] is None:
            if ref["exc"] is not None:
                if not (op["op"] == "gjk" and ref["exc"] == "AssertionError"):
                    fails.append(f"op {k} ({op['op']}): the reference object raised {ref['exc']}")
            elif op["op"] == "gjk":
                if fkey(t["r"][:1]) == fkey(ref["r"][:1]):
                    stats["bitwise"] += 1
                elif abs(t["r"][0] - ref["r"][0]) > 1e-9 * scale_of(case, r):
                    fails.append(f"op {k}: gjk distance {t['r'][0]!r} differs from a new object at the same pose {ref['r'][0]!r}")
            elif fkey(t["r"]) == fkey(ref["r"]):
                stats["bitwise"] += 1
            elif case["cls"] == "mesh" and op["op"] == "support":
                d = op["d"]
                va = sum(x * y for x, y in zip(t["r"], d))
                vb = sum(x * y for x, y in zip(ref["r"], d))
                nd = math.sqrt(sum(x * x for x in d))
                if abs(va - vb) > 1e-9 * scale_of(case, r) * max(nd, 1e-300) and abs(va - vb) > 1e-300:
                    fails.append(f"op {k}: support({d}) value {va!r} differs from a new object at the same pose {vb!r}")
                else:
                    stats["mesh_value"] += 1
            else:
                fails.append(f"op {k} ({op['op']}): {t['r']} differs from a new object at the same pose {ref['r']}")
        if op["op"] == "update" and not (t["pose_layout"]["c"] and t["pose_layout"]["shape"] == [4, 4]
                                         and t["pose_layout"]["dtype"] == "float64"):
            fails.append(f"harness: pose source {op['src']} did not give a C-contiguous float64 4x4 array")
    if r["last_pose_after"] != r["last_pose"]:
        fails.append("the array passed to update_pose was modified by the collider")
    L = scale_of(case, r)
    tol = 1e-9 * L
    mesh = case["cls"] == "mesh"
    u, f = r["upd"], r["fresh"]
    for name in ("aabb", "center", "first_vertex", "c2o"):
        a, b = u[name], f[name]
        if a["exc"] or b["exc"]:
            fails.append(f"{name}: updated raised {a['exc']}, fresh raised {b['exc']}")
        elif fkey(a["r"]) != fkey(b["r"]):
            fails.append(f"{name} differs: updated {a['r']} vs fresh {b['r']}")
        else:
            stats["bitwise"] += 1
    for name in ("support", "support2"):
        for d, a, b in zip(case["probe_dirs"], u[name], f[name]):
            if a["exc"] or b["exc"]:
                fails.append(f"{name}({d}): updated raised {a['exc']}, fresh raised {b['exc']}")
            elif fkey(a["r"]) == fkey(b["r"]):
                stats["bitwise"] += 1
            elif mesh:
                va = sum(x * y for x, y in zip(a["r"], d))
                vb = sum(x * y for x, y in zip(b["r"], d))
                nd = math.sqrt(sum(x * x for x in d))
                if abs(va - vb) > tol * max(nd, 1e-300) and abs(va - vb) > 1e-300:
                    fails.append(f"{name}({d}): support values differ: updated {va!r} vs fresh {vb!r}")
                else:
                    stats["mesh_value"] += 1
            else:
                fails.append(f"{name}({d}) differs: updated {a['r']} vs fresh {b['r']}")
    for k, (a, b) in enumerate(zip(u["gjk"], f["gjk"])):
        if a["exc"] or b["exc"]:
            if a["exc"] == b["exc"] == "AssertionError":
                stats["gjk_both_raise"] += 1
            else:
                fails.append(f"gjk vs probe {k}: updated raised {a['exc']}, fresh raised {b['exc']}")
            continue
        da, db = a["r"][0], b["r"][0]
        if fkey([da]) == fkey([db]):
            stats["bitwise"] += 1
        elif abs(da - db) > tol:
            fails.append(f"gjk distance vs probe {k} differs: updated {da!r} vs fresh {db!r}")
        ia, ib = u["gjk_int"][k], f["gjk_int"][k]
        if ia["exc"] or ib["exc"]:
            if ia["exc"] != ib["exc"]:
                fails.append(f"gjk_intersection vs probe {k}: updated raised {ia['exc']}, fresh raised {ib['exc']}")
        elif ia["r"] != ib["r"]:
            if mesh and abs(db) < 1e-6 * L:
                stats["borderline"] += 1
            else:
                fails.append(f"gjk_intersection vs probe {k} differs: updated {ia['r']} vs fresh {ib['r']}")
    return fails, stats


# ---------------------------------------------------------------- model side
def coq_case(case, cfg="current"):
    s = SPEC[case["cls"]]
    for _ in case["margins"]:
        s = f"(PMargin _ _ {s} tt)"
    ops = []
    for o in case["ops"]:
        k = o["op"]
        if k == "update":
            ops.append(SRC_LAYOUT[o["src"]])
        elif k == "support":
            ops.append("S LA" if o.get("dsrc") == "strided" else "S LC")
        elif k == "gjk":
            ops.append("S LC")   # gjk.gjk touches the collider only through support_function(fresh array)
        else:
            ops.append(dict(aabb="QA", center="QC", first_vertex="QF", c2o="QO")[k])
    return f"run_tags {cfg} {s} [{'; '.join(ops)}]"


def impl_tags(case, fl):
    pre = "collider." * len(case["margins"])
    return [1 if fl[pre + a] else 0 for a in ATTRS[case["cls"]]]


def compare_case(case, r, m):
    """flags/exception correspondence model vs implementation -> list of diffs"""
    if r.get("harness_exc") == "PROCESS-UNCONFIRMED-TIMEOUT":
        return []
    if "harness_exc" in r:
        return ["worker error"]
    diffs = []
    tags0, trace = m
    if [min(t, 1) for t in tags0] != impl_tags(case, r["flags0"]):
        diffs.append(f"layout after construction: model {tags0} vs c_contiguous {impl_tags(case, r['flags0'])}")
    if len(trace) != len(r["trace"]):
        return diffs + ["trace length"]
    for k, ((raised, tags), t) in enumerate(zip(trace, r["trace"])):
        if t["exc"] not in (None, "TypeError"):
            if not (case["ops"][k]["op"] == "gjk" and t["exc"] == "AssertionError"):
                diffs.append(f"op {k}: implementation raised {t['exc']} (model knows only TypeError)")
            continue
        if bool(raised) != (t["exc"] == "TypeError"):
            diffs.append(f"op {k} ({case['ops'][k]}): model predicts raise={bool(raised)}, implementation exc={t['exc']}")
        # tag 2 (Fortran) and 0 (strided) are both "not C-contiguous" for a 2-d array
        if [1 if x == 1 else 0 for x in tags] != impl_tags(case, t["flags"]):
            diffs.append(f"op {k}: model tags {tags} vs c_contiguous {impl_tags(case, t['flags'])}")
    return diffs


def parse_run_tags(s):
    s = s.replace("true", "1").replace("false", "0").replace("(", "[").replace(")", "]").replace(";", ",")
    return json.loads(s)


# ---------------------------------------------------------------- main
_CONFIRMED = [0]
CASE_LIMIT_S = 150      # wall-clock allowance per case inside a worker (a case normally takes < 1 s)


def run_impl_cases(cases, tag):
    nw = min(cm.NCPU, max(1, len(cases) // 8))
    chunks = [cases[i::nw] for i in range(nw)]
    res = cm.run_impl_parallel(PID, "c14", [dict(cases=c, case_limit_s=CASE_LIMIT_S) for c in chunks], timeout=900, tag=tag)
    out = [None] * len(cases)
    for wk, (rr, ch) in enumerate(zip(res, chunks)):
        idxs = list(range(wk, len(cases), nw))
        if rr["status"] == "ok":
            for i, x in zip(idxs, rr["result"]["results"]):
                out[i] = x
        else:
            # a worker died or ran out of time: isolate the cases; a time-out is only believed after the case
            # has been re-run ALONE with a generous limit (a busy machine or a cold numba cache is not a verdict)
            singles = cm.run_impl_parallel(PID, "c14", [dict(cases=[c]) for c in ch], timeout=300, tag=tag + "_iso")
            for j, s1 in enumerate(singles):
                if s1["status"] == "timeout":
                    if _CONFIRMED[0] >= 3:          # three confirmed hangs are a verdict; do not spend hours
                        singles[j] = dict(status="unconfirmed-timeout", rc=None, log="")
                        continue
                    _CONFIRMED[0] += 1
                    singles[j] = cm.run_impl(PID, "c14", dict(cases=[ch[j]]), timeout=900, tag=tag + "_alone")
            for i, s in zip(idxs, singles):
                if s["status"] == "ok":
                    out[i] = s["result"]["results"][0]
                else:
                    out[i] = dict(harness_exc=f"PROCESS-{s['status'].upper()}", harness_msg=f"rc={s.get('rc')} {s.get('log', '')[-300:]}")
    # cases that ran into the in-worker allowance: believed only after a run ALONE without that allowance
    for i, x in enumerate(out):
        if isinstance(x, dict) and x.get("harness_exc") == "CASE-TIMEOUT":
            if _CONFIRMED[0] >= 3:
                out[i] = dict(harness_exc="PROCESS-UNCONFIRMED-TIMEOUT", harness_msg="not re-run (3 hangs already confirmed)")
                continue
            _CONFIRMED[0] += 1
            s1 = cm.run_impl(PID, "c14", dict(cases=[cases[i]]), timeout=900, tag=tag + "_alone")
            if s1["status"] == "ok":
                out[i] = s1["result"]["results"][0]
            else:
                out[i] = dict(harness_exc=f"PROCESS-{s1['status'].upper()}", harness_msg=f"rc={s1.get('rc')} {s1.get('log', '')[-300:]}")
    return out


def nontrivial(case):
    """an update followed (later) by at least one query"""
    seen = False
    for o in case["ops"]:
        if o["op"] == "update":
            seen = True
        elif seen:
            return True
    return False


def shrink_ops(case, fails_fn):
    """drop operations while the failure persists (cheap, implementation re-run by caller)"""
    return case


def run(tier, seed, replay=None):
    R = cm.Run(PID, "proof", tier, seed)
    R.cov["rule"] = (
        "case = collider class (sphere/capsule/cylinder/cone/box/ellipsoid/disk/ellipse/mesh) x 0-2 Margin wrappers x "
        "history of 1-8 ops (update_pose with the pose as fresh array | item of an np.stack | returned by a "
        "pytransform3d TransformManager (direct edge / concatenated path) | ONE buffer / one item of a persistent stack that "
        "the caller overwrites in place and hands over again; 16% of the rest 'buffer player' histories: 2-5 steps, each = the "
        "SAME array overwritten in place + update_pose(it) + 1-3 of aabb/support/first_vertex/center/collider2origin/gjk, for every class; "
        "12% 'drift' histories: consecutive poses differ by a rotation of "
        "1e-7..3e-5 rad; support_function | aabb | center | "
        "first_vertex | collider2origin | gjk.gjk vs another collider; 30% 'tracking' histories: the SAME query "
        "immediately before and after each update_pose and twice in a row, the final battery starting with it again); poses = identity / 24 axis permutations (x 45 deg) "
        "/ random quaternions, translations lattice / uniform / up to 1e3. After the history: 7 support directions, aabb, "
        "center, first_vertex, collider2origin, gjk.gjk and gjk_intersection vs 2 probe colliders, 3 supports again — "
        "on the surviving object and on a new object built at the last pose. non-trivial = at least one update_pose "
        "followed by a query inside the history; distinct by canonical hash. ~12% of the cases form the malformed stream "
        "(Fortran/strided poses, strided directions): correspondence only, never judged against the property.")
    R.assumptions += [
        "theorems are about the state machine Model/Colliders.v: numpy view/layout rules and numba's dispatch on declared "
        "signatures are MODELLED (validated here against arr.flags.c_contiguous and raised TypeErrors), not verified",
        "numerical kernels are abstract in the model (any functions of the attribute data); bitwise equality of the real "
        "kernels on equal data is observed, not proved",
        "MeshGraph: equality up to the cached start vertex; support-value equality needs hill climbing to reach a global "
        "maximum (C03's mesh hypothesis: convex mesh, exact arithmetic)",
        "in-place mutation of a pose array by the caller is covered only when update_pose is called again with that array right "
        "after the mutation (sources 'inplace' / 'stack_inplace'); queries between the mutation and update_pose are outside the property "
        "(most classes keep a reference / view of the array)",
        "harness/compat.py import shim; numpy/numba/CPython; pytransform3d TransformManager as pose source",
    ]
    # 1. tables from the current sources, then the proofs
    try:
        changed = tables_c14.generate(cm.REPO, TABLE)
        R.cov["tables_changed"] = bool(changed)
        tables_ok = True
    except Exception as e:  # noqa: BLE001  (TablesError, OSError, SyntaxError, or a bug of the reader: all fail closed)
        tables_ok = False
        R.proof_broken.append(f"Gen/CollidersTables.v cannot be regenerated: the reader refuses the sources (ALL theorems of "
                              f"Props/C14.v are about a model of different code and are not counted): "
                              f"{type(e).__name__}: {str(e)[:900]}")
        # The generated file is left as the last successful read wrote it.  It is used below ONLY to build the executable
        # model for the correspondence run (a lead for the search); nothing is counted as discharged.
        R.cov["stale_tables"] = dict(
            file="coq/theories/Gen/CollidersTables.v",
            sha256=hashlib.sha256(TABLE.read_bytes()).hexdigest() if TABLE.exists() else None,
            note="not regenerated in this run; the Coq build and the model evaluations below use the tables of the last "
                 "successful read. No theorem is counted as discharged; agreement of this stale model with the "
                 "implementation is not evidence for the property, disagreement is a lead for the search")
        R.notes.append("STALE Gen/CollidersTables.v: see coverage.stale_tables")
    R.check_proofs(PROOF_FILES)
    R.cov["tables_regenerated"] = tables_ok
    if not tables_ok:
        R.cov["discharged"] = 0
    R.cov["trusted_base"] += ["harness/tables_c14.py + tables_pin.py (ast reader: decorators, every method body of every collider class "
                              "and of the mesh functor against the text Model/Colliders.v transliterates, call sites, callee purity scan)",
                              "numpy view and numba dispatch rules as modelled in Model/Colliders.v"]

    # 2. cases: corpus, then generated
    cases = []
    if replay:
        cases.append(json.loads(open(replay).read())["case"])
    else:
        corpus = cm.VERIF / "corpus" / PID
        if corpus.exists():
            for f in sorted(corpus.glob("*.json")):
                cases.append(json.loads(f.read_text())["case"])
        n = 640 if tier == "quick" else 6400
        for k in range(n):
            cases.append(gen_case(R.rng, malformed=(k % 8 == 7)))
    results = run_impl_cases(cases, "impl")
    R.cov["evaluations"] = len(cases)

    # 3. property oracle
    bad = []
    tot = dict(bitwise=0, gjk_both_raise=0, mesh_value=0, borderline=0)
    for c, r in zip(cases, results):
        if c.get("malformed"):
            if "harness_exc" in r and r["harness_exc"] != "PROCESS-UNCONFIRMED-TIMEOUT":
                R.corr_broken.append(f"worker error on malformed case: {r['harness_exc']} {r.get('harness_msg')}")
            continue
        f, st = judge_case(c, r)
        for k in tot:
            tot[k] += st[k]
        if f:
            bad.append((c, f))
    R.cov["observables_compared"] = tot

    # 4. correspondence: layout tags and exceptions vs the model
    ndiff = 0
    try:
        outs = cm.coq_eval_lines(PID, HEADER, [coq_case(c) for c in cases], per_file=max(40, len(cases) // cm.NCPU + 1))
        for c, r, o in zip(cases, results, outs):
            d = compare_case(c, r, parse_run_tags(o))
            if d:
                ndiff += 1
                if len(R.corr_broken) < 5:
                    R.corr_broken.append(f"Colliders model vs implementation ({c['cls']}, margins={len(c['margins'])}): {d[0]}")
                    R.notes.append(dict(correspondence_diff=d[:4], case_hash=cm.canon_hash(c)))
    except (RuntimeError, ValueError) as e:
        R.corr_broken.append(f"model evaluation failed: {str(e)[:500]}")
    R.cov["correspondence_disagreements"] = ndiff
    R.cov["traces_validated_against_impl"] = (len(cases) - ndiff) if tables_ok else 0
    if not tables_ok:
        R.cov["traces_agreeing_with_stale_model"] = len(cases) - ndiff
    R.cov["model_predicted_typeerrors_confirmed"] = sum(
        1 for c, r in zip(cases, results) if "trace" in r for t in r["trace"] if t["exc"] == "TypeError") if not ndiff else None

    # 5. evidence
    distinct = {cm.canon_hash(c) for c in cases if nontrivial(c) and not c.get("malformed")}
    R.cov["distinct_nontrivial"] = len(distinct)
    hist = dict(cls={}, src={}, ops={}, margins={}, malformed=sum(1 for c in cases if c.get("malformed")))
    for c in cases:
        hist["cls"][c["cls"]] = hist["cls"].get(c["cls"], 0) + 1
        hist["margins"][str(len(c["margins"]))] = hist["margins"].get(str(len(c["margins"])), 0) + 1
        for o in c["ops"]:
            hist["ops"][o["op"]] = hist["ops"].get(o["op"], 0) + 1
            if o["op"] == "update":
                hist["src"][o["src"]] = hist["src"].get(o["src"], 0) + 1
    # measured: per class, histories in which the SAME buffer is handed to update_pose at least twice with an aabb()
    # between the first and the last of these calls (aabb() is also part of the final battery)
    reb = {}
    for c in cases:
        if c.get("malformed"):
            continue
        idx = {}
        for k, o in enumerate(c["ops"]):
            if o["op"] == "update" and o["src"] in ("inplace", "stack_inplace"):
                idx.setdefault((o["src"], o.get("i")), []).append(k)
        if any(len(v) >= 2 and any(c["ops"][j]["op"] == "aabb" for j in range(v[0], v[-1])) for v in idx.values()):
            reb[c["cls"]] = reb.get(c["cls"], 0) + 1
    hist["same_buffer_updated_again_with_aabb_between_by_cls"] = reb
    R.cov["input_histogram"] = hist
    for c, r in list(zip(cases, results))[:3]:
        R.sample(dict(cls=c["cls"], margins=c["margins"],
                      ops=[o["op"] + (":" + o["src"] if o["op"] == "update" else "") for o in c["ops"]],
                      flags_after_each_op=[t["flags"] for t in r.get("trace", [])][:3],
                      aabb_updated=r.get("upd", {}).get("aabb", {}).get("r"),
                      aabb_fresh=r.get("fresh", {}).get("aabb", {}).get("r")))
    for c, f in bad[:5]:
        R.failure("; ".join(f[:3]), c, site=f"colliders.{c['cls']}")

    # 6. proof or tie broke but the oracle saw nothing: larger search judged by the oracle only
    if (R.proof_broken or R.corr_broken) and not bad and not replay:
        extra = [gen_case(R.rng) for _ in range(2500)]
        res2 = run_impl_cases(extra, "search")
        R.cov["search_evaluations"] = len(extra)
        for c, r in zip(extra, res2):
            f, _ = judge_case(c, r)
            if f:
                R.failure("; ".join(f[:3]), c, site=f"colliders.{c['cls']}")
                break
    return R.finish()
