"""C20 — compiled (numba) and interpreted execution give the same results.

Dynamic side: ONE serialised call list covering every family of jitted public code is executed
by harness/impl/c20.py once with the JIT as installed and once with NUMBA_DISABLE_JIT=1 (separate
interpreter processes, separate numba cache directories); the serialised outputs are compared:
  closed forms (utils, geometry support functions, containment boxes and predicates, the 34
    distance functions, AABB helpers, GJK simplex kernels, half-plane / tetrahedron kernels)
    1e-9 relative (+1e-12 L absolute), integer / boolean / index outputs, result structure and
    raised exception TYPES identical;
  iterative solvers (all GJK flavours, MPR, EPA through collider pairs): distances, depths, mtv
    within the tolerance of C01 / C07-C09, booleans identical in clear scenes (same rule as C12);
  AABB tree histories (insert batches in every mode, box queries, tree-vs-tree queries, EMPTY tree
    queries and root box -- F5), mesh hill climbing sequences (returned vertex INDEX and point),
    broad phase worlds, hydroelastic tetrahedron pairs and bodies: everything their workers
    report, structurally, floats at 1e-9 relative.
Families "intscalar*": scalar sizes (radius, height, length, margin) passed as Python ints / numpy integer scalars (arrays stay
float64 C-contiguous: the declared domain) with exact axis-permutation poses and exactly axial / exactly zero directions.
A crash, hang or exception in only one mode is a failure.  A boolean / index mismatch is first
re-examined at perturbed inputs (see `recheck`); only a mismatch that persists away from the
decision boundary is a failure, boundary cases are counted.
Static side (fail-closed `ast` scan of /repo, every run): every `njit` function is listed with
the module-level globals it captures (numba freezes them at compile time); a captured global
that is rebound or mutated anywhere in the package is a failure; so is any decorator option
outside the known set (e.g. `boundscheck`, `fastmath`, `parallel`, `nogil`, `error_model`), which
would change the semantics the comparison relies on.  Negative-constant indexing inside compiled
code is listed (wrap-around is the same in both modes; out-of-range is not).
Theorems (Props/C20.v): index safety of the modelled array code (C05 queries / insertions incl.
the empty tree) re-exported; they are the side condition under which unchecked (compiled) and
checked (interpreted) indexing coincide.
"""
import ast
import json
import math

import numpy as np

from .. import common as cm
from .. import narrow as nw
from .. import primlib as pl
from . import c12

PID = "C20"
PROOF_FILES = ["theories/Props/C20.v"]
REL = 1e-9


# ============================================================================= static scan
KNOWN_JIT_OPTIONS = {"cache"}
MUTATING_METHODS = {"append", "extend", "insert", "pop", "remove", "clear", "update", "setdefault", "sort", "reverse",
                    "fill", "resize", "put", "itemset", "setflags", "__setitem__"}


def _is_njit(dec):
    src = ast.unparse(dec)
    return "njit" in src or src.startswith("numba.jit") or src.startswith("jit")


def static_scan(repo):
    """-> dict(functions=[...], problems=[...]); raises on anything it cannot read (fail closed)"""
    pkg = repo / "distance3d"
    files = sorted(p for p in pkg.rglob("*.py") if "/test/" not in str(p))
    mods = {}
    for f in files:
        mods[f] = ast.parse(f.read_text())
    problems, functions = [], []
    # module-level bindings per file, and every place a module-level name is rebound / mutated
    for f, tree in mods.items():
        top_assigned = {}
        imported = set()
        for node in tree.body:
            if isinstance(node, (ast.Assign, ast.AnnAssign, ast.AugAssign)):
                targets = node.targets if isinstance(node, ast.Assign) else [node.target]
                for t in targets:
                    for n in ast.walk(t):
                        if isinstance(n, ast.Name):
                            top_assigned.setdefault(n.id, []).append(node.lineno)
            elif isinstance(node, (ast.Import, ast.ImportFrom)):
                for a in node.names:
                    imported.add((a.asname or a.name).split(".")[0])
            elif isinstance(node, (ast.FunctionDef, ast.ClassDef)):
                imported.add(node.name)
        rebinding = {}     # name -> [(lineno, how)]
        for node in ast.walk(tree):
            if isinstance(node, ast.Global):
                for nm in node.names:
                    rebinding.setdefault(nm, []).append((node.lineno, "global statement"))
            if isinstance(node, (ast.Assign, ast.AugAssign)):
                targets = node.targets if isinstance(node, ast.Assign) else [node.target]
                for t in targets:
                    base = t
                    while isinstance(base, (ast.Subscript, ast.Attribute)):
                        base = base.value
                    if isinstance(base, ast.Name) and base is not t and base.id in top_assigned:
                        # NAME[...] = / NAME.attr = : only a problem if NAME is module level and not shadowed locally
                        rebinding.setdefault(base.id, []).append((node.lineno, "item/attribute assignment"))
            if isinstance(node, ast.Call) and isinstance(node.func, ast.Attribute) and isinstance(node.func.value, ast.Name):
                if node.func.attr in MUTATING_METHODS and node.func.value.id in top_assigned:
                    rebinding.setdefault(node.func.value.id, []).append((node.lineno, f".{node.func.attr}()"))
        for nm, lines in top_assigned.items():
            if len(lines) > 1:
                rebinding.setdefault(nm, []).append((lines[1], "module-level rebinding"))
        # jitted functions
        for node in ast.walk(tree):
            if not isinstance(node, ast.FunctionDef):
                continue
            decs = [d for d in node.decorator_list if _is_njit(d)]
            if not decs:
                continue
            opts = set()
            for d in decs:
                if isinstance(d, ast.Call):
                    for kw in d.keywords:
                        opts.add(kw.arg)
                        if kw.arg == "cache" and not (isinstance(kw.value, ast.Constant) and kw.value.value is True):
                            problems.append(f"{f.relative_to(repo)}:{node.lineno} {node.name}: cache option is not the literal True")
            extra = opts - KNOWN_JIT_OPTIONS
            if extra:
                problems.append(f"{f.relative_to(repo)}:{node.lineno} {node.name}: jit options {sorted(extra)} change compiled semantics")
            local = {a.arg for a in node.args.args + node.args.kwonlyargs}
            if node.args.vararg:
                local.add(node.args.vararg.arg)
            shadowed_mutation = False
            for n in ast.walk(node):
                if isinstance(n, ast.Name) and isinstance(n.ctx, ast.Store):
                    local.add(n.id)
                if isinstance(n, (ast.For, ast.comprehension)):
                    for m in ast.walk(n.target):
                        if isinstance(m, ast.Name):
                            local.add(m.id)
            captured = sorted({n.id for n in ast.walk(node) if isinstance(n, ast.Name) and isinstance(n.ctx, ast.Load)
                               and n.id not in local and n.id in top_assigned})
            neg_idx = []
            for n in ast.walk(node):
                if isinstance(n, ast.Subscript):
                    for m in ast.walk(n.slice):
                        if isinstance(m, ast.UnaryOp) and isinstance(m.op, ast.USub) and isinstance(m.operand, ast.Constant) \
                                and isinstance(m.operand.value, int) and not isinstance(n.slice, ast.Slice) \
                                and not any(isinstance(s, ast.Slice) for s in ast.walk(n.slice)):
                            neg_idx.append(n.lineno)
            functions.append(dict(file=str(f.relative_to(repo)), name=node.name, line=node.lineno, captured_globals=captured,
                                  options=sorted(opts), negative_constant_index_lines=sorted(set(neg_idx))))
            for g in captured:
                if g in rebinding:
                    # a mutation *inside a function where the name is a local* is not a mutation of the global; the scan above
                    # only recorded names that are module level, and locals shadowing them are rare: report conservatively
                    problems.append(f"{f.relative_to(repo)}:{node.lineno} {node.name} captures module global `{g}` which is "
                                    f"rebound/mutated at {rebinding[g][:3]}")
    # cross-module: a captured global imported elsewhere and assigned through the module object (mod.NAME = ...)
    names = {(fn["file"], g) for fn in functions for g in fn["captured_globals"]}
    gl = {g for _, g in names}
    for f, tree in mods.items():
        for node in ast.walk(tree):
            if isinstance(node, (ast.Assign, ast.AugAssign)):
                targets = node.targets if isinstance(node, ast.Assign) else [node.target]
                for t in targets:
                    if isinstance(t, ast.Attribute) and t.attr in gl and isinstance(t.value, ast.Name) and t.attr.isupper():
                        problems.append(f"{f.relative_to(repo)}:{node.lineno} assigns {ast.unparse(t)}: a constant captured by compiled code")
    if not functions:
        raise RuntimeError("static scan found no jitted function: reader out of date")
    return dict(functions=functions, problems=problems)


# ============================================================================= call-list generation
def A(x):
    return {"a": np.asarray(x, dtype=float).tolist()}


def I(x):
    return {"i": np.asarray(x, dtype=int).tolist()}


SPECIAL = [0.0, 0.0, 1.0, -1.0, 1e-300, -1e-300, 1e-9, -1e-9, 0.5, -0.5]


def gen_dir(rng):
    u = rng.random()
    if u < 0.35:
        return [rng.choice(SPECIAL) for _ in range(3)]
    if u < 0.45:
        return [0.0, 0.0, 0.0]
    v = np.array([rng.gauss(0, 1) for _ in range(3)])
    if u < 0.8:
        v /= np.linalg.norm(v)
    return v.tolist()


def gen_pose(rng, stream=None):
    stream = stream or rng.choice(["random", "lattice"])
    return np.array(nw.pose_of(nw.rand_rotation(rng, stream), nw.rand_center(rng, stream, 5.0)))


def gen_point(rng, stream=None):
    stream = stream or rng.choice(["random", "lattice"])
    return nw.rand_center(rng, stream, 5.0)


def sz(rng):
    return nw.rand_size(rng, rng.choice(["lattice", "moderate", "random"]))


def call(mod, fn, args, cls="closed", L=1.0, **kw):
    return dict(k="call", mod=mod, fn=fn, args=args, cls=cls, L=L, **kw)


def gen_closed_calls(rng, n_each):
    out = []
    U, G, CT, CN, AT = ("distance3d.utils", "distance3d.geometry", "distance3d.containment_test", "distance3d.containment",
                        "distance3d.aabb_tree")
    for _ in range(n_each):
        T = gen_pose(rng)
        p = gen_point(rng)
        d = gen_dir(rng)
        pts = [gen_point(rng) for _ in range(rng.choice([1, 2, 5]))]
        n = nw.rand_rotation(rng, rng.choice(["random", "lattice"]))[:, 2]
        L = 1.0 + float(np.linalg.norm(T[:3, 3]))
        # ---- utils
        out += [call(U, "norm_vector", [A(d)]), call(U, "scalar_triple_product", [A(gen_dir(rng)), A(gen_dir(rng)), A(p)], L=L * 10),
                call(U, "plane_basis_from_normal", [A(n)]),
                call(U, "transform_point", [A(T), A(p)], L=L), call(U, "transform_points", [A(T), A(pts)], L=L),
                call(U, "transform_directions", [A(T), A(pts)], L=L), call(U, "inverse_transform_point", [A(T), A(p)], L=L),
                call(U, "invert_transform", [A(T)], L=L), call(U, "cross_product_matrix", [A(p)]),
                call(U, "adjoint_from_transform", [A(T)], L=L)]
        # ---- geometry
        r, h = sz(rng), sz(rng)
        size = [sz(rng), sz(rng), sz(rng)]
        axes = nw.rand_rotation(rng, "random")[:2]
        Lg = L + r + h + max(size)
        out += [call(G, "convert_segment_to_line", [A(p), A(p if rng.random() < 0.2 else gen_point(rng))], L=L),
                call(G, "convert_box_to_vertices", [A(T), A(size)], L=Lg),
                call(G, "support_function_cylinder", [A(d), A(T), r, h], L=Lg),
                call(G, "support_function_capsule", [A(d), A(T), r, h], L=Lg),
                call(G, "support_function_ellipsoid", [A(d), A(T), A(size)], L=Lg),
                call(G, "support_function_box", [A(d), A(T), A([0.5 * s for s in size])], L=Lg),
                call(G, "support_function_sphere", [A(d), A(p), r], L=Lg),
                call(G, "support_function_disk", [A(d), A(p), r, A(n)], L=Lg),
                call(G, "support_function_ellipse", [A(d), A(p), A(axes), A(size[:2])], L=Lg),
                call(G, "support_function_cone", [A(d), A(T), r, h], L=Lg),
                call(G, "hesse_normal_form", [A(p), A(n)], L=L),
                call(G, "barycentric_coordinates_tetrahedron", [A(p), A([gen_point(rng, "random") for _ in range(4)])], L=L * 100,
                     rel=1e-6)]
        # ---- containment boxes
        out += [call(CN, "axis_aligned_bounding_box", [A(pts)], L=L), call(CN, "sphere_aabb", [A(p), r], L=Lg),
                call(CN, "box_aabb", [A(T), A(size)], L=Lg), call(CN, "cylinder_aabb", [A(T), r, h], L=Lg),
                call(CN, "capsule_aabb", [A(T), r, h], L=Lg), call(CN, "ellipsoid_aabb", [A(T), A(size)], L=Lg),
                call(CN, "disk_aabb", [A(p), r, A(n)], L=Lg), call(CN, "cone_aabb", [A(T), r, h], L=Lg),
                call(CN, "ellipse_aabb", [A(p), A(axes), A(size[:2])], L=Lg)]
        # ---- containment predicates: points around the shape (lattice points land exactly on boundaries)
        c = T[:3, 3]
        q = [(c + np.array([rng.choice([-1, -0.5, 0, 0.5, 1]) * s for s in size])).tolist() for _ in range(4)] + pts
        out += [call(CT, "points_in_sphere", [A(q), A(c), r], cls="bool"), call(CT, "points_in_capsule", [A(q), A(T), r, h], cls="bool"),
                call(CT, "points_in_ellipsoid", [A(q), A(T), A(size)], cls="bool"), call(CT, "points_in_disk", [A(q), A(c), r, A(n)], cls="bool"),
                call(CT, "points_in_cone", [A(q), A(T), r, h], cls="bool"), call(CT, "points_in_cylinder", [A(q), A(T), r, h], cls="bool"),
                call(CT, "points_in_box", [A(q), A(T), A(size)], cls="bool")]
        # ---- AABB helpers
        b1 = np.sort(np.array([[rng.choice([-1.0, 0.0, 0.5, 1.0, 2.0]) for _ in range(2)] for _ in range(3)]), axis=1)
        b2 = np.sort(np.array([[rng.uniform(-2, 2) for _ in range(2)] for _ in range(3)]), axis=1) if rng.random() < 0.5 else \
            np.sort(np.array([[rng.choice([-1.0, 0.0, 0.5, 1.0, 2.0]) for _ in range(2)] for _ in range(3)]), axis=1)
        out += [call(AT, "aabb_overlap", [A(b1), A(b2)], cls="bool"), call(AT, "_merge_aabb", [A(b1), A(b2)]),
                call(AT, "_aabb_volume", [A(b1)]), call(AT, "all_aabbs_overlap", [A([b1, b2]), A([b2, b1, b1])], cls="bool"),
                call(AT, "_sort_aabbs", [A([b1, b2, b1])], cls="bool")]
    return out


def gen_kernel_calls(rng, n_each):
    """GJK simplex kernels and hydroelastic 2-D kernels on small exact and random inputs"""
    out = []
    J, H = "distance3d.gjk._gjk_jolt", "distance3d.hydroelastic_contact._halfplanes"
    lat = lambda: [rng.choice([-2.0, -1.0, 0.0, 1.0, 2.0]) for _ in range(3)]
    rnd = lambda: [rng.uniform(-3, 3) for _ in range(3)]
    for _ in range(n_each):
        g = lat if rng.random() < 0.5 else rnd
        a, b, c, d = g(), g(), g(), g()
        if rng.random() < 0.15:
            b = list(a)                  # coincident points
        if rng.random() < 0.15:
            c = [(x + y) / 2 for x, y in zip(a, b)]   # collinear
        out += [call(J, "closest_point_line", [A(a), A(b)], rel=1e-7), call(J, "closest_point_triangle", [A(a), A(b), A(c)], rel=1e-7),
                call(J, "closest_point_tetrahedron", [A(a), A(b), A(c), A(d)], rel=1e-7),
                call(J, "get_barycentric_coordinates_line", [A(a), A(b)], rel=1e-7),
                call(J, "get_barycentric_coordinates_plane", [A(a), A(b), A(c)], rel=1e-7),
                call(J, "origin_outside_of_tetrahedron_planes", [A(a), A(b), A(c), A(d)], cls="bool")]
        # half planes: rows (px, py, nx, ny)?  use the library's own convention through intersect_halfplanes on a polygon
        k = rng.choice([3, 4, 5, 6])
        hps = []
        for i in range(k):
            th = 2 * math.pi * (i + rng.uniform(-0.2, 0.2)) / k
            nx, ny = math.cos(th), math.sin(th)
            rr = rng.choice([0.5, 1.0, 2.0])
            # point on the line and direction along it (counter-clockwise boundary of the inside)
            hps.append([rr * nx, rr * ny, -ny, nx])
        out += [call("distance3d.hydroelastic_contact._forces", "tesselate_ordered_polygon", [rng.choice([3, 4, 5, 6, 7, 8])], cls="bool"),
                call(H, "intersect_halfplanes", [A(hps)], rel=1e-7),
                call(H, "cross2d", [A(a[:2]), A(b[:2])]),
                call(H, "intersect_two_halfplanes", [A(hps[0]), A(hps[1])], rel=1e-7),
                call(H, "point_outside_of_halfplane", [A(hps[0]), A(a[:2])], cls="bool")]
    return out


def gen_axial_pair(rng, fn):
    """second primitive in a random OBLIQUE frame M at c; the first one placed exactly on its axis (c + h * third column
    of M), either coaxial (same frame) or with its own primary direction along that axis: the analytically-zero lateral
    components are then rounding noise of either sign (point on the axis of a disk / circle / cylinder, line along the axis,
    coaxial disks, plane parallel to a face ...)"""
    ka, kb = pl.kinds_of(fn)
    M = pl.random_rot(rng)
    c = [rng.uniform(-3, 3) for _ in range(3)]
    n = pl.colv(M, 2)
    h = rng.choice([0.25, 0.5, 1.0, 2.0, -1.0, rng.uniform(-3, 3), rng.uniform(-3, 3)])
    ca = [c[i] + h * n[i] for i in range(3)]
    if rng.random() < 0.5:
        Ma = M
    else:
        Ma = [[M[i][2], M[i][0], M[i][1]] for i in range(3)]     # columns (z, x, y): still a rotation
    B = pl.gen_prim(rng, kb, "random", c, m=M)
    A_ = pl.gen_prim(rng, ka, "random", ca, m=Ma)
    return dict(fn=fn, A=A_, B=B, stream="axial")


def gen_distance_calls(rng, per_fn):
    out = []
    for fn in pl.FUNCS:
        for k in range(per_fn + max(10, per_fn // 2)):
            c = pl.gen_pair(rng, fn) if k < per_fn else gen_axial_pair(rng, fn)
            if not pl.in_domain(c["A"], c["B"]):
                c = pl.gen_pair(rng, fn)
            pc = dict(fn=fn, A=c["A"], B=c["B"], stream=c["stream"])
            out.append(dict(k="worker", module="c10", fam="distance", case=dict(fn=fn, args=pl.case_args(c)), pcase=pc,
                            L=pl.scale_L(c["A"], c["B"])))
    return out


# ----------------------------------------------------------------------------- integer scalar sizes
# Domain decision (property text: "the input corpora of the other properties (float64 C-contiguous arrays)"): ARRAY arguments are
# always fresh float64 C-contiguous arrays, integer-valued or not -- int64 arrays are outside the declared domain and are not
# generated.  SCALAR size arguments (radius, height, length, margin), which the docstrings call "float", may be Python ints or
# numpy integer scalars: `Cylinder(pose, 1, 2)` is what a caller writes, Python's numeric tower accepts an int wherever a float is
# expected, and the eager float64 signatures convert silently when compiled -- interpreted, the int survives into the body
# (np.array([radius, 0, 0]) is then an int64 array and in-place float updates are truncated).  The class needs, in addition,
# the rarely taken exact arms: directions exactly along a local axis / exactly zero, poses that are exact axis permutations.
INT_SIZES = [1, 1, 2, 2, 3, 4, 5, 10]
SCALAR_SIZE_KINDS = ["sphere", "capsule", "cylinder", "cone", "disk"]


def NI(v):
    return {"ni": int(v)}


def int_scalar(rng):
    """(value for the call, plain number): Python int (60 %), numpy int64 / int32 scalar (30 %), integer-valued float (10 %)"""
    v = rng.choice(INT_SIZES)
    u = rng.random()
    if u < 0.6:
        return v, v
    if u < 0.8:
        return NI(v), v
    if u < 0.9:
        return {"ni32": int(v)}, v
    return float(v), v


def exact_pose(rng):
    """pose whose rotation block is exactly the identity / an axis permutation (mostly), a lattice rotation or random"""
    st = rng.choice(["identity", "perm", "perm", "perm", "lattice", "random"])
    if st == "identity":
        Rm = np.eye(3)
    elif st == "perm":
        Rm = nw.AXIS_PERMS[rng.randrange(len(nw.AXIS_PERMS))].copy()
    else:
        Rm = nw.rand_rotation(rng, st)
    c = nw.rand_center(rng, "random" if st == "random" else "lattice", 5.0)
    return Rm, [float(x) for x in c]


def exact_dirs(rng, Rm):
    """search directions: exactly along the local z axis and another local axis (either sign, scaled by a power of two or a
    few decades), exactly zero, a sign-boundary / random direction"""
    out = []
    for k in (2, rng.randrange(3)):
        sc = rng.choice([1.0, 1.0, 2.0, 0.5, 1e-3, 1e3]) * rng.choice([1.0, -1.0])
        out.append((sc * Rm[:, k] + 0.0).tolist())
    out.append([0.0, 0.0, 0.0])
    out.append(gen_dir(rng))
    return out


def gen_intscalar_calls(rng, n):
    out = []
    G, CT, CN = "distance3d.geometry", "distance3d.containment_test", "distance3d.containment"
    for _ in range(n):
        Rm, c = exact_pose(rng)
        T = np.array(nw.pose_of(Rm, c))
        (r, rv), (h, hv) = int_scalar(rng), int_scalar(rng)
        size = [float(rng.choice(INT_SIZES)) for _ in range(3)]          # integer-valued float64 arrays
        nrm = (Rm[:, 2] + 0.0).tolist()
        axes = [(Rm[:, 0] + 0.0).tolist(), (Rm[:, 1] + 0.0).tolist()]
        L = 1.0 + float(np.linalg.norm(c)) + rv + hv + max(size)
        for d in exact_dirs(rng, Rm):
            Ld = L * max(1.0, float(np.linalg.norm(d)))
            out += [call(G, "support_function_cylinder", [A(d), A(T), r, h], L=Ld, fam="intscalar"),
                    call(G, "support_function_capsule", [A(d), A(T), r, h], L=Ld, fam="intscalar"),
                    call(G, "support_function_cone", [A(d), A(T), r, h], L=Ld, fam="intscalar"),
                    call(G, "support_function_sphere", [A(d), A(c), r], L=Ld, fam="intscalar"),
                    call(G, "support_function_disk", [A(d), A(c), r, A(nrm)], L=Ld, fam="intscalar"),
                    call(G, "support_function_ellipsoid", [A(d), A(T), A(size)], L=Ld, fam="intscalar"),
                    call(G, "support_function_box", [A(d), A(T), A(size)], L=Ld, fam="intscalar"),
                    call(G, "support_function_ellipse", [A(d), A(c), A(axes), A(size[:2])], L=Ld, fam="intscalar")]
        out += [call(CN, "sphere_aabb", [A(c), r], L=L, fam="intscalar"), call(CN, "cylinder_aabb", [A(T), r, h], L=L, fam="intscalar"),
                call(CN, "capsule_aabb", [A(T), r, h], L=L, fam="intscalar"), call(CN, "disk_aabb", [A(c), r, A(nrm)], L=L, fam="intscalar"),
                call(CN, "cone_aabb", [A(T), r, h], L=L, fam="intscalar")]
        q = [(np.array(c) + Rm @ np.array([rng.choice([-1.0, -0.5, 0.0, 0.5, 1.0]) * rv, rng.choice([-1.0, 0.0, 0.5]) * rv,
                                           rng.choice([-1.0, -0.5, 0.0, 0.5, 1.0]) * hv])).tolist() for _ in range(5)]
        out += [call(CT, "points_in_sphere", [A(q), A(c), r], cls="bool", fam="intscalar"),
                call(CT, "points_in_capsule", [A(q), A(T), r, h], cls="bool", fam="intscalar"),
                call(CT, "points_in_disk", [A(q), A(c), r, A(nrm)], cls="bool", fam="intscalar"),
                call(CT, "points_in_cone", [A(q), A(T), r, h], cls="bool", fam="intscalar"),
                call(CT, "points_in_cylinder", [A(q), A(T), r, h], cls="bool", fam="intscalar")]
    return out


INT_DIST_FUNCS = [f for f in pl.FUNCS if any(k in ("circle", "disk", "cylinder") for k in pl.kinds_of(f))]


def gen_intscalar_distance_calls(rng, per_fn):
    """the distance functions that take scalar sizes (circle / disk radius, cylinder radius and length) with these scalars as
    ints; the second primitive in an exact axis-permutation (or lattice) frame, the first one on its axis or elsewhere on the
    lattice with its own primary direction exactly along one of the second one's axes (exactly axial / parallel /
    perpendicular placements: the s == 0 style arms)"""
    out = []
    for fn in INT_DIST_FUNCS:
        ka, kb = pl.kinds_of(fn)
        for _ in range(per_fn):
            for _try in range(30):
                M = [list(r_) for r_ in rng.choice(pl.PERM_ROT)] if rng.random() < 0.7 else pl.lattice_rot(rng)
                cB = [rng.choice([0.0, 0.0, 1.0, -2.0]) for _ in range(3)]
                B = pl.gen_prim(rng, kb, "lattice", cB, m=M)
                sh = rng.randrange(3)
                Ma = [[M[i][(j + sh) % 3] for j in range(3)] for i in range(3)]       # cyclic column permutation: a rotation
                if rng.random() < 0.6:
                    hgt = rng.choice([0.0, 0.5, 1.0, 2.0, -1.0, 4.0, -0.25])
                    cA = [cB[i] + hgt * M[i][2] for i in range(3)]                     # on the axis of B
                else:
                    cA = [cB[i] + rng.choice(pl.LAT_OFFS) for i in range(3)]
                A_ = pl.gen_prim(rng, ka, "lattice", cA, m=Ma)
                typed, plain = [], []
                for P in (A_, B):
                    tp, fp = dict(P), dict(P)
                    for key in ("r", "l"):
                        if key in P:
                            tv, v = int_scalar(rng)
                            tp[key], fp[key] = tv, float(v)
                    typed.append(tp)
                    plain.append(fp)
                if pl.in_domain(plain[0], plain[1]):
                    break
            pc = dict(fn=fn, A=plain[0], B=plain[1], stream="intscalar")
            args = pl.prim_args(typed[0]) + pl.prim_args(typed[1])
            out.append(dict(k="distint", fam="intscalar-distance", case=dict(fn=fn, args=args), pcase=pc,
                            L=pl.scale_L(plain[0], plain[1])))
    return out


def gen_intscalar_collider_calls(rng, n):
    """collider pairs whose scalar sizes are ints (Python ints, or numpy int64 scalars for half of the calls), lattice poses:
    support function / centre along the colliders' own axes, the coordinate axes and the zero direction, and the full query
    set (every solver starts from axis-aligned search directions)"""
    out = []
    for i in range(n):
        k1 = rng.choice(SCALAR_SIZE_KINDS)
        k2 = rng.choice(SCALAR_SIZE_KINDS) if rng.random() < 0.5 else rng.choice(nw.KINDS)
        specs = []
        for k in (k1, k2):
            sp = nw.gen_collider(rng, k, "lattice", margin_prob=0.1)
            if rng.random() < 0.3 and "pose" in sp:
                Tn = np.array(sp["pose"])
                Tn[:3, :3] = np.eye(3)
                sp["pose"] = Tn.tolist()
            for key in ("radius", "height", "length", "margin"):
                if key in sp and k in SCALAR_SIZE_KINDS:
                    sp[key] = int(rng.choice(INT_SIZES[:6])) if key != "margin" else 1
            specs.append(sp)
        s1, s2 = specs
        dirs = [[0.0, 0.0, 0.0], [0.0, 0.0, 1.0], [0.0, 0.0, -1.0], [1.0, 0.0, 0.0], [0.0, -2.0, 0.0]]
        for sp in (s1, s2):
            for a in c12.own_axes(sp):
                dirs.append([x + 0.0 for x in a])
                dirs.append([-x + 0.0 for x in a])
        sc = dict(c1=s1, c2=s2, dirs=dirs, meta=dict(stream="intscalar", kinds=[k1, k2], L=nw.scene_scale([s1, s2])))
        if i % 3 == 0:
            sc["only_support"] = True
        ops = [dict(o, timeout=0) for o in c12.scene_ops(sc) if o.get("tag") != "mpr_fine"]
        out.append(dict(k="collider", fam="intscalar-collider", c1=s1, c2=s2, ops=ops, raw_scalars=True, np_scalars=bool(i % 2),
                        L=sc["meta"]["L"], meta=sc["meta"], budget=600.0))
    return out


def gen_collider_calls(rng, n, tier):
    out = []
    for _ in range(n):
        sc = c12.gen_scene(rng, tier)
        sc["dirs"] = [gen_dir(rng) for _ in range(2)]
        # no SIGALRM inside the worker (timeout 0): an alarm that fires while numba compiles (cold cache) leaves the
        # dispatcher unusable and is not a verdict; hangs are the monitor's business (budget of the whole call)
        ops = [dict(o, timeout=0) for o in c12.scene_ops(sc) if o.get("tag") != "mpr_fine"]
        out.append(dict(k="collider", c1=sc["c1"], c2=sc["c2"], ops=ops, same_object=bool(sc["meta"].get("same_object")),
                        L=sc["meta"]["L"], meta=sc["meta"], budget=600.0))
    return out


def gen_nesterov_calls(rng, n):
    """the Nesterov primitives solver with the (non-default) acceleration switched on, on flat and needle-like primitives:
    its rarely taken exits (convergence check while the acceleration is still active, 4-point simplex) are reached there.
    Calls are cheap (1-2 ms even interpreted), so many are made."""
    out = []
    for _ in range(n):
        def extreme(spec):
            u = rng.random()
            f = 10 ** rng.uniform(-2, -1.3) if u < 0.7 else 10 ** rng.uniform(1.3, 2.0)
            if spec["kind"] == "ellipsoid":
                spec["radii"][rng.randrange(3)] = f
            elif spec["kind"] == "box":
                spec["size"][rng.randrange(3)] = f
            elif spec["kind"] in ("capsule", "cylinder"):
                spec[rng.choice(["radius", "height" if spec["kind"] == "capsule" else "length"])] = f
            return spec
        k1 = rng.choice(["ellipsoid", "ellipsoid", "ellipsoid", "box", "cylinder", "capsule"])
        k2 = rng.choice(nw.PRIMS)
        s1 = extreme(nw.gen_collider(rng, k1, "moderate", spread=1.5, margin_prob=0.0))
        s2 = nw.gen_collider(rng, k2, "moderate", spread=1.5, margin_prob=0.0)
        if rng.random() < 0.3:
            s2 = extreme(s2)
        if rng.random() < 0.5:
            s1, s2 = s2, s1
        ops = [dict(fn="nesterov_prim", kw=dict(use_nesterov_acceleration=True), timeout=0, tag="np_acc"),
               dict(fn="nesterov", kw=dict(use_nesterov_acceleration=True), timeout=0, tag="n_acc"),
               dict(fn="nesterov_prim", timeout=0, tag="np_plain"), dict(fn="gjk_jolt", timeout=0)]
        out.append(dict(k="collider", c1=s1, c2=s2, ops=ops, L=nw.scene_scale([s1, s2]), meta=dict(stream="nesterov-extreme"), fam="nesterov-extreme",
                        budget=600.0))
    return out


def gen_mesh_calls(rng, n):
    out = []
    for _ in range(n):
        spec = nw.gen_collider(rng, "mesh", rng.choice(["random", "lattice", "moderate"]), margin_prob=0.0)
        dirs = [gen_dir(rng) for _ in range(rng.choice([1, 3, 8]))]
        dirs = [d if any(d) else [0.0, 0.0, 1.0] for d in dirs]
        if rng.random() < 0.5:      # exact face normals / edge directions of the mesh: ties between vertices
            V = np.array(spec["vertices"])
            T = np.array(spec["pose"])
            i, j, k = (rng.randrange(len(V)) for _ in range(3))
            nrm = np.cross(V[j] - V[i], V[k] - V[i])
            if np.linalg.norm(nrm) > 0:
                dirs.append((T[:3, :3] @ nrm).tolist())
        out.append(dict(k="mesh", spec=spec, dirs=dirs, L=1.0 + nw.feature_size(spec) + float(np.linalg.norm(nw.center_of(spec))), budget=60.0))
    return out


def gen_tree_calls(rng, n, tier):
    from . import c05
    out = [dict(k="emptytree", q=[0.0, 1.0, 0.0, 1.0, 0.0, 1.0]), dict(k="emptytree", q=[-1.0, -1.0, 0.0, 0.0, 2.0, 3.0])]
    for _ in range(n):
        out.append(dict(k="aabbtree", case=c05.gen_case(rng, "quick"), budget=120.0))
    # the public query API with raw return types: disjoint / overlapping / nested / empty trees, every insertion mode
    lat = lambda: sorted([rng.choice([-2.0, -1.0, 0.0, 0.5, 1.0, 2.0, 3.0]) for _ in range(2)])
    for _ in range(max(6, n)):
        def boxes(k, shift):
            bs = []
            for _ in range(k):
                b = []
                for _ in range(3):
                    lo, hi = lat()
                    b += [lo + shift, hi + shift + (0.0 if rng.random() < 0.3 else 0.5)]
                bs.append(b)
            return bs
        k1, k2 = rng.choice([0, 1, 2, 5]), rng.choice([0, 1, 3])
        out.append(dict(k="treeapi", boxes1=boxes(k1, 0.0), boxes2=boxes(k2, rng.choice([0.0, 0.0, 100.0])),
                        q=boxes(1, rng.choice([0.0, 100.0]))[0], mode=rng.choice(["none", "sort", "shuffle"])))
    # explicit empty-first-tree and empty-second-tree histories
    box = [0.0, 1.0, 0.0, 1.0, 0.0, 1.0]
    one = [dict(boxes=[box], data=[7], mode="single")]
    out.append(dict(k="aabbtree", case=dict(h1=[], h2=one, queries=[box])))
    out.append(dict(k="aabbtree", case=dict(h1=one, h2=[], queries=[box, [2.0, 3.0, 2.0, 3.0, 2.0, 3.0]])))
    out.append(dict(k="aabbtree", case=dict(h1=[], h2=[], queries=[box])))
    return out


def gen_foreign_calls(rng, tier, notes):
    """cases of other properties' generators run through their own workers (hydroelastic contact, broad phase,
    collider state).  A generator that cannot be imported is reported, not fatal."""
    out = []
    n = 1 if tier == "quick" else 4
    try:
        from . import c15
        pairs, bodies, units = c15.gen_cases(rng, "quick")
        rng.shuffle(pairs)
        rng.shuffle(units)
        sep = [dict(b, use_aabb_trees=True) for b in bodies if "separated" in b.get("cls", "")][:1]
        for c in pairs[: 30 * n] + units[: 12 * n] + bodies[: 2 * n] + sep:
            out.append(dict(k="worker", module="c15", case=c, fam="hydro-c15", budget=600.0, **(dict(rel=1e-2) if c.get("kind") == "bodies" else {})))
    except Exception as e:  # noqa
        notes.append(f"family hydro-c15 unavailable: {type(e).__name__}: {str(e)[:120]}")
    try:
        from . import c16
        for k in range(2 * n):
            # rel 1e-2 on the net wrenches: single tetrahedron pairs flip under 1-ulp differences (decision boundaries of a
            # pipeline with thousands of intersection tests; seen 0.4 % of the net force); the strict per-contact comparison
            # is made on the c15 body cases, which report the pair indices
            out.append(dict(k="worker", module="c16", case=c16.gen_case(rng, k, "quick"), fam="hydro-c16", budget=600.0, rel=1e-2))
    except Exception as e:  # noqa
        notes.append(f"family hydro-c16 unavailable: {type(e).__name__}: {str(e)[:120]}")
    try:
        from . import c06
        for k in range(3 * n):
            # rel 1e-6: the collider poses of a world come out of pytransform3d's TransformManager, and the AABB half extents
            # r*sqrt(1 - n_k^2) of cylinders / cones / disks amplify a 1-ulp difference of an axis-aligned axis to
            # sqrt(eps)*r ~ 1.5e-8 r (seen: cone after an exact quarter turn, 1.7e-9); index sets and booleans stay exact
            out.append(dict(k="worker", module="c06", case=c06.gen_case(rng, "quick"), fam="broadphase-c06", budget=600.0, rel=1e-6))
    except Exception as e:  # noqa
        notes.append(f"family broadphase-c06 unavailable: {type(e).__name__}: {str(e)[:120]}")
    try:
        from . import c14
        for k in range(6 * n):
            out.append(dict(k="worker", module="c14", case=c14.gen_case(rng), fam="colliders-c14", budget=300.0))
    except Exception as e:  # noqa
        notes.append(f"family colliders-c14 unavailable: {type(e).__name__}: {str(e)[:120]}")
    return out


# ============================================================================= comparison
# foreign workers (harness/impl/c14.py, c15.py): keys that exist in one mode only by construction of that worker, and
# INTERNAL-STAGE outputs (raw half-plane intersections with duplicates, their ordering permutation, unfiltered polygons) whose
# multiplicity / order legitimately depends on 1-ulp differences for degenerate pairs; the public outputs computed from them
# (intersection flag, plane, area, force, centre of pressure) are compared strictly.  Soft mismatches are counted.
IGNORE_KEYS = {"ref"}
SOFT_KEYS = {"pts", "ordered", "perm", "uniq", "hps", "poly3d", "poly",            # c15: stages of one tetrahedron pair
             "details", "order1", "order2", "pairs_tree_ordered", "tris",          # c16: argsort-tie dependent orders, per-contact stages
             # per-contact rows of hydroelastic bodies: a sliver contact (two tetrahedra touching along an edge, area ~1e-16)
             # exists / has a centre of pressure only up to rounding; the aggregates (wrenches, force and area sums) are strict
             "contacts", "forces", "coms", "n_contacts", "n", "reported_pairs", "all_pairs", "min_normal_ratio", "sw_poly", "sw_plane",
             "n_narrow", "narrow_only_tree", "narrow_only_brute",
             # c14: battery of support queries on lattice colliders: ties between equally extreme points (own support families compare by value)
             "support"}
SOFT_HITS = []


def fval(x):
    return float.fromhex(x) if isinstance(x, str) else float(x)


def cmp(a, b, tol_abs, rel, path, diffs, discrete):
    """structural comparison of two serialised values; numeric differences beyond tolerance go to
    `diffs`, differences of integers / booleans / structure to `discrete`"""
    if isinstance(a, dict) and isinstance(b, dict):
        if "f" in a and "f" in b and len(a) == 1:
            x, y = fval(a["f"]), fval(b["f"])
            if not (x == y or (x != x and y != y)) and not abs(x - y) <= tol_abs + rel * max(abs(x), abs(y)):
                diffs.append((path, x, y))
            return
        if "nd" in a and "nd" in b:
            if a["shape"] != b["shape"] or a["kind"] != b["kind"]:
                discrete.append((path, f"array {a['kind']}{a['shape']}", f"array {b['kind']}{b['shape']}"))
                return
            if a["kind"] == "f":
                for i, (x, y) in enumerate(zip(a["nd"], b["nd"])):
                    x, y = fval(x), fval(y)
                    if not (x == y or (x != x and y != y)) and not abs(x - y) <= tol_abs + rel * max(abs(x), abs(y)):
                        diffs.append((f"{path}[{i}]", x, y))
            elif a["nd"] != b["nd"]:
                discrete.append((path, a["nd"][:12], b["nd"][:12]))
            return
        ka = {k for k in a if k not in IGNORE_KEYS}
        kb = {k for k in b if k not in IGNORE_KEYS}
        if ka != kb:
            discrete.append((path, sorted(ka), sorted(kb)))
            return
        for k in ka:
            if k in SOFT_KEYS:
                sd, sx = [], []
                cmp(a[k], b[k], tol_abs, rel, f"{path}.{k}", sd, sx)
                if sd or sx:
                    SOFT_HITS.append(f"{path}.{k}")
            else:
                cmp(a[k], b[k], tol_abs, rel, f"{path}.{k}", diffs, discrete)
        return
    if isinstance(a, list) and isinstance(b, list):
        if len(a) != len(b):
            discrete.append((path, f"len {len(a)}", f"len {len(b)}"))
            return
        for i, (x, y) in enumerate(zip(a, b)):
            cmp(x, y, tol_abs, rel, f"{path}[{i}]", diffs, discrete)
        return
    if isinstance(a, bool) or isinstance(b, bool) or a is None or b is None or isinstance(a, str) or isinstance(b, str):
        if a != b:
            # hex float strings of foreign workers
            try:
                x, y = float.fromhex(a), float.fromhex(b)
                if not abs(x - y) <= tol_abs + rel * max(abs(x), abs(y)):
                    diffs.append((path, x, y))
            except (TypeError, ValueError):
                discrete.append((path, a, b))
        return
    if isinstance(a, int) and isinstance(b, int):
        if a != b:
            discrete.append((path, a, b))
        return
    if isinstance(a, (int, float)) and isinstance(b, (int, float)):
        x, y = float(a), float(b)
        if not (x == y or (x != x and y != y)) and not abs(x - y) <= tol_abs + rel * max(abs(x), abs(y)):
            diffs.append((path, x, y))
        return
    if type(a) is not type(b):
        discrete.append((path, type(a).__name__, type(b).__name__))


def has_sort_tie(case):
    """numpy's and numba's argsort order EQUAL keys differently (both are unstable quicksorts): a "sort" batch with two
    equal x-min coordinates is inserted in a different order in the two modes -> different (equally valid) tree layout"""
    for h in (case.get("h1", []), case.get("h2", [])):
        for b in h:
            if b.get("mode") == "sort":
                xs = [bx[0] for bx in b["boxes"]]
                if len(set(xs)) < len(xs):
                    return True
    return False


LAYOUT_KEYS = ("s1", "s2", "o1", "o2", "boxes1", "boxes2")


def normalise(c, a, b):
    """order-insensitive views of results whose ORDER is not part of the specification (index SETS are):
    AABB tree query answers, reported tetrahedron pairs; layout of the tree only when the insertion order is
    determined (no ties among "sort" keys)."""
    if c["k"] == "aabbtree" or (c["k"] == "worker" and c.get("module") == "c05"):
        out = []
        tie = has_sort_tie(c["case"])
        for r in (a, b):
            j = dict(r["ok"]["json"])
            if "q" in j:
                j["q"] = [sorted(x) for x in j["q"]]
            for k in ("pairs",):
                if k in j:
                    j[k] = sorted(map(tuple, j[k]))
                    j[k] = [list(x) for x in j[k]]
            for k in ("u1", "u2"):
                if k in j:
                    j[k] = sorted(j[k])
            if "mid" in j:
                mid = []
                for rec in j["mid"]:
                    rec = dict(rec)
                    qs = []
                    for q in rec.get("q", []):
                        q = dict(q)
                        trip = sorted(zip(q.get("ov", []), q.get("boxes", []), q.get("ext", [])), key=lambda x_: x_[0])
                        q["ov"], q["boxes"], q["ext"] = [x_[0] for x_ in trip], [x_[1] for x_ in trip], [x_[2] for x_ in trip]
                        qs.append(q)
                    rec["q"] = qs
                    mid.append(rec)
                j["mid"] = mid
            if tie:
                for k in LAYOUT_KEYS:
                    j.pop(k, None)
            out.append({"ok": {"json": j}})
        return out[0], out[1], ("aabbtree_layout_skipped_sort_tie" if tie else None)
    if c["k"] == "worker" and c.get("module") == "c15" and c["case"].get("kind") == "bodies":
        ja, jb = dict(a["ok"]["json"]), dict(b["ok"]["json"])
        if "exc" in ja or "exc" in jb:
            return a, b, None
        note = None
        if ja.get("reported_pairs") != jb.get("reported_pairs"):
            note = "tetrahedron_pairs_reported_in_different_order"
        for j in (ja, jb):
            j["reported_pairs"] = sorted(map(tuple, j.get("reported_pairs", [])))
            j["reported_pairs"] = [list(x) for x in j["reported_pairs"]]
            if "all_pairs" in j:
                j["all_pairs"] = [list(x) for x in sorted(map(tuple, j["all_pairs"]))]
        ca = {f"{x['i']}-{x['j']}": x for x in ja.get("contacts", [])}
        cb = {f"{x['i']}-{x['j']}": x for x in jb.get("contacts", [])}
        common = sorted(set(ca) & set(cb))
        # per-contact rows present in BOTH modes: area and force strictly (1e-6), unless the contact is a sliver; rows
        # present in one mode only must carry less than 1 % of the net force
        tot = max(float(np.linalg.norm(np.array(j.get("sum_force", [0, 0, 0]), float))) for j in (ja, jb))
        bad = []
        for k in common:
            xa, xb = ca[k], cb[k]
            fa, fb = np.array(xa["force"], float), np.array(xb["force"], float)
            if max(xa["area"], xb["area"]) > 1e-9 and (
                    abs(xa["area"] - xb["area"]) > 1e-6 * max(xa["area"], xb["area"]) or
                    float(np.linalg.norm(fa - fb)) > 1e-6 * max(float(np.linalg.norm(fa)), float(np.linalg.norm(fb))) + 1e-15):
                if float(np.linalg.norm(np.array(xa["plane"][:3]) - np.array(xb["plane"][:3]))) <= 1e-6:     # not a noise plane
                    bad.append(f"contact {k}: area {xa['area']!r}/{xb['area']!r} force {fa.tolist()}/{fb.tolist()}")
        pa_, pb_ = {tuple(x) for x in ja["reported_pairs"]}, {tuple(x) for x in jb["reported_pairs"]}
        for k in sorted(set(ca) ^ set(cb)):
            x = ca.get(k) or cb.get(k)
            if tuple(int(v) for v in k.split("-")) in (pa_ & pb_):
                continue       # reported in both modes, only thinned differently
            if tot > 0 and float(np.linalg.norm(np.array(x["force"], float))) > 1e-2 * tot:
                bad.append(f"contact {k} exists in one mode only and carries {float(np.linalg.norm(np.array(x['force'], float))) / tot:.2%} of the net force")
        ja["per_contact_check"] = bad
        jb["per_contact_check"] = []
        ja["contacts"] = {}
        jb["contacts"] = {}
        return {"ok": {"json": ja}}, {"ok": {"json": jb}}, note
    return a, b, None


def compare_distance(c, ja, jb, T):
    """distance3d.distance through harness/impl/c10.py: exception types identical; inputs in a recorded C10 / C11 finding
    class (same predicates, evaluated on either mode's run) are skipped and counted; d within the tolerance of C10/C11;
    closest points equal, or -- where the optimum is not unique (parallel / axial / coplanar placements) -- each mode's
    points must be a valid C10 answer (on their primitives within 1e-9 L, |p1-p2| = d within 1e-6 L; exact fractions oracle)"""
    from . import c10, c11
    pc = c["pcase"]
    fn = pc["fn"]
    ea, eb = ja.get("exc"), jb.get("exc")
    kid = None
    for r in (ja, jb):
        if "exc" not in r:
            kid = kid or c11.known_id(pc, r) or c10.known_id(pc, r)
    if kid is None and (ea or eb):
        kid = c11.known_id(pc, {}) or c10.known_id(pc, {})
    if kid:
        T.hit(f"distance_skip_known_{kid}")
        return None
    if ea or eb:
        if ea != eb:
            return f"distance.{fn}: raised {ea} compiled vs {eb} interpreted ({(ja.get('exc_msg') or jb.get('exc_msg') or '')[:100]})"
        T.hit("distance_same_exception")
        return None
    if ja.get("n_out") != jb.get("n_out") or ja.get("shapes") != jb.get("shapes") or ja.get("mutated") != jb.get("mutated"):
        return f"distance.{fn}: result structure {ja.get('n_out')}/{ja.get('shapes')}/mutated={ja.get('mutated')} compiled vs " \
               f"{jb.get('n_out')}/{jb.get('shapes')}/mutated={jb.get('mutated')} interpreted"
    da, pa = c10.decode(ja)
    db, pb = c10.decode(jb)
    L = float(c["L"])
    kd = 5e-3 if fn in c11.BISECTION else 1e-6
    if not (da == db or abs(da - db) <= kd * L):
        return f"distance.{fn}: d = {da!r} compiled vs {db!r} interpreted (tolerance {kd:g} L = {kd * L:.3g}; stream {pc['stream']})"
    T.hit("distance_d_compared")
    e = max((abs(x - y) for u, v in zip(pa, pb) for x, y in zip(u, v)), default=0.0)
    if e <= 1e-9 * L + 1e-12:
        T.hit("distance_points_equal")
        return None
    bad = []
    for mode, r in (("compiled", ja), ("interpreted", jb)):
        f, _ = c10.judge_py(pc, r)
        if f:
            bad.append(f"{mode}: {f[0][:140]}")
    if bad:
        return f"distance.{fn}: the closest points differ between the modes and are not both valid answers: " + "; ".join(bad)
    T.hit("distance_points_differ_both_valid")
    return None


def compare_c15_pair(c, ja, jb, T):
    """one tetrahedron pair through all stages (harness/impl/c15.py, kind "pair"): the PUBLIC outputs of
    intersect_tetrahedron_pair / compute_contact_force are judged -- intersection flag, contact area, force -- the
    stages (half planes, raw intersection points, their order, unfiltered polygons) are internal and only counted.
    A flag that differs on a sliver contact (area <= 1e-9: the two tetrahedra touch along an edge / in a vertex) and a
    force that differs because the equal-pressure plane itself is rounding noise (different plane normals in the two
    modes: class of the C16 finding F17) are decision-boundary cases."""
    fails = []
    for o in ("o12", "o21"):
        a, b = ja.get(o), jb.get(o)
        if a is None or b is None:
            if (a is None) != (b is None):
                fails.append(f"{o}: present in one mode only")
            continue
        ia, ib = bool(a.get("inter")), bool(b.get("inter"))
        if ia != ib:
            area = float((a if ia else b).get("area", 0.0) or 0.0)
            if area <= 1e-9:
                T.hit("hydro_pair_flag_differs_on_sliver")
            else:
                fails.append(f"{o}: intersect flag {ia} compiled vs {ib} interpreted with contact area {area:.3g}")
            continue
        if not ia:
            T.hit("hydro_pair_no_contact_both")
            continue
        aa, ab = float(a.get("area", 0.0)), float(b.get("area", 0.0))
        fa, fb = np.array(a.get("force", [0, 0, 0]), float), np.array(b.get("force", [0, 0, 0]), float)
        na, nb = np.array(a.get("plane", [0, 0, 0, 0]), float)[:3], np.array(b.get("plane", [0, 0, 0, 0]), float)[:3]
        noise = float(np.linalg.norm(na - nb)) > 1e-6
        if abs(aa - ab) > 1e-9 + 1e-6 * max(aa, ab) or float(np.linalg.norm(fa - fb)) > 1e-12 + 1e-6 * max(float(np.linalg.norm(fa)), float(np.linalg.norm(fb))):
            if noise:
                T.hit("hydro_pair_noise_plane")
            elif max(aa, ab) <= 1e-9:
                T.hit("hydro_pair_sliver")
            else:
                fails.append(f"{o}: area {aa!r} / force {fa.tolist()} compiled vs area {ab!r} / force {fb.tolist()} interpreted")
        else:
            T.hit("hydro_pair_area_force_equal")
    return "; ".join(fails) if fails else None


def c16_unstable(j):
    """harness/impl/c16.py evaluates the SAME scene several times on the same bodies (base, repeat1, repeat2, internals,
    inter_back); each evaluation re-expresses body 1 in the frame of body 2, which moves its vertices by an ulp.  If these
    evaluations disagree within ONE mode, the scene sits on a decision boundary of the contact computation (a tetrahedron
    pair whose intersection test flips under a 1-ulp change): a difference between the modes is then not attributable to
    the mode."""
    ws = [np.array(j[k]["w21"], float) for k in ("base", "repeat1", "repeat2", "internals", "inter_back")
          if isinstance(j.get(k), dict) and j[k].get("w21") is not None]
    if len(ws) < 2:
        return False
    scale = max(float(np.linalg.norm(w)) for w in ws)
    return any(float(np.linalg.norm(w - ws[0])) > 1e-9 * scale + 1e-15 for w in ws[1:])


def noise_plane_case(a, b):
    """class of the C16 known finding F17: some reported tetrahedron pair has an equal-pressure plane whose raw normal is
    rounding noise (c16 worker's `min_normal_ratio` < 1e-9 in either mode): its direction, hence the forces, depend on 1-ulp
    differences"""
    vals = []

    def walk(x):
        if isinstance(x, dict):
            for k, v in x.items():
                if k == "min_normal_ratio" and isinstance(v, (int, float)):
                    vals.append(float(v))
                else:
                    walk(v)
        elif isinstance(x, list):
            for v in x:
                walk(v)
    walk(a)
    walk(b)
    return bool(vals) and min(vals) < 1e-9


def tiny_vector(c):
    """known-finding class C20-NORM-UNDERFLOW: some array argument has a non-zero entry and all its entries are below
    1e-150 in magnitude, so the squares in numpy's np.linalg.norm underflow (to 0 or to denormals) while numba's
    BLAS-based norm scales first"""
    def tiny(a):
        v = np.asarray(a, dtype=float).reshape(-1)
        m = float(np.max(np.abs(v))) if v.size else 0.0
        return 0.0 < m < 1e-150
    if c["k"] == "call":
        return any(isinstance(a, dict) and "a" in a and tiny(a["a"]) for a in c["args"])
    if c["k"] in ("collider", "mesh"):
        return any(tiny(d) for d in [o.get("d") for o in c.get("ops", []) if o.get("d") is not None] + list(c.get("dirs", [])))
    return False


JOLT_ILLCOND = False     # set in run(): C18-JOLT-ILLCOND / C18-ORIG-ILLCOND recorded


COLL_TOL = dict(gjk_jolt=1e-5, gjk_original=1e-3, nesterov_distance=1e-3, nesterov_prim_distance=1e-3, nesterov=1e-3,
                nesterov_prim=1e-3, mpr_pen=2e-3, epa=1e-6, support=1e-9, center=1e-9)


def unser(x):
    """serialised collider-op results back to plain python"""
    if isinstance(x, dict):
        if "f" in x and len(x) == 1:
            return fval(x["f"])
        if "dict" in x and len(x) == 1:
            return {k: unser(v) for k, v in x["dict"].items()}
        if "nd" in x:
            return [fval(v) if x["kind"] == "f" else v for v in x["nd"]]
        return {k: unser(v) for k, v in x.items()}
    if isinstance(x, list):
        return [unser(v) for v in x]
    return x


def compare_collider(c, rj, ri, T):
    """op-by-op comparison of a collider call: tolerance of the specifying property; booleans only in clear scenes"""
    fails = []
    oj, oi = unser(rj["ok"]), unser(ri["ok"])
    L = c["L"]
    byj = {c12.op_key(o): r for o, r in zip(c["ops"], oj)}
    d_ref = byj.get("gjk_jolt", {}).get("d")
    delta = c12.K_BAND * L
    clear = None
    if d_ref is not None:
        if 1e300 > d_ref > 3 * delta:
            clear = "gap"
        elif d_ref <= delta and c12.overlap_witness(c["c1"], c["c2"], extra=[byj["gjk_jolt"].get("a")]) >= 3 * delta:
            clear = "overlap"
    for o, a, b in zip(c["ops"], oj, oi):
        fn = o["fn"]
        if ("exc" in a) != ("exc" in b) or ("exc" in a and a["exc"] != b["exc"]):
            if "exc" in a and "exc" in b and {a["exc"], b["exc"]} <= {"AssertionError"}:
                continue
            # EPA's capacity assertion depends on the exact polytope path: only flag differing TYPES when both raise
            if fn == "epa" and "AssertionError" in (a.get("exc"), b.get("exc")):
                T.hit("epa_assertion_one_mode")
                continue
            fails.append(f"{fn}: raised {a.get('exc')} compiled vs {b.get('exc')} interpreted")
            continue
        if "exc" in a:
            continue
        tol = COLL_TOL.get(fn, 1e-9) * L
        if fn in ("gjk_jolt", "gjk_original") and JOLT_ILLCOND and any(
                r_.get("a") is not None and r_.get("d", 0.0) < 1e300 and
                abs(float(np.linalg.norm(np.array(r_["a"]) - np.array(r_["b"]))) - r_["d"]) > tol for r_ in (a, b)):
            # the answer of one mode contradicts ITSELF beyond the tolerance of C01 (d taken from a bogus, too short
            # simplex-solver result on a thin simplex while the closest points are right): recorded class
            # C18-JOLT-ILLCOND / C18-ORIG-ILLCOND surfacing in the distance query; judged by C01 / C18, not a mode difference
            T.hit("skip_gjk_self_inconsistent_C18_illcond")
            continue
        for key in sorted(set(a) | set(b)):
            if key in ("fn", "n_points", "simplex", "last_simplex", "last_d2"):     # diagnostics of the worker, path dependent
                continue
            x, y = a.get(key), b.get(key)
            if isinstance(x, bool) or isinstance(y, bool):
                if x != y:
                    if key in ("ans", "contact") and clear is None:
                        T.hit("bool_in_band_skipped")
                    elif key == "success":
                        T.hit("epa_success_differs")
                    else:
                        fails.append(f"{fn}.{key}: {x} compiled vs {y} interpreted (clear {clear})")
                continue
            if x is None or y is None:
                if x != y:
                    fails.append(f"{fn}.{key}: {x} compiled vs {y} interpreted")
                continue
            if isinstance(x, (int, float)) and isinstance(y, (int, float)):
                if fn in ("nesterov", "nesterov_prim") and key == "d" and (a.get("contact") or b.get("contact")):
                    continue
                if not (x == y or abs(x - y) <= tol):
                    fails.append(f"{fn}.{key}: {x!r} compiled vs {y!r} interpreted (tolerance {tol:.3g})")
                else:
                    T.hit("collider_scalar_cmp")
            elif isinstance(x, list) and isinstance(y, list):
                if len(x) != len(y):
                    fails.append(f"{fn}.{key}: length {len(x)} vs {len(y)}")
                elif key in ("a", "b", "pos", "dir", "mtv"):
                    # not unique in general: the specifying property does not pin them; report the distribution only
                    e = max((abs(u - v) for u, v in zip(x, y)), default=0.0)
                    T.hit("collider_points_equal" if e <= tol else "collider_points_differ_within_property")
                elif key == "p":
                    e = max((abs(u - v) for u, v in zip(x, y)), default=0.0)
                    if e > tol:
                        dvec = np.array(o.get("d", [0.0, 0.0, 0.0]), dtype=float)
                        if fn == "support" and np.any(dvec != 0.0) and \
                                abs(float(np.array(x) @ dvec) - float(np.array(y) @ dvec)) <= tol * max(1.0, float(np.linalg.norm(dvec))):
                            T.hit("support_points_differ_same_value")
                        else:
                            fails.append(f"{fn}.{key}: {x} compiled vs {y} interpreted")
    return fails


# ============================================================================= main
def run_list(calls, jit, tag, timeout):
    """run the call list in parallel chunks; returns list of results (None where a worker died) + died chunks"""
    nwk = min(cm.NCPU if jit else cm.NCPU, max(1, len(calls) // 8))
    chunks = [calls[i::nwk] for i in range(nwk)]
    res = cm.run_impl_parallel(PID, "c20", [dict(calls=ch, budget=200.0 if jit else 400.0) for ch in chunks], timeout=timeout, jit=jit, tag=tag)
    out = [None] * len(calls)
    dead = []
    for w, (rr, ch) in enumerate(zip(res, chunks)):
        idxs = list(range(w, len(calls), nwk))
        if rr["status"] == "ok":
            if bool(rr["result"].get("compiled")) != bool(jit):
                raise RuntimeError(f"worker ran in the wrong mode: compiled={rr['result'].get('compiled')} requested jit={jit}")
            for i, x in zip(idxs, rr["result"]["results"]):
                out[i] = x
        else:
            # re-run one call per process to find the culprit
            # (alone, with a generous limit: load or a cold cache must not be mistaken for a hang)
            singles = cm.run_impl_parallel(PID, "c20", [dict(calls=[dict(c, budget=900.0)], budget=900.0) for c in ch], timeout=1200, jit=jit,
                                           tag=f"{tag}_iso{w}_")
            for i, s, c in zip(idxs, singles, ch):
                if s["status"] != "ok":
                    # once more, strictly alone: a parallel re-run on a loaded machine / cold cache is not a verdict
                    s = cm.run_impl(PID, "c20", dict(calls=[dict(c, budget=900.0)], budget=900.0), timeout=1200, jit=jit, tag=f"{tag}_alone")
                if s["status"] == "ok":
                    out[i] = s["result"]["results"][0]
                else:
                    hung = s["status"] == "timeout" or s.get("rc") in (-9, 137)
                    out[i] = {"died": "hang" if hung else "crash", "rc": s.get("rc"), "log": s.get("log", "")[-300:]}
                    dead.append(i)
    return out, dead


def family(c):
    if c["k"] == "call":
        return c.get("fam") or c["mod"].replace("distance3d.", "")
    if c["k"] == "worker":
        return c.get("fam", c["module"])
    return c.get("fam", c["k"])


def run(tier, seed, replay=None):
    R = cm.Run(PID, "other", tier, seed)
    T = c12.Tally()
    R.cov["explanation"] = (
        "Differential between two executions of the same serialised call list (numba JIT as installed vs NUMBA_DISABLE_JIT=1, separate "
        "processes and cache directories) over every family of jitted public code, with a fail-closed ast scan of every njit function "
        "(captured module globals must never be rebound/mutated; no jit option that changes semantics) and Coq theorems of index safety "
        "(Props/C20.v, re-exporting the C05 theorems) for the array code that has a model.  Equivalence of arbitrary compiled code is out "
        "of reach (no semantics for numba/LLVM): the claim is agreement on the generated inputs plus the proved side conditions.")
    R.cov["rule"] = (
        "call = (function, arguments) drawn from: closed-form families (utils, geometry, containment, containment_test, aabb helpers; "
        "directions with sign-boundary components {0,+-1,+-1e-300,+-1e-9}, lattice and random poses, points on exact boundaries), GJK "
        "simplex kernels and half-plane kernels on lattice/coincident/collinear points, the 34 distance functions (primlib streams), "
        "collider pairs through all GJK flavours/MPR/EPA (C12 scenes), MeshGraph support sequences incl. exact face normals, AABB tree "
        "histories of C05 plus empty-tree queries, cases of the C06/C14/C15/C16 generators through their workers, and the intscalar "
        "families (scalar sizes as Python ints / numpy integer scalars with exact axis-permutation poses and exactly axial / exactly "
        "zero directions: support functions, AABBs, containment predicates, the 7 distance functions with scalar sizes, collider "
        "pairs built without float()); distinct by "
        "canonical hash of the call; non-trivial = both modes returned and at least one value was compared")
    R.assumptions += [
        "interpreted mode = NUMBA_DISABLE_JIT=1 as the README prescribes; compiled mode uses the on-disk numba cache of this checkout",
        "closed forms are compared at 1e-9 relative + 1e-12 L; kernels that divide by small determinants at 1e-7 relative",
        "booleans / indices are compared exactly; a mismatch is re-examined at perturbed inputs and only counted as failure away from the "
        "decision boundary",
        "points returned by iterative solvers are not pinned by their properties where the optimum is not unique: their agreement is "
        "reported as a distribution, distances/depths/booleans are judged",
        "domain decision for argument TYPES (property text: 'the input corpora of the other properties (float64 C-contiguous arrays)'): "
        "array arguments are always fresh float64 C-contiguous arrays (integer-valued ones included; int64 arrays are outside the "
        "declared domain and are not generated); SCALAR size arguments (radius, height, length, margin), documented as 'float', are also "
        "passed as Python ints and numpy integer scalars (families intscalar, intscalar-distance, intscalar-collider): an int is "
        "acceptable wherever a float is expected and the eager float64 signatures convert it silently when compiled",
    ]
    if (cm.COQ / "theories" / "Props" / "C20.v").exists():
        R.check_proofs(PROOF_FILES, build_targets=["theories/Props/C20.vo"])
    else:
        R.proof_broken.append("Props/C20.v missing")

    # ---------------------------------------------------------------- static side
    try:
        st = static_scan(cm.REPO)
        R.cov["static"] = dict(jitted_functions=len(st["functions"]),
                               capturing_functions=sum(1 for f in st["functions"] if f["captured_globals"]),
                               captured_globals=sorted({g for f in st["functions"] for g in f["captured_globals"]}),
                               negative_constant_indices=[(f["file"], f["name"], f["negative_constant_index_lines"]) for f in st["functions"]
                                                          if f["negative_constant_index_lines"]],
                               problems=st["problems"])
        for pb in st["problems"]:
            R.failure("static scan: " + pb, dict(kind="static", problem=pb), site="static")
    except Exception as e:  # noqa
        R.proof_broken.append(f"static scan failed (reader out of date?): {type(e).__name__}: {str(e)[:200]}")

    # ---------------------------------------------------------------- call list
    notes = []
    if replay:
        calls = [json.loads(open(replay).read())["case"]]
        if calls[0].get("kind") == "static":
            return R.finish()
    else:
        q = tier == "quick"
        calls = []
        corpus = cm.VERIF / "corpus" / PID
        if corpus.exists():
            for f in sorted(corpus.glob("*.json")):
                calls.append(json.loads(f.read_text())["case"])
        calls += gen_closed_calls(R.rng, 12 if q else 120)
        calls += gen_kernel_calls(R.rng, 10 if q else 100)
        calls += gen_distance_calls(R.rng, 4 if q else 40)
        calls += gen_collider_calls(R.rng, 36 if q else 300, tier)
        calls += gen_nesterov_calls(R.rng, 1000 if q else 8000)
        calls += gen_mesh_calls(R.rng, 12 if q else 100)
        calls += gen_intscalar_calls(R.rng, 24 if q else 200)
        calls += gen_intscalar_distance_calls(R.rng, 8 if q else 60)
        calls += gen_intscalar_collider_calls(R.rng, 24 if q else 200)
        calls += gen_tree_calls(R.rng, 10 if q else 80, tier)
        calls += gen_foreign_calls(R.rng, tier, notes)
        if cm.os.environ.get("C20_FAMILIES"):            # development aid only
            keep = set(cm.os.environ["C20_FAMILIES"].split(","))
            calls = [c for c in calls if family(c) in keep or c["k"] in keep]
    R.notes += notes
    t0 = cm.time.time()
    rj, dead_j = run_list(calls, True, "jit", 900 if tier == "quick" else 3000)
    t1 = cm.time.time()
    ri, dead_i = run_list(calls, False, "nojit", 1500 if tier == "quick" else 6000)
    t2 = cm.time.time()
    R.cov["timing_s"] = dict(compiled=round(t1 - t0, 1), interpreted=round(t2 - t1, 1))

    # ---------------------------------------------------------------- compare
    fam_hist, fam_cmp = {}, {}
    global JOLT_ILLCOND
    JOLT_ILLCOND = "F-J2" in c12.foreign_known("C01")      # recorded finding of C01: d below |a-b| (C18-*-ILLCOND in the loop)
    known = {e["id"]: e for e in R.known}
    distinct = set()
    fails = []
    suspects = []
    for idx, (c, a, b) in enumerate(zip(calls, rj, ri)):
        fam = family(c)
        fam_hist[fam] = fam_hist.get(fam, 0) + 1
        what = None
        if "died" in a or "died" in b:
            if a.get("died") != b.get("died"):
                what = (f"{fam}.{c.get('fn', '')}: worker {a.get('died', 'ok')} (rc={a.get('rc')}) compiled vs {b.get('died', 'ok')} "
                        f"(rc={b.get('rc')}) interpreted; confirmed by re-running the call alone; log: {(a.get('log') or b.get('log') or '')[-160:]}")
            else:
                T.hit("died_in_both_modes")
                R.notes.append(f"{fam}.{c.get('fn', '')}: worker {a.get('died')} in BOTH modes (judged by C19): {a.get('log', '')[-120:]}")
        elif ("exc" in a) != ("exc" in b):
            what = f"{fam}.{c.get('fn', '')}: raised {a.get('exc')} compiled vs {b.get('exc')} interpreted ({(a.get('msg') or b.get('msg') or '')[:120]})"
        elif "exc" in a:
            if a["exc"] != b["exc"]:
                what = f"{fam}.{c.get('fn', '')}: exception type {a['exc']} compiled vs {b['exc']} interpreted"
            else:
                T.hit("same_exception_both_modes")
        elif c["k"] == "collider":
            fs = compare_collider(c, a, b, T)
            if fs:
                what = f"collider {c['c1']['kind']}/{c['c2']['kind']}: " + "; ".join(fs[:3])
            fam_cmp[fam] = fam_cmp.get(fam, 0) + 1
            distinct.add(cm.canon_hash([c["c1"], c["c2"]]))
        elif (c["k"] == "worker" and c.get("module") == "c10") or c["k"] == "distint":
            what = compare_distance(c, a["ok"]["json"], b["ok"]["json"], T)
            fam_cmp[fam] = fam_cmp.get(fam, 0) + 1
            distinct.add(cm.canon_hash(c["pcase"]))
        elif c["k"] == "worker" and c.get("module") == "c15" and c["case"].get("kind") == "pair" \
                and "exc" not in a["ok"]["json"] and "exc" not in b["ok"]["json"]:
            w15 = compare_c15_pair(c, a["ok"]["json"], b["ok"]["json"], T)
            if w15:
                what = f"hydro-c15 pair ({c['case'].get('cls')}): " + w15
            fam_cmp[fam] = fam_cmp.get(fam, 0) + 1
            distinct.add(cm.canon_hash(c["case"]))
        elif c["k"] == "worker" and c.get("module") == "c16" and "exc" not in a["ok"]["json"] and "exc" not in b["ok"]["json"] \
                and (c16_unstable(a["ok"]["json"]) or c16_unstable(b["ok"]["json"])):
            T.hit("hydro_c16_scene_unstable_under_1ulp_drift_within_one_mode")
        elif c["k"] == "worker" and c.get("module") == "c16" and "F17" in c12.foreign_known("C16") \
                and noise_plane_case(a["ok"]["json"], b["ok"]["json"]):
            T.hit("skip_known_F17_noise_plane")
        elif c["k"] in ("worker", "aabbtree") and any(k in a["ok"].get("json", {}) or k in b["ok"].get("json", {})
                                                       for k in ("exc", "harness_exc")):
            ja, jb = a["ok"]["json"], b["ok"]["json"]
            ea, eb = ja.get("exc") or ja.get("harness_exc"), jb.get("exc") or jb.get("harness_exc")
            if ea != eb:
                what = f"{fam}: worker case raised {ea} compiled vs {eb} interpreted"
            else:
                T.hit(f"foreign_case_raised_in_both_modes:{fam}:{ea}")
        else:
            diffs, discrete = [], []
            L = float(c.get("L", 1.0))
            rel = float(c.get("rel", REL))
            a, b, nnote = normalise(c, a, b)
            if nnote:
                T.hit(nnote)
            pcc = a["ok"].get("json", {}).get("per_contact_check") if isinstance(a["ok"], dict) and isinstance(a["ok"].get("json"), dict) else None
            if pcc:
                what = f"{fam} bodies: " + "; ".join(pcc[:2])
                a["ok"]["json"]["per_contact_check"] = []
            cmp(a["ok"], b["ok"], rel * L + 1e-12 * L, rel, "", diffs, discrete)
            if diffs and c["k"] == "call" and c["fn"].startswith("support_function_"):
                # two different but equally extreme points (a tie decided by a 1-ulp difference of the local direction)
                # are the same answer: compare the support VALUES p.d
                # (not for the exactly zero direction: there every point has the same value, the rule would be vacuous, and no
                # rounding difference can steer the zero-direction arm: the two modes must return the same point)
                dvec = np.array(c["args"][0]["a"], dtype=float)
                pa_, pb_ = np.array(unser(a["ok"]), dtype=float), np.array(unser(b["ok"]), dtype=float)
                if np.any(dvec != 0.0) and abs(float(pa_ @ dvec) - float(pb_ @ dvec)) <= 1e-9 * L * max(1.0, float(np.linalg.norm(dvec))):
                    T.hit("support_points_differ_same_value")
                    diffs = []
            if c["k"] == "mesh" and (diffs or discrete):
                # same for the hill-climbing mesh: another vertex with the same projection is the same answer
                ok_all = True
                for dd, ra, rb in zip(c["dirs"], unser(a["ok"]), unser(b["ok"])):
                    dvec = np.array(dd, dtype=float)
                    if abs(float(np.array(ra[1]) @ dvec) - float(np.array(rb[1]) @ dvec)) > 1e-9 * L * max(1.0, float(np.linalg.norm(dvec))):
                        ok_all = False
                if ok_all:
                    T.hit("mesh_vertices_differ_same_value")
                    diffs, discrete = [], []
            if a.get("mutated") != b.get("mutated"):
                discrete.append(("mutated", a.get("mutated"), b.get("mutated")))
            fam_cmp[fam] = fam_cmp.get(fam, 0) + 1
            distinct.add(cm.canon_hash({k: v for k, v in c.items() if k not in ("budget",)}))
            if what:
                pass
            elif diffs:
                p, x, y = diffs[0]
                what = f"{fam}.{c.get('fn', c.get('module', ''))}: value{p} = {x!r} compiled vs {y!r} interpreted (+{len(diffs) - 1} more; rel tol {rel:g})"
            elif discrete:
                suspects.append((idx, discrete))
        if what:
            if tiny_vector(c) and "C20-NORM-UNDERFLOW" in known:
                T.hit("known_C20-NORM-UNDERFLOW")
                R.known_finding("C20-NORM-UNDERFLOW", known["C20-NORM-UNDERFLOW"].get("what", "")[:300])
            else:
                fails.append((c, what))

    # ---------------------------------------------------------------- discrete mismatches: boundary or real?
    n_boundary = 0
    for idx, discrete in suspects:
        c = calls[idx]
        fam = family(c)
        p, x, y = discrete[0]
        verdict = recheck(c)
        if verdict == "boundary":
            n_boundary += 1
            T.hit(f"boundary_skip:{fam}")
        else:
            fails.append((c, f"{fam}.{c.get('fn', c.get('module', ''))}: discrete output{p}: {x} compiled vs {y} interpreted ({verdict})"))
    R.cov["evaluations"] = 2 * len(calls)
    R.cov["calls"] = len(calls)
    R.cov["calls_per_family"] = fam_hist
    R.cov["compared_per_family"] = fam_cmp
    R.cov["distinct_nontrivial"] = len(distinct)
    R.cov["tallies"] = dict(sorted(T.items()))
    R.cov["boundary_skips"] = n_boundary
    R.cov["internal_stage_soft_mismatches"] = len(SOFT_HITS)
    R.cov["programs"] = len(calls)
    R.cov["disagreements_checked"] = len(fails) + n_boundary
    for c in calls[:1] + [x for x in calls if x["k"] == "collider"][:1] + [x for x in calls if x["k"] == "aabbtree"][:1]:
        R.sample({k: v for k, v in c.items()})
    R.cov["failure_list"] = [w[:300] for _, w in fails[:40]]
    for c, w in fails[:8]:
        R.failure(w, c, site=family(c))
    return R.finish()


def recheck(c):
    """a boolean / index output differs between the modes: decide whether the input sits on a decision boundary.
    For `call`s whose first array argument is a batch of points or a direction, the call is repeated in both modes with that
    argument pushed by +-1e-7 (relative) in a few directions; if each perturbed call agrees between the modes, the original
    disagreement is a boundary effect (1-ulp differences between BLAS and loop dot products)."""
    if c["k"] != "call":
        return "no perturbation rule for this family"
    arrs = [i for i, a in enumerate(c["args"]) if isinstance(a, dict) and "a" in a]
    if not arrs:
        return "no array argument to perturb"
    i0 = arrs[0]
    base = np.array(c["args"][i0]["a"], dtype=float)
    variants = []
    rs = np.random.RandomState(0)
    for k in range(6):
        d = rs.normal(size=base.shape)
        pert = base + 1e-7 * (1.0 + np.abs(base)) * d
        args = list(c["args"])
        args[i0] = {"a": pert.tolist()}
        variants.append(dict(c, args=args))
    a, _ = run_list(variants, True, "rechk_jit", 300)
    b, _ = run_list(variants, False, "rechk_nojit", 600)
    bad = 0
    for x, y in zip(a, b):
        if "ok" not in x or "ok" not in y:
            bad += 1
            continue
        diffs, discrete = [], []
        cmp(x["ok"], y["ok"], 1e-6, 1e-6, "", diffs, discrete)
        if discrete:
            bad += 1
    return "boundary" if bad == 0 else f"persists at {bad}/6 perturbed inputs"
