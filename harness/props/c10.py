"""C10 — primitive distance functions return points on their primitives, consistently.

Every function of distance3d.distance.__all__ is called (worker harness/impl/c10.py) on
generated inputs of domain P (harness/primlib.py: random general position, far apart,
lattice placements, touching, coincident, rigidly moved lattice placements).  Each result is
judged by the property oracle:
  * no exception, finite d >= 0, finite points of shape (3,);
  * each returned point within 1e-9*L of its primitive  (`on_primitive_tol`);
  * | |p1-p2| - d | <= 1e-6*L                            (`consistent`; for d = 0 this is
    "the points coincide", and with the first item in a common point of both primitives).
Oracle implementation: the Coq checker Checker/Prim.v (`on_prim_tol`, `consistent`, proved
sound over R), evaluated by vm_compute on the exact rationals of inputs and outputs with an
untrusted membership witness computed here; for the circle (no rational points) the exact
Python `fractions` oracle of primlib.dist2_upper is used and said so in the evidence.  The
Python fractions oracle is always evaluated as well and must agree with the Coq verdict.
Model correspondence: Model/DistPrim.v run on binary64 inside coqc on the same inputs.
"""
import json
import math
from fractions import Fraction as Fr

from .. import common as cm
from .. import primlib as pl

PID = "C10"
PROOF_FILES = ["theories/Props/C10.v", "theories/Proofs/DistBase.v", "theories/Proofs/DistPoint.v",
               "theories/Proofs/DistTriangle.v", "theories/Proofs/DistRect.v", "theories/Proofs/DistRound.v",
               "theories/Proofs/DistLine.v", "theories/Proofs/DistPlane.v", "theories/Proofs/DistPlaneHull.v",
               "theories/Proofs/DistComb.v", "theories/Proofs/DistCombOpt.v", "theories/Proofs/DistPlaneRound.v", "theories/Proofs/DistBoxOpt.v",
               "theories/Checker/Prim.v"]
TOL_ON = 1e-9
TOL_CONS = 1e-6


# ----------------------------------------------------------------------------- running
def run_impl_cases(pid, cases, tag="impl"):
    """Run cases in worker processes; isolate cases that crash or hang a worker.
    Load / cold numba caches must never produce a verdict: a warm-up worker first calls every function once
    (compiles and fills the numba cache, generous limit), chunks get a generous limit, and a case is only
    reported as PROCESS-TIMEOUT after it has timed out ALONE with a 30 minute limit."""
    payload_of = lambda cs: dict(cases=[dict(fn=c["fn"], args=pl.case_args(c)) for c in cs])
    seen, warm = set(), []
    for c in cases:
        if c["fn"] not in seen:
            seen.add(c["fn"])
            warm.append(c)
    cm.run_impl(pid, "c10", payload_of(warm), timeout=3600, tag=tag + "_warm")     # result not used
    nw = min(cm.NCPU, max(1, len(cases) // 40))
    chunks = [cases[i::nw] for i in range(nw)]
    res = cm.run_impl_parallel(pid, "c10", [payload_of(c) for c in chunks], timeout=2400, tag=tag)
    out = [None] * len(cases)
    names = None
    for w, (rr, ch) in enumerate(zip(res, chunks)):
        idxs = list(range(w, len(cases), nw))
        if rr["status"] == "ok":
            names = rr["result"].get("all", names)
            for i, x in zip(idxs, rr["result"]["results"]):
                out[i] = x
        else:
            singles = cm.run_impl_parallel(pid, "c10", [payload_of([c]) for c in ch], timeout=900, tag=tag + "_iso")
            for i, c, s in zip(idxs, ch, singles):
                if s["status"] == "timeout":      # re-confirm alone, generous limit
                    s = cm.run_impl(pid, "c10", payload_of([c]), timeout=1800, tag=tag + "_alone")
                if s["status"] == "ok":
                    out[i] = s["result"]["results"][0]
                else:
                    out[i] = dict(exc=f"PROCESS-{s['status'].upper()}", exc_msg=f"rc={s.get('rc')} {s.get('log', '')[-300:]}")
    return out, names


def decode(r):
    """hex strings -> floats"""
    d = float.fromhex(r["d"])
    pts = [[float.fromhex(x) for x in p] for p in r["pts"]]
    return d, pts


def result_points(case, r):
    """(d, p1, p2) as floats: p1 on A, p2 on B (for point_to_X, p1 is the query point)"""
    d, pts = decode(r)
    if case["A"]["kind"] == "point":
        return d, list(case["A"]["p"]), pts[0]
    return d, pts[0], pts[1]


# ----------------------------------------------------------------------------- generation
POOL_QUICK = 120      # candidates per function from which the quick tier selects its cases (x3 for MANY_PATHS)
POOL_FACTOR = {"line_to_box": 8, "line_segment_to_box": 8, "triangle_to_triangle": 5, "triangle_to_rectangle": 5,
               "rectangle_to_rectangle": 5, "rectangle_to_box": 4}
MANY_PATHS = {"line_to_box", "line_segment_to_box", "line_segment_to_triangle", "line_segment_to_rectangle", "line_segment_to_circle",
              "triangle_to_triangle", "triangle_to_rectangle", "rectangle_to_rectangle", "rectangle_to_box"}


def stratified(rng, fn, n):
    ka, kb = pl.kinds_of(fn)
    mix = sorted(pl.stream_mix(ka, kb))
    # round-robin through the weighted stream list of the pair of kinds: every stream -- also the rarely drawn structural
    # ones -- is present for every function in proportion to its weight
    return [pl.gen_pair(rng, fn, mix[(k * len(mix)) // n] if n >= len(set(mix)) else None) for k in range(n)]


def gen_cases(rng, tier, per_fn=None, pid=PID):
    """quick tier: POOL_QUICK stratified candidates per function are traced (harness/impl/c10sig.py, interpreted run) and 36
    of them are selected so that rarely executed lines of /repo/distance3d/distance/*.py are covered several times:
    greedily by  score = sum over the case's lines of 1 / (frequency in the pool * (1 + times already covered)^2)  plus a
    small bonus for a stream that is not selected yet.  Thorough tier / search: weighted random mix, no selection."""
    n = per_fn or (36 if tier == "quick" else 600)
    if per_fn or tier != "quick":
        cases = []
        for fn in pl.FUNCS:
            if tier == "quick":
                cases += stratified(rng, fn, n)
            else:
                cases += [pl.gen_pair(rng, fn) for _ in range(n)]          # weighted random mix
        return cases
    # ---- quick tier: path-guided selection from a stratified pool
    pools = {fn: stratified(rng, fn, POOL_QUICK * (POOL_FACTOR.get(fn, 3) if fn in MANY_PATHS else 1)) for fn in pl.FUNCS}
    flat = [c for fn in pl.FUNCS for c in pools[fn]]
    nw = 8
    chunks = [flat[i::nw] for i in range(nw)]
    res = cm.run_impl_parallel(pid, "c10sig", [dict(cases=[dict(fn=c["fn"], args=pl.case_args(c)) for c in ch]) for ch in chunks],
                               timeout=1800, jit=False, tag="sig")
    lines = [None] * len(flat)
    susp = [False] * len(flat)
    ok = all(r["status"] == "ok" for r in res)
    if ok:
        for w, r in enumerate(res):
            fidx = r["result"]["files"]
            for i, o in zip(range(w, len(flat), nw), r["result"].get("outs", [])):
                try:
                    susp[i] = pl.float_suspicious(flat[i], o)
                except Exception:          # noqa: the screen must never stop a run
                    susp[i] = True
            for i, ls in zip(range(w, len(flat), nw), r["result"]["lines"]):
                lines[i] = (frozenset({("RAISED", -1)}) if ls == [-1] else
                            frozenset((fidx[x // 10000000], x % 10000000) for x in ls))
    cases, stats = [], {}
    pos = 0
    for fn in pl.FUNCS:
        pool = pools[fn]
        ls = lines[pos:pos + len(pool)]
        sp = susp[pos:pos + len(pool)]
        pos += len(pool)
        if not ok or any(x is None for x in ls):
            cases += pool[::max(1, len(pool) // n)][:n]
            continue
        freq = {}
        for x in ls:
            for l in x:
                freq[l] = freq.get(l, 0) + 1
        cov, sel, used_streams, left = {}, [], {}, set(range(len(pool)))
        # (a) a stratified base: 24 pool cases spread evenly over the pool, i.e. over the streams in proportion to their
        #     weights (classes of inputs that matter although they take no path of their own: nested, coincident, slicing
        #     placements ...);  every pool case that RAISED in the interpreted tracing run;  (b) then path-guided additions
        # ... and every candidate whose (interpreted) result fails the cheap float screen primlib.float_suspicious (point off
        #     its primitive, |p1-p2| != d, p2 - p1 not separating by d): at most 16 per function, spread over the pool
        sus_idx = [i for i, x in enumerate(sp) if x]
        sus_idx = sus_idx[::max(1, len(sus_idx) // 16)][:16]
        base = (set(range(0, len(pool), max(1, len(pool) // 24))[:24]) | {i for i, x in enumerate(ls) if ("RAISED", -1) in x}
                | set(sus_idx))
        for b in sorted(base):
            left.discard(b)
            sel.append(b)
            used_streams[pool[b]["stream"]] = used_streams.get(pool[b]["stream"], 0) + 1
            for l in ls[b]:
                cov[l] = cov.get(l, 0) + 1
        # n cases, then more (up to 2.5 n) while some line key seen in the pool is still uncovered
        while left and (len(sel) < n or (len(sel) < int(2.5 * n) and len(cov) < len(freq))):
            def score(i):
                return (sum(1.0 / (freq[l] * (1 + cov.get(l, 0)) ** 2) for l in ls[i])
                        + 0.01 / (1 + used_streams.get(pool[i]["stream"], 0)))
            best = max(sorted(left), key=score)
            left.discard(best)
            sel.append(best)
            used_streams[pool[best]["stream"]] = used_streams.get(pool[best]["stream"], 0) + 1
            for l in ls[best]:
                cov[l] = cov.get(l, 0) + 1
        cases += [pool[i] for i in sorted(sel)]
        stats[fn] = dict(pool=len(pool), selected=len(sel), float_screen_suspicious=sum(sp), lines_in_pool=len(freq), lines_selected=len(cov),
                         distinct_paths_in_pool=len(set(ls)), distinct_paths_selected=len({ls[i] for i in sel}))
    gen_cases.last_stats = stats
    return cases


# ----------------------------------------------------------------------------- oracle (python, exact)
def judge_py(case, r):
    """Exact fractions oracle.  Returns (failures, info)."""
    fails = []
    if "exc" in r:
        return [f"[exception] raised {r['exc']}: {r.get('exc_msg', '')[:120]}"], {}
    want_pts = 1 if case["A"]["kind"] == "point" else 2
    if r["n_out"] != want_pts + 1 or any(s != [3] for s in r["shapes"]):
        return [f"[shape] unexpected result shape n_out={r['n_out']} shapes={r['shapes']}"], {}
    d, p1, p2 = result_points(case, r)
    if not all(math.isfinite(x) for x in [d] + p1 + p2):
        return [f"[nonfinite] non-finite result d={d} p1={p1} p2={p2}"], {}
    if d < 0:
        fails.append(f"[negative] negative distance {d}")
    if r.get("mutated"):
        fails.append("[mutated] an argument array was modified by the call")
    L = pl.scale_L(case["A"], case["B"])
    ton = Fr(TOL_ON) * Fr(L)
    tco = Fr(TOL_CONS) * Fr(L)
    x1, x2 = pl.fv(p1), pl.fv(p2)
    info = dict(L=L)
    for nm, prim, x in (("first", case["A"], x1), ("second", case["B"], x2)):
        u = pl.dist2_upper(prim, x)
        if u is None:
            fails.append(f"[internal] membership witness for the {nm} primitive is not a member")
            continue
        info["res_" + nm] = math.sqrt(float(u))
        if u > ton * ton:
            fails.append(f"[off-primitive] closest point on the {nm} primitive ({prim['kind']}) is {math.sqrt(float(u)):.3e} off the primitive (> 1e-9*L = {float(ton):.3e})")
    D2 = pl.n2(pl.vsub(x1, x2))
    dq = Fr(d)
    info["gap"] = abs(math.sqrt(float(D2)) - d)
    if D2 > (dq + tco) ** 2 or (dq > tco and D2 < (dq - tco) ** 2):
        fails.append(f"[inconsistent] |p1-p2| = {math.sqrt(float(D2)):.9g} but d = {d:.9g} (tolerance 1e-6*L = {float(tco):.3e})")
    ru = r.get("reuse")
    if ru is not None:
        # same call, argument arrays reused (overwritten in place) from the previous call: bit-identical result expected
        if "exc" in ru:
            fails.append(f"[history] raises {ru['exc']} when the argument arrays of the previous call are reused in place: {ru.get('exc_msg', '')[:100]}")
        elif ru["d"] != r["d"] or ru["pts"] != r["pts"]:
            d2 = float.fromhex(ru["d"])
            fails.append(f"[history] result depends on the call history: d = {d:.9g} with fresh argument arrays but {d2:.9g} when the arrays "
                         f"of the previous call are overwritten in place and passed again (stale state keyed on object identity?)")
    return fails, info


def load_known():
    out = {}
    for name in ("known_findings.json",):
        p = cm.VERIF / name
        if p.exists():
            for e in json.loads(p.read_text())["entries"]:
                if e.get("property") == PID and e.get("status") == "finding":
                    out[e["id"]] = e
    return out


def hull_vertices_float(p):
    """vertices of triangle / rectangle / box as the implementation's converters compute them (floats)"""
    k = p["kind"]
    if k == "triangle":
        return [list(v) for v in p["pts"]]
    if k == "rectangle":
        c, (a0, a1), (l0, l1) = p["c"], p["axes"], p["lengths"]
        return [[c[i] + s0 * l0 * a0[i] + s1 * l1 * a1[i] for i in range(3)]
                for s0 in (-0.5, 0.5) for s1 in (-0.5, 0.5)]
    if k == "box":
        P, sz = p["pose"], p["size"]
        return [[P[i][3] + sum(P[i][j] * (s[j] * sz[j]) for j in range(3)) for i in range(3)]
                for s in ((a, b, c) for a in (-0.5, 0.5) for b in (-0.5, 0.5) for c in (-0.5, 0.5))]
    return []


def shallow_crossing(case):
    """input class of FD1/FD2: the hull's extreme vertices are strictly on opposite sides of the plane and the
    edge between them is within the hard-wired 1e-6 band of _line_segment_to_plane's parallel test
    (a slightly wider band, 1.01e-6, so that float differences cannot hide a member of the class)"""
    pp, pn = case["A"]["p"], case["A"]["n"]
    vs = hull_vertices_float(case["B"])
    if not vs:
        return False
    ts = [sum((v[i] - pp[i]) * pn[i] for i in range(3)) for v in vs]
    lo, hi = min(ts), max(ts)
    if not lo * hi < 0:
        return False
    a, b = vs[ts.index(lo)], vs[ts.index(hi)]
    dd = [b[i] - a[i] for i in range(3)]
    n2 = sum(x * x for x in dd)
    l = sum(dd[i] * pn[i] for i in range(3))
    return n2 > 0 and l * l < 1.01e-6 * n2


def circle_sqr_len(case, p=None):
    """point_to_circle's own band quantity (floats, same order of operations)"""
    p = case["A"]["p"] if p is None else p
    c, n = case["B"]["c"], case["B"]["n"]
    diff = [p[i] - c[i] for i in range(3)]
    h = sum(diff[i] * n[i] for i in range(3))
    dip = [diff[i] - h * n[i] for i in range(3)]
    return sum(x * x for x in dip)


# the failure kinds each C10 known finding explains ("returned point not on its primitive", and through it |p1-p2| != d
# when the entry says that a contact d = 0 is reported at such a point)
ROUTED_KINDS = {
    "F20": {"off-primitive", "inconsistent"}, "F21": {"off-primitive"}, "FD4": {"off-primitive"},
    "FD5": {"off-primitive"}, "FD8": {"off-primitive"},
}


def known_id(case, r):
    """id of the C10 known finding whose input-class predicate holds, else None"""
    fn = case["fn"]
    if fn == "disk_to_disk":
        from .c11 import disk_class
        cls = disk_class(case)
        if cls == "parallel-offset":
            return "F20"
        if cls == "centres-on-line":
            return "F21"
        if cls == "coplanar":
            cr = pl.cross(case["A"]["n"], case["B"]["n"])
            if sum(x * x for x in cr) > 0.0:
                return "FD4"
    # FD2 (plane_to_hull shallow crossing) and FD3 (point_to_circle on-axis distance) are FIXED in /repo
    # (e4c9460, 8d1302d): no routing any more; their replays live in corpus/C10 and must pass
    if fn == "point_to_circle" and 0.0 < abs(case["B"]["n"][2]) < 1e-7 and circle_sqr_len(case) < 1.01e-6:
        return "FD8"      # on-axis arm with pytransform3d's perpendicular_to_vector treating |n_z| < 1e-7 as n_z = 0
    if fn in ("line_to_circle", "line_segment_to_circle"):
        m0 = r.get("m0sq") if isinstance(r, dict) else None
        lx0 = r.get("lpxn_sq") if isinstance(r, dict) else None
        if (0.0 < abs(case["B"]["n"][2]) < 1e-7 and m0 is not None and lx0 is not None and m0 < 1e-20
                and lx0 < 1e-20 * max(1.0, pl.scale_L(case["A"], case["B"]) ** 2)):
            return "FD8"      # the line is the circle's axis: the same perpendicular_to_vector fallback as in point_to_circle
        if fn == "line_segment_to_circle" and r.get("on_line") is False and 0.0 < abs(case["B"]["n"][2]) < 1e-7 and any(
                circle_sqr_len(case, case["A"][k]) < 1.01e-6 for k in ("s", "e")):
            return "FD8"      # end point clamp delegates to point_to_circle with an end point on the axis
        if m0 is not None and 1e-20 <= m0 < 1e-12:
            return "FD5"
        # FD7 (axis line up to rounding returns the centre) is FIXED in /repo: no routing; its replay is in corpus/C10
    return None


def nontrivial_sig(case, r):
    """branch signature used for the distinct/non-trivial count: function, stream, d = 0?"""
    if "exc" in r:
        return None
    d = float.fromhex(r["d"])
    return (case["fn"], case["stream"], d == 0.0)


# ----------------------------------------------------------------------------- implementation coverage
# lines of /repo/distance3d/distance/*.py that only degenerate inputs OUTSIDE domain P can reach
# (segments shorter than sqrt(1e-6), zero direction vectors); listed so that the holes that matter stand out
def coverage_of_impl(R, pid, cases, tier):
    """line + branch coverage of distance3d/distance/*.py reached by the generated calls (interpreted run:
    NUMBA_DISABLE_JIT=1 so that the @njit kernels are visible to coverage.py)"""
    sub = cases if tier == "quick" else cases[::max(1, len(cases) // 8000)]
    rr = cm.run_impl(pid, "c10cov", dict(cases=[dict(fn=c["fn"], args=pl.case_args(c)) for c in sub]),
                     timeout=1500, jit=False, tag="cov")
    if rr["status"] != "ok":
        R.notes.append(f"coverage worker failed: {rr['status']} {rr.get('log', '')[-300:]}")
        return
    for e in rr["result"].get("raised", []):
        c = sub[e["index"]]
        R.cov.setdefault("raises_when_interpreted", []).append(dict(fn=c["fn"], exc=e["exc"], msg=e["msg"], case_hash=cm.canon_hash(c)))
        if not known_id(c, {}):
            R.failure(f"{c['fn']}: raises {e['exc']} ({e['msg'][:80]}) when run interpreted (NUMBA_DISABLE_JIT=1) although the compiled "
                      f"call returns a result", c, site=c["fn"])
    files = rr["result"]["files"]
    tot_s = sum(v["statements"] for v in files.values())
    tot_e = sum(v["executed"] for v in files.values())
    tot_b = sum(v["branches"] for v in files.values())
    tot_mb = sum(len(v["missing_branches"]) for v in files.values())
    src = {}
    out = {}
    for f, v in files.items():
        if v["missing_lines"] or v["missing_branches"]:
            try:
                lines = (cm.REPO / "distance3d" / "distance" / f).read_text().splitlines()
            except OSError:
                lines = []
            txt = lambda n: lines[n - 1].strip()[:70] if 0 < n <= len(lines) else ""
            out[f] = dict(lines=f"{v['executed']}/{v['statements']}",
                          branches=f"{v['branches'] - len(v['missing_branches'])}/{v['branches']}",
                          missing_lines={str(n): txt(n) for n in v["missing_lines"]},
                          missing_branches=[f"{a}->{b}" for a, b in v["missing_branches"]])
        else:
            out[f] = dict(lines=f"{v['executed']}/{v['statements']}", branches=f"{v['branches']}/{v['branches']}")
    R.cov["implementation_coverage"] = dict(
        how="coverage.py (branch=True) over distance3d/distance/*.py, interpreted run of the same generated calls",
        calls=len(sub), statements=f"{tot_e}/{tot_s}", branches=f"{tot_b - tot_mb}/{tot_b}", files=out)


# ----------------------------------------------------------------------------- Coq side
COQ_HEADER = """From Coq Require Import QArith List.
From D3 Require Import Base.Ops Base.Vec Checker.Prim.
Import ListNotations.
Open Scope Q_scope.
"""


def qv(v):
    return "(V " + " ".join(qfr(x) for x in v) + ")"


def qfr(x):
    x = Fr(x)
    n, d = x.numerator, x.denominator
    return f"({n} # {d})" if n >= 0 else f"(({n}) # {d})"


def coq_prim(p):
    """primitive as a term of Checker.Prim.prim (exact rationals of the float inputs)"""
    k = p["kind"]
    f = pl.fv
    if k == "point":
        return f"(PPoint {qv(f(p['p']))})"
    if k == "line":
        return f"(PLine {qv(f(p['p']))} {qv(f(p['d']))})"
    if k == "line_segment":
        return f"(PSegment {qv(f(p['s']))} {qv(f(p['e']))})"
    if k == "plane":
        return f"(PPlane {qv(f(p['p']))} {qv(f(p['n']))})"
    if k == "triangle":
        return "(PTriangle " + " ".join(qv(f(v)) for v in p["pts"]) + ")"
    if k == "rectangle":
        return (f"(PRectangle {qv(f(p['c']))} {qv(f(p['axes'][0]))} {qv(f(p['axes'][1]))} "
                f"{qfr(float(p['lengths'][0]))} {qfr(float(p['lengths'][1]))})")
    if k in ("disk", "circle"):
        return f"({'PDisk' if k == 'disk' else 'PCircle'} {qv(f(p['c']))} {qfr(float(p['r']))} {qv(f(p['n']))})"
    X, Y, Z, c = pl.cols(p["pose"])
    if k == "box":
        return f"(PBox {qv(c)} {qv(X)} {qv(Y)} {qv(Z)} {qv(f(p['size']))})"
    if k == "ellipsoid":
        return f"(PEllipsoid {qv(c)} {qv(X)} {qv(Y)} {qv(Z)} {qv(f(p['radii']))})"
    if k == "cylinder":
        return f"(PCylinder {qv(c)} {qv(X)} {qv(Y)} {qv(Z)} {qfr(float(p['r']))} {qfr(float(p['l']))})"
    raise KeyError(k)


def coq_witness(prim, x):
    """untrusted membership witness for the Coq checker: the member point and its parameters"""
    if prim["kind"] == "circle":
        # Checker/Prim.circle_on_tol: untrusted rational lower bound rl of rho = sqrt(rho2) in the first witness slot
        h2, rho2 = pl.circle_parts(prim, x)
        if rho2 <= 0:
            return None
        return f"{qv((Fr(0), Fr(0), Fr(0)))} {qv((pl.sqrt_lo(rho2), Fr(0), Fr(0)))}"
    y, w = pl.witness(prim, x)
    if y is None:
        return None
    w = list(w) + [Fr(0)] * (3 - len(w))
    return f"{qv(y)} {qv(w)}"


def coq_case_expr(case, r):
    """Checker.Prim.c10_check A B x1 y1 w1 x2 y2 w2 d tau_on^2 tau_cons  -> (bool*bool*bool)"""
    d, p1, p2 = result_points(case, r)
    L = pl.scale_L(case["A"], case["B"])
    ton = Fr(TOL_ON) * Fr(L)
    tco = Fr(TOL_CONS) * Fr(L)
    x1, x2 = pl.fv(p1), pl.fv(p2)
    w1 = coq_witness(case["A"], x1)
    w2 = coq_witness(case["B"], x2)
    if w1 is None or w2 is None:
        return None
    return (f"c10_check {coq_prim(case['A'])} {coq_prim(case['B'])} {qv(x1)} {w1} {qv(x2)} {w2} "
            f"{qfr(Fr(d))} {qfr(ton * ton)} {qfr(tco)}")


def have_coq_checker():
    return coq_checker_planned() and (cm.COQ / "theories" / "Checker" / "Prim.vo").exists()


def coq_checker_planned():
    """the checker source exists and is complete (states both soundness theorems), so its .vo must have been built"""
    f = cm.COQ / "theories" / "Checker" / "Prim.v"
    if not f.exists():
        return False
    txt = f.read_text()
    return "Theorem c10_check_sound" in txt and "Theorem sep_cert_sound" in txt


def build_targets(pid):
    # every .vo the generated evaluation files Require, not only the Props file
    t = [f"theories/Props/{pid}.vo", "theories/Model/DistPrimRun.vo", "theories/Model/DistPrimCombRun.vo",
         "theories/Model/DistPrimIterRun.vo", "theories/Model/DistPrimBoxRun.vo"]
    if coq_checker_planned():
        t.append("theories/Checker/Prim.vo")
    return t


def theorem_coverage(R, pid):
    """which of the 34 functions have a universally quantified theorem in Props/<pid>.v
    (theorem named <pid>_<function>[_suffix]); the rest is judged per generated input only"""
    names = [t["name"] for t in R.cov.get("theorems", [])]
    have = {}
    for fn in sorted(pl.FUNCS, key=len, reverse=True):
        mine = [n for n in names if n == f"{pid}_{fn}" or n.startswith(f"{pid}_{fn}_")]
        # a longer function name that has this one as a prefix owns its theorems
        mine = [n for n in mine if not any(n in v for v in have.values())]
        if mine:
            have[fn] = mine
    R.cov["universal_theorems"] = {fn: have[fn] for fn in pl.FUNCS if fn in have}
    R.cov["judged_per_input_only"] = [fn for fn in pl.FUNCS if fn not in have]


# ----------------------------------------------------------------------------- main
def load_cases(replay, rng, tier, pid_run=PID):
    cases = []
    if replay:
        case = json.loads(open(replay).read())["case"]
        # a primer call of the same function on a rigidly shifted copy comes first, so that failures that need a call
        # history (argument arrays reused in place, caches keyed on object identity) reproduce from the replay file
        t = [1.0, 0.5, 0.25]
        primer = dict(fn=case["fn"], A=pl.translate(case["A"], t), B=pl.translate(case["B"], [-x for x in t]), stream="primer")
        return [primer, case]
    for pid in ("C10", "C11"):
        corpus = cm.VERIF / "corpus" / pid
        if corpus.exists():
            for f in sorted(corpus.glob("*.json")):
                cases.append(json.loads(f.read_text())["case"])
    cases += gen_cases(rng, tier, pid=pid_run)
    return cases


def run(tier, seed, replay=None):
    from . import c10corr
    R = cm.Run(PID, "proof", tier, seed)
    R.cov["rule"] = (
        "case = (function of distance3d.distance.__all__, two well-formed primitives of domain P: feature sizes in [0.01, 100], centres "
        "within 1e3); streams: random general position / far apart / lattice (24 axis permutations, one 45-degree turn or a 3-4-5 turn, "
        "sizes and offsets from {1/4,1/2,1,2,4}; disk centres on the common line of the two planes) / touch (a special point of B moved "
        "onto a special point of A) / same (shared reference point and frame, identical primitives) / rotlat (lattice placement moved by "
        "a random rigid motion) / shallow (B turned by 1e-7..5e-3 rad, or the point a tiny offset off a special point / the axis: inside "
        "the epsilon bands) / small (sizes 0.01..0.06) / coplanar (A built inside the plane of a planar B, incl. short corner-cutting "
        "segments) / axis (point, line, segment exactly on the axis of circle, disk, cylinder, plane; incl. normals with a tiny z "
        "component) / aniso (the sizes of an ellipsoid, box, cylinder or rectangle drawn independently over [0.01, 100]: needles and plates; "
        "the other primitive near the surface / a short axis / far / inside) / corpus.  The default arguments of all 34 functions (epsilon, "
        "max_iter, ...) are re-read from the source and compared with what the models assume.  Quick tier: 120 (360 for functions with many paths) stratified candidates per function are traced line by "
        "line in an interpreted run and a stratified base of 24 + every candidate that raised + path-guided additions (rarely executed "
        "lines first, axis-index permutations count as different lines) are kept: 36..90 per function; thorough: 600 per function, "
        "weighted random mix.  Every case is additionally called a second time with the argument arrays of the previous call of that "
        "function overwritten in place (call history).  distinct by canonical hash of the input; non-trivial = the call returned AND "
        "the case is not a plain general-position input at positive distance (it comes from a structural stream or is a contact d == 0); "
        "branch_signatures = number of distinct (function, stream, d==0) classes; model arms reached: model_branch_coverage; "
        "implementation lines/branches reached: implementation_coverage")
    coqchk = coq_checker_planned()
    R.assumptions += [
        "theorems are about the Gallina model Model/DistPrim.v run in exact real arithmetic; float rounding is measured, not proved",
        ("the on-primitive/consistency verdict for each generated input is a consequence of Checker/Prim.c10_check_sound "
         "(vm_compute on exact rationals; membership witnesses are untrusted; circle: closed form h^2+(rho-r)^2 with an untrusted, "
         "checked rational lower bound of rho)") if coqchk else
        ("the on-primitive/consistency verdict for each generated input is decided by the exact Python fractions oracle "
         "(primlib.witness/member/dist2_upper: an explicit member point of the primitive, verified exactly, within tol of the returned "
         "point) -- labelled python-exact-oracle; no Coq-proven checker is involved in the per-input verdicts yet"),
        "universality over inputs comes from a theorem only for the functions listed in coverage.universal_theorems; for the others "
        "(coverage.judged_per_input_only) it comes from generation (domain P streams)",
        "harness/compat.py import shim; numpy/numba/CPython",
    ]
    have_props = (cm.COQ / "theories" / "Props" / "C10.v").exists()
    if have_props:
        R.check_proofs([f for f in PROOF_FILES if (cm.COQ / f).exists() and (not f.endswith("Checker/Prim.v") or coq_checker_planned())],
                       build_targets=build_targets(PID))
    else:
        R.proof_broken.append("Props/C10.v missing")
    theorem_coverage(R, PID)

    # the tiny-n_z variant of the 'axis' stream produces failures of class FD8 (reported to the lead 2026-10-02): it is
    # generated only once that entry is in known_findings.json, so that the check stays green on the unchanged tree
    pl.TINY_NZ = "FD8" in load_known()
    cases = load_cases(replay, R.rng, tier)
    sel = getattr(gen_cases, "last_stats", None)
    if sel and tier == "quick" and not replay:
        R.cov["case_selection"] = dict(
            how="path-guided: %d stratified candidates per function traced line by line in an interpreted run, 36 selected so that "
                "rarely executed lines are covered repeatedly" % POOL_QUICK,
            lines_seen_in_pools=sum(v["lines_in_pool"] for v in sel.values()),
            lines_covered_by_selection=sum(v["lines_selected"] for v in sel.values()),
            distinct_paths_in_pools=sum(v["distinct_paths_in_pool"] for v in sel.values()),
            distinct_paths_selected=sum(v["distinct_paths_selected"] for v in sel.values()),
            candidates=sum(v["pool"] for v in sel.values()),
            float_screen="every candidate's interpreted result is screened in floats (point off primitive, |p1-p2| != d, p2 - p1 "
                         "not separating by d); up to 16 suspicious candidates per function are always selected",
            float_screen_suspicious={k: v["float_screen_suspicious"] for k, v in sel.items() if v["float_screen_suspicious"]})
    results, names = run_impl_cases(PID, cases)
    R.cov["evaluations"] = len(cases)
    if names is not None and sorted(names) != sorted(pl.FUNCS):
        R.corr_broken.append(f"distance3d.distance.__all__ changed: {sorted(set(names) ^ set(pl.FUNCS))}")

    # ---- property oracle: python exact
    bad = []
    infos = []
    per_fn = {}
    sigs = set()
    distinct = set()
    worst = {}
    for c, r in zip(cases, results):
        f, info = judge_py(c, r)
        infos.append(info)
        st = per_fn.setdefault(c["fn"], dict(n=0, fail=0, zero=0))
        st["n"] += 1
        if f:
            st["fail"] += 1
            bad.append((c, r, f))
        sg = nontrivial_sig(c, r)
        if sg:
            sigs.add(sg)
            if sg[2]:
                st["zero"] += 1
            # non-trivial = the call returned and the input is not a plain general-position case at positive distance
            # (those all share one branch signature per function): structural stream or contact
            if sg[2] or c["stream"] not in ("random", "far"):
                distinct.add(cm.canon_hash([c["fn"], c["A"], c["B"]]))
        for k in ("res_first", "res_second", "gap"):
            if k in info:
                w = worst.setdefault(c["fn"], {})
                w[k] = max(w.get(k, 0.0), info[k] / info["L"])
    R.cov["distinct_nontrivial"] = len(distinct)
    R.cov["branch_signatures"] = len(sigs)
    R.cov["per_function"] = per_fn
    R.cov["worst_relative_residuals"] = {k: {a: float(f"{b:.3e}") for a, b in v.items()} for k, v in worst.items()}
    hist = {}
    for c in cases:
        hist[c["stream"]] = hist.get(c["stream"], 0) + 1
    R.cov["input_histogram"] = hist

    # ---- property oracle: Coq checker on the same outputs
    n_coq = n_pyonly = 0
    if have_coq_checker():
        exprs, idx = [], []
        per_fn_quota = {}
        for i, (c, r) in enumerate(zip(cases, results)):
            if "exc" in r or not infos[i]:
                continue
            if tier == "quick" and not replay:
                # CPU budget of the quick tier: the Coq checker (55 ms/case) judges the corpus, every case the python
                # oracle rejects, and the first 12 cases per function; the rest is judged by the python exact oracle alone
                q = per_fn_quota.get(c["fn"], 0)
                if c["stream"] != "corpus" and id(c) not in {id(x) for x, _, _ in bad} and q >= 10:
                    n_pyonly += 1
                    continue
                per_fn_quota[c["fn"]] = q + 1
            e = coq_case_expr(c, r)
            if e is None:
                n_pyonly += 1
                continue
            exprs.append(e)
            idx.append(i)
        try:
            outs = c10corr.eval_lines(PID, COQ_HEADER, exprs, "chk", max(20, len(exprs) // (3 * cm.NCPU) + 1))
            bad_idx = {id(c) for c, _, _ in bad}
            for i, o in zip(idx, outs):
                n_coq += 1
                ok = o.replace(" ", "") == "(true,true,true)"
                py_ok = id(cases[i]) not in bad_idx
                if ok != py_ok:
                    R.corr_broken.append(f"Coq checker ({o}) and Python fractions oracle ({py_ok}) disagree on {cases[i]['fn']}")
                    if not ok:
                        bad.append((cases[i], results[i], [f"Coq checker c10_check rejects the result: {o}"]))
        except RuntimeError as e:
            R.corr_broken.append(f"checker evaluation failed: {str(e)[:400]}")
    elif coq_checker_planned():
        R.corr_broken.append("Checker/Prim.vo not built")
    R.cov["judged_by_coq_checker"] = n_coq
    R.cov["judged_by_python_exact_oracle_only"] = n_pyonly + (0 if have_coq_checker() else len(cases))
    R.cov["oracle_labels"] = (
        {"all 34 functions": "coq-proven-checker Checker/Prim.c10_check (c10_check_sound; vm_compute on the exact rationals of inputs and "
                             "outputs, untrusted witness from primlib) DECIDES; the python fractions oracle is evaluated as well and any "
                             "disagreement between the two is reported as a broken correspondence",
         "cases without a Coq verdict (counted in judged_by_python_exact_oracle_only)": "exception / non-finite output / circle with the "
                             "returned point exactly on the axis: python-exact-oracle; QUICK TIER ONLY: the Coq checker judges the corpus, "
                             "every case the python oracle rejects and the first 12 generated cases per function, the remaining generated "
                             "cases are judged by the python exact oracle alone (CPU budget); the thorough tier sends every case to Coq"}
        if have_coq_checker() else
        {"all 34 functions": "python-exact-oracle (fractions); decides alone"})

    # ---- model correspondence
    c10corr.correspondence(R, PID, cases, results, tier)
    if not replay:
        coverage_of_impl(R, PID, cases, tier)

    for c, r in list(zip(cases, results))[:400:150]:
        if "exc" not in r:
            d, p1, p2 = result_points(c, r)
            R.sample(dict(fn=c["fn"], stream=c["stream"], A=c["A"], B=c["B"], d=d, p1=p1, p2=p2))
    known = load_known()
    unknown = 0
    for c, r, f in bad:
        kid = known_id(c, r)
        kinds = {x[1:x.index("]")] for x in f if x.startswith("[")}
        # a known finding explains only the KIND of failure its entry describes; an exception, a non-finite value, a
        # negative distance, a modified argument or a history dependence is never explained by the entries below
        if kid and kid in known and kinds and kinds <= ROUTED_KINDS.get(kid, set()):
            R.known_finding(kid, known[kid]["what"])
        else:
            unknown += 1
            if unknown <= 5:
                R.failure(f"{c['fn']}: " + "; ".join(f[:3]), c, site=c["fn"])
    R.cov["failures_total"] = len(bad)
    R.cov["failures_matching_known_findings"] = len(bad) - unknown
    fail_by_fn = {}
    for c, r, f in bad:
        fail_by_fn.setdefault(c["fn"], []).append(f[0][:160])
    R.cov["failures_by_function"] = {k: dict(n=len(v), first=v[0]) for k, v in fail_by_fn.items()}

    if (R.proof_broken or R.corr_broken) and not unknown and not replay:
        extra = gen_cases(R.rng, tier, per_fn=300)
        res2, _ = run_impl_cases(PID, extra, tag="search")
        R.cov["search_evaluations"] = len(extra)
        for c, r in zip(extra, res2):
            f, _ = judge_py(c, r)
            if f and not (known_id(c, r) in known):
                R.failure(f"{c['fn']}: " + "; ".join(f[:3]), c, site=c["fn"])
                break
    return R.finish()
