"""C18 — Simplex solvers return the minimum-norm point of the convex hull of 1-4 points.

Observed: get_closest_point_to_origin(Y, n, inf) (Jolt GJK) and
distance_subalgorithm_with_backup_procedure(simplex, Solution(), True) (original GJK).

Proofs : coq/theories/Props/C18.v (model Model/Simplex.v, checker Checker/Kkt.v).
Verdict: for every case and both solvers the Coq-proven certificate `c18_cert`
         (Checker/Kkt.v, theorem c18_cert_sound) is evaluated by vm_compute inside coqc
         on the exact rationals of the implementation's binary64 inputs and outputs:
           (1) a witness q (exact optimum from an untrusted Python oracle, with carrier and
               weights) passes kkt_cert with tau = 0  =>  q IS the minimum-norm point of conv Y;
           (2) | |p| - |q| | <= e ;
           (3) p is within e of conv(returned subset) (witness weights: untrusted, exact);
           (4) original solver only: returned weights >= 0, |sum - 1| <= 1e-9, reproduce p
               from the returned (reordered) subset within e  (bary_cert);
         with e = 1e-9 * max(1, largest coordinate magnitude of the input points).  Since
         max|coordinate| <= max|y_i|, e is at most the property tolerance 1e-9 * L,
         L = max(1, max |y_i|) (DESIGN 3.1): acceptance implies the property.
Tie    : the Coq model (binary64 instance) is run on the same inputs.  On integer
         lattices binary64 arithmetic is exact up to the final divisions, so returned
         point, squared norm and bit set must be bit-identical.  On real inputs numba's
         np.dot may differ from the model's left-to-right dot by an ulp, so the bit set is
         compared only where the model's own answer is stable under 8 random relative
         1e-12 perturbations of the input (decision margins clear), and the norm must lie
         inside the model's sensitivity band over those perturbations widened by
         1e-9*|p| + 1e-12*L.  A mismatch on a stable case is re-examined with 40 more
         perturbations before it counts.
"""
import itertools
import json
import math
import os
import re
from concurrent.futures import ProcessPoolExecutor
from fractions import Fraction as Fr

from .. import common as cm

PID = "C18"
PROOF_FILES = ["theories/Props/C18.v", "theories/Checker/Kkt.v", "theories/Spec/ConvexHull.v",
               "theories/Proofs/SimplexLine.v", "theories/Proofs/SimplexTriangle.v",
               "theories/Proofs/SimplexLattice.v", "theories/Proofs/SimplexTransfer.v",
               "theories/Proofs/SimplexTetra.v"]
REL = "(1 # 1000000000)"
EPS = 2.0 ** -52

HEADER = """From Coq Require Import List NArith ZArith QArith PrimFloat.
From D3 Require Import Base.Ops Base.Vec Model.Simplex Model.SimplexRun Checker.Kkt.
Import ListNotations.
Definition t3 (x : bool * bool * bool) : list bool := let '(a, b, c) := x in [a; b; c].
"""


# ------------------------------------------------------------------ exact oracle (untrusted)
SUBS = {k: [S for r in range(1, k + 1) for S in itertools.combinations(range(k), r)] for k in (1, 2, 3, 4)}


def _det3(m):
    return (m[0][0] * (m[1][1] * m[2][2] - m[1][2] * m[2][1])
            - m[0][1] * (m[1][0] * m[2][2] - m[1][2] * m[2][0])
            + m[0][2] * (m[1][0] * m[2][1] - m[1][1] * m[2][0]))


def _solve_small(M, b):
    n = len(b)
    if n == 1:
        return ([b[0]], M[0][0]) if M[0][0] != 0 else None
    if n == 2:
        d = M[0][0] * M[1][1] - M[0][1] * M[1][0]
        if d == 0:
            return None
        return ([b[0] * M[1][1] - M[0][1] * b[1], M[0][0] * b[1] - b[0] * M[1][0]], d)
    d = _det3(M)
    if d == 0:
        return None
    xs = []
    for c in range(3):
        Mc = [[(b[r] if cc == c else M[r][cc]) for cc in range(3)] for r in range(3)]
        xs.append(_det3(Mc))
    return (xs, d)


def min_norm_int(P):
    """P: integer 3-vectors.  Exact minimum-norm point of conv(P): (S, nums, den),
    weights nums[i]/den (>= 0, sum 1) on the affinely independent carrier S."""
    k = len(P)
    G = [[P[i][0] * P[j][0] + P[i][1] * P[j][1] + P[i][2] * P[j][2] for j in range(k)] for i in range(k)]
    best = None
    for S in SUBS[k]:
        m = len(S)
        s0 = S[0]
        if m == 1:
            nums, den = [1], 1
        else:
            M = [[G[S[i]][S[j]] - G[S[i]][s0] - G[s0][S[j]] + G[s0][s0] for j in range(1, m)] for i in range(1, m)]
            b = [-(G[s0][S[i]] - G[s0][s0]) for i in range(1, m)]
            r = _solve_small(M, b)
            if r is None:
                continue
            mu, den = r
            if den < 0:
                den, mu = -den, [-x for x in mu]
            nums = [den - sum(mu)] + mu
            if any(x < 0 for x in nums):
                continue
        n2 = sum(nums[i] * nums[j] * G[S[i]][S[j]] for i in range(m) for j in range(m))
        if best is None or n2 * best[3] * best[3] < best[2] * den * den:
            best = (S, nums, n2, den)
    S, nums, _, den = best
    return S, nums, den


def _to_int(vs):
    """list of vectors of Fractions with power-of-two denominators -> integers * common scale"""
    D = 1
    for v in vs:
        for x in v:
            if x.denominator > D:
                D = x.denominator
    return [[int(x * D) for x in v] for v in vs], D


def oracle(Y):
    """exact optimum of conv(Y): carrier S, weights lam (Fractions), point q (Fractions)"""
    P, D = _to_int([[Fr(x) for x in p] for p in Y])
    S, nums, den = min_norm_int(P)
    lam = [Fr(x, den) for x in nums]
    q = [sum(l * P[i][c] for l, i in zip(lam, S)) / D for c in range(3)]
    return list(S), lam, q


def nearest_weights(sub_pts, p):
    """exact weights (>= 0, sum 1, one per point of sub_pts) of the point of conv(sub_pts)
    nearest to p: an untrusted witness for `near_hull_cert`."""
    P, _ = _to_int([[Fr(a) - Fr(b) for a, b in zip(s, p)] for s in sub_pts])
    S, nums, den = min_norm_int(P)
    lam = [Fr(0)] * len(sub_pts)
    for i, x in zip(S, nums):
        lam[i] = Fr(x, den)
    return lam


# ------------------------------------------------------------------ generators
def lattice_all(k, vals=(-1.0, 0.0, 1.0)):
    pts = [list(p) for p in itertools.product(vals, repeat=3)]
    for c in itertools.product(pts, repeat=k):
        yield [list(p) for p in c]


def lattice_sample(rng, k, vals):
    return [[float(rng.choice(vals)) for _ in range(3)] for _ in range(k)]


def _unit(rng):
    while True:
        v = [rng.gauss(0, 1) for _ in range(3)]
        n = math.sqrt(sum(x * x for x in v))
        if n > 1e-3:
            return [x / n for x in v]


def _rot(rng):
    a, b = _unit(rng), _unit(rng)
    d = sum(x * y for x, y in zip(a, b))
    b = [y - d * x for x, y in zip(a, b)]
    n = math.sqrt(sum(x * x for x in b))
    if n < 1e-6:
        return _rot(rng)
    b = [x / n for x in b]
    c = [a[1] * b[2] - a[2] * b[1], a[2] * b[0] - a[0] * b[2], a[0] * b[1] - a[1] * b[0]]
    return [a, b, c]


KINDS = ["aniso", "aniso", "iso", "dup", "collinear", "coplanar", "wellcond"]
MODES = ["inside", "near", "far", "vertex", "edge"]


def gen_real(rng):
    """k points with extents (1, s2, s3), s_i log-uniform over 12 orders of magnitude,
    randomly rotated; the origin placed inside / near / far / near a vertex / near an edge;
    optionally a duplicated point, a point (numerically) collinear or coplanar with others."""
    k = rng.choice([1, 2, 3, 3, 4, 4, 4])
    kind = rng.choice(KINDS)
    mode = rng.choice(MODES)
    s = [10 ** rng.uniform(-12, 0) for _ in range(3)]
    s[rng.randrange(3)] = 1.0
    if kind == "iso":
        s = [1.0, 1.0, 1.0]
    if kind == "wellcond":
        s = [10 ** rng.uniform(-1, 0) for _ in range(3)]
    R = _rot(rng)
    base = [[rng.uniform(-1, 1) * s[j] for j in range(3)] for _ in range(k)]
    if mode == "inside":
        w = [rng.random() for _ in range(k)]
        sw = sum(w)
        c = [sum(w[i] / sw * base[i][j] for i in range(k)) for j in range(3)]
    elif mode == "near":
        w = [rng.random() for _ in range(k)]
        sw = sum(w)
        c = [sum(w[i] / sw * base[i][j] for i in range(k)) + rng.gauss(0, 1) * s[j] * 10 ** rng.uniform(-3, 0)
             for j in range(3)]
    elif mode == "far":
        c = [rng.uniform(-3, 3) for _ in range(3)]
    elif mode == "vertex":
        c = [x + rng.gauss(0, 1) * 10 ** rng.uniform(-14, -1) for x in base[rng.randrange(k)]]
    else:
        i, j2, t = rng.randrange(k), rng.randrange(k), rng.random()
        c = [(1 - t) * base[i][j] + t * base[j2][j] + rng.gauss(0, 1) * 10 ** rng.uniform(-14, -1) for j in range(3)]
    pts = [[b[j] - c[j] for j in range(3)] for b in base]
    pts = [[sum(R[r][j] * p[j] for j in range(3)) for r in range(3)] for p in pts]
    if kind == "dup" and k > 1:
        i = rng.randrange(k)
        j2 = (i + 1 + rng.randrange(k - 1)) % k
        pts[j2] = list(pts[i])
    if kind == "collinear" and k > 2:
        i = rng.randrange(k)
        o = [x for x in range(k) if x != i]
        t = rng.uniform(-1, 2)
        pts[i] = [(1 - t) * pts[o[0]][j] + t * pts[o[1]][j] for j in range(3)]
    if kind == "coplanar" and k > 3:
        i = rng.randrange(k)
        o = [x for x in range(k) if x != i]
        t, u = rng.uniform(-1, 2), rng.uniform(-1, 2)
        pts[i] = [(1 - t - u) * pts[o[0]][j] + t * pts[o[1]][j] + u * pts[o[2]][j] for j in range(3)]
    return dict(pts=pts, gen=f"real:{kind}:{mode}")


def perturb(rng, pts, rel=1e-12):
    L = max(1.0, max(abs(x) for p in pts for x in p))
    return [[x * (1.0 + rel * rng.uniform(-1, 1)) + rel * L * 1e-3 * rng.uniform(-1, 1) for x in p] for p in pts]


# ------------------------------------------------------------------ Coq literals
def ql(x):
    x = Fr(x)
    n, d = x.numerator, x.denominator
    return f"({n}#{d})" if n >= 0 else f"(({n})#{d})"


def qv(p):
    return "(V " + " ".join(ql(x) for x in p) + ")"


def qlist(xs):
    return "[" + ";".join(ql(x) for x in xs) + "]"


def nlist(xs):
    return "[" + ";".join(str(int(i)) for i in xs) + "]%nat"


def fv(p):
    return "(V " + " ".join(cm.fhex(x) for x in p) + ")"


def fY(pts):
    return "([" + ";".join(fv(p) for p in pts) + "]%float)"


def parse_coq_value(s):
    s = s.replace("%Z", "").replace("%float", "").replace("%nat", "").replace("%N", "").replace("%Q", "")
    s = re.sub(r"\((-[0-9][0-9.e+-]*)\)", r"\1", s)
    s = s.replace("(", "[").replace(")", "]").replace(";", ",")
    s = re.sub(r"\bneg_infinity\b", "-1e999", s)
    s = re.sub(r"\binfinity\b", "1e999", s)
    s = re.sub(r"\bnan\b", "NaN", s)
    return json.loads(s)


def bits_idx(bits, k):
    return [i for i in range(k) if bits & (1 << i)]


def unhex(xs):
    return [float.fromhex(x) for x in xs]


def affinely_dependent(pts):
    """exact: the k points do not span a (k-1)-dimensional affine subspace"""
    P, _ = _to_int([[Fr(x) for x in p] for p in pts])
    k = len(P)
    if k == 1:
        return False
    d = [[P[i][c] - P[0][c] for c in range(3)] for i in range(1, k)]
    if k == 2:
        return not any(d[0])
    if k == 3:
        return not any(_fcross(d[0], d[1]))
    return _det3(d) == 0


# ------------------------------------------------------------------ per-case preparation (worker pool)
def prepare(args):
    """case + implementation result -> Coq expression (certificates and model runs)."""
    pts, r, perts = args
    k = len(pts)
    S, lam, q = oracle(pts)
    Y = "[" + ";".join(qv(p) for p in pts) + "]%Q"
    certs = []
    layout = []
    j = r["jolt"]
    if "exc" not in j and j.get("success"):
        p = unhex(j["v"])
        sub = bits_idx(j["bits"], k)
        if sub and all(math.isfinite(x) for x in p):
            lamp = nearest_weights([pts[i] for i in sub], p)
            certs.append(f"t3 (c18_cert {REL} Y {qv(p)} {nlist(sub)} {qlist(lamp)} {qv(q)} {nlist(S)} {qlist(lam)})")
            layout.append("jolt")
    o = r["orig"]
    if "exc" not in o:
        p = unhex(o["v"])
        sub = o["idx"]
        w = unhex(o["bary"])
        if sub and all(0 <= i < k for i in sub) and all(math.isfinite(x) for x in p + w):
            lamp = nearest_weights([pts[i] for i in sub], p)
            certs.append(f"t3 (c18_cert {REL} Y {qv(p)} {nlist(sub)} {qlist(lamp)} {qv(q)} {nlist(S)} {qlist(lam)})")
            layout.append("orig")
            certs.append(f"[bary_cert Y {qv(p)} {nlist(sub)} {qlist(w)} {REL} (c18_tol {REL} Y)]")
            layout.append("bary")
    models = [f"jolt_f {fY(pts)}"] + [f"jolt_f {fY(pp)}" for pp in perts]
    expr = (f"(let Y := {Y} in [" + "; ".join(certs) + "]%list, [" + "; ".join(models) + "]%list)")
    return expr, layout, [float(x) for x in q], S, affinely_dependent(pts)


# ------------------------------------------------------------------ known-finding classes
def _fdot(a, b):
    return a[0] * b[0] + a[1] * b[1] + a[2] * b[2]


def _fsub(a, b):
    return [a[0] - b[0], a[1] - b[1], a[2] - b[2]]


def _fcross(a, b):
    return [a[1] * b[2] - a[2] * b[1], a[2] * b[0] - a[0] * b[2], a[0] * b[1] - a[1] * b[0]]


def geometry(pts):
    """Exact (rational) shape measures of a configuration.
    rho3(T) = |ab x ac|^2 / (longest edge^2)^2 of a triangle (sin^2 of its sharpness),
    rho4    = (6 Vol)^2 / (longest edge^2)^3 of the tetrahedron; aspect = sqrt of the smallest
    strictly positive rho (1.0 if none).  For k = 4 also the exact plane tests of
    origin_outside_of_tetrahedron_planes."""
    Y = [[Fr(x) for x in p] for p in pts]
    k = len(Y)
    rhos = []
    for T in itertools.combinations(range(k), 3):
        a, b, c = (Y[i] for i in T)
        e = max(_fdot(_fsub(b, a), _fsub(b, a)), _fdot(_fsub(c, a), _fsub(c, a)), _fdot(_fsub(c, b), _fsub(c, b)))
        if e > 0:
            n = _fcross(_fsub(b, a), _fsub(c, a))
            rhos.append(_fdot(n, n) / (e * e))
    out = dict(k=k)
    if k == 4:
        a, b, c, d = Y
        ab, ac, ad, bd, bc = _fsub(b, a), _fsub(c, a), _fsub(d, a), _fsub(d, b), _fsub(c, b)
        e = max(_fdot(_fsub(Y[i], Y[j]), _fsub(Y[i], Y[j])) for i in range(4) for j in range(i))
        v6 = _fdot(ad, _fcross(ab, ac))
        if e > 0:
            rhos.append(v6 * v6 / (e * e * e))
        n0, n1, n2, n3 = _fcross(ab, ac), _fcross(ac, ad), _fcross(ad, ab), _fcross(bd, bc)
        signp = [_fdot(a, n0), _fdot(a, n1), _fdot(a, n2), _fdot(b, n3)]
        signd = [_fdot(ad, n0), _fdot(ab, n1), _fdot(ac, n2), -_fdot(ab, n3)]
        out["signp"] = [float(x) for x in signp]
        out["signd"] = [float(x) for x in signd]
        same = all(x > 0 for x in signd) or all(x < 0 for x in signd)
        out["plane_band"] = bool(same and any(abs(x) <= 2 * Fr(EPS) for x in signp))
    pos = [x for x in rhos if x > 0]
    out["aspect"] = math.sqrt(float(min(pos))) if pos else 1.0
    out["exactly_degenerate"] = any(x == 0 for x in rhos)
    return out


# thresholds of the known-finding input classes (aspect as defined in `geometry`)
JOLT_NEEDLE_ASPECT = 1e-6
ORIG_ILLCOND_ASPECT = 1e-2

KNOWN_CLASSES = {
    # id -> (solver, predicate on geometry)
    "C18-JOLT-PLANE-EPS": ("jolt", lambda g: g["k"] == 4 and g.get("plane_band", False)),
    "C18-JOLT-NEEDLE": ("jolt", lambda g: g["k"] >= 3 and g["aspect"] < JOLT_NEEDLE_ASPECT),
    "C18-ORIG-ILLCOND": ("orig", lambda g: g["k"] >= 3 and g["aspect"] < ORIG_ILLCOND_ASPECT),
}


def classify(solver, pts):
    g = geometry(pts)
    return [kid for kid, (s, pred) in KNOWN_CLASSES.items() if s == solver and pred(g)], g


# ------------------------------------------------------------------ running
def run_impl_cases(cases, tag):
    nw = min(cm.NCPU, max(1, len(cases) // 200))
    chunks = [cases[i::nw] for i in range(nw)]
    res = cm.run_impl_parallel(PID, "c18", [dict(cases=[c["pts"] for c in ch]) for ch in chunks], timeout=900, tag=tag)
    out = [None] * len(cases)
    for w, (rr, ch) in enumerate(zip(res, chunks)):
        idxs = list(range(w, len(cases), nw))
        if rr["status"] == "ok":
            for i, x in zip(idxs, rr["result"]["results"]):
                out[i] = x
        else:
            singles = cm.run_impl_parallel(PID, "c18", [dict(cases=[c["pts"]]) for c in ch], timeout=120, tag=tag + "_iso")
            for i, s in zip(idxs, singles):
                if s["status"] == "ok":
                    out[i] = s["result"]["results"][0]
                else:
                    e = dict(exc=f"PROCESS-{s['status'].upper()}", exc_msg=f"rc={s.get('rc')} {s.get('log', '')[-300:]}")
                    out[i] = dict(jolt=e, orig=e)
    return out


def evaluate(R, cases, results, n_pert, tag, per_file=250):
    """Prepare witnesses, evaluate certificates and model runs in Coq.  Returns per case
    dict(certs={name: [bools]}, model=[...], q=..., S=...)."""
    jobs = []
    for c, r in zip(cases, results):
        perts = [perturb(R.rng, c["pts"]) for _ in range(n_pert if c["gen"].startswith("real") or c["gen"] == "corpus" else 0)]
        c["_perts"] = perts
        jobs.append((c["pts"], r, perts))
    with ProcessPoolExecutor(max_workers=cm.NCPU) as ex:
        prepared = list(ex.map(prepare, jobs, chunksize=64))
    outs = cm.coq_eval_lines(PID, HEADER, [p[0] for p in prepared], tag=tag, per_file=per_file)
    ev = []
    for (expr, layout, q, S, dep), o in zip(prepared, outs):
        val = parse_coq_value(o)
        certs = {name: v for name, v in zip(layout, val[0])}
        ev.append(dict(certs=certs, model=val[1], q=q, S=S, dep=dep))
    return ev


def norm(v):
    return math.sqrt(sum(x * x for x in v))


def judge(case, r, e):
    """Property verdict for one case from the Coq certificates.  Returns a list of
    (solver, what) failures and a list of harness problems (witness rejected)."""
    fails, problems = [], []
    pts = case["pts"]
    k = len(pts)
    j = r["jolt"]
    if "exc" in j:
        fails.append(("jolt", f"raised {j['exc']}: {j.get('exc_msg', '')}"))
    elif not j["success"]:
        fails.append(("jolt", "get_closest_point_to_origin(Y, n, inf) returned success=False"))
    else:
        if not j["y_unchanged"]:
            fails.append(("jolt", "Y was modified"))
        if "jolt" not in e["certs"]:
            fails.append(("jolt", f"unusable result: v={j.get('v')} bits={j.get('bits')}"))
    o = r["orig"]
    if "exc" in o:
        fails.append(("orig", f"raised {o['exc']}: {o.get('exc_msg', '')}"))
    else:
        if not o["built_ok"]:
            problems.append("harness could not build the simplex in the requested order")
        if "orig" not in e["certs"]:
            fails.append(("orig", f"unusable result: v={o.get('v')} idx={o.get('idx')} bary={o.get('bary')}"))
        else:
            sub_pts = unhex(o["sub"])
            want = [x for i in o["idx"] for x in pts[i]]
            if sub_pts != [float(x) for x in want]:
                fails.append(("orig", "simplex.points[:n] after the call are not the input points named by indices_polytope1"))
            if len(set(o["idx"])) != len(o["idx"]):
                fails.append(("orig", f"returned subset repeats an index: {o['idx']}"))
    for name in ("jolt", "orig"):
        c3 = e["certs"].get(name)
        if c3 is None:
            continue
        res = r[name]
        p = unhex(res["v"])
        if not c3[0]:
            problems.append("oracle witness rejected by kkt_cert (tau=0): cannot judge")
            continue
        L = max(1.0, max(abs(x) for y in pts for x in y))
        if not c3[1]:
            fails.append((name, f"norm {norm(p)!r} differs from the minimum {norm(e['q'])!r} by more than 1e-9*{L!r} "
                                f"(returned subset {bits_idx(res['bits'], k) if name == 'jolt' else res['idx']}, optimal carrier {e['S']})"))
        if not c3[2]:
            fails.append((name, f"returned point is farther than 1e-9*{L!r} from the hull of the returned subset "
                                f"{bits_idx(res['bits'], k) if name == 'jolt' else res['idx']}"))
    b = e["certs"].get("bary")
    if b is not None and not b[0]:
        fails.append(("orig", f"barycentric weights {unhex(o['bary'])} are not >=0 / sum to 1 / reproduce the point from the subset {o['idx']} within tolerance"))
    return fails, problems


def compare_model(case, r, e):
    """Correspondence model (binary64) vs implementation for the Jolt solver.
    Returns (status, detail): status in ok | skipped-unstable | mismatch."""
    j = r["jolt"]
    m = e["model"][0]
    if "exc" in j:
        return "skipped-exc", ""
    if m[0] != (1 if j["success"] else 0):
        return "mismatch", f"success flag: impl {j['success']} model {m[0]}"
    if not j["success"]:
        return "ok", ""
    v = unhex(j["v"])
    vl = float.fromhex(j["v_len_sq"])
    exact = not (case["gen"].startswith("real") or case["gen"] == "corpus")
    if exact or not e["model"][1:]:
        mv = [float(x) for x in m[1][:3]]
        if m[2] != j["bits"]:
            return "mismatch", f"bit set: impl {j['bits']} model {m[2]}"
        if exact and (mv != v or float(m[1][3]) != vl):
            return "mismatch", f"point/len: impl {v} {vl} model {m[1]}"
        return "ok", ""
    perts = e["model"][1:]
    stable = all(pm[0] == 1 and pm[2] == m[2] for pm in perts)
    if not stable:
        return "skipped-unstable", ""
    if m[2] != j["bits"]:
        return "mismatch-bits", f"bit set: impl {j['bits']} model {m[2]} (stable under {len(perts)} perturbations)"
    norms = [math.sqrt(float(pm[1][3])) for pm in perts] + [math.sqrt(float(m[1][3]))]
    L = max(1.0, max(abs(x) for y in case["pts"] for x in y))
    n_i = math.sqrt(vl)
    wid = 1e-9 * math.sqrt(float(m[1][3])) + 1e-12 * L
    if not (min(norms) - wid <= n_i <= max(norms) + wid):
        return "mismatch", f"norm: impl {n_i!r} outside model band [{min(norms)!r}, {max(norms)!r}] +- {wid!r}"
    return "ok", ""


def gen_cases(R, tier, replay):
    cases = []
    if replay:
        c = json.loads(open(replay).read())["case"]
        c.setdefault("gen", "corpus")
        return [c]
    corpus = cm.VERIF / "corpus" / PID
    if corpus.exists():
        for f in sorted(corpus.glob("*.json")):
            c = json.loads(f.read_text())["case"]
            c["gen"] = "corpus"
            cases.append(c)
    for k in (1, 2, 3):
        for pts in lattice_all(k):
            cases.append(dict(pts=pts, gen=f"lattice3:k{k}"))
    n4 = 4000 if tier == "quick" else 60000
    seen = set()
    while len(seen) < n4:
        pts = lattice_sample(R.rng, 4, (-1, 0, 1))
        key = tuple(x for p in pts for x in p)
        if key not in seen:
            seen.add(key)
            cases.append(dict(pts=pts, gen="lattice3:k4"))
    if tier != "quick":
        for k, n in ((2, 3000), (3, 12000), (4, 25000)):
            for _ in range(n):
                cases.append(dict(pts=lattice_sample(R.rng, k, (-2, -1, 0, 1, 2)), gen=f"lattice5:k{k}"))
    nreal = 2500 if tier == "quick" else 30000
    for _ in range(nreal):
        cases.append(gen_real(R.rng))
    return cases


def run(tier, seed, replay=None):
    R = cm.Run(PID, "proof", tier, seed)
    R.cov["rule"] = (
        "case = 1..4 points. Streams: ALL configurations with coordinates in {-1,0,1} for k=1,2,3 (20439); "
        "distinct seeded sample for k=4 (quick 4000 / thorough 60000 of 531441); thorough: sampled {-2..2}^(3k), k=2,3,4; "
        "random real configurations: extents (1,s2,s3) with s log-uniform in [1e-12,1], random rotation, origin "
        "inside/near/far/near-vertex/near-edge, kinds aniso/iso/wellcond/duplicate point/numerically collinear/coplanar; corpus. "
        "Both solvers run on every case. non-trivial = k>=2 and the optimal carrier (exact oracle, confirmed by kkt_cert) "
        "is not a single input vertex, or the configuration is affinely dependent; distinct by canonical hash of the points")
    R.assumptions += [
        "general theorems are about the Gallina model Model/Simplex.v in exact real arithmetic; the tie to /repo is the correspondence run here (bit-exact on lattices, stability-gated on reals)",
        "per-case verdicts are consequences of c18_cert_sound/bary_cert_sound (Checker/Kkt.v) applied to the exact rationals of the implementation's binary64 inputs/outputs; universality over inputs comes from generation",
        "IEEE-754 rounding is not modelled in the theorems; its effect is measured against the property tolerance by the certificates",
        "harness/compat.py import shim; numpy/numba/CPython/OpenBLAS; the harness builds SimplexInfo through set_first_point/add_new_point with zero-initialised arrays",
    ]
    R.check_proofs(PROOF_FILES)

    cases = gen_cases(R, tier, replay)
    results = run_impl_cases(cases, "impl")
    R.cov["evaluations"] = len(cases)
    n_pert = 8
    try:
        ev = evaluate(R, cases, results, n_pert, "cases", per_file=250 if tier == "quick" else 400)
    except RuntimeError as ex:
        R.corr_broken.append(f"Coq evaluation of certificates/model failed: {str(ex)[:600]}")
        return R.finish()

    known_ids = {e["id"] for e in R.known}
    distinct = set()
    hist = {}
    fail_hist = {}
    corr = dict(ok=0, skipped_unstable=0, mismatch=0, exact_compared=0)
    suspects = []
    n_judged = 0
    for i, (c, r, e) in enumerate(zip(cases, results, ev)):
        g = c["gen"]
        hist[g] = hist.get(g, 0) + 1
        fails, problems = judge(c, r, e)
        n_judged += 1
        for pb in problems:
            if len(R.corr_broken) < 5:
                R.corr_broken.append(f"{pb} (case {cm.canon_hash(c['pts'])})")
        for solver, what in fails:
            kids, geo = classify(solver, c["pts"])
            hit = [k for k in kids if k in known_ids]
            key = (solver, hit[0] if hit else "UNCLASSIFIED")
            fail_hist[str(key)] = fail_hist.get(str(key), 0) + 1
            if hit:
                R.known_finding(hit[0], next(x["what"] for x in R.known if x["id"] == hit[0]))
            else:
                R.failure(f"{solver}: {what}", dict(pts=c["pts"], gen=g, solver=solver, candidate_classes=kids,
                                                   aspect=geo["aspect"], plane_band=geo.get("plane_band")),
                          site=("get_closest_point_to_origin" if solver == "jolt" else "distance_subalgorithm_with_backup_procedure"))
        st, detail = compare_model(c, r, e)
        if st == "ok":
            corr["ok"] += 1
            if not g.startswith("real") and g != "corpus":
                corr["exact_compared"] += 1
        elif st == "skipped-unstable":
            corr["skipped_unstable"] += 1
        elif st == "mismatch-bits":
            suspects.append((i, detail))
        elif st == "mismatch":
            corr["mismatch"] += 1
            if len(R.corr_broken) < 5:
                R.corr_broken.append(f"Jolt model vs implementation: {detail} on {c['pts']}")
        if len(c["pts"]) >= 2 and (len(e["S"]) > 1 or e["dep"]):
            distinct.add(cm.canon_hash(c["pts"]))
    # second look at bit-set mismatches on apparently stable real cases: 40 more perturbations
    if suspects:
        exprs = []
        for i, _ in suspects:
            perts = [perturb(R.rng, cases[i]["pts"]) for _ in range(40)]
            exprs.append("[" + "; ".join(f"jolt_f {fY(pp)}" for pp in perts) + "]%list")
        try:
            outs = cm.coq_eval_lines(PID, HEADER, exprs, tag="recheck", per_file=20)
            for (i, detail), o in zip(suspects, outs):
                ms = parse_coq_value(o)
                m0 = ev[i]["model"][0]
                if all(pm[0] == 1 and pm[2] == m0[2] for pm in ms):
                    corr["mismatch"] += 1
                    if len(R.corr_broken) < 5:
                        R.corr_broken.append(f"Jolt model vs implementation: {detail} (still stable under 40 more perturbations) on {cases[i]['pts']}")
                else:
                    corr["skipped_unstable"] += 1
        except RuntimeError as ex:
            R.corr_broken.append(f"recheck evaluation failed: {str(ex)[:300]}")
    R.cov["distinct_nontrivial"] = len(distinct)
    R.cov["judged_by_coq_certificate"] = n_judged
    R.cov["traces_validated_against_impl"] = corr["ok"]
    R.cov["correspondence"] = corr
    R.cov["input_histogram"] = hist
    R.cov["failure_histogram"] = fail_hist
    R.cov["exhaustive"] = False
    R.cov["exhaustive_substreams"] = "k=1,2,3 over {-1,0,1}^3 enumerated completely on every run"
    for c, r in list(zip(cases, results))[:1] + [x for x in zip(cases, results) if x[0]["gen"].startswith("real")][:2]:
        R.sample(dict(pts=c["pts"], gen=c["gen"],
                      jolt=dict(v=unhex(r["jolt"]["v"]), bits=r["jolt"]["bits"]) if r["jolt"].get("success") else r["jolt"],
                      orig=dict(v=unhex(r["orig"]["v"]), idx=r["orig"]["idx"], bary=unhex(r["orig"]["bary"])) if "exc" not in r["orig"] else r["orig"]))
    # proof or tie broke, no failing input yet: targeted search = 3x the real stream + lattice5, certificate-judged
    if (R.proof_broken or R.corr_broken) and not R.violations and not replay:
        extra = [gen_real(R.rng) for _ in range(6000)] + \
                [dict(pts=lattice_sample(R.rng, k, (-2, -1, 0, 1, 2)), gen=f"lattice5:k{k}") for k in (3, 4) for _ in range(3000)]
        res2 = run_impl_cases(extra, "search")
        try:
            ev2 = evaluate(R, extra, res2, 0, "search", per_file=400)
            R.cov["search_evaluations"] = len(extra)
            for c, r, e in zip(extra, res2, ev2):
                fails, _ = judge(c, r, e)
                for solver, what in fails:
                    kids, geo = classify(solver, c["pts"])
                    if not [k for k in kids if k in known_ids]:
                        R.failure(f"{solver}: {what}", dict(pts=c["pts"], gen=c["gen"], solver=solver), site=solver)
                        break
                if R.violations:
                    break
        except RuntimeError as ex:
            R.notes.append(f"search evaluation failed: {str(ex)[:300]}")
    return R.finish()
