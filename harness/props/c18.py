"""C18 — Simplex solvers return the minimum-norm point of the convex hull of 1-4 points.

Observed: get_closest_point_to_origin(Y, n, inf) (Jolt GJK) and
distance_subalgorithm_with_backup_procedure(simplex, Solution(), True) (original GJK).

Proofs : coq/theories/Props/C18.v (models Model/Simplex.v, Model/SimplexOrig.v; checkers
         Checker/Kkt.v (rationals, used by the in-Coq lattice theorems) and Checker/KktZ.v
         (integers, used here)).
Verdict: for every case and both solvers the Coq-proven certificate `c18_z` (Checker/KktZ.v,
         theorems c18_z_sound / c18_z_min_norm) is evaluated by vm_compute inside coqc on the
         exact values of the implementation's binary64 inputs and outputs (all numbers are
         passed as binary64 literals and scaled by one power of two 2^N to integers):
           (1) an untrusted witness (exact optimum from a Python oracle, weights rounded to
               multiples of 2^-128) passes kkt_z with slack 2^-120 L^2: a point q of the hull with
               |q|^2 <= |x|^2 + 2^-119 L^2 for all x in conv Y;
           (2) |p| <= |x| + e for all x in conv Y;
           (3) p is within e of conv(returned subset) (witness weights untrusted);
           (4) original solver only: returned weights >= 0, |sum - 1| <= 1e-9, reproduce p
               from the returned (reordered) subset in order within e  (bary_z);
         with e = 1e-9 * max(1, largest coordinate magnitude of the input points) <= 1e-9 * L,
         L = max(1, max |y_i|) (DESIGN 3.1).  (2)+(3) => | |p| - min norm | <= e.
         A decoding checksum (sum of all decoded integers) is recomputed here for every case.
Known  : failures are attributed to a known finding only inside its input class AND below the
         class's error bound (exact rational predicates, see `classify`); anything else is a
         VIOLATION.
Tie    : both Coq models (binary64 instance) are run on the same inputs and every output is
         compared (Jolt: point, squared length, bit set, both outcomes of the final
         comparison; original: point, squared distance, weights, index order).
         Exact streams (integer lattices / grids: every dot product, cross product and
         cofactor is exact in binary64, so BLAS summation order or FMA cannot matter): the only
         rounding-dependent decisions are comparisons between squared distances of candidate
         points; the models flag near ties of those (codes 70/71/170).  Without such a flag the
         discrete outputs (and for Jolt the point, for the original solver the weights) must be
         bit-identical; BLAS-computed quantities (np.dot(v, v); bary.dot(points)) within a few ulp.
         Other streams: inputs in the class of the solver's ILLCOND known finding (thin sub-simplex:
         aspect < 1e-3 for the original solver, < 1e-6 for Jolt) are not compared (both results are
         rounding noise there); the discrete outputs are compared only where no such near tie is flagged
         (input perturbations move both sides of such a comparison together, so they cannot
         reveal it) and the model's own answer is unchanged under 8 random relative 2^-50
         perturbations of the input (margins of the sign decisions on differences of dot
         products clear) and the two points differ by more than 1e-9 L (two carriers of numerically
         the same point are a tie by definition), the continuous ones must lie within 4x the spread over those perturbations
         + 16 ulp of the scale.  A mismatch on a stable case is re-examined with 40 more
         perturbations before it counts.
"""
import itertools
import json
import math
import re
from concurrent.futures import ProcessPoolExecutor
from fractions import Fraction as Fr

from .. import common as cm

PID = "C18"
PROOF_FILES = ["theories/Props/C18.v", "theories/Checker/Kkt.v", "theories/Checker/KktZ.v",
               "theories/Spec/ConvexHull.v", "theories/Proofs/SimplexTrace.v",
               "theories/Proofs/SimplexLine.v", "theories/Proofs/SimplexTriangle.v",
               "theories/Proofs/SimplexTetra.v", "theories/Proofs/SimplexCara.v", "theories/Proofs/SimplexTetraFlat.v", "theories/Proofs/SimplexCollinear.v", "theories/Proofs/SimplexTetraFlatEps.v",
               "theories/Proofs/SimplexOrig.v", "theories/Proofs/SimplexOrigCand.v", "theories/Proofs/SimplexOrigFace.v",
               "theories/Proofs/SimplexOrigTetra.v", "theories/Proofs/SimplexLattice.v",
               "theories/Proofs/SimplexLattice4.v", "theories/Proofs/SimplexRefuted.v"] + \
              [f"theories/Proofs/SimplexLat4{s}{i}.v" for s in "JO" for i in range(9)]
BUILD_TARGETS = ["theories/Props/C18.vo", "theories/Model/SimplexRun.vo", "theories/Checker/KktZ.vo",
                 "theories/Proofs/SimplexTrace.vo"]
EPS = 2.0 ** -52
MW = 128                 # witness weights of the optimum are multiples of 2^-MW
MP = 64                  # witness weights of the hull point nearest to the returned point: multiples of 2^-MP
TB = 2 * MW - 120        # KKT slack T = L^2 2^TB in the checker's units, i.e. 2^-120 L^2
N_PERT = 8
PERT_REL = 2.0 ** -50

HEADER = """From Coq Require Import List NArith ZArith QArith PrimFloat.
From D3 Require Import Base.Ops Base.Vec Model.Simplex Model.SimplexOrig Model.SimplexRun Checker.KktZ.
Import ListNotations.
"""

JOLT_CODES = [1, 2, 3, 4, 5, 6, 7, 8, 10, 11, 12, 13, 14, 20, 21, 22, 23, 24, 25, 26, 30, 31, 32,
              40, 41, 42, 43, 44, 45, 46, 47, 51, 52, 53, 55, 56, 57, 60, 61]
ORIG_CODES = [91, 92, 93, 94] + [100 + 3 * c + r for c in (1, 2, 3, 4, 5, 6, 7, 11, 12, 13, 14) for r in (0, 1, 2)] \
    + [100 + 3 * c + r for c in (8, 9, 10) for r in (1, 2)]


# ------------------------------------------------------------------ exact oracle (untrusted)
SUBS = {k: [S for r in range(1, k + 1) for S in itertools.combinations(range(k), r)] for k in (1, 2, 3, 4)}


def _det3(m):
    return (m[0][0] * (m[1][1] * m[2][2] - m[1][2] * m[2][1])
            - m[0][1] * (m[1][0] * m[2][2] - m[1][2] * m[2][0])
            + m[0][2] * (m[1][0] * m[2][1] - m[1][1] * m[2][0]))


def _solve_small(M, b):
    n = len(b)
    if n == 1:
        return ([b[0]], M[0][0]) if M[0][0] != 0 else None
    if n == 2:
        d = M[0][0] * M[1][1] - M[0][1] * M[1][0]
        if d == 0:
            return None
        return ([b[0] * M[1][1] - M[0][1] * b[1], M[0][0] * b[1] - b[0] * M[1][0]], d)
    d = _det3(M)
    if d == 0:
        return None
    xs = []
    for c in range(3):
        Mc = [[(b[r] if cc == c else M[r][cc]) for cc in range(3)] for r in range(3)]
        xs.append(_det3(Mc))
    return (xs, d)


def min_norm_int(P):
    """P: integer 3-vectors.  Exact minimum-norm point of conv(P): (S, nums, den),
    weights nums[i]/den (>= 0, sum 1) on the affinely independent carrier S."""
    k = len(P)
    G = [[P[i][0] * P[j][0] + P[i][1] * P[j][1] + P[i][2] * P[j][2] for j in range(k)] for i in range(k)]
    best = None
    for S in SUBS[k]:
        m = len(S)
        s0 = S[0]
        if m == 1:
            nums, den = [1], 1
        else:
            M = [[G[S[i]][S[j]] - G[S[i]][s0] - G[s0][S[j]] + G[s0][s0] for j in range(1, m)] for i in range(1, m)]
            b = [-(G[s0][S[i]] - G[s0][s0]) for i in range(1, m)]
            r = _solve_small(M, b)
            if r is None:
                continue
            mu, den = r
            if den < 0:
                den, mu = -den, [-x for x in mu]
            nums = [den - sum(mu)] + mu
            if any(x < 0 for x in nums):
                continue
        n2 = sum(nums[i] * nums[j] * G[S[i]][S[j]] for i in range(m) for j in range(m))
        if best is None or n2 * best[3] * best[3] < best[2] * den * den:
            best = (S, nums, n2, den)
    S, nums, _, den = best
    return S, nums, den


def _to_int(vs):
    """list of vectors of Fractions with power-of-two denominators -> integers * common scale"""
    D = 1
    for v in vs:
        for x in v:
            if x.denominator > D:
                D = x.denominator
    return [[int(x * D) for x in v] for v in vs], D


def oracle(Y):
    """exact optimum of conv(Y): carrier S, weights lam (Fractions), point q (Fractions)"""
    P, D = _to_int([[Fr(x) for x in p] for p in Y])
    S, nums, den = min_norm_int(P)
    lam = [Fr(x, den) for x in nums]
    q = [sum(l * P[i][c] for l, i in zip(lam, S)) / D for c in range(3)]
    return list(S), lam, q


def nearest_weights(sub_pts, p):
    """exact weights (>= 0, sum 1, one per point of sub_pts) of the point of conv(sub_pts)
    nearest to p: an untrusted witness for `near_z`."""
    P, _ = _to_int([[Fr(a) - Fr(b) for a, b in zip(s, p)] for s in sub_pts])
    S, nums, den = min_norm_int(P)
    lam = [Fr(0)] * len(sub_pts)
    for i, x in zip(S, nums):
        lam[i] = Fr(x, den)
    return lam


def round_weights(lam, bits):
    """Fractions >= 0 summing to 1 -> integers >= 0 summing to 2^bits (nearest multiples of 2^-bits)"""
    W = [int(l * (1 << bits) + Fr(1, 2)) for l in lam]
    i = max(range(len(W)), key=lambda j: W[j])
    W[i] += (1 << bits) - sum(W)
    assert all(w >= 0 for w in W) and sum(W) == 1 << bits
    return W


def expansion(W, bits):
    """integer 0 <= W <= 2^bits  ->  floats whose exact sum is W * 2^-bits (each chunk has <= 53 bits)"""
    out = []
    shift = max(0, W.bit_length() - 53)
    while W:
        chunk = W >> shift
        out.append(math.ldexp(float(chunk), shift - bits))
        W -= chunk << shift
        shift = max(0, W.bit_length() - 53)
    return out or [0.0]


# ------------------------------------------------------------------ generators
def lattice_all(k, vals=(-1.0, 0.0, 1.0)):
    pts = [list(p) for p in itertools.product(vals, repeat=3)]
    for c in itertools.product(pts, repeat=k):
        yield [list(p) for p in c]


def lattice_sample(rng, k, vals):
    return [[float(rng.choice(vals)) for _ in range(3)] for _ in range(k)]


def gen_grid(rng):
    """integer points with |coordinate| <= 72: every dot product, cross product and Johnson cofactor
    (degree <= 6) is below 2^53, hence exact in binary64 whatever the summation order; with exact
    duplicates / collinear / coplanar / mirrored points so that ties and boundaries occur."""
    k = rng.choice([2, 3, 3, 4, 4, 4])
    kind = rng.choice(["random", "random", "dup", "collinear", "coplanar", "mirror", "axis"])
    r = rng.choice([2, 4, 8])
    pts = [[rng.randint(-r, r) for _ in range(3)] for _ in range(k)]
    if kind == "dup" and k > 1:
        i = rng.randrange(k)
        pts[(i + 1 + rng.randrange(k - 1)) % k] = list(pts[i])
    if kind == "collinear" and k > 2:
        i = rng.randrange(k)
        o = [x for x in range(k) if x != i]
        t = rng.choice([-1, 0, 1, 2])
        pts[i] = [pts[o[0]][j] + t * (pts[o[1]][j] - pts[o[0]][j]) for j in range(3)]
    if kind == "coplanar" and k > 3:
        i = rng.randrange(k)
        o = [x for x in range(k) if x != i]
        t, u = rng.choice([-1, 0, 1, 2]), rng.choice([-1, 0, 1, 2])
        pts[i] = [pts[o[0]][j] + t * (pts[o[1]][j] - pts[o[0]][j]) + u * (pts[o[2]][j] - pts[o[0]][j]) for j in range(3)]
    if kind == "mirror" and k > 1:
        i = rng.randrange(k)
        pts[(i + 1 + rng.randrange(k - 1)) % k] = [-x for x in pts[i]]
    if kind == "axis":
        for p in pts:
            p[rng.randrange(3)] = 0
    return dict(pts=[[float(x) for x in p] for p in pts], gen=f"grid:{kind}")


def _unit(rng):
    while True:
        v = [rng.gauss(0, 1) for _ in range(3)]
        n = math.sqrt(sum(x * x for x in v))
        if n > 1e-3:
            return [x / n for x in v]


def _rot(rng):
    a, b = _unit(rng), _unit(rng)
    d = sum(x * y for x, y in zip(a, b))
    b = [y - d * x for x, y in zip(a, b)]
    n = math.sqrt(sum(x * x for x in b))
    if n < 1e-6:
        return _rot(rng)
    b = [x / n for x in b]
    c = [a[1] * b[2] - a[2] * b[1], a[2] * b[0] - a[0] * b[2], a[0] * b[1] - a[1] * b[0]]
    return [a, b, c]


KINDS = ["aniso", "aniso", "iso", "dup", "collinear", "coplanar", "wellcond"]
MODES = ["inside", "near", "far", "vertex", "edge"]


def gen_real(rng):
    """k points with extents (1, s2, s3), s_i log-uniform over 12 orders of magnitude,
    randomly rotated; the origin placed inside / near / far / near a vertex / near an edge;
    optionally a duplicated point, a point (numerically) collinear or coplanar with others."""
    k = rng.choice([1, 2, 3, 3, 4, 4, 4])
    kind = rng.choice(KINDS)
    mode = rng.choice(MODES)
    s = [10 ** rng.uniform(-12, 0) for _ in range(3)]
    s[rng.randrange(3)] = 1.0
    if kind == "iso":
        s = [1.0, 1.0, 1.0]
    if kind == "wellcond":
        s = [10 ** rng.uniform(-1, 0) for _ in range(3)]
    R = _rot(rng)
    base = [[rng.uniform(-1, 1) * s[j] for j in range(3)] for _ in range(k)]
    if mode == "inside":
        w = [rng.random() for _ in range(k)]
        sw = sum(w)
        c = [sum(w[i] / sw * base[i][j] for i in range(k)) for j in range(3)]
    elif mode == "near":
        w = [rng.random() for _ in range(k)]
        sw = sum(w)
        c = [sum(w[i] / sw * base[i][j] for i in range(k)) + rng.gauss(0, 1) * s[j] * 10 ** rng.uniform(-3, 0)
             for j in range(3)]
    elif mode == "far":
        c = [rng.uniform(-3, 3) for _ in range(3)]
    elif mode == "vertex":
        c = [x + rng.gauss(0, 1) * 10 ** rng.uniform(-14, -1) for x in base[rng.randrange(k)]]
    else:
        i, j2, t = rng.randrange(k), rng.randrange(k), rng.random()
        c = [(1 - t) * base[i][j] + t * base[j2][j] + rng.gauss(0, 1) * 10 ** rng.uniform(-14, -1) for j in range(3)]
    pts = [[b[j] - c[j] for j in range(3)] for b in base]
    pts = [[sum(R[r][j] * p[j] for j in range(3)) for r in range(3)] for p in pts]
    if kind == "dup" and k > 1:
        i = rng.randrange(k)
        j2 = (i + 1 + rng.randrange(k - 1)) % k
        pts[j2] = list(pts[i])
    if kind == "collinear" and k > 2:
        i = rng.randrange(k)
        o = [x for x in range(k) if x != i]
        t = rng.uniform(-1, 2)
        pts[i] = [(1 - t) * pts[o[0]][j] + t * pts[o[1]][j] for j in range(3)]
    if kind == "coplanar" and k > 3:
        i = rng.randrange(k)
        o = [x for x in range(k) if x != i]
        t, u = rng.uniform(-1, 2), rng.uniform(-1, 2)
        pts[i] = [(1 - t - u) * pts[o[0]][j] + t * pts[o[1]][j] + u * pts[o[2]][j] for j in range(3)]
    return dict(pts=pts, gen=f"real:{kind}:{mode}")


def gen_scaled(rng):
    """a `real` configuration times a global scale 10^U(-7, 4): reaches the absolute thresholds"""
    c = gen_real(rng)
    s = 10 ** rng.uniform(-7, 4)
    return dict(pts=[[x * s for x in p] for p in c["pts"]], gen="scaled" + c["gen"][4:])


def perturb(rng, pts, rel=PERT_REL):
    return [[x * (1.0 + rel * rng.uniform(-1, 1)) for x in p] for p in pts]


def is_exact_stream(gen):
    return gen.startswith("lattice") or gen.startswith("grid")


# ------------------------------------------------------------------ Coq literals / parsing
def flist(xs):
    return "[" + ";".join(cm.fhex(x) for x in xs) + "]%float"


def fflat(pts):
    return flist([x for p in pts for x in p])


def nlist(xs):
    return flist([float(i) for i in xs])


def wlist(Ws, bits):
    return "[" + ";".join(flist(expansion(W, bits)) for W in Ws) + "]"


def parse_coq_value(s):
    s = s.replace("%Z", "").replace("%float", "").replace("%nat", "").replace("%N", "").replace("%Q", "")
    s = re.sub(r"\((-[0-9][0-9.e+-]*)\)", r"\1", s)
    s = s.replace("(", "[").replace(")", "]").replace(";", ",")
    s = re.sub(r"\bneg_infinity\b", "-1e999", s)
    s = re.sub(r"\binfinity\b", "1e999", s)
    s = re.sub(r"\bnan\b", "NaN", s)
    return json.loads(s)


def bits_idx(bits, k):
    return [i for i in range(k) if bits & (1 << i)]


def unhex(xs):
    return [float.fromhex(x) for x in xs]


def scale_bits(xs):
    """smallest N >= 0 with x * 2^N an integer for all finite floats x"""
    n = 0
    for x in xs:
        if x != 0.0 and math.isfinite(x):
            n = max(n, Fr(x).denominator.bit_length() - 1)
    return n


def _fdot(a, b):
    return a[0] * b[0] + a[1] * b[1] + a[2] * b[2]


def _fsub(a, b):
    return [a[0] - b[0], a[1] - b[1], a[2] - b[2]]


def _fcross(a, b):
    return [a[1] * b[2] - a[2] * b[1], a[2] * b[0] - a[0] * b[2], a[0] * b[1] - a[1] * b[0]]


def affinely_dependent(pts):
    """exact: the k points do not span a (k-1)-dimensional affine subspace"""
    P, _ = _to_int([[Fr(x) for x in p] for p in pts])
    k = len(P)
    if k == 1:
        return False
    d = [[P[i][c] - P[0][c] for c in range(3)] for i in range(1, k)]
    if k == 2:
        return not any(d[0])
    if k == 3:
        return not any(_fcross(d[0], d[1]))
    return _det3(d) == 0


# ------------------------------------------------------------------ known-finding classes (exact predicates)
QEPS = Fr(2) ** -52
QEPS_SQR = QEPS * QEPS
QEPS_ORIG = 10 * QEPS


def _johnson(Y):
    """exact Johnson cofactors Delta_i of the full simplex Y (k = 4) and their sum (the Gram determinant)"""
    p0 = Y[0]
    E = [_fsub(p, p0) for p in Y[1:]]
    G = [[_fdot(E[i], E[j]) for j in range(3)] for i in range(3)]
    b = [-_fdot(p0, E[i]) for i in range(3)]
    D = _det3(G)
    mus = []
    for c in range(3):
        Mc = [[(b[r] if cc == c else G[r][cc]) for cc in range(3)] for r in range(3)]
        mus.append(_det3(Mc))
    return [D - sum(mus)] + mus, D


def geometry(pts):
    """Exact (rational) shape measures of a configuration, over its DISTINCT points:
    rho3(T) = |ab x ac|^2 / (longest edge^2)^2 for every triangle, rho4 = (6 Vol)^2 / (longest edge^2)^3
    for the tetrahedron (k = 4, distinct); minrho = their minimum (1 if none);
    plane_band: the +-EPSILON band of origin_outside_of_tetrahedron_planes is hit (exact signd of one
    strict sign, some |signp_i| <= 2 EPSILON); tiny_tri: a triangle with 0 < |n|^2 < 2 EPSILON^2;
    orig_band: origin strictly inside (all four exact cofactors > 0) and the smallest <= 2 * (10 eps)."""
    Y = [[Fr(x) for x in p] for p in pts]
    k = len(Y)
    D = []
    for p in Y:
        if p not in D:
            D.append(p)
    rho = []
    tiny = False
    for a, b, c in itertools.combinations(D, 3):
        ab, ac, bc = _fsub(b, a), _fsub(c, a), _fsub(c, b)
        e = max(_fdot(ab, ab), _fdot(ac, ac), _fdot(bc, bc))
        n = _fcross(ab, ac)
        n2 = _fdot(n, n)
        rho.append(n2 / (e * e))
        if 0 < n2 < 2 * QEPS_SQR:
            tiny = True
    band = orig_band = False
    if k == 4 and len(D) == 4:
        a, b, c, d = Y
        ab, ac, ad, bd, bc = _fsub(b, a), _fsub(c, a), _fsub(d, a), _fsub(d, b), _fsub(c, b)
        e = max(_fdot(_fsub(Y[i], Y[j]), _fsub(Y[i], Y[j])) for i in range(4) for j in range(i))
        v6 = _fdot(ad, _fcross(ab, ac))
        rho.append(v6 * v6 / (e * e * e))
        n0, n1, n2_, n3 = _fcross(ab, ac), _fcross(ac, ad), _fcross(ad, ab), _fcross(bd, bc)
        signp = [_fdot(a, n0), _fdot(a, n1), _fdot(a, n2_), _fdot(b, n3)]
        signd = [_fdot(ad, n0), _fdot(ab, n1), _fdot(ac, n2_), -_fdot(ab, n3)]
        same = all(x > 0 for x in signd) or all(x < 0 for x in signd)
        band = bool(same and any(abs(x) <= 2 * QEPS for x in signp))
        De, S = _johnson(Y)
        orig_band = bool(S > 0 and all(x > 0 for x in De) and min(De) <= 2 * QEPS_ORIG)
    minrho = min(rho) if rho else Fr(1)
    return dict(k=k, minrho=minrho, aspect=math.sqrt(float(minrho)), plane_band=band, tiny_tri=tiny,
                orig_band=orig_band)


def classify(solver, gen, pts, err_rel):
    """Known-finding ids whose input class contains `pts` AND whose error bound covers the observed
    relative error `err_rel` (= max(norm error, distance to the hull of the subset) / L).
      *-ILLCOND : k >= 3, input not on an exact lattice/grid, thin sub-simplex:
                  jolt: err_rel <= 4 eps / aspect ; orig: err_rel <= 4 eps / aspect^2
                  (scans: 0.31 resp. 0.40 instead of 4); as failures need err_rel > 1e-9 this
                  confines the classes to aspect < 8.9e-7 resp. 9.4e-4.
      *-EPS-ABS : the absolute-epsilon bands (see `geometry`); error at most the size of the input."""
    g = geometry(pts)
    out = []
    if is_exact_stream(gen) or not math.isfinite(err_rel):
        return out, g
    M = max(abs(x) for p in pts for x in p)
    L = max(1.0, M)
    rho = g["minrho"]
    if g["k"] >= 3 and err_rel * L <= 2 * M:
        if solver == "jolt" and Fr(err_rel) * Fr(err_rel) * rho <= (4 * QEPS) ** 2:
            out.append("C18-JOLT-ILLCOND")
        if solver == "orig" and Fr(err_rel) * rho <= 4 * QEPS:
            out.append("C18-ORIG-ILLCOND")
    if solver == "jolt" and (g["plane_band"] or g["tiny_tri"]) and err_rel * L <= 2 * M:
        out.append("C18-JOLT-EPS-ABS")
    if solver == "orig" and g["orig_band"] and err_rel * L <= 2 * M:
        out.append("C18-ORIG-EPS-ABS")
    return out, g


# ------------------------------------------------------------------ per-case preparation (worker pool)
def _isfinite_all(xs):
    return all(math.isfinite(x) for x in xs)


def prepare(args):
    """case + implementation result -> Coq expression (certificates and model runs) + python-side data."""
    pts, r, perts = args
    k = len(pts)
    S, lam, q = oracle(pts)
    Wq = round_weights(lam, MW)
    flatY = [x for p in pts for x in p]
    info = dict(q=[float(x) for x in q], nq=math.sqrt(float(sum(x * x for x in q))), S=S,
                dep=affinely_dependent(pts), layout=[], check={}, mag={},
                aspect=geometry(pts)["aspect"] if perts else 1.0)
    allnums = list(flatY)
    sol = {}
    j = r["jolt"]
    if "exc" not in j and j.get("success"):
        p = unhex(j["v"])
        sub = bits_idx(j["bits"], k)
        if sub and _isfinite_all(p):
            sol["jolt"] = (p, sub)
    o = r["orig"]
    if "exc" not in o:
        p = unhex(o["v"])
        sub = o["idx"]
        w = unhex(o["bary"])
        if sub and all(0 <= i < k for i in sub) and _isfinite_all(p + w) and len(w) == len(sub):
            sol["orig"] = (p, sub)
    for name in sol:
        allnums += sol[name][0]
    N = scale_bits(allnums)
    parts = []
    for name in ("jolt", "orig"):
        if name not in sol:
            continue
        p, sub = sol[name]
        lamp = nearest_weights([pts[i] for i in sub], p)
        Wp = round_weights(lamp, MP)
        parts.append(f"judge {N} {MW} {MP} {TB} Y {flist(p)} {nlist(sub)} {wlist(Wp, MP)} {nlist(S)} WQ")
        info["layout"].append(name)
        info["check"][name] = (sum(int(Fr(x) * (1 << N)) for x in flatY + p) + sum(Wp) + sum(Wq) + sum(sub) + sum(S)) % (1 << 50)
        # magnitudes (floats, for messages and for the error bounds of the known classes only)
        npn = math.sqrt(float(sum(Fr(x) * Fr(x) for x in p)))
        z = [sum(l * Fr(pts[i][c]) for l, i in zip(lamp, sub)) for c in range(3)]
        hd = math.sqrt(float(sum((Fr(a) - b) ** 2 for a, b in zip(p, z))))
        info["mag"][name] = dict(norm=npn, err=abs(npn - info["nq"]), hull=hd)
    certs = "[" + "; ".join(parts) + "]" if parts else "(@nil (list bool * float))"
    bary = "(false, 0%float)"
    if "orig" in sol:
        p, sub = sol["orig"]
        w = unhex(o["bary"])
        Mb = scale_bits(w)
        bary = f"judge_bary {N} {Mb} Y {flist(p)} {nlist(sub)} {flist(w)}"
        info["check"]["bary"] = sum(int(Fr(x) * (1 << Mb)) for x in w) % (1 << 50)
    jm = "[" + "; ".join(["jolt_ft Y"] + [f"jolt_ft {fflat(pp)}" for pp in perts]) + "]"
    om = "[" + "; ".join(["orig_ft Y"] + [f"orig_ft {fflat(pp)}" for pp in perts]) + "]"
    expr = (f"let Y := {fflat(pts)} in let WQ := {wlist(Wq, MW)} in "
            f"({certs}, {bary}, {jm}, {om}, jolt_prev Y)")
    return expr, info


# ------------------------------------------------------------------ running
def run_impl_cases(cases, tag):
    nw = min(8, max(1, len(cases) // 2500))     # each worker pays ~10 s of imports: few, large chunks
    chunks = [cases[i::nw] for i in range(nw)]
    res = cm.run_impl_parallel(PID, "c18", [dict(cases=[c["pts"] for c in ch]) for ch in chunks], timeout=900, tag=tag)
    out = [None] * len(cases)
    for w, (rr, ch) in enumerate(zip(res, chunks)):
        idxs = list(range(w, len(cases), nw))
        if rr["status"] == "ok":
            for i, x in zip(idxs, rr["result"]["results"]):
                out[i] = x
        else:
            singles = cm.run_impl_parallel(PID, "c18", [dict(cases=[c["pts"]]) for c in ch], timeout=120, tag=tag + "_iso")
            for i, s in zip(idxs, singles):
                if s["status"] == "ok":
                    out[i] = s["result"]["results"][0]
                else:
                    e = dict(exc=f"PROCESS-{s['status'].upper()}", exc_msg=f"rc={s.get('rc')} {s.get('log', '')[-300:]}")
                    out[i] = dict(jolt=e, orig=e)
    return out


def evaluate(R, cases, results, tag, per_file):
    """Prepare witnesses, evaluate certificates and model runs in Coq.  Returns one dict per case."""
    jobs = []
    for c, r in zip(cases, results):
        perts = [] if is_exact_stream(c["gen"]) else [perturb(R.rng, c["pts"]) for _ in range(N_PERT)]
        jobs.append((c["pts"], r, perts))
    with ProcessPoolExecutor(max_workers=4) as ex:   # exact-rational witnesses only (a few CPU seconds)
        prepared = list(ex.map(prepare, jobs, chunksize=64))
    try:
        outs = cm.coq_eval_lines(PID, HEADER, [p[0] for p in prepared], tag=tag, per_file=per_file)
    except RuntimeError as ex:
        # somebody rebuilt a library this development depends on while we were running: the compiled
        # files are then mutually inconsistent, which is an environment problem, not a verdict.
        # Rebuild our targets once and evaluate again.
        if "inconsistent assumptions" not in str(ex):
            raise
        ok, log = cm.coq_build(BUILD_TARGETS)
        R.notes.append("Coq libraries were rebuilt by another process during the run; rebuilt C18's targets and re-evaluated"
                       + ("" if ok else f" (rebuild failed: {log[-300:]})"))
        outs = cm.coq_eval_lines(PID, HEADER, [p[0] for p in prepared], tag=tag, per_file=per_file)
    ev = []
    for (expr, info), o in zip(prepared, outs):
        val = parse_coq_value(o)
        e = dict(info)
        e["certs"] = {}
        e["decode_bad"] = []
        for name, (bools, chk) in zip(info["layout"], val[0]):
            e["certs"][name] = bools
            if chk != info["check"][name]:
                e["decode_bad"].append(name)
        if "bary" in info["check"]:
            e["certs"]["bary"] = val[1][0]
            if val[1][1] != info["check"]["bary"]:
                e["decode_bad"].append("bary")
        e["jolt_model"] = [norm_jolt(m) for m in val[2]]
        e["orig_model"] = [norm_orig(m) for m in val[3]]
        e["jolt_prev"] = dict(st=int(val[4][0]) - 1, trace=[int(x) for x in val[4][1:]])
        ev.append(e)
    return ev


def norm(v):
    return math.sqrt(sum(x * x for x in v))


def judge(case, r, e):
    """Property verdict for one case from the Coq certificates.  Returns a list of
    (solver, what, err_rel) failures and a list of harness problems (witness rejected)."""
    fails, problems = [], []
    pts = case["pts"]
    k = len(pts)
    L = max(1.0, max(abs(x) for y in pts for x in y))
    INF = float("inf")
    for name in e["decode_bad"]:
        problems.append(f"decoding checksum mismatch ({name})")
    j = r["jolt"]
    if "exc" in j:
        fails.append(("jolt", f"raised {j['exc']}: {j.get('exc_msg', '')}", INF))
    elif not j["success"]:
        fails.append(("jolt", "get_closest_point_to_origin(Y, n, inf) returned success=False", INF))
    else:
        if not j["y_unchanged"]:
            fails.append(("jolt", "Y was modified", INF))
        if "jolt" not in e["certs"]:
            fails.append(("jolt", f"unusable result: v={j.get('v')} bits={j.get('bits')}", INF))
    o = r["orig"]
    if "exc" in o:
        fails.append(("orig", f"raised {o['exc']}: {o.get('exc_msg', '')}", INF))
    else:
        if not o["built_ok"]:
            problems.append("harness could not build the simplex in the requested order")
        if "orig" not in e["certs"]:
            fails.append(("orig", f"unusable result: v={o.get('v')} idx={o.get('idx')} bary={o.get('bary')}", INF))
        else:
            sub_pts = unhex(o["sub"])
            want = [x for i in o["idx"] for x in pts[i]]
            if sub_pts != [float(x) for x in want]:
                fails.append(("orig", "simplex.points[:n] after the call are not the input points named by indices_polytope1", INF))
            if len(set(o["idx"])) != len(o["idx"]):
                fails.append(("orig", f"returned subset repeats an index: {o['idx']}", INF))
            if o["n"] != len(o["idx"]):
                fails.append(("orig", "len(simplex) differs from the number of returned indices", INF))
    for name in ("jolt", "orig"):
        c3 = e["certs"].get(name)
        if c3 is None:
            continue
        res = r[name]
        sub = bits_idx(res["bits"], k) if name == "jolt" else res["idx"]
        mag = e["mag"][name]
        if not c3[0]:
            problems.append("oracle witness rejected by kkt_z: cannot judge")
            continue
        if not c3[1]:
            fails.append((name, f"norm {mag['norm']!r} exceeds the minimum {e['nq']!r} by more than 1e-9*{L!r} "
                                f"(returned subset {sub}, optimal carrier {e['S']})", max(mag["err"], mag["hull"]) / L))
        if not c3[2]:
            fails.append((name, f"returned point is {mag['hull']!r} (> 1e-9*{L!r}) away from the hull of the returned subset {sub}",
                          max(mag["err"], mag["hull"]) / L))
    b = e["certs"].get("bary")
    if b is not None and not b:
        fails.append(("orig", f"barycentric weights {unhex(o['bary'])} are not >=0 / sum to 1 / reproduce the point from the subset {o['idx']} within tolerance", INF))
    return fails, problems


def norm_jolt(m):
    """printed value of SimplexRun.jolt_ft -> dict"""
    a, tr = m
    d = dict(st=int(a[0]) - 1, trace=[int(x) for x in tr])
    if d["st"] == 1:
        d.update(v=[float(x) for x in a[1:4]], len=float(a[4]), bits=int(a[5]))
    return d


def norm_orig(m):
    """printed value of SimplexRun.orig_ft -> dict"""
    a, b, o, tr = m
    d = dict(st=int(a[0]) - 1, trace=[int(x) for x in tr])
    if d["st"] == 1:
        d.update(v=[float(x) for x in a[1:4]], d2=float(a[4]), bary=[float(x) for x in b], ord=[int(x) for x in o])
    return d


def _spread(x0, xs):
    """per-component max |x_i - x_0| over the perturbed model runs"""
    sp = [0.0] * len(x0)
    for x in xs:
        for i, (a, b) in enumerate(zip(x0, x)):
            sp[i] = max(sp[i], abs(a - b))
    return sp


def compare_jolt(case, r, e, extra=None):
    """Correspondence model (binary64) vs implementation for the Jolt solver.
    Returns (status, detail): status in ok | skipped-unstable | skipped-tie | skipped-exc | suspect | mismatch."""
    j = r["jolt"]
    ms = e["jolt_model"] + (extra or [])
    m = ms[0]
    if "exc" in j:
        return "skipped-exc", ""
    if (m["st"] == 1) != bool(j["success"]):
        return "mismatch", f"success flag: impl {j['success']} model status {m['st']}"
    if not j["success"]:
        return "ok", ""
    pv = e["jolt_prev"]
    if j["ok_prev_equal"] or not j["ok_prev_next"] or pv["st"] != 0:
        return "mismatch", (f"final comparison v_len_sq < prev: impl with prev=v_len_sq -> {j['ok_prev_equal']}, "
                            f"with prev=next(v_len_sq) -> {j['ok_prev_next']}; model with prev=v_len_sq -> {pv['st']}")
    v = unhex(j["v"])
    vl = float.fromhex(j["v_len_sq"])
    ex2 = sum(Fr(x) * Fr(x) for x in v)
    if abs(Fr(vl) - ex2) > Fr(4, 2 ** 53) * ex2:
        return "mismatch", f"v_len_sq {vl!r} is not np.dot(v, v) = {float(ex2)!r} within 2 ulp"
    if is_exact_stream(case["gen"]):
        if 70 in m["trace"] or 71 in m["trace"]:
            return "skipped-tie", ""
        if m["bits"] != j["bits"]:
            return "mismatch", f"bit set: impl {j['bits']} model {m['bits']} (exact stream, no near tie)"
        if m["v"] != v:
            return "mismatch", f"point: impl {v} model {m['v']} (exact stream, no near tie)"
        if abs(m["len"] - vl) > 4 * 2.0 ** -53 * vl:
            return "mismatch", f"v_len_sq: impl {vl!r} model {m['len']!r}"
        return "ok-exact", ""
    perts = ms[1:]
    if e["aspect"] < 1e-6:
        return "skipped-illcond", ""   # input class of C18-JOLT-ILLCOND: the result is rounding noise
    if any(70 in x["trace"] or 71 in x["trace"] for x in ms):
        return "skipped-tie", ""       # a comparison of two nearly equal squared distances decides
    stable = all(pm["st"] == 1 and pm["bits"] == m["bits"] for pm in perts)
    if not stable:
        return "skipped-unstable", ""
    L = max(abs(x) for y in case["pts"] for x in y)
    if m["bits"] != j["bits"]:
        if norm([a - b for a, b in zip(v, m["v"])]) <= 1e-9 * max(1.0, L):
            return "skipped-tie", ""   # two carriers of (numerically) the same point: a tie by definition
        return "suspect", f"bit set: impl {j['bits']} model {m['bits']} (stable under {len(perts)} perturbations), points differ: {v} vs {m['v']}"
    sp = _spread(m["v"] + [m["len"]], [pm["v"] + [pm["len"]] for pm in perts])
    for i in range(3):
        if abs(v[i] - m["v"][i]) > 4 * sp[i] + 16 * EPS * L:
            return "suspect", f"point[{i}]: impl {v[i]!r} model {m['v'][i]!r} spread {sp[i]!r}"
    if abs(vl - m["len"]) > 4 * sp[3] + 16 * EPS * max(vl, m["len"]):
        return "suspect", f"v_len_sq: impl {vl!r} model {m['len']!r} spread {sp[3]!r}"
    return "ok", ""


def compare_orig(case, r, e, extra=None):
    """Correspondence for the original solver's backup procedure."""
    o = r["orig"]
    ms = e["orig_model"] + (extra or [])
    m = ms[0]
    if "exc" in o:
        return "skipped-exc", ""
    if m["st"] != 1:
        return "mismatch", f"model status {m['st']}"
    v = unhex(o["v"])
    d2 = float.fromhex(o["dist_sq"])
    w = unhex(o["bary"])
    L = max(abs(x) for y in case["pts"] for x in y)
    if is_exact_stream(case["gen"]):
        if 170 in m["trace"]:
            return "skipped-tie", ""
        if m["ord"] != o["idx"]:
            return "mismatch", f"ordered indices: impl {o['idx']} model {m['ord']} (exact stream, no near tie)"
        if m["bary"] != w:
            return "mismatch", f"barycentric_coordinates: impl {w} model {m['bary']} (exact stream, no near tie)"
        for i in range(3):
            if abs(v[i] - m["v"][i]) > 8 * EPS * L:
                return "mismatch", f"search_direction[{i}]: impl {v[i]!r} model {m['v'][i]!r}"
        if abs(d2 - m["d2"]) > 32 * EPS * L * (math.sqrt(max(d2, 0.0)) + 8 * EPS * L):
            return "mismatch", f"distance_squared: impl {d2!r} model {m['d2']!r}"
        return "ok-exact", ""
    perts = ms[1:]
    if e["aspect"] < 1e-3:
        return "skipped-illcond", ""   # input class of C18-ORIG-ILLCOND: the result is rounding noise
    if any(170 in x["trace"] for x in ms):
        return "skipped-tie", ""       # a comparison of two nearly equal squared distances decides
    stable = all(pm["st"] == 1 and pm["ord"] == m["ord"] for pm in perts)
    if not stable:
        return "skipped-unstable", ""
    if m["ord"] != o["idx"]:
        if norm([a - b for a, b in zip(v, m["v"])]) <= 1e-9 * max(1.0, L):
            return "skipped-tie", ""   # two carriers of (numerically) the same point: a tie by definition
        return "suspect", f"ordered indices: impl {o['idx']} model {m['ord']} (stable under {len(perts)} perturbations), points differ: {v} vs {m['v']}"
    sp = _spread(m["v"] + [m["d2"]], [pm["v"] + [pm["d2"]] for pm in perts])
    for i in range(3):
        if abs(v[i] - m["v"][i]) > 4 * sp[i] + 16 * EPS * L:
            return "suspect", f"search_direction[{i}]: impl {v[i]!r} model {m['v'][i]!r} spread {sp[i]!r}"
    if abs(d2 - m["d2"]) > 4 * sp[3] + 32 * EPS * L * (math.sqrt(max(d2, 0.0)) + 8 * EPS * L):
        return "suspect", f"distance_squared: impl {d2!r} model {m['d2']!r} spread {sp[3]!r}"
    if len(w) != len(m["bary"]):
        return "suspect", f"number of weights: impl {len(w)} model {len(m['bary'])}"
    spw = _spread(m["bary"], [pm["bary"] for pm in perts])
    for i in range(len(w)):
        if abs(w[i] - m["bary"][i]) > 4 * spw[i] + 16 * EPS:
            return "suspect", f"barycentric_coordinates[{i}]: impl {w[i]!r} model {m['bary'][i]!r} spread {spw[i]!r}"
    return "ok", ""


# ------------------------------------------------------------------ case streams
FINDING_WITNESSES = [
    ("C18-ORIG-EPS-ABS", [[1e-3, 1e-3, 1e-3], [1e-3, -1e-3, -1e-3], [-1e-3, 1e-3, -1e-3], [-1e-3, -1e-3, 1e-3]]),
    ("C18-JOLT-EPS-ABS", [[1e-6, 1e-6, 1e-6], [1e-6, -1e-6, -1e-6], [-1e-6, 1e-6, -1e-6], [-1e-6, -1e-6, 1e-6]]),
    ("C18-JOLT-ILLCOND", [[4.060583375906421, 131.74935434208479, -13.545330546862845],
                          [1.830719365639091, 59.449072554168794, -6.113935385821806],
                          [-1.291391467648064, -41.78108855897669, 4.2910217020960415]]),
    ("C18-ORIG-ILLCOND", [[0.5285397166081399, 0.12548214646434608, -0.09068890719552236],
                          [-0.14619194565811272, -0.03470773094089517, 0.025084104633260294],
                          [-0.022860807436796554, -0.005427501300705296, 0.003922579589196088]]),
]


def gen_cases(R, tier, replay):
    cases = []
    if replay:
        c = json.loads(open(replay).read())["case"]
        c = dict(pts=c["pts"], gen=c.get("gen", "corpus"))
        if is_exact_stream(c["gen"]) and not all(float(x).is_integer() and abs(x) <= 72 for p in c["pts"] for x in p):
            c["gen"] = "corpus"
        return [c]
    corpus = cm.VERIF / "corpus" / PID
    if corpus.exists():
        for f in sorted(corpus.glob("*.json")):
            c = json.loads(f.read_text())["case"]
            cases.append(dict(pts=c["pts"], gen="corpus"))
    for kid, pts in FINDING_WITNESSES:
        cases.append(dict(pts=pts, gen="corpus:" + kid))
    quick = tier == "quick"
    for k in (1, 2):
        for pts in lattice_all(k):
            cases.append(dict(pts=pts, gen=f"lattice3:k{k}"))
    if quick:
        for k, n in ((3, 2000), (4, 2500)):
            seen = set()
            while len(seen) < n:
                pts = lattice_sample(R.rng, k, (-1, 0, 1))
                key = tuple(x for p in pts for x in p)
                if key not in seen:
                    seen.add(key)
                    cases.append(dict(pts=pts, gen=f"lattice3:k{k}"))
    else:
        for pts in lattice_all(3):
            cases.append(dict(pts=pts, gen="lattice3:k3"))
        seen = set()
        while len(seen) < 30000:
            pts = lattice_sample(R.rng, 4, (-1, 0, 1))
            key = tuple(x for p in pts for x in p)
            if key not in seen:
                seen.add(key)
                cases.append(dict(pts=pts, gen="lattice3:k4"))
        for k, n in ((2, 1000), (3, 5000), (4, 9000)):
            for _ in range(n):
                cases.append(dict(pts=lattice_sample(R.rng, k, (-2, -1, 0, 1, 2)), gen=f"lattice5:k{k}"))
    for _ in range(2000 if quick else 20000):
        cases.append(gen_grid(R.rng))
    for _ in range(1600 if quick else 20000):
        cases.append(gen_real(R.rng))
    for _ in range(800 if quick else 10000):
        cases.append(gen_scaled(R.rng))
    return cases


def _cleanup(uid):
    """remove this run's private scratch files under work/C18"""
    import shutil
    for pth in (cm.WORK / PID).glob(f"*{uid}*"):
        try:
            shutil.rmtree(pth) if pth.is_dir() else pth.unlink()
        except OSError:
            pass


COQCHK_LIBS = ["D3.Proofs.SimplexOrigTetra", "D3.Proofs.SimplexOrigFace", "D3.Proofs.SimplexTetraFlatEps", "D3.Proofs.SimplexCollinear",
               "D3.Proofs.SimplexLine", "D3.Checker.KktZ", "D3.Checker.Kkt", "D3.Proofs.SimplexTrace"]


def _coqchk_general(R, timeout=900):
    """Thorough tier: coqchk has no bytecode VM, so it cannot re-run the vm_compute enumerations of
    Proofs/SimplexLattice*.v / SimplexLat4*.v (551 880 configurations) in any reasonable time (the
    generic common.Run.coqchk on D3.Props.C18 just burns its 25 min limit).  Re-check every C18
    library that does NOT depend on those enumerations instead (general theorems + certificate
    soundness; ~1 min) and say so in the evidence."""
    import time as _t
    t = _t.time()
    with cm.Slot():
        rc, out = cm.sh(f"timeout {timeout} coqchk -silent -o -Q theories D3 " + " ".join(COQCHK_LIBS), cwd=cm.COQ,
                        timeout=timeout + 30)
    m = re.search(r"\* Constants/Inductives relying on type-in-type:(.*?)\n\s*\n"
                  r"\* Constants/Inductives relying on unsafe \(co\)fixpoints:(.*?)\n\s*\n"
                  r"\* Inductives whose positivity is assumed:(.*?)\n", out, re.S)
    info = dict(rc=rc, wall_s=round(_t.time() - t, 1), libraries=COQCHK_LIBS,
                excluded="Proofs/SimplexLattice*.v, SimplexLat4*.v, SimplexRefuted.v, Props/C18.v: vm_compute enumerations, coqchk has no VM")
    if m:
        info.update(type_in_type=m.group(1).strip(), unsafe_fixpoints=m.group(2).strip(), assumed_positivity=m.group(3).strip())
        if rc != 0 or any(info[k] != "<none>" for k in ("type_in_type", "unsafe_fixpoints", "assumed_positivity")):
            R.proof_broken.append(f"coqchk: {info}")
    elif rc != 0:
        info["note"] = "coqchk did not finish within its time limit" if rc == 124 else out[-500:]
    R.cov["coqchk"] = info
    R.cov["trusted_base"].append("coqchk -o (independent re-check, thorough tier, libraries without vm_compute enumerations): "
                                 + json.dumps(info)[:600])


def site_of(solver):
    return "get_closest_point_to_origin" if solver == "jolt" else "distance_subalgorithm_with_backup_procedure"


def run(tier, seed, replay=None):
    R = cm.Run(PID, "proof", tier, seed)
    R.cov["rule"] = (
        "case = 1..4 points. Streams: ALL configurations with coordinates in {-1,0,1} for k=1,2 (756), k=3: quick a distinct "
        "seeded sample of 2000 / thorough all 19683, k=4: distinct seeded sample (quick 2500 / thorough 30000 of 531441); thorough: "
        "sampled {-2..2}^(3k); integer grids |coordinate| <= 72 with exact duplicates/collinear/coplanar/mirrored points (all "
        "arithmetic up to degree 6 exact in binary64); random real configurations: extents (1,s2,s3) with s log-uniform in "
        "[1e-12,1], random rotation, origin inside/near/far/near-vertex/near-edge, kinds aniso/iso/wellcond/duplicate point/"
        "numerically collinear/coplanar; the same times a global scale 10^U(-7,4); corpus + the four finding witnesses. Both "
        "solvers run on every case. non-trivial = k>=2 and the optimal carrier (exact oracle, confirmed by kkt_z) is not a "
        "single input vertex, or the configuration is affinely dependent; distinct by canonical hash of the points")
    R.assumptions += [
        "general theorems are about the Gallina models Model/Simplex.v, Model/SimplexOrig.v in exact real/rational arithmetic; the tie to /repo is the correspondence run here (bit-exact for Jolt on exact streams, stability-gated otherwise)",
        "per-case verdicts are consequences of c18_z_sound/bary_z_sound (Checker/KktZ.v) applied to the exact values of the implementation's binary64 inputs/outputs; universality over inputs comes from generation",
        "binary64 literals are decoded by Checker/KktZ.f2z (m*2^e from the kernel's Prim2SF); a checksum of the decoded integers is recomputed in Python for every case",
        "IEEE-754 rounding is not modelled in the theorems; its effect is measured against the property tolerance by the certificates",
        "harness/compat.py import shim; numpy/numba/CPython/OpenBLAS; the harness builds SimplexInfo through set_first_point/add_new_point with zero-initialised arrays",
    ]
    import time as _time
    t0 = _time.time()
    R.coqchk = lambda timeout=900: _coqchk_general(R, timeout)     # see _coqchk_general
    R.check_proofs(PROOF_FILES, build_targets=BUILD_TARGETS)
    t1 = _time.time()
    # several C18 runs may share /verif/work/C18 (lead's sweeps, seeds): private scratch names per run
    import os as _os
    uid = f"{tier[0]}{_os.getpid()}"
    cases = gen_cases(R, tier, replay)
    results = run_impl_cases(cases, "impl" + uid)
    t2 = _time.time()
    R.cov["evaluations"] = len(cases)
    try:
        ev = evaluate(R, cases, results, "cases" + uid, per_file=max(40, min(400, len(cases) // (3 * cm.NCPU) + 1)))
    except RuntimeError as ex:
        R.corr_broken.append(f"Coq evaluation of certificates/model failed: {str(ex)[:600]}")
        _cleanup(uid)
        return R.finish()

    t3 = _time.time()
    R.cov["phase_wall_s"] = dict(proofs=round(t1 - t0, 1), implementation=round(t2 - t1, 1), coq_evaluation=round(t3 - t2, 1))
    known = {e["id"]: e for e in R.known}
    distinct = set()
    hist, fail_hist = {}, {}
    corr = {s: dict(ok=0, skipped_unstable=0, skipped_tie=0, skipped_illcond=0, skipped_exc=0, mismatch=0, exact_compared=0) for s in ("jolt", "orig")}
    suspects = []
    cov_codes = dict(jolt=set(), orig=set())
    n_problems = 0
    for i, (c, r, e) in enumerate(zip(cases, results, ev)):
        g = c["gen"]
        gk = "corpus" if g.startswith("corpus") else ":".join(g.split(":")[:2])
        hist[gk] = hist.get(gk, 0) + 1
        fails, problems = judge(c, r, e)
        for pb in problems:
            n_problems += 1
            if len(R.corr_broken) < 5:
                R.corr_broken.append(f"{pb} (case {c['pts']})")
        for solver, what, err_rel in fails:
            kids, geo = classify(solver, g, c["pts"], err_rel)
            hit = [k for k in kids if k in known]
            key = f"{solver}:{hit[0] if hit else 'UNCLASSIFIED'}"
            fail_hist[key] = fail_hist.get(key, 0) + 1
            if hit:
                R.known_finding(hit[0], known[hit[0]]["what"])
            else:
                R.failure(f"{solver}: {what}", dict(pts=c["pts"], gen=g, solver=solver, candidate_classes=kids,
                                                   err_rel=err_rel, aspect=geo["aspect"], plane_band=geo["plane_band"],
                                                   orig_band=geo["orig_band"]), site=site_of(solver))
        for m in e["jolt_model"]:
            cov_codes["jolt"].update(m["trace"])
        cov_codes["jolt"].update(e["jolt_prev"]["trace"])
        for m in e["orig_model"]:
            cov_codes["orig"].update(m["trace"])
        for solver, cmp in (("jolt", compare_jolt), ("orig", compare_orig)):
            st, detail = cmp(c, r, e)
            if st in ("ok", "ok-exact"):
                corr[solver]["ok"] += 1
                if st == "ok-exact":
                    corr[solver]["exact_compared"] += 1
            elif st == "skipped-unstable":
                corr[solver]["skipped_unstable"] += 1
            elif st == "skipped-tie":
                corr[solver]["skipped_tie"] += 1
            elif st == "skipped-illcond":
                corr[solver]["skipped_illcond"] += 1
            elif st == "skipped-exc":
                corr[solver]["skipped_exc"] += 1
            elif st == "suspect":
                suspects.append((i, solver, detail))
            elif st == "mismatch":
                corr[solver]["mismatch"] += 1
                if len(R.corr_broken) < 5:
                    R.corr_broken.append(f"{solver} model vs implementation: {detail} on {c['pts']}")
        if len(c["pts"]) >= 2 and (len(e["S"]) > 1 or e["dep"]):
            distinct.add(cm.canon_hash(c["pts"]))
    t4 = _time.time()
    R.cov["phase_wall_s"]["judging"] = round(t4 - t3, 1)
    R.cov["suspects_rechecked"] = len(suspects)
    # second look at mismatches on apparently stable cases: 40 more perturbations
    if suspects:
        exprs = []
        for i, solver, _ in suspects:
            perts = [perturb(R.rng, cases[i]["pts"]) for _ in range(40)]
            f = "jolt_ft" if solver == "jolt" else "orig_ft"
            exprs.append("[" + "; ".join(f"{f} {fflat(pp)}" for pp in perts) + "]")
        try:
            outs = cm.coq_eval_lines(PID, HEADER, exprs, tag="recheck" + uid, per_file=10)
            for (i, solver, detail), o in zip(suspects, outs):
                extra = [(norm_jolt if solver == "jolt" else norm_orig)(m) for m in parse_coq_value(o)]
                cmp = compare_jolt if solver == "jolt" else compare_orig
                st, detail2 = cmp(cases[i], results[i], ev[i], extra)
                if st in ("suspect", "mismatch"):
                    corr[solver]["mismatch"] += 1
                    if len(R.corr_broken) < 5:
                        R.corr_broken.append(f"{solver} model vs implementation: {detail2} (48 perturbations) on {cases[i]['pts']}")
                elif st == "ok":
                    corr[solver]["ok"] += 1
                else:
                    corr[solver]["skipped_unstable"] += 1
        except RuntimeError as ex:
            R.corr_broken.append(f"recheck evaluation failed: {str(ex)[:300]}")
    R.cov["phase_wall_s"]["recheck"] = round(_time.time() - t4, 1)
    R.cov["distinct_nontrivial"] = len(distinct)
    R.cov["judged_by_coq_certificate"] = len(cases)
    R.cov["harness_problems"] = n_problems
    R.cov["traces_validated_against_impl"] = corr["jolt"]["ok"] + corr["orig"]["ok"]
    R.cov["correspondence"] = corr
    R.cov["input_histogram"] = hist
    R.cov["failure_histogram"] = fail_hist
    R.cov["model_branch_coverage"] = {
        "jolt": dict(covered=len(cov_codes["jolt"] & set(JOLT_CODES)), total=len(JOLT_CODES),
                     missing=sorted(set(JOLT_CODES) - cov_codes["jolt"])),
        "orig": dict(covered=len(cov_codes["orig"] & set(ORIG_CODES)), total=len(ORIG_CODES),
                     missing=sorted(set(ORIG_CODES) - cov_codes["orig"])),
        "codes": "see the headers of Model/Simplex.v and Model/SimplexOrig.v",
    }
    R.cov["exhaustive"] = False
    R.cov["exhaustive_substreams"] = ("k=1,2 over {-1,0,1}^3 enumerated completely on every run; thorough: also k=3 "
                                      "(the in-Coq lattice theorems of Props/C18.v cover k<=3 and a stated part of k=4 for the models)")
    reals = [x for x in zip(cases, results) if x[0]["gen"].startswith("real")]
    for c, r in list(zip(cases, results))[-1:] + reals[:2]:
        R.sample(dict(pts=c["pts"], gen=c["gen"],
                      jolt=dict(v=unhex(r["jolt"]["v"]), bits=r["jolt"]["bits"]) if r["jolt"].get("success") else r["jolt"],
                      orig=dict(v=unhex(r["orig"]["v"]), idx=r["orig"]["idx"], bary=unhex(r["orig"]["bary"])) if "exc" not in r["orig"] else r["orig"]))
    # proof or tie broke, no failing input yet: targeted search = more of every stream, certificate-judged
    if (R.proof_broken or R.corr_broken) and not R.violations and not replay:
        extra = [gen_real(R.rng) for _ in range(2000)] + [gen_grid(R.rng) for _ in range(2000)] + \
                [dict(pts=lattice_sample(R.rng, k, (-2, -1, 0, 1, 2)), gen=f"lattice5:k{k}") for k in (3, 4) for _ in range(1000)]
        res2 = run_impl_cases(extra, "search" + uid)
        try:
            ev2 = evaluate(R, extra, res2, "searchc" + uid, per_file=400)
            R.cov["search_evaluations"] = len(extra)
            for c, r, e in zip(extra, res2, ev2):
                fails, _ = judge(c, r, e)
                for solver, what, err_rel in fails:
                    kids, geo = classify(solver, c["gen"], c["pts"], err_rel)
                    if not [k for k in kids if k in known]:
                        R.failure(f"{solver}: {what}", dict(pts=c["pts"], gen=c["gen"], solver=solver), site=site_of(solver))
                        break
                if R.violations:
                    break
        except RuntimeError as ex:
            R.notes.append(f"search evaluation failed: {str(ex)[:300]}")
    _cleanup(uid)
    return R.finish()
