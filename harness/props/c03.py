"""C03 — Support mappings return a point of the shape that is extreme along the query.

Proofs: coq/theories/Proofs/SupportA.v, SupportB.v (+ MeshClimb.v), statements in Props/C03.v
(model: Model/Support.v, sets: Spec/Shapes.v).
Tie to the code: every case runs the implementation (JIT on, worker process) and the Coq
model (binary64 instance, vm_compute inside coqc) on the same inputs; support VALUES s.d are
compared at 1e-9*L, support POINTS where the maximiser is unique with a clear margin and -
whatever the ties - in the exactly representable cases (signed-permutation pose, lattice sizes,
power-of-two direction components), where also the mesh vertex index must be identical.
Per-input verdict: (gate) an exact rational oracle (fractions.Fraction, integer-square-root
bounds of the closed-form support value of c + M.K under the exact float pose; membership by
exact local coordinates; for polytopes the exact maximum over the vertices), doubled by the
Coq-proven checker `support_cert` of Checker/ShapesCert.v evaluated by vm_compute on the exact
rationals of the implementation's answer: an accepted certificate makes the verdict for that
input a consequence of `support_cert_sound`.
"""
import json
import math

from .. import common as cm
from . import shapes_common as sc
from .shapes_common import Fr

PID = "C03"
PROOF_FILES = ["theories/Props/C03.v", "theories/Proofs/SupportA.v", "theories/Proofs/SupportB.v",
               "theories/Proofs/MeshClimb.v", "theories/Spec/Shapes.v", "theories/Base/RVec2.v",
               "theories/Checker/ShapesCert.v", "theories/Checker/ShapesBridge.v", "theories/Proofs/MeshClimbGen.v",
               "theories/Checker/ShapesMeshCone.v"]
FUEL = 100000
DIR_CLASSES = ["random", "random", "axis", "sign", "sign", "pow2", "pow2", "shape_axis", "shape_orth", "near_axis", "near_orth"]
EPS10 = Fr(10) / Fr(2 ** 52)
CERTS_PER_GROUP = 4   # answers per case and observable submitted to the Coq checker (feature directions first)
MESH_CONE_BUDGET = dict(quick=12, thorough=80)   # meshes per run whose cone certificate is built and checked
MESH_CONE_HEADER = """From Coq Require Import QArith List.
From D3 Require Import Base.Vec Checker.Shapes Checker.ShapesMeshCone.
Import ListNotations.
"""
MODEL_MAX_VERTICES = 400   # larger meshes are not run through the Coq model / certificates (exact Python oracle only)
HISTORY_SHARE = dict(box=0.6, mesh=0.5)  # default 0.4; share of the cases (kinds with update_pose) whose collider is brought to its pose by update_pose calls
HIST_DIRS = 4        # = harness/impl/c03.py HIST_DIRS
CASE_CPU = 40        # seconds of user CPU time one case may burn in a shared worker (normal: < 1 s)
CONFIRM_CPU = 600    # ... when re-run alone, before it is reported as non-terminating

TRACE_SCOPE = {
    "geometry.py": ["support_function_cylinder", "support_function_capsule", "support_function_ellipsoid",
                    "support_function_box", "support_function_sphere", "support_function_disk",
                    "support_function_ellipse", "support_function_cone", "convert_box_to_vertices"],
    "utils.py": ["norm_vector", "plane_basis_from_normal", "transform_point"],
    "mesh.py": ["MeshHillClimbingSupportFunction.__init__", "MeshHillClimbingSupportFunction.__call__",
                "hill_climb_mesh_extreme"],
    "colliders.py": [f"{c}.{m}" for c in ("ConvexHullVertices", "MeshGraph", "Sphere", "Capsule", "Ellipsoid",
                                           "Cylinder", "Disk", "Ellipse", "Cone", "Margin")
                     for m in ("first_vertex", "support_function", "center")] + ["Box.center", "Box.__init__"],
}


# ---------------------------------------------------------------- generation
def subdivided_cube(s):
    """Cube [-s,s]^3 with face centres; every face split into 4 triangles, outward oriented."""
    vs = [[sx * s, sy * s, sz * s] for sx in (-1, 1) for sy in (-1, 1) for sz in (-1, 1)]
    tris = []
    for ax in range(3):
        for sg in (-1, 1):
            corners = [i for i, v in enumerate(vs) if v[ax] == sg * s]
            ctr = [0.0, 0.0, 0.0]
            ctr[ax] = sg * s
            ci = len(vs)
            vs.append(ctr)
            # order the four corners around the face
            u, w = [a for a in range(3) if a != ax]
            corners.sort(key=lambda i: math.atan2(vs[i][w], vs[i][u]))
            for a in range(4):
                i, j = corners[a], corners[(a + 1) % 4]
                # orientation: normal (vj - vi) x (ctr - vi) must point along sg*e_ax
                e1 = [vs[j][q] - vs[i][q] for q in range(3)]
                e2 = [ctr[q] - vs[i][q] for q in range(3)]
                n = [e1[1] * e2[2] - e1[2] * e2[1], e1[2] * e2[0] - e1[0] * e2[2], e1[0] * e2[1] - e1[1] * e2[0]]
                if n[ax] * sg > 0:
                    tris.append([i, j, ci])
                else:
                    tris.append([j, i, ci])
    return vs, tris


def sphere_like_mesh(rng, n):
    """n points on an ellipsoid surface: every point is a hull vertex, graph diameter ~ sqrt(n)"""
    a = [10 ** rng.uniform(-1, 1) for _ in range(3)]
    vs = []
    while len(vs) < n:
        v = [rng.gauss(0, 1) for _ in range(3)]
        nv = sc.normf(v)
        if nv > 1e-3:
            vs.append([a[i] * v[i] / nv for i in range(3)])
    return vs


def feature_dirs(sh):
    """directions every case is asked about: along / against / across the shape's own axes (the
    s == 0, norm == 0, sign(0) arms are reachable only with exactly aligned directions), the
    coordinate axes and one power-of-two direction with two zero components"""
    k = sh["kind"]
    out = []
    axes = sc.shape_axes(sh)
    if "R" in sh:
        x, z = axes[0], axes[2]
        out += [("shape_z+", list(z)), ("shape_z-", [-a for a in z]), ("shape_x", list(x)),
                ("shape_xz", [a + b for a, b in zip(x, z)]), ("shape_x-z", [a - 2.0 * b for a, b in zip(x, z)])]
    elif k == "disk":
        n = sh["n"]
        out += [("normal+", list(n)), ("normal-", [-a for a in n])]
    elif k == "ellipse":
        a0, a1 = sh["a0"], sh["a1"]
        cr = [a0[1] * a1[2] - a0[2] * a1[1], a0[2] * a1[0] - a0[0] * a1[2], a0[0] * a1[1] - a0[1] * a1[0]]
        out += [("axis0", list(a0)), ("axis1-", [-a for a in a1]), ("normal", cr)]
    # "underflow": the squares of the components are 0 in binary64, so norms computed as sqrt(sum of
    # squares) vanish although d != 0 (the s == 0 arm of the capsule is reachable only this way)
    out += [("axis_z", [0.0, 0.0, 1.0]), ("axis_-y", [0.0, -2.0, 0.0]), ("pow2_xy", [1.0, -1.0, 0.0]),
            ("underflow", [2.0 ** -600, 0.0, -(2.0 ** -600)])]
    return [(c, [float(x) + 0.0 for x in d]) for c, d in out if any(x != 0.0 for x in d)]


def gen_case(rng, kind, stream):
    sh = sc.gen_shape(rng, kind, stream)
    if kind == "mesh" and stream == "random" and rng.random() < 0.3:
        sh["vs"] = sphere_like_mesh(rng, rng.choice([40, 80, 150]))
        sh["sphere_like"] = True
    if kind == "mesh" and stream in ("lattice", "exact") and rng.random() < 0.4:
        vs, tris = subdivided_cube(rng.choice(sc.LATTICE))
        order = list(range(len(vs)))
        rng.shuffle(order)                      # vertex numbering must not matter
        inv = {o: i for i, o in enumerate(order)}
        sh["vs"] = [vs[o] for o in order]
        sh["triangles"] = [[inv[a] for a in t] for t in tris]
        sh["subdivided"] = True
    if kind == "mesh" and rng.random() < 0.35:
        # MeshGraph does not require a consistent winding: flip some triangles (after make_convex_mesh
        # in the worker when the triangles are not given here)
        sh["flip_winding"] = rng.randrange(1, 2 ** 30)
    margin = None
    if rng.random() < 0.3:
        margin = rng.choice(sc.LATTICE) if stream in ("lattice", "exact") else 10 ** rng.uniform(-2, 1)
    history = None
    if kind in sc.POSE_KINDS and rng.random() < HISTORY_SHARE.get(kind, 0.4):
        # the collider reaches the pose of `sh` through update_pose calls on a re-used pose array
        history = sc.gen_pose_history(rng, sh, stream)
        if kind in ("sphere", "disk", "ellipse"):
            Rf = [[sh["a0"][i], sh["a1"][i], sc.cross3(sh["a0"], sh["a1"])[i]] for i in range(3)] if kind == "ellipse" \
                else sc.gen_rotation(rng, stream if stream != "degen" else "random")
            if kind == "disk":
                Rf = sc.frame_with_third_column(Rf, sh["n"])
            sh = sc.with_pose(sh, Rf, sh["c"])
    nd = rng.randint(1, 22) if kind == "mesh" else rng.randint(3, 6)
    dirs = []
    classes = DIR_CLASSES + (["cone_switch"] * 3 if kind == "cone" else [])
    for _ in range(nd):
        cls = rng.choice(classes)
        dirs.append(dict(cls=cls, d=sc.gen_direction(rng, sh, cls)))
    feats = [dict(cls=c, d=d) for c, d in feature_dirs(sh)]
    if stream == "exact" and kind in ("hull", "box", "mesh") and margin is None:
        # exhaustive: all 26 sign directions; ties between vertices are decided by index order, and
        # model and code must return the very same vertex
        import itertools as _it
        feats += [dict(cls="sign26", d=[float(a), float(b), float(c3)])
                  for a, b, c3 in _it.product((-1, 0, 1), repeat=3) if (a, b, c3) != (0, 0, 0)]
    if kind == "mesh":
        rng.shuffle(feats)
        dirs = dirs[:1] + feats + dirs[1:]         # the cached start vertex is the previous answer
    else:
        dirs = feats + dirs
    if kind == "mesh" and len(dirs) >= 3 and rng.random() < 0.5:
        # repeated and opposite queries exercise the cached start vertex
        dirs[1] = dict(cls="repeat", d=list(dirs[0]["d"]))
        dirs[2] = dict(cls="opposite", d=[-x for x in dirs[0]["d"]])
    case = dict(shape=sh, margin=margin, dirs=[x["d"] for x in dirs], dir_cls=[x["cls"] for x in dirs],
                shared_dir_buffer=rng.random() < 0.5)
    if history is not None:
        case["history"] = history
    return case


def face_normal_case(rng):
    """The class of finding F-M1 (hang of the hill climb before /repo 7cb1be3): a small polytope of
    radius 10..100 in general position, queried along (+-) the floating-point normal of one of its
    faces - the face's vertices are equally extreme up to rounding - from EVERY cached start vertex."""
    import numpy as np
    from scipy.spatial import ConvexHull
    while True:
        n = rng.choice([4, 4, 5, 6, 8, 12])
        s = 10 ** rng.uniform(1, 2)
        vs = [[rng.uniform(-1, 1) * s for _ in range(3)] for _ in range(n)]
        try:
            hull = ConvexHull(np.array(vs))
        except Exception:
            continue
        break
    V = np.array(vs)
    ctr = V.mean(axis=0)
    tris = []
    for t in hull.simplices.tolist():
        a, b, c = V[t[0]], V[t[1]], V[t[2]]
        nrm = np.cross(b - a, c - a)
        if float(nrm @ ((a + b + c) / 3 - ctr)) < 0:
            t = [t[0], t[2], t[1]]
        tris.append([int(x) for x in t])
    Rm = sc.gen_rotation(rng, "random")
    t = sc.gen_translation(rng, "random")
    sh = dict(kind="mesh", stream="face_normal", R=Rm, t=t, vs=vs, triangles=tris)
    dirs, cls = [], []
    for tr in rng.sample(tris, min(3, len(tris))):
        a, b, c = V[tr[0]], V[tr[1]], V[tr[2]]
        nrm = np.cross(b - a, c - a)
        w = [float(x) for x in (np.array(Rm) @ nrm)]
        u = [x / sc.normf(w) for x in w]
        for name, d in (("face_normal", w), ("face_normal_unit", u), ("face_normal_neg", [-x for x in u])):
            dirs.append(d)
            cls.append(name)
        e = b - a                                    # along an edge: orthogonal to ... nothing special, but
        dirs.append([float(x) for x in (np.array(Rm) @ np.cross(nrm, e))])   # in the face plane, orthogonal to an edge
        cls.append("edge_normal_in_face")
    return dict(shape=sh, margin=None, dirs=dirs, dir_cls=cls, sweep=True)


def ring_mesh(rng, n_seg, n_rings):
    """Convex 'barrel': n_rings rings of n_seg vertices on ellipses (same angular positions, random phase;
    the ring radius shrinks slightly towards the caps so that every ring vertex is a hull vertex) + one centre
    vertex per cap (fan).  The vertex graph is LONG: its diameter is ~ n_seg / 2 edges for n ~ n_rings * n_seg
    vertices, whereas random hulls / sphere-like meshes have a diameter of order sqrt(n).  Edge sizes stay >= 1e-2.
    -> (vertices, triangles, info) in the mesh frame, vertex numbering shuffled in half of the cases."""
    edge = 10 ** rng.uniform(math.log10(0.0125), math.log10(0.05))
    a = max(1.0, min(45.0, n_seg * edge / (2 * math.pi)))
    ratio = rng.choice([1.0, 1.0, rng.uniform(0.6, 1.0)])
    b = a * ratio
    length = rng.uniform(0.2, 1.0) * a
    phase = rng.uniform(0, 2 * math.pi) if rng.random() < 0.7 else 0.0
    zs = [length * (k / (n_rings - 1) - 0.5) for k in range(n_rings)]
    vs = []
    for z in zs:
        f = 1.0 - 0.05 * (2 * z / length) ** 2 if n_rings > 2 else 1.0
        for i in range(n_seg):
            th = phase + 2 * math.pi * i / n_seg
            vs.append([a * f * math.cos(th), b * f * math.sin(th), z])
    cb, ct = len(vs), len(vs) + 1
    vs.append([0.0, 0.0, zs[0]])
    vs.append([0.0, 0.0, zs[-1]])
    tris = []
    top = (n_rings - 1) * n_seg
    for i in range(n_seg):
        j = (i + 1) % n_seg
        tris.append([j, i, cb])
        tris.append([top + i, top + j, ct])
        for k in range(n_rings - 1):
            lo, hi = k * n_seg, (k + 1) * n_seg
            if (i + k) % 2 == 0 or rng.random() < 0.5:
                tris += [[lo + i, lo + j, hi + j], [lo + i, hi + j, hi + i]]
            else:
                tris += [[lo + i, lo + j, hi + i], [lo + j, hi + j, hi + i]]
    if rng.random() < 0.5:
        order = list(range(len(vs)))
        rng.shuffle(order)
        inv = {o: i for i, o in enumerate(order)}
        vs = [vs[o] for o in order]
        tris = [[inv[x] for x in t] for t in tris]
    return vs, tris, dict(a=a, b=b, length=length, phase=phase, n_seg=n_seg, n_rings=n_rings)


def ring_mesh_case(rng, n_seg, n_rings, stream="random"):
    """MeshGraph over a ring mesh, asked along directions whose extreme vertex is FAR (in edges) from the six
    shortcut vertices (the +-x / +-y / +-z extremes of the mesh frame) and from the cached vertex of the previous
    query: lateral directions whose maximiser sits halfway between two shortcut vertices, their opposites, repeats;
    each query is also put to a new object (cached start vertex = first vertex of the triangulation)."""
    vs, tris, info = ring_mesh(rng, n_seg, n_rings)
    Rm = sc.gen_rotation(rng, stream)
    t = sc.gen_translation(rng, stream)
    sh = dict(kind="mesh", stream="ring", R=Rm, t=t, vs=vs, triangles=tris, ring=info)
    a, b = info["a"], info["b"]

    def lateral(theta, tilt):
        """direction (world frame) whose maximiser on the ellipse is the point of parameter theta"""
        ld = [math.cos(theta) / a, math.sin(theta) / b, 0.0]
        n = sc.normf(ld)
        ld = [ld[0] / n, ld[1] / n, tilt]
        return sc.matvec(Rm, ld)
    dirs, cls = [], []
    quad = [0, 1, 2, 3]
    rng.shuffle(quad)
    th0 = math.pi / 4 + quad[0] * math.pi / 2 + rng.uniform(-0.2, 0.2)
    d0 = lateral(th0, rng.uniform(-0.1, 0.1))
    seq = [("far", d0), ("repeat", list(d0)), ("opposite", [-x for x in d0]), ("repeat", list(d0))]
    for q in quad[1:3]:
        seq.append(("far", lateral(math.pi / 4 + q * math.pi / 2 + rng.uniform(-0.3, 0.3), rng.uniform(-0.3, 0.3))))
    seq.append(("lateral", lateral(rng.uniform(0, 2 * math.pi), 0.0)))
    seq.append(("random", sc.gen_direction(rng, sh, "random")))
    seq.append(("near_cap", lateral(rng.uniform(0, 2 * math.pi), rng.choice([-1.0, 1.0]) * rng.uniform(5.0, 50.0))))
    seq += [(c, d) for c, d in feature_dirs(sh) if c in ("shape_z+", "shape_x", "axis_-y")]
    seq.append(("far", lateral(math.pi / 4 + quad[3] * math.pi / 2 + rng.uniform(-0.1, 0.1), 0.02)))
    for c, d in seq:
        cls.append(c)
        dirs.append([float(x) + 0.0 for x in d])
    return dict(shape=sh, margin=rng.choice([None, None, 0.25]), dirs=dirs, dir_cls=cls, shared_dir_buffer=rng.random() < 0.5)


RING_SIZES = dict(quick=[(48, 2), (90, 3), (1000, 2), (2000, 2), (3000, 2)],
                  thorough=[(48, 2), (64, 3), (90, 3), (120, 2), (600, 3), (800, 2), (1000, 3), (1600, 2), (2000, 2), (2400, 2),
                            (3000, 2), (4000, 2)])


def gen_cases(rng, tier):
    per = 4 if tier == "quick" else 60
    cases = [face_normal_case(rng) for _ in range(per)]
    # long vertex graphs: small ones go through the model and the certificates, the large ones (hundreds of
    # edges between the shortcut vertices) are judged by the exact oracle only
    for n_seg, n_rings in RING_SIZES["quick" if tier == "quick" else "thorough"]:
        cases.append(ring_mesh_case(rng, n_seg, n_rings, "exact" if n_seg < 200 and rng.random() < 0.3 else "random"))
    for kind in sc.KINDS:
        for stream, share in (("random", 1.0), ("lattice", 0.6), ("exact", 0.6), ("near", 0.3), ("degen", 0.75)):
            n = int(per * share * (2 if kind == "mesh" else 1))
            for _ in range(n):
                cases.append(gen_case(rng, kind, stream))
    rng.shuffle(cases)
    return cases


# ---------------------------------------------------------------- model side
def coq_case_expr(case, res):
    sh = case["shape"]
    m = case["margin"]
    k = sh["kind"]
    if k == "mesh":
        T = sc.cpose(sh["R"], sh["t"])
        vs = sc.clist(sc.cv(v) for v in sh["vs"])
        conn = sc.clist("(" + sc.cnat(key) + ", " + sc.clist(sc.cnat(x) for x in val) + ")"
                        for key, val in res["connections"])
        shc = sc.clist(sc.cnat(x) for x in res["shortcuts"])
        ds = sc.clist(sc.cv(d) for d in case["dirs"])
        i0 = sc.cnat(res["first_idx0"])                      # the vertex cached when the sequence starts
        ic = sc.cnat(res.get("first_idx_ctor", res["first_idx0"]))   # ... of a newly constructed object
        seq = f"mql (mesh_queries {FUEL} T vs conn shc {i0} ds)"
        fresh = f"map (fun d => mql (mesh_queries {FUEL} T vs conn shc {ic} [d])) ds"
        fv = "ov3l (first_vertex_mesh T vs)"
        ce = f"v3l (center_mesh T vs {cm.fhex(float(len(sh['vs'])))})"
        sweep = "[]"
        if case.get("sweep"):
            starts = sc.clist(sc.cnat(i) for i in sorted(int(k) for k, _ in res["connections"]))
            sweep = f"map (fun d => map (fun i => mql (mesh_queries {FUEL} T vs conn shc i [d])) {starts}) ds"
        seq = seq.replace(" T vs conn shc ", " mT mvs mconn mshc ").replace(" ds)", " mds)")
        fresh = fresh.replace(" T vs conn shc ", " mT mvs mconn mshc ").replace(" ds", " mds")
        sweep = sweep.replace(" T vs conn shc ", " mT mvs mconn mshc ").replace(" ds", " mds")
        fv = "ov3l (first_vertex_mesh mT mvs)"
        ce = f"v3l (center_mesh mT mvs {cm.fhex(float(len(sh['vs'])))})"
        used = sc.clist(sc.cnat(i) for i in sorted({int(i) for t in res["triangles"] for i in t}))
        tris = sc.clist("(" + ", ".join(sc.cnat(i) for i in t) + ")" for t in res["triangles"])
        # used_indices (the model of np.unique(triangles)) must give the sorted index set; the
        # shortcut table is computed by the model from vertices and triangles alone
        sh_model = (f"(match shortcut_connections mvs (used_indices {tris}) with Some l => l | None => [] end, "
                    f"used_indices {tris})")
        return ([("mT", T), ("mvs", vs), ("mconn", conn), ("mshc", shc), ("mds", ds)],
                f"({seq}, {fresh}, {fv}, {ce}, {sh_model}, {sweep})")
    items = []
    for d in case["dirs"]:
        if m is None:
            items.append(sc.coq_support_expr(sh, d))
        else:
            items.append(f"v3l (support_margin {sc.coq_support_inner(sh, d)} {sc.cv(d)} {cm.fhex(m)})")
    if k == "sphere":
        fv = f"v3l (first_vertex_sphere {sc.cv(sh['c'])} {cm.fhex(sh['r'])})"
        ce = f"v3l (center_sphere {sc.cv(sh['c'])})"
    elif k == "box":
        T = sc.cpose(sh["R"], sh["t"])
        fv = f"ov3l (first_vertex_hull (convert_box_to_vertices {T} {sc.cv(sh['size'])}))"
        ce = f"v3l (center_box {T})"
    elif k == "cylinder":
        T = sc.cpose(sh["R"], sh["t"])
        fv = f"v3l (first_vertex_cylinder {T} {cm.fhex(sh['l'])})"
        ce = f"v3l (trans {T})"
    elif k == "capsule":
        T = sc.cpose(sh["R"], sh["t"])
        fv = f"v3l (first_vertex_capsule {T} {cm.fhex(sh['r'])} {cm.fhex(sh['h'])})"
        ce = f"v3l (trans {T})"
    elif k == "ellipsoid":
        T = sc.cpose(sh["R"], sh["t"])
        fv = f"v3l (first_vertex_ellipsoid {T} {sc.cv(sh['radii'])})"
        ce = f"v3l (trans {T})"
    elif k == "cone":
        T = sc.cpose(sh["R"], sh["t"])
        fv = f"v3l (first_vertex_cone {T} {cm.fhex(sh['h'])})"
        ce = f"v3l (center_cone {T} {cm.fhex(sh['h'])})"
    elif k == "disk":
        fv = f"v3l (first_vertex_disk {sc.cv(sh['c'])} {cm.fhex(sh['r'])} {sc.cv(sh['n'])})"
        ce = f"v3l {sc.cv(sh['c'])}"
    elif k == "ellipse":
        fv = f"v3l (first_vertex_ellipse {sc.cv(sh['c'])} {sc.cv(sh['a0'])} {cm.fhex(sh['r0'])})"
        ce = f"v3l {sc.cv(sh['c'])}"
    elif k == "hull":
        vs = sc.clist(sc.cv(v) for v in sh["vs"])
        fv = f"ov3l (first_vertex_hull {vs})"
        ce = f"v3l (mean3 {vs} {cm.fhex(float(len(sh['vs'])))})"
    extra = "[]"
    if k == "box":
        T = sc.cpose(sh["R"], sh["t"])
        hl = sc.cv([0.5 * x for x in sh["size"]])
        extra = sc.clist(f"v3l (support_box {sc.cv(d)} {T} {hl})" for d in case["dirs"])
    return [], f"({sc.clist(items)}, {fv}, {ce}, {extra})"


# ---------------------------------------------------------------- uniqueness of the maximiser
def unique_margin(sh, d):
    """True when the maximiser of x.d over the bare shape is unique with a clear margin
    (so that model and implementation must return the same POINT)."""
    k = sh["kind"]
    nd = sc.normf(d)
    if not (nd > 1e-150):
        return False
    if k == "sphere":
        return True
    if sc.is_big_poly(sh):
        import numpy as np
        pr = np.sort(sc._big_arrays(sh) @ np.array(d, dtype=float))[::-1]
        return bool(pr[0] - pr[1] > 1e-7 * max(1.0, float(np.max(np.abs(pr)))))
    if k in ("hull", "mesh", "box"):
        vals = sorted((float(sc.qdot(p, sc.Fv(d))) for p in sc.world_vertices(sh)), reverse=True)
        scale = max(1.0, max(abs(v) for v in vals))
        return len(vals) == 1 or vals[0] - vals[1] > 1e-7 * scale
    if k == "disk":
        n = sh["n"]
        dn = sc.dotf(d, n)
        w = [d[i] - dn * n[i] for i in range(3)]
        return sc.normf(w) > 1e-7 * nd
    if k == "ellipse":
        l0, l1 = sc.dotf(sh["a0"], d), sc.dotf(sh["a1"], d)
        return math.hypot(sh["r0"] * l0, sh["r1"] * l1) > 1e-7 * nd * min(sh["r0"], sh["r1"])
    ld = sc.mattvec(sh["R"], d)
    s = math.hypot(ld[0], ld[1])
    if k == "ellipsoid":
        return True
    if k == "capsule":
        return abs(ld[2]) > 1e-7 * nd
    if k == "cylinder":
        return abs(ld[2]) > 1e-7 * nd and s > 1e-7 * nd
    if k == "cone":
        a, b = sh["r"] * s, sh["h"] * ld[2]
        if b > a + 1e-7 * nd * (sh["r"] + sh["h"]):
            return True
        return s > 1e-7 * nd and a > b + 1e-7 * nd * (sh["r"] + sh["h"])
    return False


# ---------------------------------------------------------------- oracle
def judge_point(sh, margin, d, s, L, what):
    """Property oracle for one answered query. Returns list of failure strings."""
    tau = Fr(1e-9) * Fr(L)
    if not sc.finite(s) or len(s) != 3:
        return [f"{what}: non-finite or malformed answer {s}"]
    sq = sc.Fv(s)
    fails = []
    ok, det = sc.in_inflated_tol(sh, sq, margin or 0.0, d, tau)
    if not ok:
        fails.append(f"{what}: returned point is not within 1e-9*L of the set ({det})")
    lo, hi = sc.support_value_bounds(sh, d, margin or 0.0)
    val = sc.qdot(sq, sc.Fv(d))
    if val < lo - tau:
        fails.append(f"{what}: s.d = {float(val):.17g} is below the maximum {float(lo):.17g} by {float(lo - val):.3e} > 1e-9*L = {float(tau):.3e}")
    if val > hi + tau:
        fails.append(f"{what}: s.d = {float(val):.17g} exceeds the maximum over the set {float(hi):.17g} by {float(val - hi):.3e}")
    return fails


def judge_member(sh, p, L, what):
    tau = Fr(1e-9) * Fr(L)
    if not sc.finite(p) or len(p) != 3:
        return [f"{what}: non-finite or malformed answer {p}"]
    pq = sc.Fv(p)
    if sh["kind"] in ("hull", "mesh") and what.endswith("center"):
        vs = sc.world_vertices(sh)
        mean = [sum(v[i] for v in vs) / len(vs) for i in range(3)]
        err = max(abs(a - b) for a, b in zip(pq, mean))
        return [] if err <= tau else [f"center: differs from the exact vertex mean by {float(err):.3e}"]
    ok, det = sc.in_shape_tol(sh, pq, tau)
    return [] if ok else [f"{what}: not within 1e-9*L of the set ({det})"]


def judge_case(case, r):
    """All property failures of one case (implementation answers only)."""
    sh = case["shape"]
    L = sc.shape_L(sh, case["margin"] or 0.0)
    fails = []
    if "exc" in r:
        return [f"raised {r['exc']}: {r.get('exc_msg', '')}"]
    for i, (d, s) in enumerate(zip(case["dirs"], r["sup"])):
        fails += judge_point(sh, case["margin"], d, s, L, f"support_function(dirs[{i}])")
    hist = case.get("history")
    if hist is not None:
        how = ("the pose array handed to the constructor" if hist["ctor_array"] else "the array of the first update_pose") + \
              (" (matrix 1 of a (3,4,4) stack)" if hist.get("stack") else "")
        ctx = (f"[history: constructed at another pose, then {len(hist['mids']) + 1} update_pose call(s); {how} is overwritten in place "
               f"and passed to update_pose again] ")
        for si, (shs, ob) in enumerate(zip(sc.history_stage_shapes(sh, hist), r.get("stages") or [])):
            Ls = sc.shape_L(shs, case["margin"] or 0.0)
            where = "after construction" if si == 0 else f"after update_pose #{si} of the history"
            for i, (d, s) in enumerate(zip(case["dirs"], ob["sup"])):
                fails += judge_point(shs, case["margin"], d, s, Ls, f"{where}: support_function(dirs[{i}])")
            fails += judge_member(shs, ob["first_vertex"], Ls, f"{where}: first_vertex")
            fails += judge_member(shs, ob["center"], Ls, f"{where}: center")
    for m in r.get("modified") or []:
        fails.append(f"{m} (the shape a collider describes must not change by asking for support points)")
    if r.get("again0") is not None and r["sup"]:
        a, b = r["again0"], r["sup"][0]
        if not (sc.finite(a) and sc.finite(b) and max(abs(x - y) for x, y in zip(a, b)) <= 1e-9 * L) and sh["kind"] != "mesh":
            fails.append(f"support_function(dirs[0]) asked again after the other queries returns {a}, the first time {b}")
    if sh["kind"] == "mesh":
        for i, (d, s) in enumerate(zip(case["dirs"], r["fresh"])):
            f2 = judge_point(sh, case["margin"], d, s, L, f"fresh object support_function(dirs[{i}])")
            fails += f2
            v1 = sc.dotf(r["sup"][i], d)
            v2 = sc.dotf(s, d)
            if sc.finite([v1, v2]) and abs(v1 - v2) > 2e-9 * L:
                fails.append(f"history dependence: query {i} after {i} earlier queries gives s.d = {v1!r}, fresh object gives {v2!r}")
    if sh["kind"] == "box":
        for i, (d, s) in enumerate(zip(case["dirs"], r["free_box"])):
            fails += judge_point(sh, None, d, s, L, f"geometry.support_function_box(dirs[{i}])")
    for i, (d, row) in enumerate(zip(case["dirs"], r.get("sweep") or [])):
        for start, (idx, s) in zip(sorted(int(k) for k, _ in r["connections"]), row):
            fails += judge_point(sh, case["margin"], d, s, L, f"support_function(dirs[{i}]) with cached start vertex {start}")
    fails += judge_member(sh, r["first_vertex"], L, "first_vertex")
    fails += judge_member(sh, r["center"], L, "center")
    if hist is not None and fails:
        fails[0] = ctx + fails[0]
    return fails


# ---------------------------------------------------------------- Coq-proven certificates
def cert_jobs(case, r):
    """(labels, one Coq expression of type list bool) for the answers of the case: support_cert for the
    queries, in_shape_tol for first_vertex() / center() (of the wrapped shape: Margin forwards them).
    The shape expression is bound once per case."""
    from .. import narrow
    sh = case["shape"]
    if "sup" not in r or sc.is_big_poly(sh):
        return [], None
    m = case["margin"]
    L = sc.shape_L(sh, m or 0.0)
    tau = narrow._q(Fr(1e-9) * Fr(L))
    spec = sc.to_spec(sh, m)
    bare = sc.to_spec(sh, None)
    labels, items = [], []
    groups = [("sup", r["sup"], spec, "shS")]
    if sh["kind"] == "mesh":
        groups.append(("fresh", r["fresh"], spec, "shS"))
    if sh["kind"] == "box":
        groups.append(("free_box", r["free_box"], bare, "shB"))
    for name, answers, sp, var in groups:
        budget = CERTS_PER_GROUP
        for i, (d, s) in enumerate(zip(case["dirs"], answers)):
            if name == "fresh" and s == r["sup"][i]:
                continue                 # the same point as the sequence answer: already certified
            if budget == 0:
                break                    # the feature directions come first in every case
            budget -= 1
            if sc.finite(s) and len(s) == 3:
                labels.append((name, i))
                items.append(sc.support_cert_item(var, sp, s, d, tau))
    for name in ("first_vertex", "center"):
        p = r[name]
        if sc.finite(p) and len(p) == 3:
            labels.append((name, 0))
            items.append(f"in_shape_tolD shB {narrow.wit_expr(bare, p)} {narrow.vq(p)} {tau}")
    return labels, ([("shS", narrow.sh_expr(spec)), ("shB", narrow.sh_expr(bare))], f"[{'; '.join(items)}]")


# ---------------------------------------------------------------- the hypothesis of the mesh theorem, per input
def local_max_global_delta(sh, r, d):
    """smallest delta for which LocalMaxGlobal / LocalMaxGlobalS (Proofs/MeshClimb.v) hold for this
    mesh, adjacency, shortcut list and direction, computed exactly: max over the vertices without a
    neighbour better by more than 10*eps [and, for the S variant, not worse than any shortcut vertex by
    more than 10*eps] of (global maximum - own projection), in units of x.d.
    -> (delta, delta_S, gap between the best vertex overall and the best vertex of the adjacency)"""
    M = sc.Fm(sh["R"])
    dm = sc.qmattvec(M, sc.Fv(d))
    vs = [sc.Fv(v) for v in sh["vs"]]
    proj = [sc.qdot(dm, v) for v in vs]
    conn = {int(k): [int(x) for x in v] for k, v in r["connections"]}
    best = max(proj[i] for i in conn)            # vertices that occur in the adjacency
    best_all = max(proj)
    best_short = max(proj[int(j)] for j in r["shortcuts"])
    delta = delta_s = Fr(0)
    for i, nb in conn.items():
        if all(proj[j] - proj[i] <= EPS10 for j in nb):
            delta = max(delta, best_all - proj[i])
            if best_short <= proj[i] + EPS10:
                delta_s = max(delta_s, best_all - proj[i])
    return delta, delta_s, best_all - best


def exact_query(sh, margin, d):
    """model and implementation evaluate this query without any rounding that depends on the order of
    operations: the answers must agree whatever the ties"""
    if not (sc.exact_pose(sh) and sc.exact_direction(d)):
        return False
    k = sh["kind"]
    nums = []
    if k in ("hull", "mesh"):
        nums = [x for v in sh["vs"] for x in v]
    elif k == "box":
        nums = list(sh["size"])
    if k not in ("hull", "mesh", "box"):
        return False                    # smooth kinds: the 1e-9*L comparison is already complete
    return all(sc.is_lattice_number(x, 16.0) for x in nums) and (margin is None)


# ---------------------------------------------------------------- comparison model vs implementation
def close(a, b, tol):
    return len(a) == len(b) and all(abs(x - y) <= tol for x, y in zip(a, b))


def add_margin(p, d, m):
    if m is None or not p:
        return p
    n = sc.normf(d)
    if n == 0.0:
        return [p[i] + m * d[i] for i in range(3)]
    return [p[i] + m * (d[i] / n) for i in range(3)]


def compare_case(case, r, m, stats):
    diffs = []
    sh = case["shape"]
    L = sc.shape_L(sh, case["margin"] or 0.0)
    tol = 1e-9 * L
    if sh["kind"] == "mesh":
        seq, fresh, fv, ce, shortcuts_model, sweep_model = m
        for i, (d, row_m, row_i) in enumerate(zip(case["dirs"], sweep_model, r.get("sweep") or [])):
            for start, (qm, (iidx, ip)) in enumerate(zip(row_m, row_i)):
                if not qm:
                    diffs.append(f"sweep[{i}][start {start}]: model stopped with an error")
                    continue
                midx, mp = qm[0]
                if not sc.finite(ip) or abs(sc.dotf(mp, d) - sc.dotf(ip, d)) > tol:
                    diffs.append(f"sweep[{i}][start {start}]: support value model {sc.dotf(mp, d)!r} vs implementation {ip} (d={d})")
                elif unique_margin(sh, d) and midx != iidx:
                    diffs.append(f"sweep[{i}][start {start}]: vertex index model {midx} vs implementation {iidx} (d={d})")
            stats["sweep_queries"] = stats.get("sweep_queries", 0) + len(row_i)
        shortcuts_model, used_model = shortcuts_model
        used_impl = sorted({int(i) for t in r["triangles"] for i in t})
        if used_model != used_impl:
            diffs.append(f"mesh: model of np.unique(triangles) gives {used_model}, expected {used_impl}")
        if shortcuts_model != r["shortcuts"]:
            diffs.append(f"mesh shortcut_connections: model {shortcuts_model} vs implementation {r['shortcuts']}")
        # the adjacency table (taken from the implementation because its iteration order is the
        # implementation's) must be exactly the undirected edge graph of the triangles
        edges = {}
        for a, b, c3 in r["triangles"]:
            for x, y in ((a, b), (b, c3), (a, c3)):
                edges.setdefault(int(x), set()).add(int(y))
                edges.setdefault(int(y), set()).add(int(x))
        conn_impl = {int(k): [int(x) for x in v] for k, v in r["connections"]}
        if {k: set(v) for k, v in conn_impl.items()} != edges or any(len(set(v)) != len(v) for v in conn_impl.values()):
            diffs.append(f"mesh connections differ from the undirected edge graph of the triangles: {sorted(conn_impl.items())[:3]} ...")
        if r.get("first_idx_ctor", r["first_idx0"]) != min(used_impl):
            diffs.append(f"mesh first_idx after construction {r.get('first_idx_ctor', r['first_idx0'])} != min(triangles) {min(used_impl)}")
        model_pts = [add_margin(p, d, case["margin"]) for (_, p), d in zip(seq, case["dirs"])]
        model_idx = [i for i, _ in seq]
        if len(seq) != len(case["dirs"]):
            diffs.append("mesh: model stopped with an error (KeyError / index error / out of fuel)")
        fresh_pts = [add_margin(f[0][1], d, case["margin"]) if f else [] for f, d in zip(fresh, case["dirs"])]
        groups = [("sequence", model_pts, r["sup"], model_idx, r["seq_idx"]),
                  ("fresh", fresh_pts, r["fresh"], [f[0][0] if f else -1 for f in fresh], r["fresh_idx"])]
    else:
        items, fv, ce, extra = m
        groups = [("support", items, r["sup"], None, None)]
        if sh["kind"] == "box":
            groups.append(("support_function_box", extra, r["free_box"], None, None))
    for name, mp, ip, midx, iidx in groups:
        for i, d in enumerate(case["dirs"]):
            if i >= len(mp) or i >= len(ip) or len(mp[i]) != 3:
                diffs.append(f"{name}[{i}]: model has no value")
                continue
            if not sc.finite(ip[i]) or not sc.finite(mp[i]):
                if not (sc.finite(ip[i]) or sc.finite(mp[i])):
                    continue
                diffs.append(f"{name}[{i}]: finiteness differs: model {mp[i]} implementation {ip[i]}")
                continue
            vm, vi = sc.dotf(mp[i], d), sc.dotf(ip[i], d)
            exact = name != "support_function_box" and exact_query(sh, case["margin"], d)
            stats["exact_queries"] = stats.get("exact_queries", 0) + (1 if exact else 0)
            if abs(vm - vi) > tol:
                diffs.append(f"{name}[{i}]: support value model {vm!r} vs implementation {vi!r} (d={d})")
            elif name != "support_function_box" and unique_margin(sh, d) and not close(mp[i], ip[i], tol):
                diffs.append(f"{name}[{i}]: unique maximiser but points differ: model {mp[i]} implementation {ip[i]} (d={d})")
            elif midx is not None and unique_margin(sh, d) and midx[i] != iidx[i]:
                diffs.append(f"{name}[{i}]: vertex index model {midx[i]} vs implementation {iidx[i]}")
            elif exact and mp[i] != ip[i]:
                diffs.append(f"{name}[{i}]: exactly representable query (ties decided by index order) but points differ: model {mp[i]} implementation {ip[i]} (d={d})")
            elif exact and midx is not None and midx[i] != iidx[i]:
                diffs.append(f"{name}[{i}]: exactly representable query but vertex index differs: model {midx[i]} vs implementation {iidx[i]} (d={d})")
    if not close(fv, r["first_vertex"], tol):
        diffs.append(f"first_vertex: model {fv} vs implementation {r['first_vertex']}")
    if not close(ce, r["center"], tol):
        diffs.append(f"center: model {ce} vs implementation {r['center']}")
    return diffs


# ---------------------------------------------------------------- running
def run_impl_cases(cases, tag, hits=None):
    """Watchdog: every case runs under a CPU-time budget inside the worker (the kernel kills the worker
    when a case burns more than CASE_CPU seconds of user time, which a non-terminating compiled loop
    does within seconds and machine load does not).  A killed worker's cases are re-run one per
    process; a case killed again is re-confirmed alone with CONFIRM_CPU before it is called a hang."""
    nw = min(cm.NCPU, max(1, len(cases) // 25))
    chunks = [cases[i::nw] for i in range(nw)]
    res = cm.run_impl_parallel(PID, "c03", [dict(cases=c, cpu_budget=CASE_CPU) for c in chunks], timeout=3000, tag=tag)
    out = [None] * len(cases)
    consts = None

    def merge(result):
        if hits is not None:
            for f, lines in (result.get("line_hits") or {}).items():
                hits.setdefault(f, set()).update(lines)
    for w, (rr, ch) in enumerate(zip(res, chunks)):
        idxs = list(range(w, len(cases), nw))
        if rr["status"] == "ok":
            consts = consts or rr["result"].get("consts")
            merge(rr["result"])
            for i, x in zip(idxs, rr["result"]["results"]):
                out[i] = x
        else:
            singles = cm.run_impl_parallel(PID, "c03", [dict(cases=[c], cpu_budget=CASE_CPU) for c in ch], timeout=3000,
                                           tag=tag + "_iso")
            for i, c, s in zip(idxs, ch, singles):
                if s["status"] != "ok":
                    s = cm.run_impl(PID, "c03", dict(cases=[c], cpu_budget=CONFIRM_CPU), timeout=6000, tag=tag + "_confirm")
                if s["status"] == "ok":
                    out[i] = s["result"]["results"][0]
                    consts = consts or s["result"].get("consts")
                    merge(s["result"])
                else:
                    what = "HANG" if s.get("rc") in (-26, 128 + 26) or s["status"] == "timeout" else s["status"].upper()
                    out[i] = dict(exc=f"PROCESS-{what}",
                                  exc_msg=f"worker rc={s.get('rc')} (killed after {CONFIRM_CPU} s of CPU time in one case = does not terminate) "
                                          f"{s.get('log', '')[-300:]}")
    return out, consts


def line_coverage(hits, scope):
    """hits: {basename: set(lines)} from the workers; -> summary per function of /repo's source"""
    from ..impl import shapes_trace as st
    import os
    base = cm.REPO / "distance3d"
    by_path = {os.path.realpath(str(base / f)): sorted(v) for f, v in hits.items()}
    return st.summarize(by_path, {str(base / f): names for f, names in scope.items()})


EXPECTED_CONSTS = dict(
    BOX_COORDS=[[a, b, c] for a in (-0.5, 0.5) for b in (-0.5, 0.5) for c in (-0.5, 0.5)],
    PROJECTION_LENGTH_EPSILON=10.0 * 2.0 ** -52, EPSILON=2.0 ** -52)


def run(tier, seed, replay=None):
    R = cm.Run(PID, "proof", tier, seed)
    import time as _time
    _t = [_time.time()]
    R.cov["phase_seconds"] = {}

    def _phase(name):
        now = _time.time()
        R.cov["phase_seconds"][name] = round(now - _t[0], 1)
        _t[0] = now
    R.cov["rule"] = ("case = one collider object (10 kinds x streams: random general position / lattice poses "
                     "[24 axis permutations x optional exact 45-degree factor, sizes and offsets from {1/4,1/2,1,2,4}] / "
                     "exact [axis permutations only: every operation of model and code is exact]; 30% wrapped in Margin; "
                     "meshes from make_convex_mesh over random clouds, points on an ellipsoid (40-150 vertices: long climbs), "
                     "lattice clouds, and cubes with face centres = vertices interior to faces) + the feature directions "
                     "of the shape (along / against / across its own axes, coordinate axes) + 3-6 directions (MeshGraph: "
                     "up to 30 queries on ONE object, each repeated on a fresh object) from classes random / axis-aligned / "
                     "sign-boundary (components in {0,+-1,+-1e-300,+-1e-9}) / powers of two incl. 2^-50, 2^-48 (straddling the "
                     "10*eps threshold of the hill climb) / parallel to a shape axis / orthogonal to or mixing shape axes / "
                     "almost parallel / almost orthogonal to a shape axis (1e-3..1e-9) / cone: around the rim-apex switch line; in half of the cases all "
                     "ring meshes [barrels of 2-3 rings with 48..3000 segments and a fan per cap: vertex-graph diameter ~ n/4 edges instead of ~sqrt(n); "
                     "queried along lateral directions whose maximiser lies halfway between two shortcut vertices, their opposites and repeats, each also on a new object]; "
                     "pose histories [40-60% of the cases of the nine kinds with update_pose: constructed at another pose, then 1-4 update_pose calls that "
                     "re-use ONE pose array overwritten in place (the constructor's own array or the array of the first update, optionally a matrix of a "
                     "(3,4,4) stack); support points / first_vertex / center are judged after construction and after every update against the pose of that "
                     "step, all other observations are made in the final state]; "
                     "queries of the case are passed in ONE direction array that is overwritten in place between the calls; exact hull / box / mesh cases additionally get all 26 sign directions; distinct_nontrivial counts distinct (case hash, direction index) "
                     "pairs whose direction is non-zero, whose answer passed the oracle and for which the shape has non-zero "
                     "extent along d")
    R.assumptions += [
        "theorems are about the Gallina model Model/Support.v instantiated at exact real arithmetic; the tie to /repo is the correspondence check run here (binary64 instance of the same model vs implementation, 1e-9*L; exact equality of points and vertex indices in the exactly representable cases)",
        "per-input verdict: the gate is an independent exact Python oracle (fractions.Fraction, integer-square-root bounds at 2^-160): closed-form support values of c + M.K under the exact float pose; for box / hull / mesh the exact maximum over the vertices; every judged answer is ALSO submitted to the Coq-proven checker support_cert / in_shape_tol (Checker/ShapesCert.v, Checker/Shapes.v) by vm_compute; coverage.certificates says how many verdicts are thereby consequences of support_cert_sound (the witnesses are untrusted floating-point hints; a rejected certificate with an accepting oracle is counted as inconclusive, never as a failure)",
        "certificates speak about the shape expression of harness/narrow.py: c + sum of segments / ellipsoidal discs whose axis vectors are the binary64 products size*column (relative 1.1e-16 from the exact products), the disk frame is completed in floating point; this perturbs the set by < 1e-15*L, far below 1e-9*L",
        "membership 'within 1e-9*L of the set' in the Python oracle is tested in exact local coordinates M^-1 (p - c); for the cone the tolerance is scaled by (1 + r/h), for ellipsoid / ellipse by the gauge (tau / smallest radius); the Coq certificate uses the Euclidean distance to an explicit point of the set",
        "IEEE rounding is not modelled by the theorems; its effect is only measured here against 1e-9*L",
        f"meshes with more than {MODEL_MAX_VERTICES} vertices (the large ring meshes, coverage.large_meshes_judged_by_exact_oracle_only) are NOT run through the Coq model, the support certificates or the cone certificate (association lists and unary indices make the model run quadratic in the vertex count): their answers are judged by the exact rational oracle alone (the maximum over ALL vertices: binary64 projections select every vertex within 1e-9*scale of the float maximum, float error < 1e-13*scale, the selected vertices are evaluated in exact rationals; membership likewise) and by the comparison of the queried object with newly constructed objects",
        "pose histories: C03 is read as a statement about the collider in ANY state reachable through its public methods: after update_pose(P) the collider's point set is the shape at pose P (what collider2origin()/center()/aabb() describe), whichever array object carried P; observations after an in-place edit WITHOUT a following update_pose are not judged (no property text promises them, and Box keeps its cached vertices in that case)",
        "model limitation (same root as known finding C20-NORM-UNDERFLOW): numba lowers np.linalg.norm to BLAS nrm2, which does not underflow, whereas the model (like interpreted numpy) computes sqrt(sum of squares): for non-zero d with |d| < ~1e-162 the binary64 model takes the `norm == 0` arm and the compiled code the division arm; for |d| <= 1e-150 only the support VALUE is compared (both are within 1e-9*L of the maximum, the points differ); coverage.interpreted_vs_compiled_differences counts these queries (the 'underflow' feature direction of every case)",
        "mesh hill climbing: the global-maximum theorem carries the hypothesis LocalMaxGlobal on the input mesh (see Props/C03.v); for the generated meshes (up to a budget, <= 30 vertices) that hypothesis is PROVED per mesh by a cone certificate checked in Coq (coverage.mesh_cone_certificates: C03_mesh_cone_cert_sound, all directions at once); coverage.local_max_global additionally reports, per mesh and direction, the exact smallest delta for which LocalMaxGlobal / LocalMaxGlobalS hold; scipy's ConvexHull (inside make_convex_mesh) is used to build inputs",
        "coverage.impl_line_coverage: source lines of /repo executed by this run's inputs (interpreted re-execution of the numba functions' source under sys.settrace in the workers)",
        "harness/compat.py import shim; numpy/numba/CPython/BLAS",
    ]
    sc.check_proofs_retry(R, PROOF_FILES, build_targets=["theories/Props/C03.vo", "theories/Model/ShapesRun.vo",
                                               "theories/Checker/ShapesCert.vo", "theories/Checker/ShapesMeshCone.vo"])

    _phase("proofs")
    cases = []
    corpus = cm.VERIF / "corpus" / PID
    if replay:
        cases.append(json.loads(open(replay).read())["case"])
    else:
        if corpus.exists():
            for f in sorted(corpus.glob("*.json")):
                cases.append(json.loads(f.read_text())["case"])
        cases += gen_cases(R.rng, tier)

    _phase("generate")
    hits = {}
    results, consts = run_impl_cases(cases, "impl", hits)
    if consts is not None:
        for k, v in EXPECTED_CONSTS.items():
            if consts.get(k) != v:
                R.corr_broken.append(f"source constant {k} = {consts.get(k)!r} differs from the value the model uses ({v!r})")
    _phase("implementation")
    n_eval = 0
    bad = []
    unbuilt = 0
    judged_ok = {}
    fails_by_case = {}
    for ci, (c, r) in enumerate(zip(cases, results)):
        if "build_exc" in r:
            unbuilt += 1
            continue
        n_eval += len(c["dirs"]) * (2 if c["shape"]["kind"] == "mesh" else 1)
        f = judge_case(c, r)
        fails_by_case[ci] = f
        if f:
            bad.append((c, f))
        else:
            judged_ok[ci] = True
    R.cov["evaluations"] = n_eval
    R.cov["cases"] = len(cases)
    R.cov["cases_not_constructible"] = unbuilt
    npy = sum(len(r.get("pyfunc_diff") or []) for r in results)
    R.cov["interpreted_vs_compiled_differences"] = npy
    pyexc = [r["pyfunc_exc"] for r in results if r.get("pyfunc_exc")]
    if pyexc:
        R.notes.append(dict(interpreted_replay_errors=pyexc[:3], count=len(pyexc)))

    _phase("oracle")
    # Coq-proven certificates on the implementation's answers
    jobs = []
    for ci, (c, r) in enumerate(zip(cases, results)):
        if "build_exc" in r or "exc" in r:
            continue
        try:
            labels, e = cert_jobs(c, r)
            if labels:
                jobs.append((ci, labels, e))
        except Exception as e:  # witness construction is untrusted and may fail
            R.notes.append(dict(certificate_construction_failed=f"{type(e).__name__}: {str(e)[:200]}", case_hash=cm.canon_hash(c)))
    cert = dict(submitted=sum(len(l) for _, l, _ in jobs), accepted=0, rejected_but_oracle_accepts=0, rejected_and_oracle_rejects=0)
    try:
        outs = sc.coq_eval_blocks(PID, sc.CERT_HEADER, [e for _, _, e in jobs], tag="cert",
                                  per_file=max(2, len(jobs) // cm.NCPU + 1), timeout=1500)
        rej = {}
        for (ci, labels, _), o in zip(jobs, outs):
            verdicts = [x.strip() == "true" for x in o.strip().strip("[]").split(";")] if o.strip() != "[]" else []
            if len(verdicts) != len(labels):
                raise RuntimeError(f"unexpected checker output {o[:200]}")
            for ok in verdicts:
                if ok:
                    cert["accepted"] += 1
                elif fails_by_case.get(ci):
                    cert["rejected_and_oracle_rejects"] += 1
                else:
                    cert["rejected_but_oracle_accepts"] += 1
                    k = cases[ci]["shape"]["kind"]
                    rej[k] = rej.get(k, 0) + 1
        if rej:
            cert["inconclusive_by_kind"] = rej
    except RuntimeError as e:
        R.notes.append(dict(certificate_evaluation_failed=str(e)[:500]))
    cert["theorem"] = "Checker/ShapesCert.v support_cert_sound / support_cert_scaled_sound, Checker/Shapes.v in_shape_tol_sound"
    R.cov["certificates"] = cert

    _phase("certificates")
    # model on the same cases
    exprs, idx = [], []
    n_large = 0
    for i, (c, r) in enumerate(zip(cases, results)):
        if "build_exc" in r or "exc" in r:
            continue
        if len(c["shape"].get("vs") or []) > MODEL_MAX_VERTICES:
            n_large += 1            # association lists and unary indices: the model run is quadratic in the vertex count
            continue
        exprs.append(coq_case_expr(c, r))
        idx.append(i)
    ndiff = 0
    stats = {}
    try:
        outs = sc.coq_eval_blocks(PID, sc.HEADER, exprs, per_file=max(2, len(exprs) // cm.NCPU + 1))
        for i, o in zip(idx, outs):
            m = sc.parse_coq_value(o)
            d = compare_case(cases[i], results[i], m, stats)
            if d:
                ndiff += 1
                if len(R.corr_broken) < 5:
                    R.corr_broken.append(f"Support model vs implementation ({cases[i]['shape']['kind']}): {d[0]}")
                R.notes.append(dict(correspondence_diff=d[:3], case_hash=cm.canon_hash(cases[i])))
    except RuntimeError as e:
        R.corr_broken.append(f"model evaluation failed: {str(e)[:500]}")
    R.cov["traces_validated_against_impl"] = len(idx) - ndiff
    R.cov["correspondence_disagreements"] = ndiff
    R.cov["large_meshes_judged_by_exact_oracle_only"] = n_large
    R.cov["queries_compared_exactly"] = stats.get("exact_queries", 0)
    R.cov["start_vertex_sweep_queries"] = stats.get("sweep_queries", 0)

    _phase("model")
    # hypothesis of the partial mesh theorem, evaluated exactly on this run's meshes
    lmg = dict(pairs=0, LocalMaxGlobal_within_tolerance=0, LocalMaxGlobalS_with_delta_0=0, LocalMaxGlobalS_within_tolerance=0,
               worst_delta_S_over_L=0.0, unused_vertex_cases=0)
    for c, r in zip(cases, results):
        if c["shape"]["kind"] != "mesh" or "connections" not in r:
            continue
        L = sc.shape_L(c["shape"], c["margin"] or 0.0)
        unused = False
        for d in c["dirs"][:8]:
            delta, delta_s, gap = local_max_global_delta(c["shape"], r, d)
            unused = unused or gap > 0
            lmg["pairs"] += 1
            lmg["LocalMaxGlobal_within_tolerance"] += 1 if delta <= Fr(1e-9) * Fr(L) else 0
            lmg["LocalMaxGlobalS_with_delta_0"] += 1 if delta_s == 0 else 0
            lmg["LocalMaxGlobalS_within_tolerance"] += 1 if delta_s <= Fr(1e-9) * Fr(L) else 0
            lmg["worst_delta_S_over_L"] = max(lmg["worst_delta_S_over_L"], float(delta_s / Fr(L)))
        lmg["unused_vertex_cases"] += 1 if unused else 0
    lmg["meaning"] = ("hypotheses of C03_mesh_support_partial / C03_mesh_support_shortcuts_partial evaluated exactly for the first 8 "
                      "directions of every generated mesh; delta in units of x.d, tolerance 1e-9*L")
    R.cov["local_max_global"] = lmg

    _phase("local_max_global")
    # per-mesh proof of the hypothesis: cone certificates checked by Coq (Checker/ShapesMeshCone.v)
    from . import shapes_meshcone as mc
    mcs = dict(meshes=0, submitted=0, accepted=0, no_certificate_flat_vertex=0, too_large_not_submitted=0, worst_M=0.0,
               theorem="Checker/ShapesMeshCone.v cone_cert_sound: LocalMaxGlobal holds for EVERY direction with delta = M*10*eps; "
                       "with C03_mesh_support_partial the answer is maximal up to M*10*eps for every direction and start vertex")
    blocks, owners = [], []
    budget = MESH_CONE_BUDGET[tier if tier in MESH_CONE_BUDGET else "quick"]
    for c, r in zip(cases, results):
        if c["shape"]["kind"] != "mesh" or "connections" not in r:
            continue
        mcs["meshes"] += 1
        n = len(c["shape"]["vs"])
        if n > 30 or len(blocks) >= budget:
            mcs["too_large_not_submitted"] += 1
            continue
        conn = {int(a): [int(x) for x in b] for a, b in r["connections"]}
        try:
            out = mc.cone_certificate(c["shape"]["vs"], conn)
        except Exception as e:  # untrusted construction
            R.notes.append(dict(cone_certificate_construction_failed=f"{type(e).__name__}: {str(e)[:200]}"))
            continue
        if out is None:
            mcs["no_certificate_flat_vertex"] += 1
            continue
        cert_rows, M = out
        Mq = Fr(math.ceil(float(M) * 1.001 * 64) + 1, 64)
        V, C, CE, MQ = mc.coq_expr(c["shape"]["vs"], r["connections"], cert_rows, Mq)
        blocks.append(([("cvs", V), ("ccn", C), ("cce", CE)], f"cone_cert cvs ccn cce {MQ}"))
        owners.append(float(Mq))
    mcs["submitted"] = len(blocks)
    try:
        outs = sc.coq_eval_blocks(PID, MESH_CONE_HEADER, blocks, tag="cone", per_file=max(1, len(blocks) // cm.NCPU + 1), timeout=1500)
        for o, Mf in zip(outs, owners):
            if o.strip() == "true":
                mcs["accepted"] += 1
                mcs["worst_M"] = max(mcs["worst_M"], Mf)
    except RuntimeError as e:
        R.notes.append(dict(cone_certificate_evaluation_failed=str(e)[:500]))
    R.cov["mesh_cone_certificates"] = mcs

    _phase("cone_certificates")
    cov = line_coverage(hits, TRACE_SCOPE)
    R.cov["impl_line_coverage"] = dict(
        executable=sum(v["executable"] for v in cov.values()), hit=sum(v["hit"] for v in cov.values()),
        functions=len(cov), missed={k: v["missed"] for k, v in cov.items() if v["missed"]})

    distinct = set()
    hist_kind, hist_dir = {}, {}
    for ci, c in enumerate(cases):
        key = c["shape"]["kind"] + ("+margin" if c["margin"] is not None else "") + "/" + c["shape"].get("stream", "?")
        hist_kind[key] = hist_kind.get(key, 0) + 1
        for cls in c.get("dir_cls", []):
            hist_dir[cls] = hist_dir.get(cls, 0) + 1
        if ci in judged_ok:
            h = cm.canon_hash(c)
            ce = results[ci]["center"]
            for di, (d, s) in enumerate(zip(c["dirs"], results[ci]["sup"])):
                if any(x != 0.0 for x in d) and sc.dotf(s, d) != sc.dotf(ce, d):
                    distinct.add((h, di))
    R.cov["distinct_nontrivial"] = len(distinct)
    hh = {}
    for c, r in zip(cases, results):
        if c.get("history") is not None and "stages" in r:
            key = c["shape"]["kind"] + ("/ctor_array" if c["history"]["ctor_array"] else "/update_array") + ("/stack" if c["history"].get("stack") else "")
            hh[key] = hh.get(key, 0) + 1
    R.cov["input_histogram"] = dict(cases_by_kind_stream=hist_kind, directions_by_class=hist_dir, pose_histories=hh)
    R.cov["pose_history_cases"] = sum(hh.values())
    for c, r in list(zip(cases, results))[:3]:
        if "sup" in r:
            shp = {k: v for k, v in c["shape"].items() if k not in ("vs", "triangles") or len(v) <= 12}
            R.sample(dict(shape=shp, margin=c["margin"], direction=c["dirs"][0], support_point=r["sup"][0],
                          first_vertex=r["first_vertex"], center=r["center"]))
    for c, f in bad[:5]:
        R.failure("; ".join(f[:3]), c, site=f"{c['shape']['kind']}.support_function")
    if (R.proof_broken or R.corr_broken) and not bad and not replay:
        extra = gen_cases(R.rng, "thorough")
        res2, _ = run_impl_cases(extra, "search")
        R.cov["search_evaluations"] = sum(len(c["dirs"]) for c in extra)
        for c, r in zip(extra, res2):
            if "build_exc" in r:
                continue
            f = judge_case(c, r)
            if f:
                R.failure("; ".join(f[:3]), c, site=f"{c['shape']['kind']}.support_function")
                break
    return R.finish()
