"""C11 — primitive distance functions return the global minimum distance.

For every generated input (domain P minus the documented epsilon bands) the returned d must
satisfy: no pair of points, one on each primitive, is closer than d - tol
(tol = 1e-6*L; 5e-3*L for the bisection-based line_to_circle and line_segment_to_circle
built on it).  Verdict per input:
  * d <= tol: nothing to show.
  * separating-direction certificate (`sep_cert`, Checker/Prim.v, proved sound with
    Spec/Convex.separating_direction_gen): an untrusted direction n (p2 - p1 projected
    orthogonally to the unbounded primitives, face normals, edge cross products) such that
    EXACTLY sup_A(n) <= inf_B(n) and (inf_B - sup_A)^2 >= (d - tol)^2 |n|^2; support values
    are exact for points/segments/triangles/rectangles/boxes/lines/planes and proven rational
    upper bounds (Z.sqrt) for disk/circle/cylinder/ellipsoid.  Valid for non-convex sets too
    (it is only incomplete there).
  * otherwise: search for a closer pair (alternating projections from many starts + a scan
    of the circle); a pair found is re-verified EXACTLY (fractions) to be closer than d - tol
    => property failure with certainty.  No closer pair and no certificate => 'undecided'
    (counted; only expected for the circle functions, whose optimality is then judged by
    this search alone: labelled untrusted-oracle).
Known findings F8 / F10 / F11 (known_findings_C11.json) are matched by function + input
predicate; any other failure is a VIOLATION.
"""
import json
import math
from fractions import Fraction as Fr

from .. import common as cm
from .. import primlib as pl
from . import c10

PID = "C11"
PROOF_FILES = ["theories/Props/C11.v"] + c10.PROOF_FILES[1:]
BISECTION = {"line_to_circle", "line_segment_to_circle"}
EPS_FUNCS = {
    "line_to_line", "line_to_line_segment", "line_segment_to_line_segment", "line_to_plane",
    "line_segment_to_plane", "plane_to_plane", "line_to_triangle", "line_segment_to_triangle",
    "triangle_to_triangle", "line_to_rectangle", "line_segment_to_rectangle",
    "rectangle_to_rectangle", "rectangle_to_box", "point_to_circle", "disk_to_disk",
}
BAND = Fr(1, 100)


def tol_of(fn, L):
    return Fr(5e-3 if fn in BISECTION else 1e-6) * Fr(L)


def char_dirs(p):
    return pl.directions_of(p) + pl.normals_of(p)


def in_band(case):
    """point_to_circle: the in-plane part of p - c has 0 < squared length < 1.01e-6 (its own `epsilon` test).
    Otherwise: some pair of characteristic directions (edge / axis / line directions, normals) of the
    two primitives is nearly but not exactly parallel or perpendicular:
    0 < |cos| < 1e-2  or  0 < |sin| < 1e-2   (exact rational comparison of squares)."""
    if case["fn"] == "point_to_circle":
        return 0.0 < c10.circle_sqr_len(case) < 1.01e-6
    for a in char_dirs(case["A"]):
        for b in char_dirs(case["B"]):
            ab = pl.dot(a, b)
            aa, bb = pl.n2(a), pl.n2(b)
            cos2 = ab * ab / (aa * bb)
            sin2 = pl.n2(pl.cross(a, b)) / (aa * bb)
            if 0 < cos2 < BAND * BAND or 0 < sin2 < BAND * BAND:
                return True
    return False


def load_known():
    out = {}
    for name in ("known_findings.json",):
        p = cm.VERIF / name
        if p.exists():
            for e in json.loads(p.read_text())["entries"]:
                if e.get("property") == PID and e.get("status") == "finding":
                    out[e["id"]] = e
    return out


# ----------------------------------------------------------------------------- known-finding predicates
def line_circle_branch(line_p, line_d, circ):
    """replicates the branch selection of _circle.line_to_circle (floats): returns
    (m0_squared, b1, radius*m0_squared)"""
    c, n, r = circ["c"], circ["n"], circ["r"]
    D = [line_p[i] - c[i] for i in range(3)]
    MxN = pl.cross(line_d, n)
    DxN = pl.cross(D, n)
    m0sqr = sum(x * x for x in MxN)
    if m0sqr <= 0.0:
        return 0.0, 0.0, 0.0
    lam = -sum(MxN[i] * DxN[i] for i in range(3)) / m0sqr
    DxN = [DxN[i] + lam * MxN[i] for i in range(3)]
    b1 = math.sqrt(sum(x * x for x in DxN))
    return m0sqr, b1, r * m0sqr


def disk_class(case):
    """input class of a disk_to_disk call, replicating the function's own case split (floats):
    'coplanar' (its same-plane special case), 'parallel-offset', 'centres-on-line', 'general'"""
    A, B = case["A"], case["B"]
    n1, n2, c1, c2 = A["n"], B["n"], A["c"], B["c"]
    dt = lambda a, b: sum(a[i] * b[i] for i in range(3))
    cr = pl.cross(n1, n2)
    if dt(cr, cr) < 1e-8:
        d1, d2 = dt(c1, n1), dt(c2, n2)
        mom = [n1[i] * d2 - n2[i] * d1 for i in range(3)]
        return "coplanar" if dt(mom, mom) < 1e-8 else "parallel-offset"
    sin = math.sqrt(dt(cr, cr))
    diff = [c1[i] - c2[i] for i in range(3)]
    h1 = abs(dt(diff, n2)) / sin
    h2 = abs(dt(diff, n1)) / sin
    return "centres-on-line" if h1 + h2 <= 1e-7 else "general"


def circle_m0sqr(case):
    if case["A"]["kind"] == "line":
        d = case["A"]["d"]
    else:
        s, e = case["A"]["s"], case["A"]["e"]
        d = pl.unit([e[i] - s[i] for i in range(3)])
    cr = pl.cross(d, case["B"]["n"])
    return sum(x * x for x in cr)


def ellipsoid_newton_scale(case):
    """prod_i (t0 + r_i^2)^2 at the starting value t0 = max(r) * |q| of point_to_ellipsoid's Newton iteration (floats):
    the magnitude against which the ABSOLUTE stopping test |s| < 1e-16 is made"""
    P, r, p = case["B"]["pose"], case["B"]["radii"], case["A"]["p"]
    t = [P[i][3] for i in range(3)]
    q = [sum(P[k][i] * (p[k] - t[k]) for k in range(3)) for i in range(3)]
    t0 = max(r) * math.sqrt(sum(x * x for x in q))
    out = 1.0
    for ri in r:
        out *= (t0 + ri * ri) ** 2
    return out


def known_id(case, r, det=None):
    """id of the C11 known finding that explains this optimality failure, else None.
    Every entry needs (a) the input class of the entry, (b) that the binary64 model Model/DistPrim*.v -- which is a
    transliteration of the code as it is, defects included -- reproduces the implementation's result on this input
    (so a NEW defect in the same arm, which the model does not have, is not swallowed), and (c) where it can be
    said, the signature of the defect itself in the failing result."""
    fn = case["fn"]
    agrees = r.get("_model_agrees") is True
    L = pl.scale_L(case["A"], case["B"])
    if fn in ("line_to_circle", "line_segment_to_circle"):
        m0 = r.get("m0sq")
        if m0 is None:
            m0 = circle_m0sqr(case)
        if 0.0 < m0 < 1e-20:
            return "F23"          # parallel to the normal up to rounding, exact `> 0.0` test (the float model divides by
                                  # the same 1e-33 and may differ: no model condition here)
    # (for the root finder of the circle functions a tie between two equidistant roots is decided by 1e-16 noise: a
    #  disagreement that the model itself shows under a 2-ulp perturbation ("unclear") is accepted there)
    if fn == "line_segment_to_circle" and (agrees or r.get("_model_agrees") == "unclear") and r.get("on_line") is False:
        # F10: the clamp arm was taken (the segment end point next to the line's global minimiser is reported) AND the
        # closer pair that refutes the result sits at ANOTHER point of the segment (an interior local minimum of the line
        # function, or the other end): the defect is exactly that those candidates are never looked at
        if det is None or "a" not in det:
            return None
        d, p1, p2 = c10.result_points(case, r)
        if math.dist(det["a"], p1) > 1e-6 * L:
            return "F10"
        return None
    # FD6 (point_to_ellipsoid absolute Newton stop) is FIXED in /repo: no routing; its replay is in corpus/C11
    # (disk_to_disk's contact test `|x - c_i| < r_i` sits on a knife edge for disks that touch at the rim: a 1-ulp difference
    #  sends the model to the contact arm and the implementation to the alternating projection, or vice versa; "unclear" = the
    #  model reproduces the implementation's result under a 2-ulp perturbation of the input.  F11's own signature below - the
    #  returned pair is an unconverged iterate of the function's alternating projection - is then still required.)
    if fn == "disk_to_disk" and (agrees or r.get("_model_agrees") == "unclear"):
        cls = disk_class(case)
        d, p1, p2 = c10.result_points(case, r)
        if cls == "general":
            # F11: the alternating projection stopped although its own next round still decreases the distance
            a = pl.fproj(case["A"], p2)
            b = pl.fproj(case["B"], a)
            if math.dist(a, b) < d - 1e-13 * L:
                return "F11"
            return None
        if not agrees:
            return None           # F22 keeps the strict condition: the model reproduces the result on this very input
        if cls == "coplanar" and math.dist(case["A"]["c"], case["B"]["c"]) < case["A"]["r"] + case["B"]["r"]:
            # F22: the returned d is the norm |(c2 - r2 u) - (c1 + r1 u)| = r1 + r2 - |c1 - c2| of the special case
            if abs(d - (case["A"]["r"] + case["B"]["r"] - math.dist(case["A"]["c"], case["B"]["c"]))) <= 1e-9 * L:
                return "F22"
            return None
    return None


# ----------------------------------------------------------------------------- oracle
def judge(case, r, rng):
    """-> (verdict, detail) verdict in ok-trivial | ok-cert | fail | undecided | skip"""
    if "exc" in r:
        return "skip", "raised (judged by C10)"
    d, p1, p2 = c10.result_points(case, r)
    if not all(math.isfinite(x) for x in [d] + p1 + p2):
        return "skip", "non-finite (judged by C10)"
    L = pl.scale_L(case["A"], case["B"])
    tol = tol_of(case["fn"], L)
    bound = Fr(d) - tol
    if bound <= 0:
        return "ok-trivial", None
    A, B = case["A"], case["B"]
    x1, x2 = pl.fv(p1), pl.fv(p2)
    if A["kind"] == "point" and B["kind"] == "circle":
        lo = pl.dist2_lower_circle(B, x1)
        if lo >= bound * bound:
            return "ok-cert", dict(kind="circle-closed-form")
        return "fail", dict(closer=math.sqrt(max(0.0, float(lo))), d=d, how="closed form h^2+(rho-r)^2")
    for k, n in enumerate(pl.candidate_normals(A, B, x1, x2)):
        for nn in ((n,) if k else (n, pl.round_vec(n))):
            if pl.sep_cert(A, B, nn, bound):
                return "ok-cert", dict(kind="sep", n=nn, cand=k)
    # no certificate: look for a closer pair
    best = pl.closer_pair_search(rng, A, B, [p1, p2])
    if best is not None:
        dd, a, b = best
        nb = pl.vsub(pl.fv(b), pl.fv(a))
        if any(x != 0 for x in nb):
            for nn in (nb, pl.round_vec(nb)):
                if pl.sep_cert(A, B, nn, bound):
                    return "ok-cert", dict(kind="sep", n=nn, cand=-1)
        ua, ub = pl.dist2_upper(A, pl.fv(a)), pl.dist2_upper(B, pl.fv(b))
        if ua is not None and ub is not None:
            U = pl.sqrt_up(pl.n2(pl.vsub(pl.fv(a), pl.fv(b)))) + pl.sqrt_up(ua) + pl.sqrt_up(ub)
            if U < bound:
                return "fail", dict(closer=float(U), d=d, a=a, b=b, how="closer pair verified exactly")
    return "undecided", dict(d=d, best=best[0] if best else None)


def coq_cert_expr(case, n, d, tol):
    return (f"sep_cert {c10.coq_prim(case['A'])} {c10.coq_prim(case['B'])} {c10.qv(n)} "
            f"{c10.qfr(Fr(d) - tol)}")


def variants(case):
    """perturbations of an input on which model and implementation disagree (targeted search): segments are shrunk
    about either end, reversed and slid along their direction; points / centres are nudged towards the other primitive"""
    out = []
    def seg_variants(p):
        s, e = p["s"], p["e"]
        d = [e[i] - s[i] for i in range(3)]
        vs = [dict(p, s=list(e), e=list(s))]
        for f in (0.1, 0.25, 0.5, 0.75):
            vs.append(dict(p, e=[s[i] + f * d[i] for i in range(3)]))
            vs.append(dict(p, s=[e[i] - f * d[i] for i in range(3)]))
        for f in (-1.0, -0.5, 0.5, 1.0):
            vs.append(dict(p, s=[s[i] + f * d[i] for i in range(3)], e=[e[i] + f * d[i] for i in range(3)]))
        return vs
    for key in ("A", "B"):
        p = case[key]
        if p["kind"] == "line_segment":
            for v in seg_variants(p):
                c2 = dict(case, stream="search")
                c2[key] = v
                out.append(c2)
    ca, cb = pl.centre(case["A"]), pl.centre(case["B"])
    for f in (0.25, 0.5, -0.5):
        t = [f * (cb[i] - ca[i]) for i in range(3)]
        out.append(dict(case, A=pl.translate(case["A"], t), stream="search"))
    return [c for c in out if pl.in_domain(c["A"], c["B"])]


def run(tier, seed, replay=None):
    from . import c10corr
    R = cm.Run(PID, "proof", tier, seed)
    known = load_known()
    R.cov["rule"] = (
        "cases generated as for C10 (same streams) minus inputs in the epsilon bands (for functions with a documented epsilon "
        "argument: some pair of characteristic directions has 0<|cos|<1e-2 or 0<|sin|<1e-2, compared exactly); judged by an exact "
        "separating-direction certificate or an exactly re-verified closer pair; distinct by canonical hash; non-trivial = d > tol "
        "(a certificate was actually needed)")
    R.assumptions += [
        "theorems are about the Gallina model Model/DistPrim.v in exact real arithmetic; float rounding is measured, not proved",
        ("per-input optimality verdicts follow from Checker/Prim.sep_cert_sound; the candidate directions are untrusted"
         if c10.coq_checker_planned() else
         "per-input optimality verdicts are decided by the exact Python fractions separating-direction test primlib.sep_cert "
         "(python-exact-oracle; the candidate directions are untrusted); no Coq-proven checker is involved yet"),
        "universality over inputs comes from a theorem only for the functions listed in coverage.universal_theorems",
        "circle functions: when no separating certificate exists (object inside the circle's disk) optimality is judged by a fine "
        "search only (untrusted-oracle); a reported failure is always an exactly verified closer pair",
        "harness/compat.py import shim; numpy/numba/CPython",
    ]
    if (cm.COQ / "theories" / "Props" / "C11.v").exists():
        R.check_proofs([f for f in PROOF_FILES if (cm.COQ / f).exists() and (not f.endswith("Checker/Prim.v") or c10.coq_checker_planned())],
                       build_targets=c10.build_targets(PID))
    else:
        R.proof_broken.append("Props/C11.v missing")
    c10.theorem_coverage(R, PID)

    pl.TINY_NZ = "FD8" in c10.load_known()
    cases = c10.load_cases(replay, R.rng, tier, pid_run=PID)
    n_gen = len(cases)
    if not replay:
        cases = [c for c in cases if not (c["fn"] in EPS_FUNCS and in_band(c))]
    R.cov["excluded_in_epsilon_band"] = n_gen - len(cases)
    results, names = c10.run_impl_cases(PID, cases)
    R.cov["evaluations"] = len(cases)

    verdicts = {}
    per_fn = {}
    fails = []
    certs = []
    distinct = set()
    for c, r in zip(cases, results):
        v, det = judge(c, r, R.rng)
        verdicts[v] = verdicts.get(v, 0) + 1
        st = per_fn.setdefault(c["fn"], {})
        st[v] = st.get(v, 0) + 1
        if v == "ok-cert":
            distinct.add(cm.canon_hash([c["fn"], c["A"], c["B"]]))
            if det.get("kind") == "sep":
                certs.append((c, r, det["n"]))
        elif v == "fail":
            fails.append((c, r, det))
        elif v == "undecided":
            distinct.add(cm.canon_hash([c["fn"], c["A"], c["B"]]))
            if len(R.notes) < 6:
                R.notes.append(dict(undecided=c["fn"], stream=c["stream"], detail=det, case_hash=cm.canon_hash(c)))
    R.cov["verdicts"] = verdicts
    R.cov["per_function"] = per_fn
    R.cov["distinct_nontrivial"] = len(distinct)
    hist = {}
    for c in cases:
        hist[c["stream"]] = hist.get(c["stream"], 0) + 1
    R.cov["input_histogram"] = hist
    und_convex = sum(n for fn, st in per_fn.items() for v, n in st.items()
                     if v == "undecided" and "circle" not in fn)
    R.cov["undecided_convex_pairs"] = und_convex

    # ---- re-check every certificate with the Coq-proven checker
    n_coq = 0
    if c10.have_coq_checker():
        if tier == "quick" and not replay:
            quota, kept = {}, []
            for c, r, n in certs:          # CPU budget: at most 12 certificates per function go to Coq in the quick tier
                if quota.get(c["fn"], 0) < 10 or c["stream"] == "corpus":
                    quota[c["fn"]] = quota.get(c["fn"], 0) + 1
                    kept.append((c, r, n))
            certs = kept
        exprs = []
        for c, r, n in certs:
            d, _, _ = c10.result_points(c, r)
            exprs.append(coq_cert_expr(c, n, d, tol_of(c["fn"], pl.scale_L(c["A"], c["B"]))))
        try:
            outs = c10corr.eval_lines(PID, c10.COQ_HEADER, exprs, "cert", max(20, len(exprs) // (3 * cm.NCPU) + 1))
            for (c, r, n), o in zip(certs, outs):
                n_coq += 1
                if o.strip() != "true":
                    R.corr_broken.append(f"Coq sep_cert rejects a certificate the Python fractions check accepted ({c['fn']}): {o[:80]}")
        except RuntimeError as e:
            R.corr_broken.append(f"checker evaluation failed: {str(e)[:400]}")
    elif c10.coq_checker_planned():
        R.corr_broken.append("Checker/Prim.vo not built")
    R.cov["certificates_checked_by_coq"] = n_coq
    R.cov["oracle_labels"] = {
        "ok-cert": ("coq-proven-checker sep_cert (python fractions pre-check, then vm_compute)" if c10.have_coq_checker()
                    else "python-exact-oracle: separating direction verified with exact fractions (primlib.sep_cert); decides alone"),
        "point_to_circle": "python-exact-oracle (closed form with rational sqrt bounds)",
        "undecided (circle functions)": "untrusted-oracle: fine search found no closer pair",
        "fail": "closer pair re-verified exactly with fractions"}

    # ---- model correspondence for d
    c10corr.correspondence(R, PID, cases, results, tier)

    for c, r in list(zip(cases, results))[:400:150]:
        if "exc" not in r:
            d, p1, p2 = c10.result_points(c, r)
            R.sample(dict(fn=c["fn"], stream=c["stream"], A=c["A"], B=c["B"], d=d))
    unknown = 0
    for c, r, det in fails:
        kid = known_id(c, r, det)
        if kid and kid in known:
            R.known_finding(kid, known[kid]["what"])
        else:
            unknown += 1
            if unknown <= 5:
                R.failure(f"{c['fn']}: returned d = {det['d']:.9g} but a pair at distance {det['closer']:.9g} exists ({det['how']})",
                          c, site=c["fn"])
    R.cov["failures_total"] = len(fails)
    R.cov["failures_matching_known_findings"] = len(fails) - unknown
    if und_convex:
        # never observed on the unchanged tree (0 of ~30k thorough cases): for a convex pair a correct result always has a
        # separating certificate along p2 - p1, so an undecided convex pair means the result is suspicious although the
        # search found no (exactly verifiable) closer pair
        R.corr_broken.append(f"optimality of {und_convex} results for CONVEX pairs could neither be certified (no separating "
                             f"direction proves d - tol) nor refuted (no closer pair found): "
                             + "; ".join(sorted({fn for fn, st in per_fn.items() if st.get('undecided') and 'circle' not in fn})))
    # ---- targeted search (DESIGN 3.5): proof or correspondence broke but no failing input yet -> bigger budget on the
    #      functions whose model and implementation disagree (same streams), judged by the same oracle
    if (R.proof_broken or R.corr_broken) and not unknown and not replay:
        sus = sorted({c["fn"] for c in getattr(R, "mismatch_cases", [])} | set(getattr(R, "suspect_functions", []))) or sorted(
            {fn for fn, st in per_fn.items() if st.get("undecided") and "circle" not in fn})
        extra = []
        for c in getattr(R, "mismatch_cases", [])[:25]:
            extra += variants(c)
        for fn in sus[:6]:
            ka, kb = pl.kinds_of(fn)
            mixl = sorted(pl.stream_mix(ka, kb))          # weighted: structural streams of the pair of kinds count more
            extra += [pl.gen_pair(R.rng, fn, mixl[k % len(mixl)]) for k in range(600)]
        extra = [c for c in extra if not (c["fn"] in EPS_FUNCS and in_band(c))]
        if extra:
            res2, _ = c10.run_impl_cases(PID, extra, tag="search")
            R.cov["search_evaluations"] = len(extra)
            for c, r in zip(extra, res2):
                r.setdefault("_model_agrees", True)      # not run through the model: class predicates only
                v, det = judge(c, r, R.rng)
                if v == "fail" and not (known_id(c, r, det) in known):
                    R.failure(f"{c['fn']}: returned d = {det['d']:.9g} but a pair at distance {det['closer']:.9g} exists ({det['how']})",
                              c, site=c["fn"])
                    break
    return R.finish()
