"""C17 — Tetrahedral mesh factories partition the shape with valid potentials.

Proof:   coq/theories/Props/C17.v (model Model/TetMesh.v, proofs Proofs/TetMesh*.v,
         checker Checker/TetMesh.v).  The literal tables of the source are re-extracted on
         every run (harness/tables_c17.py -> Gen/TetTables.v) before the Coq build; everything
         else in the 13 functions of _tetra_mesh_creation.py is compared as a whole with the text
         the model transliterates (harness/tables_pin.py).  A refused source => all theorems
         reported broken, nothing counted, the stale tables only serve the search.
Tie:     (a) the tables and the whole-body pins; (b) correspondence: the Gallina model is run on binary64 inside
         coqc on the same arguments and must reproduce the implementation's vertex arrays
         bit for bit and its element / potential arrays exactly for EVERY factory (cube, box,
         cylinder classes, sphere, ellipsoid, capsule; the cos/sin values of the rim / cap
         angles are computed by the harness with the numpy calls of the code and are inputs
         of the model), and the model of _mesh_processing.py must reproduce volumes and AABBs
         bit for bit and the centre of mass within 1e-12 on the implementation's own meshes;
         RigidBody.make_* twins are compared with the factories inside the worker;
         (c) per-run certificates: the Coq-proven checker `mesh_cert` (exact integers,
         vm_compute) on the implementation's own output.
Oracle:  harness/c17_oracle.py — exact rational arithmetic on the returned floats.
"""
import hashlib
import json
import math
import multiprocessing as mp
import re

from .. import common as cm
from .. import c17_oracle as orc
from .. import tables_c17

PID = "C17"
RUNTAG = f"p{__import__('os').getpid()}_"     # several runs of this check may share work/C17 (labs, the lead's registration run)
COVERAGE = {}         # line coverage of the files in scope, measured in the workers (sys.settrace)
ORACLE_PROCS = 4      # exact-arithmetic oracle (pure python); small on purpose: the machine is shared
PROOF_FILES = ["theories/Props/C17.v", "theories/Checker/TetMesh.v", "theories/Proofs/TetMeshPoly.v",
               "theories/Proofs/TetMeshCaps.v", "theories/Proofs/TetMeshCurved.v", "theories/Proofs/TetMeshBodyProofs.v",
               "theories/Proofs/TetMeshBoxCom.v", "theories/Proofs/TetMeshCylDisj.v", "theories/Proofs/TetMeshCylPrism.v",
               "theories/Proofs/TetMeshBase.v", "theories/Proofs/TetMeshSym.v", "theories/Proofs/TetMeshBox.v",
               "theories/Proofs/TetMeshCyl.v", "theories/Proofs/TetMeshIcoKey.v", "theories/Proofs/TetMeshIcoPure.v",
               "theories/Proofs/TetMeshIco.v", "theories/Proofs/TetMeshHelpers.v"]
TETTABLES = cm.COQ / "theories" / "Gen" / "TetTables.v"

HEADER_MODEL = """From Coq Require Import List ZArith PrimFloat.
From D3 Require Import Model.TetMesh Model.TetMeshRun.
Import ListNotations.
Open Scope float_scope.
"""
HEADER_CERT = """From Coq Require Import List ZArith.
From D3 Require Import Checker.TetMesh.
Import ListNotations.
Open Scope Z_scope.
"""


# ---------------------------------------------------------------- generators
def logu(rng, lo=1e-2, hi=1e2):
    return 10 ** rng.uniform(math.log10(lo), math.log10(hi))


def clampd(x):
    return min(1e2, max(1e-2, x))


def rand_pose(rng):
    q = [rng.gauss(0, 1) for _ in range(4)]
    n = math.sqrt(sum(x * x for x in q))
    w, x, y, z = [c / n for c in q]
    Rm = [[1 - 2 * (y * y + z * z), 2 * (x * y - z * w), 2 * (x * z + y * w)],
          [2 * (x * y + z * w), 1 - 2 * (x * x + z * z), 2 * (y * z - x * w)],
          [2 * (x * z - y * w), 2 * (y * z + x * w), 1 - 2 * (x * x + y * y)]]
    t = [rng.uniform(-1e3, 1e3) / math.sqrt(3) for _ in range(3)]
    return [Rm[0][0], Rm[0][1], Rm[0][2], t[0], Rm[1][0], Rm[1][1], Rm[1][2], t[1],
            Rm[2][0], Rm[2][1], Rm[2][2], t[2], 0.0, 0.0, 0.0, 1.0]


def hint_for(n, radius, rng):
    """a resolution hint for which ceil(2*pi*radius/hint) is n (n >= 4) or <= 3 (n == 3)"""
    c = 2 * math.pi * radius
    if n <= 3:
        return c / rng.uniform(0.3, 2.9)
    return c / (n - rng.uniform(0.2, 0.8))


def exact_tolerance_pairs():
    """(r, t): binary64 r in [1, 2) with fl(1e-14 * r) == t exactly, t a multiple of 2^-52, so that r + t is exact and
    `x - r > tolerance` / `x - r <= tolerance` sit exactly ON the class boundary for x = r + t (mh, radius > 1)."""
    out = []
    for k in range(64, 91):
        t = k * 2.0 ** -52
        r0 = t / 1e-14
        cands = [r0]
        for _ in range(4):
            cands.append(math.nextafter(cands[-1], 0.0))
        c = r0
        for _ in range(4):
            c = math.nextafter(c, 4.0)
            cands.append(c)
        for r in cands:
            if 1.0 < r < 2.0 and 1e-14 * r == t and (r + t) - r == t:
                out.append((r, t))
                break
    return out


def gen_cases(rng, tier):
    thorough = tier == "thorough"
    cases = []

    def add(factory, cls, history=None, **args):
        c = dict(factory=factory, cls=cls, args=args, pose=rand_pose(rng))
        if history is not None:
            c["history"] = history
        cases.append(c)

    def rand_history():
        """reads of the lazily cached RigidBody properties interleaved with express_in (new frame, or the same frame again)"""
        reads = ["com", "aabbs", "tp", "tpot", "aabb"]
        kind = rng.randrange(4)
        p1, p2 = rand_pose(rng), rand_pose(rng)
        if kind == 0:
            return [["com"], ["express_in", p1], ["com"], ["aabbs"], ["aabb"]]
        if kind == 1:
            return [["aabbs"], ["aabb"], ["tp"], ["express_in", p1], ["aabb"], ["aabbs"], ["tp"], ["com"]]
        if kind == 2:
            return [["tp"], ["com"], ["express_in", p1], ["express_in", p1], ["com"], ["express_in", p2], ["aabb"], ["com"], ["tpot"]]
        h = []
        for _ in range(rng.randint(6, 10)):
            h.append(["express_in", rng.choice([p1, p2])] if rng.random() < 0.3 else [rng.choice(reads)])
        return h + [["com"], ["aabbs"], ["aabb"]]

    # --- sphere / ellipsoid: orders 0..3 (4 in thorough), radii across the domain
    orders = [0, 1, 2, 3] + ([4] if thorough else [])
    for o in orders:
        radii = [1.0, 1e-2, 1e2] if o <= 2 or thorough else [1e-2]
        radii += [logu(rng) for _ in range(3 if thorough else (2 if o <= 2 else 0))]
        for r in radii:
            add("sphere", f"order{o}", radius=r, order=o)
        ell = [[1.0, 2.0, 3.0], [1e-2, 1e2, 1e2], [1e2, 1e-2, 1e-2], [0.5, 0.5, 0.5], [2.0, 2.0, 0.3]]
        if o > 2 and not thorough:
            ell = [[1e-2, 1e2, 3.0]]
        ell += [[logu(rng), logu(rng), logu(rng)] for _ in range(4 if thorough else (2 if o <= 2 else 1))]
        for rr in ell:
            add("ellipsoid", f"order{o}", radii=rr, order=o)
    # --- cube
    for s in [1e-2, 1.0, 2.0, 1e2, 0.1, 3.0] + [logu(rng) for _ in range(12 if thorough else 4)]:
        add("cube", "cube", size=s)
    # --- box: every equality pattern, both sides of the duplicate-vertex tolerance
    nb = 10 if thorough else 3
    for _ in range(nb):
        s = logu(rng)
        add("box", "all_equal", size=[s, s, s])
    for ax in range(3):
        for bigger in (True, False):
            for _ in range(nb):
                s = logu(rng, 2e-2, 5e1)
                o = clampd(s * (rng.uniform(1.01, 50) if bigger else 1 / rng.uniform(1.01, 50)))
                sz = [s, s, s]
                sz[ax] = o
                add("box", "two_equal_" + ("odd_bigger" if bigger else "odd_smaller"), size=sz)
    for _ in range(4 * nb):
        add("box", "all_distinct", size=[logu(rng), logu(rng), logu(rng)])
    add("box", "all_distinct", size=[1e-2, 1.0, 1e2])
    add("box", "all_distinct", size=[1e2, 1e-2, 1.0])
    # near the tolerance: half_central = d with d / (1e-14 * max(1, min_half)) around 1
    for _ in range(6 * nb):
        m = logu(rng, 2e-2, 5e1)
        tol = 1e-14 * max(1.0, 0.5 * m)
        sz = [m, m, m]
        axes = rng.sample(range(3), rng.choice([1, 2]))
        for ax in axes:
            f = rng.choice([0.25, 0.9, 0.999, 1.0, 1.001, 1.1, 2.0, 4.0, 100.0])
            sz[ax] = m + 2 * f * tol
        if rng.random() < 0.5:
            free = [i for i in range(3) if i not in axes]
            sz[rng.choice(free)] = clampd(m * rng.uniform(1.5, 10))
        add("box", "near_tolerance", size=sz)
    for _ in range(2 * nb):
        m = logu(rng, 2e-2, 5e1)
        sz = [m, m, m]
        ax = rng.randrange(3)
        sz[ax] = math.nextafter(m, math.inf) if rng.random() < 0.5 else m * (1 + 2 ** -rng.randint(40, 52))
        add("box", "near_tolerance", size=sz)
    # exactly ON the tolerance (half_central == relative_tolerance): decides `<=` against `<`
    pairs = exact_tolerance_pairs()
    for (r, t) in (pairs if thorough else pairs[:6]):
        ax = rng.randrange(3)
        sz = [2 * r, 2 * r, 2 * r]
        sz[ax] = 2 * (r + t)
        add("box", "exact_tolerance", size=sz)
        sz2 = [2 * (r + t)] * 3
        sz2[ax] = 2 * r
        add("box", "exact_tolerance", size=sz2)
    # --- cylinder: the three classes and their boundaries, n from 3 to fine
    ns = [3, 4, 5, 8, 17, 64] + ([200, 701] if thorough else [])
    ratios = [("long", lambda: rng.uniform(1.05, 30)), ("short", lambda: 1 / rng.uniform(1.05, 30)),
              ("medium_exact", lambda: 1.0),
              ("boundary", lambda: 1 + rng.choice([-1, 1]) * rng.choice([1e-15, 4e-15, 0.9e-14, 1e-14, 1.1e-14, 2e-14, 1e-13, 1e-9, 1e-3]))]
    for n in ns:
        for cname, rf in ratios:
            for _ in range((3 if thorough else 1) if n > 17 else (4 if thorough else 2)):
                r = logu(rng, 2e-2, 4e1)
                ratio = rf()
                length = 2 * r * ratio
                if not (1e-2 <= length <= 1e2):
                    r = 1.0
                    length = 2 * r * ratio
                    if not (1e-2 <= length <= 1e2):
                        length = clampd(length)
                add("cylinder", cname, radius=r, length=length, resolution_hint=hint_for(n, r, rng))
    # exactly ON the class boundaries: top_z - radius == tolerance and radius - top_z == tolerance
    for (r, t) in (pairs if thorough else pairs[:6]):
        n = rng.choice([3, 4, 7])
        add("cylinder", "exact_boundary", radius=r, length=2 * (r + t), resolution_hint=hint_for(n, r, rng))
        add("cylinder", "exact_boundary", radius=r + t, length=2 * r, resolution_hint=hint_for(n, r + t, rng))
    add("cylinder", "long", radius=1e-2, length=1e2, resolution_hint=1.0)
    add("cylinder", "short", radius=1e2, length=1e-2, resolution_hint=20.0)
    add("cylinder", "medium_exact", radius=0.5, length=1.0, resolution_hint=0.1)
    # --- capsule: n (clipped to [3, 706]) from 3 up, odd and even (n // 2 circles per cap)
    kn = [3, 4, 5, 6, 7, 8, 12, 17, 24] + ([40, 64] if thorough else [])
    for n in kn:
        for _ in range(3 if thorough else (2 if n <= 12 else 1)):
            r = logu(rng)
            h = logu(rng)
            c = 2 * math.pi * r
            hint = c / (n + rng.uniform(0.1, 0.9)) if n > 3 else c / rng.uniform(0.3, 3.9)
            add("capsule", f"n{n}", radius=r, height=h, resolution_hint=hint)
    add("capsule", "n8", radius=1e2, height=1e-2, resolution_hint=2 * math.pi * 1e2 / 8.5)
    add("capsule", "n8", radius=1e-2, height=1e2, resolution_hint=2 * math.pi * 1e-2 / 8.5)
    # --- histories on one RigidBody object (lazily cached com / aabbs / tetrahedra_points / tree vs express_in)
    for _ in range(4 if thorough else 2):
        add("box", "history", history=rand_history(), size=[logu(rng, 0.1, 10), logu(rng, 0.1, 10), logu(rng, 0.1, 10)])
        add("cube", "history", history=rand_history(), size=logu(rng, 0.1, 10))
        r = logu(rng, 0.1, 5)
        add("cylinder", "history", history=rand_history(), radius=r, length=logu(rng, 0.1, 10),
            resolution_hint=hint_for(rng.choice([3, 5, 8]), r, rng))
        r = logu(rng, 0.1, 5)
        add("capsule", "history", history=rand_history(), radius=r, height=logu(rng, 0.1, 10),
            resolution_hint=2 * math.pi * r / (rng.choice([3, 4, 6]) + 0.5))
        add("sphere", "history", history=rand_history(), radius=logu(rng, 0.1, 10), order=rng.choice([0, 1]))
        add("ellipsoid", "history", history=rand_history(), radii=[logu(rng, 0.1, 10), logu(rng, 0.1, 10), logu(rng, 0.1, 10)],
            order=rng.choice([0, 1]))
    for c in cases:
        c["root_aabb"] = True
    return cases


# ---------------------------------------------------------------- implementation
def run_impl_cases(cases, tag):
    # the whole quick tier costs ~5 s of CPU in one process; every extra worker pays ~10 s of imports and one machine-wide
    # slot, so only a few workers
    nw = max(1, min(4, len(cases) // 60))
    chunks = [cases[i::nw] for i in range(nw)]
    res = cm.run_impl_parallel(PID, "c17", [dict(cases=c, coverage=True) for c in chunks], timeout=900, tag=RUNTAG + tag)
    out = [None] * len(cases)
    for w, (rr, ch) in enumerate(zip(res, chunks)):
        idxs = list(range(w, len(cases), nw))
        if rr["status"] == "ok":
            for i, x in zip(idxs, rr["result"]["results"]):
                out[i] = x
            cov = rr["result"].get("coverage")
            if cov:
                for name, lines in cov["lines"].items():
                    COVERAGE.setdefault(name, dict(lines=set(), hit=set()))
                    COVERAGE[name]["lines"].update(lines)
                    COVERAGE[name]["hit"].update(cov["hit"].get(name, []))
        else:
            singles = cm.run_impl_parallel(PID, "c17", [dict(cases=[c]) for c in ch], timeout=300, tag=RUNTAG + tag + "_iso")
            for i, s in zip(idxs, singles):
                out[i] = (s["result"]["results"][0] if s["status"] == "ok" else
                          dict(exc=f"PROCESS-{s['status'].upper()}", exc_msg=f"rc={s.get('rc')} {s.get('log', '')[-300:]}"))
    return out


def _judge(args):
    case, res, want = args
    try:
        return orc.judge(case, res, want_cert_data=want)
    except Exception as e:  # noqa: BLE001  (an oracle crash must not pass silently)
        import traceback
        return dict(fails=[], stats={}, oracle_error=f"{type(e).__name__}: {e}\n{traceback.format_exc()[-800:]}")


# ---------------------------------------------------------------- Coq side
def eval_lines(header, exprs, tag, per_file):
    """cm.coq_eval_lines with one retry in a fresh directory: a collision with another run of the same check, a slot
    time-out or a transient failure of the machine must not turn into a verdict; a second failure is reported"""
    if not exprs:
        return []
    # balance the files: deal the expressions, longest first, round-robin over the files (the cost of a case grows with
    # the size of its literal), evaluate in that order, and put the answers back in the caller's order
    nfiles = max(1, -(-len(exprs) // per_file))
    per = -(-len(exprs) // nfiles)
    by_size = sorted(range(len(exprs)), key=lambda i: -len(exprs[i]))
    buckets = [[] for _ in range(nfiles)]
    for rank, i in enumerate(by_size):
        buckets[rank % nfiles].append(i)
    order = [i for b in buckets for i in b]
    # every bucket has at most `per` entries and only the last ones are shorter: contiguous chunks of `per` = the buckets
    # when len(exprs) is a multiple of nfiles; otherwise the chunks are merely well mixed, which is all that is needed
    permuted = [exprs[i] for i in order]
    try:
        outs = cm.coq_eval_lines(PID, header, permuted, tag=RUNTAG + tag, per_file=per)
    except RuntimeError:
        outs = cm.coq_eval_lines(PID, header, permuted, tag=RUNTAG + tag + "_retry", per_file=max(1, per // 2), timeout=1800)
    res = [None] * len(exprs)
    for pos, i in enumerate(order):
        res[i] = outs[pos]
    return res


def parse_coq_value(s):
    s = s.replace("%Z", "").replace("%float", "").replace("%nat", "")
    s = re.sub(r"\((-[0-9][0-9.e+-]*)\)", r"\1", s)
    s = s.replace("(", "[").replace(")", "]").replace(";", ",")
    s = re.sub(r"\bneg_infinity\b", "-1e999", s)
    s = re.sub(r"\binfinity\b", "1e999", s)
    s = re.sub(r"\bnan\b", "NaN", s)
    return json.loads(s)


def flatten(x):
    if isinstance(x, list):
        for y in x:
            yield from flatten(y)
    else:
        yield x


def model_expr(case, res):
    """Coq expression of the model run for this case, or None."""
    f, a = case["factory"], case["args"]
    if f == "cube":
        return f"run_cube {cm.fhex(a['size'])}"
    if f == "box":
        return "run_box " + " ".join(cm.fhex(x) for x in a["size"])
    if f == "cylinder":
        nv = res["shapes"][0][0]
        V = res["vertices"]
        # n from the element count is class dependent; the outer vertices are 2 + 2n, then 1, 2 or 1 + n
        # medial vertices: recover n from the implementation's own formula
        n = max(3, math.ceil(2.0 * math.pi * float(a["radius"]) / float(a["resolution_hint"])))
        if nv not in (2 + 2 * n + 1, 2 + 2 * n + 2, 2 + 2 * n + 1 + n):
            return None
        # cos / sin of the rim angles: computed here with the same numpy calls as the code, NOT read
        # back from the implementation's vertices (the model multiplies by the radius itself)
        import numpy as np
        angle_step = 2.0 * np.pi / n
        trig = "; ".join(f"({cm.fhex(float(np.cos(angle_step * i)))}, {cm.fhex(float(np.sin(angle_step * i)))})"
                         for i in range(n))
        return f"run_cyl {cm.fhex(a['radius'])} {cm.fhex(a['length'])} [{trig}]"
    if f == "sphere":
        return f"run_sphere {cm.fhex(a['radius'])} {int(a['order'])}%nat"
    if f == "ellipsoid":
        return "run_ellipsoid " + " ".join(cm.fhex(x) for x in a["radii"]) + f" {int(a['order'])}%nat"
    if f == "capsule":
        import numpy as np
        radius = float(a["radius"])
        n = int(np.clip(2.0 * np.pi * radius / float(a["resolution_hint"]), 3.0, 706.0))
        nc = n // 2
        theta_step = 0.5 * np.pi / nc
        phi_step = 2.0 * np.pi / n
        circ = "; ".join(f"({cm.fhex(float(np.sin(0.5 * np.pi - i * theta_step)))}, "
                         f"{cm.fhex(float(np.cos(0.5 * np.pi - i * theta_step)))})" for i in range(nc))
        ring = "; ".join(f"({cm.fhex(float(np.cos(j * phi_step)))}, {cm.fhex(float(np.sin(j * phi_step)))})"
                         for j in range(n))
        return f"run_capsule {cm.fhex(radius)} {cm.fhex(a['height'])} [{circ}] [{ring}]"
    return None


def helpers_expr(res):
    V, T = res["vertices"], res["tetrahedra"]
    vs = "; ".join(f"({cm.fhex(V[3 * i])}, {cm.fhex(V[3 * i + 1])}, {cm.fhex(V[3 * i + 2])})" for i in range(len(V) // 3))
    ts = "; ".join(f"({T[4 * i]}, {T[4 * i + 1]}, {T[4 * i + 2]}, {T[4 * i + 3]})%Z" for i in range(len(T) // 4))
    return f"run_helpers [{vs}] [{ts}]"


def compare_helpers(case, res, out):
    """model of _mesh_processing.py on the implementation's own mesh: volumes and AABBs bit for bit, the centre of mass
    (BLAS / pairwise summation order not modelled) within 1e-12 * extent"""
    vols, aabbs, com = out
    d = []
    if not same_floats(vols, res.get("volumes", [])):
        d.append("tetrahedral_mesh_volumes differs from the model")
    if not same_floats(flatten(aabbs), res.get("aabbs", [])):
        d.append("tetrahedral_mesh_aabbs differs from the model")
    ext = max([abs(x) for x in res["vertices"]] + [1e-300])
    if len(com) != 3 or any(not math.isfinite(float(x)) or abs(float(x) - y) > 1e-12 * ext for x, y in zip(com, res.get("com", [1e999] * 3))):
        d.append(f"center_of_mass_tetrahedral_mesh {res.get('com')} differs from the model {com}")
    return d


def same_floats(xs, ys):
    xs, ys = list(xs), list(ys)
    return len(xs) == len(ys) and all(float(x) == float(y) for x, y in zip(xs, ys))


def compare_model(case, res, m):
    """exact comparison of the model's mesh with the implementation's; list of differences"""
    d = []
    if case["factory"] == "cylinder":
        _cls, m = m
    vs, ts, ps = m
    if not same_floats(flatten(vs), res["vertices"]):
        d.append("vertex arrays differ")
    if [int(x) for x in flatten(ts)] != res["tetrahedra"]:
        d.append("element arrays differ")
    if not same_floats(ps, res["potentials"]):
        d.append("potential arrays differ")
    return d


def cert_expr(cert, res):
    ints = cert["ints"]
    vs = "; ".join(f"({cm.zlit(ints[3 * i])}, {cm.zlit(ints[3 * i + 1])}, {cm.zlit(ints[3 * i + 2])})"
                   for i in range(len(ints) // 3))
    T = res["tetrahedra"]
    ts = "; ".join(f"({T[4 * i]}, {T[4 * i + 1]}, {T[4 * i + 2]}, {T[4 * i + 3]})" for i in range(len(T) // 4))
    return f"mesh_cert {cm.zlit(cert['sigma'])} [{vs}] [{ts}] {cm.zlit(cert['total'])}"


# ---------------------------------------------------------------- main
def run(tier, seed, replay=None):
    R = cm.Run(PID, "proof", tier, seed)
    R.cov["rule"] = (
        "case = one factory call (sphere/ellipsoid orders 0-3 [4 in thorough], cube, box in every equality pattern, on "
        "both sides of the duplicate-vertex tolerance and exactly ON it (half_central == relative_tolerance), cylinder "
        "long/short/medium, across the class boundary and exactly ON both boundaries (|top_z - radius| == tolerance) with "
        "n = 3..64 [701 thorough] rim vertices, capsule n = 3..24 [64]) plus the RigidBody.make_* twin and the mesh helpers; "
        "sizes log-uniform over [1e-2, 1e2] plus the corners of the domain; non-trivial = mesh returned and judged by the "
        "exact oracle; distinct by canonical hash of (factory, arguments)")
    R.assumptions += [
        "theorems are about the Gallina model Model/TetMesh.v over the reals; the tie to /repo is (a) Gen/TetTables.v re-extracted "
        "from the source by a fail-closed ast reader, (b) the bit-exact binary64 run of the model against the implementation, "
        "(c) the Coq-proven checker mesh_cert on the implementation's own output",
        "cos / sin of the cylinder rim and capsule cap angles are inputs of the model (computed by the harness with the numpy "
        "calls of the code): the cylinder theorems hold for arbitrary counter-clockwise rim points, numpy's libm is not modelled",
        "n_vertices_per_circle (ceil / clip / int of 2*pi*radius/resolution_hint) is computed by the harness with the code's formula, "
        "whose text is pinned by the table reader",
        "'strictly positive volume' is read as: all tetrahedra of a mesh have the same orientation sign and non-zero volume; the sign "
        "convention differs between factories (sphere/ellipsoid/cube: -, box/cylinder/capsule: +) and tetrahedral_mesh_volumes takes abs",
        "hull volume: scipy ConvexHull facets are an untrusted witness, verified exactly (closed oriented surface, star-shaped and "
        "simply covering w.r.t. the centroid, exact support excess of every facet plane) -> rigorous two-sided bound",
        "harness/compat.py import shim; numpy/scipy/CPython",
    ]
    # 1. tables from the current source, then the proofs
    tables_ok = True
    try:
        tables_c17.generate(cm.REPO, TETTABLES)
    except Exception as e:  # noqa: BLE001  (TablesError, SyntaxError, OSError, or a bug of the reader: all fail closed)
        tables_ok = False
        R.proof_broken.append(f"Gen/TetTables.v cannot be regenerated from the source: the reader refuses "
                              f"{tables_c17.SRC} (ALL theorems of Props/C17.v are about a model of different code and are "
                              f"not counted): {type(e).__name__}: {str(e)[:700]}")
        # The generated file is left as the last successful read wrote it (= the tables of the code the model was
        # audited against).  It is used below ONLY to build the executable model for the search for a failing input:
        # `discharged` is forced to 0 and the model runs are reported as runs of a STALE model.
        R.cov["stale_tables"] = dict(
            file="coq/theories/Gen/TetTables.v",
            sha256=hashlib.sha256(TETTABLES.read_bytes()).hexdigest() if TETTABLES.exists() else None,
            note="not regenerated in this run; the Coq build and the model evaluations below use the tables of the last "
                 "successful read. No theorem is counted as discharged; agreement of this stale model with the "
                 "implementation is not evidence for the property, disagreement is a lead for the search")
        R.notes.append("STALE Gen/TetTables.v: see coverage.stale_tables")
    import time as _t
    T0 = _t.time()
    phases = {}

    def lap(name):
        nonlocal T0
        phases[name] = round(_t.time() - T0, 1)
        T0 = _t.time()
    # the executable model and the certificate checker first and separately: they must stay available for the
    # correspondence / certificate runs when a table-dependent theorem no longer builds
    try:
        ok_run, log_run = cm.coq_build(["theories/Model/TetMeshRun.vo", "theories/Checker/TetMesh.vo"])
        if not ok_run:
            R.proof_broken.append("Model/TetMeshRun.vo or Checker/TetMesh.vo does not build: " + log_run[-300:])
    except Exception as e:  # noqa: BLE001
        R.proof_broken.append(f"coq build of the executable model failed: {str(e)[:200]}")
    R.check_proofs(PROOF_FILES, build_targets=["theories/Props/C17.vo", "theories/Model/TetMeshRun.vo",
                                               "theories/Checker/TetMesh.vo"])
    R.cov["tables_regenerated"] = tables_ok
    if not tables_ok:
        R.cov["discharged"] = 0
    lap("proofs")

    # 2. cases
    cases = []
    if replay:
        cases.append(json.loads(open(replay).read())["case"])
    else:
        corpus = cm.VERIF / "corpus" / PID
        if corpus.exists():
            for f in sorted(corpus.glob("*.json")):
                cases.append(json.loads(f.read_text())["case"])
        cases += gen_cases(R.rng, tier)
    results = run_impl_cases(cases, "impl")
    R.cov["evaluations"] = len(cases)
    lap("implementation")
    covrep = {}
    for name, d in sorted(COVERAGE.items()):
        # def / class / import lines execute at import time, before tracing starts: count only lines inside functions
        missed = sorted(d["lines"] - d["hit"])
        covrep[name] = dict(executable_lines=len(d["lines"]), hit=len(d["hit"] & d["lines"]), not_hit=missed[:80])
    R.cov["implementation_line_coverage"] = covrep
    R.cov["implementation_line_coverage_note"] = (
        "sys.settrace in the workers; lines executed at import time (def/class/import, decorators) and the visualisation-only "
        "methods of RigidBody (artist_, make_artist, update_pose, youngs_modulus) appear as not hit")

    # 3. exact oracle on every result (process pool)
    cert_limit = 700 if tier == "quick" else 8000
    jobs = []
    for c, r in zip(cases, results):
        nt = (r.get("shapes") or [[0], [0]])[1][0] if "exc" not in r else 0
        jobs.append((c, r, 0 < nt <= cert_limit))
    with mp.get_context("fork").Pool(ORACLE_PROCS) as pool:
        verdicts = pool.map(_judge, jobs, chunksize=1)
    lap("oracle")
    bad = []
    distinct = set()
    hist = {}
    witness_rejected = 0
    for c, r, v in zip(cases, results, verdicts):
        key = f"{c['factory']}:{c.get('cls', '')}"
        hist[key] = hist.get(key, 0) + 1
        if v.get("oracle_error"):
            R.corr_broken.append(f"oracle crashed on {c['factory']} {c['args']}: {v['oracle_error'][:300]}")
            continue
        if v["fails"]:
            bad.append((c, v["fails"]))
        if v["stats"].get("hull_witness_rejected"):
            witness_rejected += 1
            if witness_rejected <= 3:
                R.corr_broken.append(f"hull witness rejected for {c['factory']} {c['args']}: {v['stats']['hull_witness_rejected']}")
        if "exc" not in r:
            distinct.add(cm.canon_hash([c["factory"], c["args"]]))
    R.cov["distinct_nontrivial"] = len(distinct)
    R.cov["input_histogram"] = hist
    R.cov["oracle"] = ("exact python integers/fractions on the returned binary64 values (all meshes); additionally the Coq-proven "
                       f"checker mesh_cert (vm_compute on exact integers) on every mesh with <= {cert_limit} tetrahedra")
    st_all = [v["stats"] for v in verdicts if v.get("stats")]
    R.cov["max_rel_gap_sum_vs_hull"] = max([abs(s["rel_gap"]) for s in st_all if "rel_gap" in s] or [0.0])
    R.cov["max_hull_lambda_minus_1"] = max([s["hull_lambda_minus_1"] for s in st_all if "hull_lambda_minus_1" in s] or [0.0])
    R.cov["non_conforming_meshes"] = sum(1 for s in st_all if s.get("conforming") is False)
    R.cov["largest_mesh_tets"] = max([s.get("n_tets", 0) for s in st_all] or [0])

    # 4. Coq: model runs (correspondence) and certificates
    m_exprs, m_idx = [], []
    c_exprs, c_idx = [], []
    h_exprs, h_idx = [], []
    vlimit = 1500 if tier == "quick" else 3000
    hlimit = 200 if tier == "quick" else 1300
    for i, (c, r, v) in enumerate(zip(cases, results, verdicts)):
        if "exc" in r or v.get("oracle_error"):
            continue
        e = model_expr(c, r)
        if e is not None and r["shapes"][0][0] <= vlimit:
            m_exprs.append(e)
            m_idx.append(i)
        if "volumes" in r and 0 < r["shapes"][1][0] <= hlimit:
            h_exprs.append(helpers_expr(r))
            h_idx.append((i, None))
        for k, rec in enumerate(r.get("history") or []):
            if rec["op"] in ("com", "aabbs") and "value" in rec and r["shapes"][1][0] <= hlimit:
                h_exprs.append(helpers_expr(dict(vertices=rec["vertices"], tetrahedra=r["tetrahedra"])))
                h_idx.append((i, k))
        if "cert" in v:
            c_exprs.append(cert_expr(v["cert"], r))
            c_idx.append(i)
    ico_orders = [0, 1, 2, 3] + ([4] if tier == "thorough" else [])
    ico_need = {}
    for i, (c, r) in enumerate(zip(cases, results)):
        if c["factory"] in ("sphere", "ellipsoid") and "exc" not in r:
            ico_need.setdefault(int(c["args"]["order"]), []).append(i)
    diffs = 0
    validated = 0
    try:
        outs = eval_lines(HEADER_MODEL, m_exprs + [f"run_ico {o}%nat" for o in ico_orders if o in ico_need],
                          "model", max(8, len(m_exprs) // 6 + 1))
        for i, o in zip(m_idx, outs[:len(m_idx)]):
            d = compare_model(cases[i], results[i], parse_coq_value(o))
            if d:
                diffs += 1
                if len(R.corr_broken) < 6:
                    R.corr_broken.append(f"TetMesh model vs make_tetrahedral_{cases[i]['factory']}{cases[i]['args']}: {d}")
            else:
                validated += 1
        for o_, out in zip([o for o in ico_orders if o in ico_need], outs[len(m_idx):]):
            ts, nxt, cache_left, _created = parse_coq_value(out)
            want_t = [x for t in ts for x in t]
            for i in ico_need[o_]:
                T = results[i]["tetrahedra"]
                nv = results[i]["shapes"][0][0]
                tri = [T[4 * j + q] for j in range(len(T) // 4) for q in range(3)]
                ctr = {T[4 * j + 3] for j in range(len(T) // 4)}
                if tri != want_t or ctr != {nv - 1} or nxt != nv - 1 or cache_left != 0:
                    diffs += 1
                    if len(R.corr_broken) < 6:
                        R.corr_broken.append(f"icosphere topology model vs implementation differ at order {o_}")
                else:
                    validated += 1
    except RuntimeError as e:
        R.corr_broken.append(f"model evaluation failed: {str(e)[:500]}")
    lap("coq_model")
    helpers_validated = 0
    try:
        outs = eval_lines(HEADER_MODEL, h_exprs, "helpers", max(1, len(h_exprs) // 6 + 1))
        for (i, k), o in zip(h_idx, outs):
            if k is None:
                d = compare_helpers(cases[i], results[i], parse_coq_value(o))
            else:       # a read in a RigidBody history: the model of the cache machine says "direct computation on the current vertices"
                rec = results[i]["history"][k]
                vols_, aabbs_, com_ = parse_coq_value(o)
                if rec["op"] == "aabbs":
                    d = [] if same_floats(flatten(aabbs_), rec["value"]) else [f"history step {k}: aabbs differ from the model on the current vertices"]
                else:
                    ext = max([abs(x) for x in rec["vertices"]] + [1e-300])
                    okc = len(rec["value"]) == 3 and all(abs(float(x) - y) <= 1e-12 * ext for x, y in zip(com_, rec["value"]))
                    d = [] if okc else [f"history step {k}: com {rec['value']} differs from the model on the current vertices {com_}"]
            if d:
                diffs += 1
                if len(R.corr_broken) < 6:
                    R.corr_broken.append(f"TetMeshProc model vs _mesh_processing on make_tetrahedral_{cases[i]['factory']}{cases[i]['args']}: {d}")
            else:
                helpers_validated += 1
    except RuntimeError as e:
        R.corr_broken.append(f"helper model evaluation failed: {str(e)[:500]}")
    R.cov["helper_traces_validated"] = helpers_validated
    lap("coq_helpers")
    cert_true = 0
    try:
        outs = eval_lines(HEADER_CERT, c_exprs, "cert", max(1, len(c_exprs) // 6 + 1))
        for i, o in zip(c_idx, outs):
            ok = o.strip() == "true"
            cert_true += ok
            py_ok = verdicts[i]["cert"]["all_positive"]
            if ok != py_ok:
                R.corr_broken.append(f"mesh_cert (Coq) = {ok} but python oracle says all_positive = {py_ok} for "
                                     f"{cases[i]['factory']} {cases[i]['args']}")
            if not ok and py_ok is False and not any(cases[i] is b[0] for b in bad):
                bad.append((cases[i], ["mesh_cert rejected the mesh"]))
    except RuntimeError as e:
        R.corr_broken.append(f"certificate evaluation failed: {str(e)[:500]}")
    lap("coq_cert")
    R.cov["phase_wall_s"] = phases
    R.cov["traces_validated_against_impl"] = validated if tables_ok else 0
    if not tables_ok:
        R.cov["traces_agreeing_with_stale_model"] = validated
    R.cov["correspondence_disagreements"] = diffs
    R.cov["mesh_cert_evaluated"] = len(c_exprs)
    R.cov["mesh_cert_true"] = cert_true
    for c, r, v in list(zip(cases, results, verdicts))[::max(1, len(cases) // 3)][:3]:
        R.sample(dict(factory=c["factory"], cls=c.get("cls"), args=c["args"], stats=v.get("stats")))
    for c, f in bad[:5]:
        R.failure("; ".join(f[:3]), c, site=f"make_tetrahedral_{c['factory']}")
    R.cov["failing_cases"] = len(bad)

    # 5. proof or tie broke and no failing input yet: bigger search judged by the oracle only
    if (R.proof_broken or R.corr_broken) and not bad and not replay:
        extra = gen_cases(R.rng, "thorough")
        res2 = run_impl_cases(extra, "search")
        with mp.get_context("fork").Pool(ORACLE_PROCS) as pool:
            v2 = pool.map(_judge, [(c, r, False) for c, r in zip(extra, res2)], chunksize=1)
        R.cov["search_evaluations"] = len(extra)
        for c, v in zip(extra, v2):
            if v.get("fails"):
                R.failure("; ".join(v["fails"][:3]), c, site=f"make_tetrahedral_{c['factory']}")
                break
    # remove this run's scratch (inputs / outputs of the workers, generated .v files)
    import shutil
    for pth in (cm.WORK / PID).glob(RUNTAG + "*"):
        try:
            shutil.rmtree(pth) if pth.is_dir() else pth.unlink()
        except OSError:
            pass
    return R.finish()
