"""C08 — MPR penetration result separates the pair and its contact point is shared.

Decided per generated pair by the Coq-proven result checker `pen_cert`
(coq/theories/Checker/PenMpr.v, theorems exported by Props/C08.v), evaluated by vm_compute on the
exact rationals of what distance3d.mpr.mpr_penetration returned (depth t, direction u, position pos):

  dir_ok              t >= 0 and (| |u|^2 - 1 | <= 1e-9, or t <= 2^-52 and u = 0)       [exact]
  overlap_le_cert     A vs B moved by t*u: residual overlap <= tol along a witness direction
  overlap_le_cert     A vs B: depth <= t + tol  (t never smaller than the true depth minus tol)
  in_shape_tol (x2)   pos within tol of A and of B (membership witnesses from the harness, untrusted)
  tol = 2e-3 * L, default mpr_tolerance.

Failure verdicts are backed by the harness' float oracles (facets of conv(A-B) for polytope pairs, sampled and
locally optimised directions otherwise, own GJK for point-to-shape distances) and, where available, by a proven
refutation: depth_ge_cert (cone tree) for "depth > t + tol" / "residual overlap > tol" on polytope pairs, sep_cert
for "pos farther than tol from a collider".  Pairs reported as not intersecting must not overlap deeper than tol.
"""
import json
from fractions import Fraction as Fr

import numpy as np

from .. import common as cm
from .. import narrow as nw
from .. import narrow_pen as npn

PID = "C08"
PROOF_FILES = ["theories/Props/C08.v", "theories/Proofs/Mpr.v", "theories/Checker/PenMpr.v", "theories/Checker/Pen.v", "theories/Checker/Narrow.v",
               "theories/Checker/Shapes.v", "theories/Spec/Convex.v"]
EPS_DIR = Fr(1, 10 ** 9)
BUILD_TARGETS = ["theories/Props/C08.vo", "theories/Checker/PenMpr.vo", "theories/Checker/Pen.vo", "theories/Checker/Narrow.vo",
                 "theories/Model/MprRun.vo"]
TINY = Fr(1, 2 ** 52)     # zero direction is accepted for depth <= one machine epsilon ("the depth is 0")
COAXIAL_KINDS = ["sphere", "sphere", "capsule", "cylinder", "ellipsoid", "box"]
# arms of mpr.py observed by the worker (harness/impl/narrowp.py)
ALL_ARMS = ["centers_coincide", "discover_ORIGIN_OUTSIDE_PORTAL", "discover_ORIGIN_ON_V1", "discover_ORIGIN_ON_V0V1_SEGMENT",
            "discover_PORTAL_WAS_BUILT", "discover_swapped_v1v2", "discover_kept_v1v2", "discover_iter_continue", "discover_iter_done",
            "discover_iter_replace_v2", "discover_iter_replace_v1",
            "refine_true", "refine_false", "reach_tolerance_true", "reach_tolerance_false",
            "expand_replace_v1_a", "expand_replace_v1_b", "expand_replace_v2", "expand_replace_v3",
            "origin_on_v1", "origin_on_v0v1_segment", "pen_info_regular", "pen_info_touching",
            "contact_bary_regular", "contact_bary_fallback", "contact_bary_negative_weight"]


def make_case_seeded(arg):
    import random
    seed, tier, k = arg
    return make_case(random.Random(seed), tier, k)


N_REGULAR = dict(quick=240, thorough=1600)
N_FEW = dict(quick=60, thorough=400)
MPR_EPS = 2.0 ** -52        # distance3d.utils.EPSILON


def world_vertices(spec):
    """float vertices of a hull / mesh / box in world coordinates and the point mpr uses as its centre (Collider.center())"""
    if spec["kind"] == "hull":
        V = np.array(spec["vertices"], dtype=float)
        return V, V.mean(axis=0)
    if spec["kind"] == "mesh":
        T = np.array(spec["pose"], dtype=float)
        V = np.array(spec["vertices"], dtype=float) @ T[:3, :3].T + T[:3, 3]
        return V, V.mean(axis=0)
    V = np.array([npn.vfloat(v) for v, _ in npn.poly_vertices(spec)])
    return V, np.array(spec["pose"], dtype=float)[:3, 3]


def discovery_first_arm(s1, s2):
    """harness-side float replica of mpr._discover_portal up to the first call of _iterate_discover_portal, for two
    polytopes: which arm that call takes ('replace_v2' = origin outside plane v1-v0-v3, 'replace_v1' = origin outside plane
    v3-v0-v2, 'none' = portal complete) or an earlier exit.  Only used to STEER the generator towards every arm."""
    V1, c1 = world_vertices(s1)
    V2, c2 = world_vertices(s2)

    def sup(d):
        return V1[int(np.argmax(V1 @ d))] - V2[int(np.argmax(V2 @ (-d)))]
    v0 = c1 - c2
    if not np.any(v0 != 0.0):
        v0 = v0 + np.array([10.0 * MPR_EPS, 0.0, 0.0])
    d = -v0 / np.linalg.norm(v0)
    v1 = sup(d)
    if np.any(v1 != 0.0) and float(v1 @ d) < MPR_EPS:
        return "outside"
    n = np.cross(v0, v1)
    if float(n @ n) < MPR_EPS:
        return "segment"
    n = n / np.linalg.norm(n)
    v2 = sup(n)
    if float(v2 @ n) < MPR_EPS:
        return "outside"
    sd = np.cross(v1 - v0, v2 - v0)
    ln = float(np.linalg.norm(sd))
    if ln == 0.0:
        return "flat"
    sd = sd / ln
    if float(sd @ v0) > 0.0:
        v1, v2 = v2, v1
        sd = -sd
    v3 = sup(sd)
    if float(v3 @ sd) < MPR_EPS:
        return "outside"
    if float(np.cross(v1, v3) @ v0) < MPR_EPS:
        return "replace_v2"
    if float(np.cross(v3, v2) @ v0) < MPR_EPS:
        return "replace_v1"
    return "none"


def few_collider(rng, kind, nv, size):
    """tetrahedron / hull or mesh with nv = 4 .. 8 vertices drawn from a box with aspect ratios down to 0.15 (needles,
    slivers, generic) / box, randomly oriented"""
    R = nw.rand_rotation(rng, "random")
    c = [rng.uniform(-1, 1) for _ in range(3)]
    asp = rng.choice([[1.0, 0.2, 0.2], [1.0, 1.0, 0.15], [1.0, rng.uniform(0.2, 1.0), rng.uniform(0.2, 1.0)]])
    if kind == "box":
        return dict(kind="box", pose=nw.pose_of(R, c), size=[size * a for a in asp])
    from scipy.spatial import ConvexHull
    for _ in range(100):
        P = np.array([[rng.uniform(-0.5, 0.5) * size * a for a in asp] for _ in range(nv)])
        try:
            hv = ConvexHull(P).vertices
        except Exception:
            continue
        P = P[sorted(hv)]
        if len(P) >= 4 and abs(np.linalg.det(P[1:4] - P[0])) > 1e-3 * size ** 3 * asp[1] * asp[2] or len(P) > 4:
            break
    else:
        raise RuntimeError("no proper few-vertex polytope")
    if kind == "hull":
        return dict(kind="hull", vertices=(P @ R.T + np.array(c)).tolist())
    return dict(kind="mesh", pose=nw.pose_of(R, c), vertices=P.tolist())


def gen_fewvert(rng, tier):
    """overlapping pair of polytopes with FEW vertices (tetrahedra, hulls and meshes with 5 .. 8 vertices, boxes) in generic
    poses: the support points jump between far-apart vertices, so portal discovery has to replace portal vertices.  The
    stream is balanced over the arms of the first _iterate_discover_portal call (replace v2 / replace v1 / portal complete):
    a target arm is drawn first and candidates are redrawn (at most 60 times) until the harness' float replica of the
    discovery predicts that arm."""
    target = rng.choice(["replace_v2", "replace_v2", "replace_v1", "none"])
    best = None
    for attempt in range(60):
        k1 = rng.choice(["hull", "hull", "hull", "mesh", "mesh", "box"])
        k2 = rng.choice(["hull", "hull", "hull", "mesh", "mesh", "box"])
        nv1, nv2 = rng.choice([4, 4, 4, 5, 6, 7, 8]), rng.choice([4, 4, 4, 5, 6, 7, 8])
        sz = 10 ** rng.uniform(-0.3, 1.0)
        s1 = few_collider(rng, k1, nv1, sz)
        s2 = few_collider(rng, k2, nv2, sz * rng.choice([0.1, 0.3, 1.0, 1.0, 2.0]))
        f = min(nw.feature_size(s1), nw.feature_size(s2))
        g = max(nw.feature_size(s1), nw.feature_size(s2))
        off = np.array([rng.gauss(0, 1) for _ in range(3)]) * rng.choice([0.05, 0.15, 0.3, 0.6]) * g
        c1 = world_vertices(s1)[1]
        c2 = world_vertices(s2)[1]
        s2 = nw.translate_spec(s2, c1 - c2 + off)
        L = nw.scene_scale([s1, s2])
        arm = discovery_first_arm(s1, s2)
        if arm != target and best is not None:
            continue
        a, b, dist = npn.closest_pair(s1, s2)
        if dist > 1e-9 * L:
            continue
        meta = dict(stream="fewvert", kinds=[k1, k2], n_vertices=[len(world_vertices(s1)[0]), len(world_vertices(s2)[0])],
                    target_arm=target, predicted_arm=arm, L=L)
        best = (s1, s2, meta)
        if arm == target:
            break
    if best is None:
        raise RuntimeError("could not generate an overlapping pair")
    return best


def make_case(rng, tier, k):
    if k >= N_REGULAR.get(tier, 240):
        s1, s2, meta = gen_fewvert(rng, tier)
        meta["polytopes"] = True
        return dict(c1=s1, c2=s2, ops=[dict(fn="mpr_pen")], meta=meta)
    u = rng.random()
    if u < 0.12:
        # not (or barely) overlapping: plane gap in {0, +-1e-9 .. 1}
        s1, s2, meta = nw.gen_pair(rng, tier, stream="gap")
        meta["stream"] = "gap"
    elif u < 0.2:
        # concentric: centres coincide exactly
        k1, k2 = rng.choice(nw.KINDS), rng.choice(nw.KINDS)
        st = rng.choice(["lattice", "moderate", "small", "small"])
        if st == "small":    # feature sizes 0.02 .. 0.3
            sz = [0.02, 0.03, 0.05, 0.08, 0.125, 0.2, 0.25, 0.3]
            s1 = nw.gen_collider(rng, k1, "moderate", spread=3.0, sizes=sz)
            s2 = nw.gen_collider(rng, k2, "moderate", spread=3.0, sizes=sz)
        else:
            s1 = nw.gen_collider(rng, k1, st, spread=3.0)
            s2 = nw.gen_collider(rng, k2, st, spread=3.0)
        s2 = nw.translate_spec(s2, nw.center_of(s1) - nw.center_of(s2))
        if k2 == "hull":    # centre of a vertex hull = what Collider.center() returns (vertex mean): keep as is
            pass
        meta = dict(stream="concentric", kinds=[k1, k2], L=nw.scene_scale([s1, s2]))
    elif u < 0.4:
        # coaxial: centres and support points on one line (arm "origin on segment v0-v1" / "origin on v1"):
        # lattice sizes, displaced along a principal axis, overlap delta in {0 (exact touching), shallow .. deep}
        k1, k2 = rng.choice(COAXIAL_KINDS), rng.choice(COAXIAL_KINDS)
        sz = [0.25, 0.5, 1.0, 2.0]
        ax = rng.randrange(3)
        e = np.eye(3)[ax] * rng.choice([1.0, -1.0])
        c0 = [rng.choice([-2.0, -1.0, 0.0, 0.5, 1.0]) for _ in range(3)]

        def coax(kind):
            r, h = rng.choice(sz), rng.choice(sz)
            if kind == "sphere":
                return dict(kind="sphere", center=list(c0), radius=r)
            R = np.eye(3)
            if kind in ("capsule", "cylinder"):       # local z axis along e or across it
                R = nw.AXIS_PERMS[rng.randrange(len(nw.AXIS_PERMS))]
                return dict(kind=kind, pose=nw.pose_of(R, c0), radius=r, **({"height": h} if kind == "capsule" else {"length": h}))
            if kind == "ellipsoid":
                return dict(kind=kind, pose=nw.pose_of(R, c0), radii=[rng.choice(sz), rng.choice(sz), rng.choice(sz)])
            return dict(kind="box", pose=nw.pose_of(R, c0), size=[rng.choice(sz), rng.choice(sz), rng.choice(sz)])
        s1, s2 = coax(k1), coax(k2)
        delta = rng.choice([0.0, 0.0, 1e-3, 0.015625, 0.0625, 0.25]) * min(nw.feature_size(s1), nw.feature_size(s2))
        s2 = nw.translate_spec(s2, (nw.support_value(s1, e) + nw.support_value(s2, -e) - delta) * e)
        meta = dict(stream="coaxial", kinds=[k1, k2], dir=e.tolist(), delta=delta, L=nw.scene_scale([s1, s2]))
    elif u < 0.46:
        # axis-aligned / axis-permuted boxes, cube meshes and cube hulls on a 0.25 grid (narrow-bool's generator class: the
        # portal discovery swaps vertices and meets exactly degenerate portals there; F-P1, fixed by /repo fdadc7f)
        from .. import narrow_bool as nb
        s1, s2, meta = nb.lattice_box_pair(rng, overlap=True)
        meta = dict(stream="lattice_boxes", kinds=meta["kinds"], L=nw.scene_scale([s1, s2]))
    elif u < 0.52:
        # exact touching contact on the lattice: plane gap 0 along a lattice direction, centres aligned laterally
        k1, k2 = rng.choice(nw.KINDS), rng.choice(nw.KINDS)
        s1 = nw.gen_collider(rng, k1, "lattice", margin_prob=0.0)
        s2 = nw.gen_collider(rng, k2, "lattice", margin_prob=0.0)
        d = nw.rand_unit(rng, "lattice")
        dc = nw.center_of(s1) - nw.center_of(s2)
        s2 = nw.translate_spec(s2, dc - float(dc @ d) * d)
        s2 = nw.translate_spec(s2, (nw.support_value(s1, d) + nw.support_value(s2, -d)) * d)
        meta = dict(stream="touch", kinds=[k1, k2], dir=d.tolist(), L=nw.scene_scale([s1, s2]))
    else:
        kinds = nw.KINDS if rng.random() < 0.7 else ["box", "hull", "mesh"]
        s1, s2, meta = npn.gen_overlapping(rng, tier, kinds, margin_prob=0.15)
    meta["polytopes"] = bool(npn.is_polytope(s1) and npn.is_polytope(s2))
    return dict(c1=s1, c2=s2, ops=[dict(fn="mpr_pen")], meta=meta)


F20_WHAT = ("mpr_penetration with coinciding centres: v0 is nudged to (2.2e-15, 0, 0), the absolute test |v0 x v1|^2 < EPSILON then "
            "classifies every pair as 'origin on segment v0-v1' and the contact position is the midpoint of two unrelated support points, "
            "outside the colliders")
F22_WHAT = ("mpr_penetration, arm 'origin on segment v0-v1': the contact position is the midpoint of the two support points along the centre "
            "line; when one collider is thinner along that line than half the penetration depth (flat shapes, a small collider deep inside a "
            "large one) that midpoint lies outside it")


def centres_coincide(c, L):
    return float(np.linalg.norm(nw.center_of(c["c1"]) - nw.center_of(c["c2"]))) <= 1e-9 * L


def width(spec, d):
    d = np.asarray(d, float)
    return nw.support_value(spec, d) + nw.support_value(spec, -d)


def point_dist(spec, p):
    """harness' float distance of point p from the collider, with the closest point"""
    ps = dict(kind="sphere", center=[float(x) for x in p], radius=0.0)
    a, b, d = npn.closest_pair(spec, ps)
    return d, a


def portal_witness_problem(s1, s2, fp, L):
    """hypotheses of Proofs/Mpr.v (mpr_contact_in_both_partial) on the portal the query ended with: every live row is
    v[i] = v1[i] - v2[i] with v1[i] a point of the first and v2[i] a point of the second collider (float oracle, 1e-6 L).
    Returns a description of the first violated one, or None."""
    if not fp or fp.get("state") not in ("ORIGIN_ON_V1", "ORIGIN_ON_V0V1_SEGMENT", "PORTAL_WAS_BUILT"):
        return None
    rows = range(4) if fp["state"] == "PORTAL_WAS_BUILT" else range(2)
    v, v1, v2 = (np.array(fp[k], dtype=float) for k in ("v", "v1", "v2"))
    for k in rows:
        if not (np.all(np.isfinite(v[k])) and np.all(np.isfinite(v1[k])) and np.all(np.isfinite(v2[k]))):
            return f"portal row {k} is not finite"
        dev = float(np.max(np.abs(v[k] - (v1[k] - v2[k]))))
        if dev > 1e-12 * L:
            return f"portal row {k}: v differs from v1 - v2 by {dev:.3g}"
        d1, _ = point_dist(s1, v1[k])
        if d1 > 1e-6 * L:
            return f"portal row {k}: witness v1 = {v1[k].tolist()} is {d1:.3g} away from the first collider"
        d2, _ = point_dist(s2, v2[k])
        if d2 > 1e-6 * L:
            return f"portal row {k}: witness v2 = {v2[k].tolist()} is {d2:.3g} away from the second collider"
    return None


def prepare(arg):
    i, case, r = arg
    try:
        s1, s2 = case["c1"], case["c2"]
        L = case["meta"].get("L") or nw.scene_scale([s1, s2])
        tol = Fr(2e-3) * Fr(L)
        tolf = float(tol)
        A, B = nw.sh_expr(s1), nw.sh_expr(s2)
        poly = npn.is_polytope(s1) and npn.is_polytope(s2)
        DH = npn.diff_hull(s1, s2) if poly else None
        extra = [case["meta"]["dir"]] if case["meta"].get("dir") else []
        out = dict(i=i, tol=tolf, poly=poly)
        if not r["ans"]:
            depth_or, n_or = npn.min_extent(s1, s2, extra_dirs=extra, DH=DH)
            out.update(kind="no", depth_or=depth_or,
                       expr=f"no_deep_overlap_cert {A} {B} {nw.vq(npn.rat_dir(n_or))} {nw._q(tol)}")
            if poly and depth_or > tolf * 1.01:
                try:
                    ws, te, st = npn.depth_ge_args(s1, s2, depth_or - 1e-6 * L, DH=DH)
                    out["refute"] = (f"andb (depth_ge_cert {A} {B} {ws} {te} {nw._q(Fr(depth_or - 1e-6 * L))}) "
                                     f"(Qlt_bool {nw._q(tol)} {nw._q(Fr(depth_or - 1e-6 * L))})")
                except npn.TreeFail:
                    pass
            return out
        t = float(r["depth"])
        u = [float(x) for x in r["dir"]]
        pos = [float(x) for x in r["pos"]]
        shift = (np.array(u) * t)
        s2m = nw.translate_spec(s2, shift.tolist())
        # NOTE the checker moves B by the exact rational t*u; s2m (float product) only feeds the oracles
        ulen = float(np.linalg.norm(u))
        if ulen > 0.5:
            extra = extra + [u]
        depth_or, n_or = npn.min_extent(s1, s2, extra_dirs=extra, DH=DH)
        ov_or, n_ov = npn.min_extent(s1, s2m, extra_dirs=extra)
        n1, n2 = n_ov, n_or
        if ulen > 0.5:
            uu = np.array(u) / ulen
            if npn.extent(s1, s2m, uu) <= ov_or:
                n1 = u
            if npn.extent(s1, s2, uu) <= depth_or:
                n2 = u
        dA, qa = point_dist(s1, pos)
        dB, qb = point_dist(s2, pos)
        wa, wb = nw.wit_expr(s1, qa), nw.wit_expr(s2, qb)
        tq, uq, pq = nw._q(t), nw.vq(u), nw.vq(pos)

        def cert(n1_, n2_):
            return (f"pen_cert {A} {B} {tq} {uq} {pq} {nw.vq(npn.rat_dir(n1_))} {nw.vq(npn.rat_dir(n2_))} {wa} {wb} "
                    f"{nw._q(tol)} {nw._q(EPS_DIR)} {nw._q(TINY)}")
        shB = f"(shift (qscale {tq} {uq}) {B})"
        out.update(kind="yes", t=t, ulen=ulen, depth_or=depth_or, overlap_or=ov_or, dA=dA, dB=dB,
                   expr=cert(n1, n2), expr_retry=cert(n_ov, n_or),
                   parts=[f"dir_ok {tq} {uq} {nw._q(EPS_DIR)} {nw._q(TINY)}",
                          f"overlap_le_cert {A} {shB} {nw.vq(npn.rat_dir(n_ov))} {nw._q(tol)}",
                          f"overlap_le_cert {A} {B} {nw.vq(npn.rat_dir(n_or))} ({tq} + {nw._q(tol)})",
                          f"in_shape_tol {A} {wa} {pq} {nw._q(tol)}",
                          f"in_shape_tol {B} {wb} {pq} {nw._q(tol)}"])
        ref = {}
        if dA > tolf * 1.01:
            ref["pos_A"] = (f"sep_cert {A} (Pt {pq}) {nw.vq((np.array(pos) - qa).tolist())} {nw._q(Fr(dA) * Fr(999, 1000))}")
        if dB > tolf * 1.01:
            ref["pos_B"] = (f"sep_cert {B} (Pt {pq}) {nw.vq((np.array(pos) - qb).tolist())} {nw._q(Fr(dB) * Fr(999, 1000))}")
        if poly and depth_or > t + tolf * 1.01:
            try:
                rho = depth_or - 1e-6 * L
                ws, te, st = npn.depth_ge_args(s1, s2, rho, DH=DH)
                ref["depth"] = (f"andb (depth_ge_cert {A} {B} {ws} {te} {nw._q(Fr(rho))}) (Qlt_bool ({tq} + {nw._q(tol)}) {nw._q(Fr(rho))})")
            except npn.TreeFail:
                pass
        out["refute"] = ref
        out["portal_problem"] = portal_witness_problem(s1, s2, r.get("final_portal"), L)
        return out
    except Exception as e:  # noqa
        import traceback
        return dict(i=i, error=f"{type(e).__name__}: {e}", tb=traceback.format_exc()[-800:])


CORR_HEADER = """From Coq Require Import List PrimFloat.
From D3 Require Import Base.Ops Base.Vec Model.MprRun.
Import ListNotations.
Open Scope float_scope.
"""
CORR_TOL = 1e-9


def model_expr(r):
    """Model/MprRun.mpr_run on the portal the implementation ended with, or None"""
    fp = r.get("final_portal")
    if not fp or not r.get("ans"):
        return None
    arm = {"ORIGIN_ON_V1": 0, "ORIGIN_ON_V0V1_SEGMENT": 1, "PORTAL_WAS_BUILT": 2}.get(fp.get("state"))
    if arm is None:
        return None
    rows = fp["v"] + fp["v1"] + fp["v2"]
    if arm < 2:     # rows 2, 3 of the portal are np.empty memory on these arms and are not read: zero them
        for blk in (0, 4, 8):
            for k in (2, 3):
                rows[blk + k] = [0.0, 0.0, 0.0]
    if not all(np.isfinite(x) for row in rows for x in row):
        return None
    return f"mpr_run {arm} " + " ".join("(V " + " ".join(cm.fhex(x) for x in row) + ")" for row in rows)


def correspondence(R, cases, results):
    """every returned field of mpr_penetration against the binary64 run of Model/Mpr.v on the final portal"""
    exprs, idx = [], []
    for i, r in enumerate(results):
        if "exc" in r:
            continue
        e = model_expr(r)
        if e is not None:
            exprs.append(e)
            idx.append(i)
    stats = dict(compared=0, agree=0, mismatch=0, weights_arm_fallback=0)
    if not exprs:
        return stats
    outs = None
    for attempt in range(2):
        try:
            outs = cm.coq_eval_lines(PID, CORR_HEADER, exprs, tag="model", per_file=60, timeout=1500)
            break
        except RuntimeError as e:
            if attempt < 2 and "inconsistent assumptions" in str(e):
                import time as _t
                _t.sleep(15 * attempt)
                cm.coq_build(BUILD_TARGETS)
                continue
            R.corr_broken.append(f"model evaluation failed: {str(e)[:300]}")
            return stats
    from .c05 import parse_coq_value
    for i, o in zip(idx, outs):
        m = parse_coq_value(o)
        r = results[i]
        L = cases[i]["meta"].get("L") or 1.0
        impl = [r["depth"]] + list(r["dir"]) + list(r["pos"])
        stats["compared"] += 1
        stats["weights_arm_fallback"] += int(m[7] == 1 and r["final_portal"].get("state") == "PORTAL_WAS_BUILT")
        def dv(a, b):
            return abs(float(a) - float(b)) if np.isfinite(a) and np.isfinite(b) else (0.0 if (a != a and b != b) or a == b else 1e300)
        scale = max(1e-300, max(abs(x) for row in r["final_portal"]["v"] for x in row if np.isfinite(x)))
        # the direction is (closest point) / depth: its conditioning is scale / depth; below eps the code zeroes it (a decision at depth = eps)
        tol_dir = CORR_TOL + 1e-14 * scale / max(float(m[0]), float(impl[0]), 1e-300)
        ok = (dv(m[0], impl[0]) <= CORR_TOL * L and all(dv(a, b) <= tol_dir for a, b in zip(m[1:4], impl[1:4]))
              and all(dv(a, b) <= CORR_TOL * L for a, b in zip(m[4:7], impl[4:7])))
        if tol_dir > 1e-3:
            stats["direction_ill_conditioned"] = stats.get("direction_ill_conditioned", 0) + 1
        if ok:
            stats["agree"] += 1
        else:
            stats["mismatch"] += 1
            if len(R.corr_broken) < 5:
                R.corr_broken.append(f"Model/Mpr.v vs mpr_penetration on the final portal of case {i} ({cases[i]['meta'].get('stream')}, "
                                     f"{cases[i]['meta'].get('kinds')}): model {m[:7]} implementation {impl}")
    return stats


def run(tier, seed, replay=None):
    R = cm.Run(PID, "translation_validation", tier, seed)
    R.cov["rule"] = ("case = ordered pair of colliders (10 kinds, optional Margin); streams: depth / lattice / deep / nested overlapping pairs "
                     "(as in C07; overlap pre-checked by the harness' own float GJK), concentric (centres coincide exactly), coaxial (centres and support points on one line, overlap 0 .. deep), lattice_boxes (axis-aligned boxes / cube meshes / cube hulls on a 0.25 grid), touch (lattice colliders in exact touching contact), gap (plane gap in "
                     "{0, +-1e-9 .. 100}: touching, barely overlapping, separated), fewvert (20% of the cases: tetrahedra, 5-8-vertex hulls / meshes, boxes "
                     "with aspect ratios down to 0.15 in generic overlapping poses, balanced over the arms of portal discovery's replacement step "
                     "by redrawing against a harness-side float replica of the discovery); distinct by canonical hash; non-trivial = mpr_penetration "
                     "reported an intersection (a depth, direction and position exist) and that result was judged by pen_cert")
    R.assumptions += [
        "the verdict per input is a Coq theorem (Props/C08.v) applied to the implementation's output; universality over inputs comes from generation",
        "witnesses (directions, membership witnesses, cone trees) are computed in floating point by the harness and are untrusted",
        "a rejected certificate becomes a failure only if the harness' float oracle confirms the violation with 1% margin (and, where a proven refutation "
        "certificate exists, that certificate is evaluated and reported); rejected-but-unconfirmed results are counted as ambiguous",
        "a collider's point set is the exact shape expression of the floats handed to its constructor (harness/narrow.py parts() is trusted for that translation)",
    ]
    R.check_proofs(PROOF_FILES, build_targets=BUILD_TARGETS)
    cases = []
    corpus = cm.VERIF / "corpus" / PID
    if replay:
        cases.append(json.loads(open(replay).read())["case"])
    else:
        if corpus.exists():
            for f in sorted(corpus.glob("*.json")):
                cases.append(json.loads(f.read_text())["case"])
        n = N_REGULAR.get(tier, 240) + N_FEW.get(tier, 60)       # cases with k >= N_REGULAR[tier] come from the `fewvert` stream
        seeds = [(R.rng.getrandbits(64), tier, k) for k in range(n)]
        cases += npn.par_map(PID, "c08", "make_case_seeded", seeds, tag="gen")
    for c in cases:
        c.pop("result", None)
    results = [rr[0] for rr in npn.run_cases_confirmed(PID, cases)]
    R.cov["evaluations"] = len(cases)
    hist, arms, outcome, kinds = {}, {}, {}, {}

    def bump(d, k, n=1):
        d[k] = d.get(k, 0) + n
    to_judge = []
    for i, (c, r) in enumerate(zip(cases, results)):
        bump(hist, c.get("meta", {}).get("stream", "corpus"))
        for k, v in r.get("arms", {}).items():
            bump(arms, k, v)
        if "exc" in r:
            bump(outcome, "raised_" + r["exc"])
            R.failure(f"mpr_penetration raised {r['exc']}: {r.get('exc_msg', '')}", dict(c, result=r), site="mpr.mpr_penetration")
            continue
        if r["ans"]:
            ok = (r.get("depth") is not None and r.get("dir") is not None and r.get("pos") is not None
                  and np.isfinite(r["depth"]) and all(np.isfinite(r["dir"])) and all(np.isfinite(r["pos"])))
            if not ok:
                bump(outcome, "non_finite")
                R.failure("intersection=True with a missing or non-finite depth / direction / position", dict(c, result=r), site="mpr.mpr_penetration")
                continue
            bump(outcome, "intersection")
            if r.get("changed_after_next_query"):
                bump(outcome, "result_changed_after_next_query")
                R.failure("the returned depth / direction / position changed when another mpr query was made before they were read "
                          f"(the result aliases internal state): {r['changed_after_next_query']}", dict(c, result=r), site="mpr.mpr_penetration")
                continue
        else:
            bump(outcome, "no_intersection")
        to_judge.append((i, c, r))
    try:
        prepared = npn.par_map(PID, "c08", "prepare", to_judge)
    except RuntimeError as e:
        R.corr_broken.append(str(e)[:400])
        prepared = []
    judged = {}
    exprs, slots = [], []
    for pz in prepared:
        if "error" in pz:
            R.corr_broken.append(f"harness oracle failed on case {pz['i']}: {pz['error']} {pz.get('tb', '')[-300:]}")
            continue
        judged[pz["i"]] = pz
        exprs.append(pz["expr"])
        slots.append(pz["i"])
    portal_checked = [pz for pz in judged.values() if "portal_problem" in pz]
    portal_bad = [pz for pz in portal_checked if pz["portal_problem"]]
    R.cov["final_portal_witness_rows"] = dict(checked=len(portal_checked), violated=len(portal_bad))
    for pz in portal_bad[:5]:
        c = cases[pz["i"]]
        R.corr_broken.append(f"final portal of case {pz['i']} ({c['meta'].get('stream')}, {c['meta'].get('kinds')}) violates the hypotheses of "
                             f"mpr_contact_in_both_partial: {pz['portal_problem']}")
    verdicts = bools(R, exprs)
    stats = dict(pen_cert_proved=0, pen_cert_proved_on_retry=0, not_intersecting_proved=0, ambiguous=0,
                 failures=0, refutations_certified=0)
    second, sslots = [], []
    for i, v in zip(slots, verdicts):
        pz = judged[i]
        if v is None:
            continue
        if v:
            stats["pen_cert_proved" if pz["kind"] == "yes" else "not_intersecting_proved"] += 1
            continue
        if pz["kind"] == "yes":
            second.append(pz["expr_retry"])
            sslots.append((i, "retry"))
            for k, e in enumerate(pz["parts"]):
                second.append(e)
                sslots.append((i, f"part{k}"))
        for name, e in (pz.get("refute").items() if isinstance(pz.get("refute"), dict) else ([("no", pz["refute"])] if pz.get("refute") else [])):
            second.append(e)
            sslots.append((i, "ref_" + name))
    sv = bools(R, second, tag="cert2")
    sec = {}
    for (i, role), v in zip(sslots, sv):
        sec.setdefault(i, {})[role] = v
    distinct = set()
    known_cases = {}
    for i, v in zip(slots, verdicts):
        if v is None:
            continue
        pz, c, r = judged[i], cases[i], results[i]
        if pz["kind"] == "yes":
            distinct.add((cm.canon_hash(dict(c1=c["c1"], c2=c["c2"])), (r.get("final_portal") or {}).get("state")))
        if v:
            continue
        s = sec.get(i, {})
        tolf = pz["tol"]
        problems = []
        if pz["kind"] == "no":
            if pz["depth_or"] > tolf * 1.01:
                problems.append(f"reported as not intersecting but the colliders overlap by {pz['depth_or']:.6g} > tol={tolf:.3g} "
                                f"({'certified by depth_ge_cert' if s.get('ref_no') else 'harness oracle'})")
        else:
            if s.get("retry"):
                stats["pen_cert_proved_on_retry"] += 1
                continue
            if s.get("part0") is False:
                problems.append(f"depth={pz['t']!r}, |dir|={pz['ulen']!r}: depth negative or direction neither unit (1e-9) nor zero with depth <= 2^-52 (exact check)")
            if s.get("part1") is False and pz["overlap_or"] > tolf * 1.01:
                problems.append(f"after translating the second collider by depth*dir the residual overlap is {pz['overlap_or']:.6g} > tol={tolf:.3g}")
            if s.get("part2") is False and pz["depth_or"] > pz["t"] + tolf * 1.01:
                problems.append(f"depth {pz['t']:.6g} is smaller than the true penetration depth {pz['depth_or']:.6g} minus tol={tolf:.3g}"
                                + (" (certified by depth_ge_cert)" if s.get("ref_depth") else ""))
            if s.get("part3") is False and pz["dA"] > tolf * 1.01:
                problems.append(f"contact position is {pz['dA']:.6g} > tol={tolf:.3g} away from the first collider"
                                + (" (certified by sep_cert)" if s.get("ref_pos_A") else ""))
            if s.get("part4") is False and pz["dB"] > tolf * 1.01:
                problems.append(f"contact position is {pz['dB']:.6g} > tol={tolf:.3g} away from the second collider"
                                + (" (certified by sep_cert)" if s.get("ref_pos_B") else ""))
        if any(s.get(k) for k in s if k.startswith("ref_")):
            stats["refutations_certified"] += 1
        if problems:
            stats["failures"] += 1
            L = c["meta"].get("L") or nw.scene_scale([c["c1"], c["c2"]])
            seg = bool(r.get("arms", {}).get("origin_on_v0v1_segment"))
            only_pos = all(p_.startswith("contact position") for p_ in problems)
            if seg and only_pos and centres_coincide(c, L):
                known_cases.setdefault("F20", []).append((i, problems[0]))
            elif (seg and only_pos and pz["kind"] == "yes" and pz["ulen"] > 0.5 and
                  min(width(c["c1"], r["dir"]), width(c["c2"], r["dir"])) < 0.5 * pz["t"]):
                known_cases.setdefault("F22", []).append((i, problems[0]))
            else:
                R.failure("; ".join(problems), dict(c, result=r), site="mpr.mpr_penetration")
        else:
            stats["ambiguous"] += 1
            if len(R.notes) < 6:
                R.notes.append(f"case {i}: certificate rejected but no violation confirmed by the oracle: "
                               f"{ {k: pz.get(k) for k in ('t', 'depth_or', 'overlap_or', 'dA', 'dB', 'tol')} } parts={ {k: v for k, v in s.items()} }")
    known = {e["id"]: e for e in R.known}
    for kid, what in (("F20", F20_WHAT), ("F22", F22_WHAT)):
        lst = known_cases.get(kid, [])
        if not lst:
            continue
        if kid in known:
            R.known_finding(kid, f"{what}; {len(lst)} of {len(cases)} cases this run, e.g. {lst[0][1][:140]}")
        else:
            for i, w in lst[:5]:
                R.failure(w + f" [{kid}: {what[:90]}...]", dict(cases[i], result=results[i]), site="mpr._find_penetration_segment")
    R.cov["known_class_cases"] = {k: len(v) for k, v in known_cases.items()}
    R.cov["model_correspondence"] = correspondence(R, cases, results)
    R.cov["programs"] = len(judged)
    R.cov["disagreements_checked"] = stats["failures"] + stats["ambiguous"]
    R.cov["distinct_nontrivial"] = len(distinct)
    R.cov["input_histogram"] = hist
    R.cov["outcomes"] = outcome
    R.cov["verdicts"] = stats
    R.cov["arms"] = dict(sorted(arms.items()))
    R.cov["arms_not_reached"] = [a for a in ALL_ARMS if a not in arms]
    for i in list(judged)[:3]:
        c, r = cases[i], results[i]
        R.sample(dict(c1=c["c1"], c2=c["c2"], meta=c["meta"], result={k: r.get(k) for k in ("ans", "depth", "dir", "pos", "arms")},
                      oracle_depth=judged[i].get("depth_or")))
    return R.finish()


def bools(R, exprs, tag="cert"):
    if not exprs:
        return []
    outs = None
    for attempt in range(3):
        try:
            outs = cm.coq_eval_lines(PID, npn.COQ_HEADER + "From D3 Require Import Checker.PenMpr.\n", exprs, tag=tag,
                                     per_file=12, timeout=1500)
            break
        except RuntimeError as e:
            if attempt < 2 and "inconsistent assumptions" in str(e):
                import time as _t
                _t.sleep(15 * attempt)
                cm.coq_build(BUILD_TARGETS)
                continue
            R.proof_broken.append(f"checker evaluation failed: {str(e)[:400]}")
            return [None] * len(exprs)
    res = []
    for o in outs:
        o = o.strip()
        if o not in ("true", "false"):
            R.proof_broken.append(f"unexpected checker output {o[:200]}")
            return [None] * len(exprs)
        res.append(o == "true")
    return res
