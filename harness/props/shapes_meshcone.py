"""cone certificates for Checker/ShapesMeshCone.v: for every vertex v of the adjacency and every vertex u
non-negative exact rationals mu_w (w neighbour of v) with  u - v = sum mu_w (w - v)."""
import itertools
import math
from fractions import Fraction as Fr

import numpy as np
from scipy.optimize import nnls


def _solve_exact(cols, target):
    """exact non-negative solution of sum mu_k cols[k] = target for 1..3 linearly independent columns, or None"""
    k = len(cols)
    if k == 0:
        return [] if all(t == 0 for t in target) else None
    # pick k rows giving a non-singular k x k system, solve by Cramer / elimination in Fractions
    for rows in itertools.combinations(range(3), k):
        A = [[cols[c][r] for c in range(k)] for r in rows]
        b = [target[r] for r in rows]
        # Gaussian elimination
        M = [A[i][:] + [b[i]] for i in range(k)]
        ok = True
        for i in range(k):
            piv = next((r for r in range(i, k) if M[r][i] != 0), None)
            if piv is None:
                ok = False
                break
            M[i], M[piv] = M[piv], M[i]
            for r in range(k):
                if r != i and M[r][i] != 0:
                    f = M[r][i] / M[i][i]
                    M[r] = [x - f * y for x, y in zip(M[r], M[i])]
        if not ok:
            continue
        mu = [M[i][k] / M[i][i] for i in range(k)]
        if all(m >= 0 for m in mu) and all(sum(mu[c] * cols[c][r] for c in range(k)) == target[r] for r in range(3)):
            return mu
        return None
    return None


def cone_row(V, nb, v):
    """coefficient lists for all u (exact Fractions) or None if some u is outside the cone of v's neighbours"""
    n = len(V)
    E = [[V[w][i] - V[v][i] for i in range(3)] for w in nb]
    Ef = np.array([[float(x) for x in e] for e in E]).T if nb else np.zeros((3, 0))
    row = []
    for u in range(n):
        tgt = [V[u][i] - V[v][i] for i in range(3)]
        if all(t == 0 for t in tgt):
            row.append([])
            continue
        found = None
        if nb:
            tf = np.array([float(x) for x in tgt])
            sc = max(1e-300, float(np.max(np.abs(Ef))))
            x, _ = nnls(Ef / sc, tf / sc, maxiter=500)
            order = sorted(range(len(nb)), key=lambda k: -x[k])
            supp = [k for k in order if x[k] > 1e-9 * max(1e-300, x[order[0]])]
            cands = []
            if 1 <= len(supp) <= 3:
                cands.append(supp)
            cands += [list(c) for r in (1, 2, 3) for c in itertools.combinations(order[:6], r)]
            for c in cands:
                mu = _solve_exact([E[k] for k in c], tgt)
                if mu is not None:
                    found = [(nb[k], m) for k, m in zip(c, mu) if m != 0]
                    break
        if found is None:
            return None
        row.append(found)
    return row


def cone_certificate(vs, conn):
    """vs: list of float triples; conn: {v: [neighbours]} -> (cert rows, M) or None"""
    V = [[Fr(x) for x in p] for p in vs]
    n = len(V)
    cert = []
    worst = Fr(0)
    for v in range(n):
        if v not in conn:
            cert.append([[] for _ in range(n)])
            continue
        row = cone_row(V, conn[v], v)
        if row is None:
            return None
        for c in row:
            worst = max(worst, sum((m for _, m in c), Fr(0)))
        cert.append(row)
    return cert, worst


def q(x):
    x = Fr(x)
    return f"({x.numerator} # {x.denominator})" if x >= 0 else f"(({x.numerator}) # {x.denominator})"


def coq_expr(vs, conn_items, cert, M):
    V = "[" + "; ".join("(V " + " ".join(q(Fr(x)) for x in p) + ")" for p in vs) + "]"
    C = "[" + "; ".join(f"({k}%nat, [" + "; ".join(f"{x}%nat" for x in nb) + "])" for k, nb in conn_items) + "]"
    rows = []
    for row in cert:
        items = []
        for c in row:
            D = 1
            for _, m in c:
                D = D * m.denominator // math.gcd(D, m.denominator)
            items.append(f"({q(D)}, [" + "; ".join(f"({w}%nat, {q(m * D)})" for w, m in c) + "])")
        rows.append("[" + "; ".join(items) + "]")
    return V, C, "[" + "; ".join(rows) + "]", q(M)


def hull_weights_exact(W, p):
    """exact convex weights (Fractions, >= 0, sum 1) with  sum w_i W_i = p  for a point p of the hull of the
    exact points W, or None: a floating-point NNLS proposes the support, the weights are then solved exactly
    on at most four affinely independent points of it"""
    n = len(W)
    Wf = np.array([[float(x) for x in w] for w in W])
    pf = np.array([float(x) for x in p])
    sc_ = max(1.0, float(np.max(np.abs(Wf))))
    A = np.vstack([Wf.T / sc_, 1e3 * np.ones((1, n))])
    b = np.concatenate([pf / sc_, [1e3]])
    x, _ = nnls(A, b, maxiter=2000)
    order = sorted(range(n), key=lambda k: -x[k])
    tgt = [Fr(v) for v in p] + [Fr(1)]
    cand_sets = []
    supp = [k for k in order if x[k] > 1e-12]
    for r in (4, 3, 2, 1):
        cand_sets += [list(c) for c in itertools.combinations(supp[:6], r)]
    for c in cand_sets:
        cols = [list(W[k]) + [Fr(1)] for k in c]
        w = _solve_square_any(cols, tgt)
        if w is not None and all(v >= 0 for v in w):
            out = [Fr(0)] * n
            for k, v in zip(c, w):
                out[k] = v
            return out
    return None


def _solve_square_any(cols, target):
    """exact solution of sum w_k cols[k] = target (vectors of length 4, k <= 4 columns) or None"""
    k = len(cols)
    m = len(target)
    M = [[cols[c][r] for c in range(k)] + [target[r]] for r in range(m)]
    row = 0
    piv_cols = []
    for col in range(k):
        piv = next((r for r in range(row, m) if M[r][col] != 0), None)
        if piv is None:
            return None
        M[row], M[piv] = M[piv], M[row]
        for r in range(m):
            if r != row and M[r][col] != 0:
                f = M[r][col] / M[row][col]
                M[r] = [a - f * b for a, b in zip(M[r], M[row])]
        piv_cols.append(col)
        row += 1
    for r in range(row, m):
        if M[r][k] != 0:
            return None            # inconsistent
    return [M[i][k] / M[i][i] for i in range(k)]
