"""C05 — AABB tree answers overlap queries exactly, for every insertion history.

Proof: coq/theories/Proofs/AabbTreeProofs.v + Props/C05.v (model: Model/AabbTree.v).
Tie to the code: structural correspondence — after every batch the model's
(root, filled_len, nodes, external data, boxes) and all query answers (with
order) must equal the implementation's, bit for bit, the model being run on
binary64 (PrimFloat) inside coqc.  Independent of the model, the property oracle
(brute force closed-interval test over everything ever inserted) judges the
implementation's answers and is what turns a broken tie into a replayable input.
"""
import json
import re

from .. import common as cm
from ..tables import _module_consts

PID = "C05"
PROOF_FILES = ["theories/Props/C05.v", "theories/Proofs/AabbTreeProofs.v", "theories/Proofs/AabbTreeInsert.v", "theories/Proofs/AabbTreeQuery.v"]

HEADER = """From Coq Require Import List ZArith PrimFloat.
From D3 Require Import Model.AabbTree Model.AabbTreeRun.
Import ListNotations.
Open Scope float_scope.
Notation B := (@Box float).
"""


# ---------------------------------------------------------------- generators
def gen_box(rng, kind):
    if kind == "lattice":
        vals = [-2, -1, -0.5, 0, 0.5, 1, 2, 3]
        b = []
        for _ in range(3):
            lo = rng.choice(vals)
            hi = rng.choice([v for v in vals if v >= lo])
            b += [float(lo), float(hi)]
        return b
    if kind == "tiny":
        c = [rng.uniform(-1, 1) for _ in range(3)]
        s = [rng.choice([0.0, 1e-300, 1e-9, 1e-3]) for _ in range(3)]
        return [x for i in range(3) for x in (c[i], c[i] + s[i])]
    scale = 10 ** rng.uniform(-2, 2)
    b = []
    for _ in range(3):
        lo = rng.uniform(-1, 1) * scale * 3
        hi = lo + rng.uniform(0, 1) * scale
        b += [lo, hi]
    return b


def gen_history(rng, tier, max_batches):
    sizes = [0, 1, 1, 2, 3, 5, 8] if tier == "quick" else [0, 1, 2, 3, 7, 20, 40]
    h = []
    uid = [0]
    kind = rng.choice(["lattice", "random", "random", "tiny", "mixed"])
    for _ in range(rng.randint(0, max_batches)):
        n = rng.choice(sizes)
        mode = rng.choice(["none", "sort", "shuffle", "single"])
        if mode == "single":
            n = 1
        boxes = []
        for _ in range(n):
            k = kind if kind != "mixed" else rng.choice(["lattice", "random", "tiny"])
            if boxes and rng.random() < 0.15:
                boxes.append(list(rng.choice(boxes)))  # duplicate
            else:
                boxes.append(gen_box(rng, k))
        if rng.random() < 0.6:
            data = list(range(uid[0], uid[0] + n))
            uid[0] += n
        else:
            data = None
        h.append(dict(boxes=boxes, data=data, mode=mode, seed=rng.randint(0, 2**31 - 1),
                      as_list=rng.random() < 0.2))
    return h


def touching_queries(rng, boxes):
    qs = []
    for b in boxes[:6]:
        qs.append(list(b))
        ax = rng.randrange(3)
        q = list(b)
        w = abs(b[2 * ax + 1] - b[2 * ax]) + 1.0
        q[2 * ax] = b[2 * ax + 1]          # touches the high face exactly
        q[2 * ax + 1] = b[2 * ax + 1] + w
        qs.append(q)
        q2 = list(b)
        q2[2 * ax + 1] = b[2 * ax]
        q2[2 * ax] = b[2 * ax] - w
        qs.append(q2)
    return qs


def gen_case(rng, tier):
    h1 = gen_history(rng, tier, 4 if tier == "quick" else 6)
    h2 = gen_history(rng, tier, 2)
    allb = [b for bt in h1 for b in bt["boxes"]]
    qs = [gen_box(rng, rng.choice(["lattice", "random"])) for _ in range(3)]
    if allb:
        qs += touching_queries(rng, rng.sample(allb, min(len(allb), 3)))
    # half of the cases also query the tree BETWEEN the batches (box queries, root box, self query):
    # an answer must depend on the insertion history only, never on earlier queries
    return dict(h1=h1, h2=h2, queries=qs, interleave=rng.random() < 0.5)


# ---------------------------------------------------------------- model side
def coq_box(b):
    return "(B " + " ".join(cm.fhex(x) for x in b) + ")"


def coq_history(h, orders):
    out = []
    k = 0
    for bt in h:
        n = len(bt["boxes"])
        if n == 0:
            out.append("([], None, [])")
            continue
        order = orders[k]
        k += 1
        boxes = "[" + "; ".join(coq_box(b) for b in bt["boxes"]) + "]"
        if bt["mode"] == "single":
            d = bt["data"]
            data = "Some [" + ("None" if d is None else f"Some {d[0]}%nat") + "]"
        elif bt["data"] is None:
            data = "None"
        else:
            data = "Some [" + "; ".join(f"Some {d}%nat" for d in bt["data"]) + "]"
        out.append(f"({boxes}, {data}, [" + "; ".join(str(i) for i in order) + "]%nat)")
    return "[" + "; ".join(out) + "]"


def parse_coq_value(s):
    s = s.replace("%Z", "").replace("%float", "").replace("%nat", "")
    s = re.sub(r"\((-[0-9][0-9.e+-]*)\)", r"\1", s)
    s = s.replace("(", "[").replace(")", "]").replace(";", ",")
    s = re.sub(r"\bneg_infinity\b", "-1e999", s)
    s = re.sub(r"\binfinity\b", "1e999", s)
    s = re.sub(r"\bnan\b", "NaN", s)
    return json.loads(s)


def is_perm_of(order, lo, n):
    return sorted(order) == list(range(lo, lo + n))


# ---------------------------------------------------------------- oracle
def overlap(a, b):
    return (a[0] <= b[1] and a[1] >= b[0] and a[2] <= b[3] and a[3] >= b[2]
            and a[4] <= b[5] and a[5] >= b[4])


def inserted(h):
    out = []
    for bt in h:
        for i, b in enumerate(bt["boxes"]):
            d = None
            if bt["data"] is not None:
                d = bt["data"][i]
            out.append((tuple(float(x) for x in b), d))
    return out


def judge_case(case, r):
    """Property oracle on the implementation's answers.  Returns list of failures."""
    fails = []
    if "exc" in r:
        return [f"raised {r['exc']}: {r.get('exc_msg','')}"]
    ins1, ins2 = inserted(case["h1"]), inserted(case["h2"])
    b1 = [tuple(r["boxes1"][6 * i:6 * i + 6]) for i in range(len(r["boxes1"]) // 6)]
    b2 = [tuple(r["boxes2"][6 * i:6 * i + 6]) for i in range(len(r["boxes2"]) // 6)]
    ext1 = r["s1"][-1]["ext"] if r["s1"] else []
    ext2 = r["s2"][-1]["ext"] if r["s2"] else []
    for q, ov in zip(case["queries"], r["q"]):
        if len(set(ov)) != len(ov):
            fails.append(f"duplicate index in overlaps_aabb answer {ov}")
            continue
        if any(i < 0 or i >= len(b1) or i >= len(ext1) for i in ov):
            fails.append(f"index out of range in answer {ov}")
            continue
        got = sorted((b1[i], -1 if ext1[i] is None else ext1[i]) for i in ov)
        want = sorted((b, -1 if d is None else d) for b, d in ins1 if overlap(b, tuple(q)))
        if got != want:
            fails.append(f"overlaps_aabb(q={q}): got {len(got)} boxes, brute force {len(want)}; "
                         f"missing={[w for w in want if w not in got][:3]} spurious={[g for g in got if g not in want][:3]}")
    pairs = [tuple(p) for p in r["pairs"]]
    if len(set(pairs)) != len(pairs):
        fails.append("duplicate pair in overlaps_aabb_tree answer")
    elif any(i < 0 or i >= len(b1) or j < 0 or j >= len(b2) for i, j in pairs):
        fails.append("pair index out of range")
    elif any(i >= len(ext1) or j >= len(ext2) for i, j in pairs):
        fails.append(f"a reported index has no entry in external_data_list (lengths {len(ext1)}, {len(ext2)}; "
                     f"{len(b1)}, {len(b2)} boxes): the index -> external data map is broken")
    else:
        got = sorted((b1[i], -1 if ext1[i] is None else ext1[i], b2[j], -1 if ext2[j] is None else ext2[j])
                     for i, j in pairs)
        want = sorted((ba, -1 if da is None else da, bb, -1 if db is None else db)
                      for ba, da in ins1 for bb, db in ins2 if overlap(ba, bb))
        if got != want:
            fails.append(f"overlaps_aabb_tree: got {len(got)} pairs, brute force {len(want)}")
        if r["pairs_flag"] != (len(pairs) > 0):
            fails.append("overlaps_aabb_tree flag inconsistent")
        if r["u1"] != sorted({i for i, _ in pairs}) or r["u2"] != sorted({j for _, j in pairs}):
            fails.append("overlaps_aabb_tree unique index lists inconsistent with pairs")
    if ins1 and "root_aabb" in r:
        ra = r["root_aabb"]
        want = [min(b[0] for b, _ in ins1), max(b[1] for b, _ in ins1),
                min(b[2] for b, _ in ins1), max(b[3] for b, _ in ins1),
                min(b[4] for b, _ in ins1), max(b[5] for b, _ in ins1)]
        if [float(x) for x in ra] != [float(x) for x in want]:
            fails.append(f"get_root_aabb {ra} != hull of inserted boxes {want}")
    if "mid" in r:
        # interleaved queries: judged against everything inserted up to that moment
        sofar = []
        stages = [[]] + [bt for bt in case["h1"]]
        for k, rec in enumerate(r["mid"]):
            if k > 0:
                bt = stages[k]
                for i, b in enumerate(bt["boxes"]):
                    sofar.append((tuple(float(x) for x in b), None if bt["data"] is None else bt["data"][i]))
            for qq in rec["q"]:
                got = sorted((tuple(b), -1 if e is None else e) for b, e in zip(qq["boxes"], qq["ext"]))
                want = sorted((b, -1 if d is None else d) for b, d in sofar if overlap(b, tuple(qq["box"])))
                if len(set(qq["ov"])) != len(qq["ov"]):
                    fails.append(f"interleaved query after batch {k}: duplicate index {qq['ov']}")
                elif got != want:
                    fails.append(f"interleaved overlaps_aabb after batch {k} (q={qq['box']}): got {len(got)} boxes, "
                                 f"brute force {len(want)}")
                if qq["flag"] != (len(qq["ov"]) > 0):
                    fails.append("interleaved query: flag inconsistent")
            if sofar and rec.get("root") is not None:
                want = [min(b[0] for b, _ in sofar), max(b[1] for b, _ in sofar),
                        min(b[2] for b, _ in sofar), max(b[3] for b, _ in sofar),
                        min(b[4] for b, _ in sofar), max(b[5] for b, _ in sofar)]
                if [float(x) for x in rec["root"]] != [float(x) for x in want]:
                    fails.append(f"get_root_aabb after batch {k}: {rec['root']} != hull of inserted boxes {want}")
                nself = sum(1 for a, _ in sofar for b, _ in sofar if overlap(a, b))
                if rec.get("self_pairs") != nself:
                    fails.append(f"tree-vs-itself after batch {k}: {rec.get('self_pairs')} pairs, brute force {nself}")
    return fails


# ---------------------------------------------------------------- comparison
def norm_snapshot(s, consts):
    tmap = {consts["TYPE_NONE"]: 0, consts["TYPE_LEAF"]: 1, consts["TYPE_BRANCH"]: 2}
    none = consts["INDEX_NONE"]
    flat = []
    nodes = s["nodes"]
    P, L, R, T = (consts[k] for k in ("PARENT_INDEX", "LEFT_INDEX", "RIGHT_INDEX", "TYPE_INDEX"))
    for i in range(len(nodes) // 4):
        row = nodes[4 * i:4 * i + 4]
        flat += [(-1 if row[P] == none else row[P]), (-1 if row[L] == none else row[L]),
                 (-1 if row[R] == none else row[R]), tmap.get(row[T], -99)]
    ext = [-1 if e is None else e for e in s["ext"]]
    return [(-1 if s["root"] == none else s["root"]), s["filled"], s["n_nodes"], s["n_aabbs"], s["n_ext"]] + flat + ext


def compare_case(case, r, m, consts):
    """Exact structural comparison model vs implementation. Returns list of diffs."""
    diffs = []
    if "exc" in r:
        return ["implementation raised"]
    l1, l2, boxes, qs, pairs = m
    for name, snaps, ml in (("tree1", r["s1"], l1), ("tree2", r["s2"], l2)):
        if len(snaps) != len(ml):
            diffs.append(f"{name}: number of snapshots {len(snaps)} vs model {len(ml)}")
            continue
        for k, (s, mm) in enumerate(zip(snaps, ml)):
            if norm_snapshot(s, consts) != mm:
                diffs.append(f"{name}: state after batch {k} differs (root/filled/nodes/ext)")
                break
    if [float(x) for x in r["boxes1"]] != [float(x) for x in boxes]:
        diffs.append("tree1: aabbs differ")
    if r["q"] != qs:
        diffs.append("overlaps_aabb answers differ")
    if [x for p in r["pairs"] for x in p] != pairs:
        diffs.append("overlaps_aabb_tree pairs differ")
    return diffs


def nontrivial(case, r):
    n = sum(len(b["boxes"]) for b in case["h1"])
    return n >= 2 and "q" in r and any(len(x) > 0 for x in r["q"])


# ---------------------------------------------------------------- main
def run_impl_cases(cases, tag):
    """Run cases in worker processes; isolate crashing cases."""
    nw = min(cm.NCPU, max(1, len(cases) // 20))
    chunks = [cases[i::nw] for i in range(nw)]
    res = cm.run_impl_parallel(PID, "c05", [dict(cases=c) for c in chunks], timeout=900, tag=tag)
    out = [None] * len(cases)
    for w, (rr, ch) in enumerate(zip(res, chunks)):
        idxs = list(range(w, len(cases), nw))
        if rr["status"] == "ok":
            for i, x in zip(idxs, rr["result"]["results"]):
                out[i] = x
        else:
            # isolate: one process per case
            singles = cm.run_impl_parallel(PID, "c05", [dict(cases=[c]) for c in ch], timeout=120, tag=tag + "_iso")
            for i, s in zip(idxs, singles):
                if s["status"] == "ok":
                    out[i] = s["result"]["results"][0]
                else:
                    out[i] = dict(exc=f"PROCESS-{s['status'].upper()}", exc_msg=f"rc={s.get('rc')} {s.get('log','')[-300:]}")
    return out


def run(tier, seed, replay=None):
    R = cm.Run(PID, "proof", tier, seed)
    R.cov["rule"] = ("case = two insertion histories (0-6 batches, sizes incl. 0/1, modes none/sort/shuffle/single, "
                     "with/without payload, boxes random/lattice/tiny/duplicate) + box queries (random, each chosen box, "
                     "boxes touching a face exactly) + tree-vs-tree; non-trivial = >=2 boxes inserted and some query "
                     "returns a non-empty answer; distinct by canonical hash of the case")
    R.assumptions += [
        "theorems are about the Gallina model Model/AabbTree.v; the tie to /repo is the exact structural correspondence run here",
        "float comparisons form a total preorder only in the absence of NaN (hypothesis of the theorems; instances proved for Z, Q, R)",
        "harness/compat.py import shim; numpy/numba/CPython",
    ]
    proofs_ok = R.check_proofs(PROOF_FILES)
    consts = _module_consts(cm.REPO / "distance3d" / "aabb_tree.py",
                            ["INDEX_NONE", "PARENT_INDEX", "LEFT_INDEX", "RIGHT_INDEX", "TYPE_INDEX",
                             "TYPE_NONE", "TYPE_LEAF", "TYPE_BRANCH"])

    cases = []
    corpus = cm.VERIF / "corpus" / PID
    if replay:
        cases.append(json.loads(open(replay).read())["case"])
    else:
        if corpus.exists():
            for f in sorted(corpus.glob("*.json")):
                cases.append(json.loads(f.read_text())["case"])
        n = 240 if tier == "quick" else 2400
        for _ in range(n):
            cases.append(gen_case(R.rng, tier))

    results = run_impl_cases(cases, "impl")
    R.cov["evaluations"] = len(cases)
    # property oracle on every implementation answer
    bad = []
    for c, r in zip(cases, results):
        try:
            f = judge_case(c, r)
        except Exception as e:  # noqa  (state so inconsistent that the oracle cannot read it)
            f = [f"implementation state cannot be interpreted by the oracle: {type(e).__name__}: {str(e)[:200]}"]
        if f:
            bad.append((c, f))
    # model on the same cases
    exprs, idx = [], []
    for i, (c, r) in enumerate(zip(cases, results)):
        if "exc" in r:
            continue
        ok_orders = True
        for h, orders in ((c["h1"], r["o1"]), (c["h2"], r["o2"])):
            lo = 0
            k = 0
            first = True
            for bt in h:
                n = len(bt["boxes"])
                if n == 0:
                    continue
                if not is_perm_of(orders[k], lo, n):
                    ok_orders = False
                lo += 2 * n - (1 if first else 0)
                first = False
                k += 1
        if not ok_orders:
            R.corr_broken.append("insert order reported by the implementation is not a permutation of the new rows")
            continue
        qs = "[" + "; ".join(coq_box(q) for q in c["queries"]) + "]"
        exprs.append(f"run_case {coq_history(c['h1'], r['o1'])} {coq_history(c['h2'], r['o2'])} {qs}")
        idx.append(i)
    diffs_total = 0
    distinct = set()
    try:
        outs = cm.coq_eval_lines(PID, HEADER, exprs, per_file=40 if tier == "quick" else 60)
        for i, o in zip(idx, outs):
            m = parse_coq_value(o)
            d = compare_case(cases[i], results[i], m, consts)
            if d:
                diffs_total += 1
                if len(R.corr_broken) < 5:
                    R.corr_broken.append(f"AabbTree model vs implementation: {d[0]}")
                bad_here = judge_case(cases[i], results[i])
                R.notes.append(dict(correspondence_diff=d, case_hash=cm.canon_hash(cases[i]), property_failures=bad_here))
            if nontrivial(cases[i], results[i]):
                distinct.add(cm.canon_hash(cases[i]))
    except RuntimeError as e:
        R.corr_broken.append(f"model evaluation failed: {str(e)[:500]}")
    R.cov["distinct_nontrivial"] = len(distinct)
    R.cov["traces_validated_against_impl"] = len(idx) - diffs_total
    R.cov["correspondence_disagreements"] = diffs_total
    hist = {}
    for c in cases:
        for b in c["h1"] + c["h2"]:
            hist[b["mode"]] = hist.get(b["mode"], 0) + 1
    R.cov["input_histogram"] = dict(batches_by_mode=hist,
                                    boxes_total=sum(len(b["boxes"]) for c in cases for b in c["h1"] + c["h2"]),
                                    queries_total=sum(len(c["queries"]) for c in cases),
                                    empty_tree1=sum(1 for c in cases if not any(b["boxes"] for b in c["h1"])),
                                    empty_tree2=sum(1 for c in cases if not any(b["boxes"] for b in c["h2"])))
    for c, r in list(zip(cases, results))[:2]:
        R.sample(dict(h1=[dict(mode=b["mode"], n=len(b["boxes"]), first_box=(b["boxes"][0] if b["boxes"] else None)) for b in c["h1"]],
                      n_queries=len(c["queries"]), answers=r.get("q", [])[:3]))
    for c, f in bad[:5]:
        R.failure("; ".join(f[:3]), c, site="AabbTree")
    # If only the tie/proof broke and the oracle found nothing: targeted search = the
    # thorough generator (10x) judged by the oracle only.
    if (R.proof_broken or R.corr_broken) and not bad and not replay:
        extra = [gen_case(R.rng, "thorough") for _ in range(1500)]
        res2 = run_impl_cases(extra, "search")
        R.cov["search_evaluations"] = len(extra)
        for c, r in zip(extra, res2):
            try:
                f = judge_case(c, r)
            except Exception as e:  # noqa  (the implementation's state is so inconsistent that the oracle cannot read it)
                f = [f"implementation state cannot be interpreted by the oracle: {type(e).__name__}: {str(e)[:200]}"]
            if f:
                R.failure("; ".join(f[:3]), c, site="AabbTree")
                break
    return R.finish()
