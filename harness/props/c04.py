"""C04 — Collider AABBs enclose the shape and are tight on every axis.

Proofs: coq/theories/Proofs/AabbProofs.v, statements in Props/C04.v (model: Model/Aabb.v).
Tie to the code: collider.aabb(), the containment.*_aabb free functions and RigidBody.aabb()
are run in worker processes (JIT on) and the Coq model (binary64 instance) inside coqc on
the same inputs; the six bounds are compared at 1e-9*L.
Property oracle (independent of the model): exact rational support values along +-e_k of the
set c + M.K under the exact float pose (fractions.Fraction, integer-square-root bounds); for
polytopes and rigid bodies the exact min / max over the (world-frame) vertices.

Known findings (never "any failure of C04"):
  F9      site = ellipsoid_aabb (Ellipsoid.aabb(), Margin(Ellipsoid).aabb(), containment.ellipsoid_aabb)
          AND the rotation block is not a signed permutation matrix.
  RB-AABB site = RigidBody.aabb() AND body2origin is not the identity.
"""
import json

from .. import common as cm
from . import shapes_common as sc
from .shapes_common import Fr

PID = "C04"
PROOF_FILES = ["theories/Props/C04.v", "theories/Proofs/AabbProofs.v", "theories/Proofs/AabbProofsB.v", "theories/Spec/Shapes.v",
               "theories/Base/RVec2.v", "theories/Checker/ShapesCert.v"]
TRACE_SCOPE = {
    "containment.py": ["axis_aligned_bounding_box", "sphere_aabb", "box_aabb", "cylinder_aabb", "capsule_aabb",
                       "ellipsoid_aabb", "disk_aabb", "cone_aabb", "ellipse_aabb"],
    "colliders.py": [f"{c}.aabb" for c in ("ConvexHullVertices", "Box", "MeshGraph", "Sphere", "Capsule", "Ellipsoid",
                                            "Cylinder", "Disk", "Ellipse", "Cone", "Margin")],
    "hydroelastic_contact/_rigid_body.py": ["RigidBody.aabb", "RigidBody.aabbs", "RigidBody.aabb_tree", "RigidBody.express_in"],
    "hydroelastic_contact/_mesh_processing.py": ["tetrahedral_mesh_aabbs"],
}
def load_known():
    """status=finding entries for C04 of /verif/known_findings.json"""
    return {e["id"]: e for e in cm.load_known(PID)}


# ---------------------------------------------------------------- generation
def gen_rigid_body(rng, stream):
    maker = rng.choice(["box", "box", "cube", "sphere", "ellipsoid"])
    sh = dict(kind="rigid_body", maker=maker, stream=stream)
    pose_cls = rng.choice(["identity", "translated", "rotated", "general"])
    ident = [[1.0, 0.0, 0.0], [0.0, 1.0, 0.0], [0.0, 0.0, 1.0]]
    if pose_cls == "identity":
        sh.update(R=ident, t=[0.0, 0.0, 0.0])
    elif pose_cls == "translated":
        sh.update(R=ident, t=[x if x != 0.0 else 1.0 for x in sc.gen_translation(rng, stream)])
    elif pose_cls == "rotated":
        sh.update(R=sc.gen_rotation(rng, stream), t=[0.0, 0.0, 0.0])
    else:
        sh.update(R=sc.gen_rotation(rng, stream), t=sc.gen_translation(rng, stream))
    if rng.random() < 0.6:
        # second observation after express_in(new frame): identity (then the stored vertices ARE world
        # coordinates and the box is judged by the oracle), or another general pose
        if rng.random() < 0.5:
            sh["express_in"] = dict(R=ident, t=[0.0, 0.0, 0.0])
        else:
            sh["express_in"] = dict(R=sc.gen_rotation(rng, stream), t=sc.gen_translation(rng, stream))
    sz = lambda: sc.gen_size(rng, stream, 0.05, 20.0)  # noqa: E731
    if maker == "box":
        sh["size"] = [sz(), sz(), sz()]
    elif maker == "cube":
        sh["size"] = [sz()]
    elif maker == "sphere":
        sh["r"] = sz()
    else:
        sh["radii"] = [sz(), sz(), sz()]
    return sh


HISTORY_SHARE = dict(mesh=0.7, box=0.6)      # share of the cases with a pose history, default 0.4


def add_histories(rng, cases):
    """for a share of the cases (kinds with update_pose) the collider is constructed at another pose and brought to
    the pose of the case by update_pose calls on ONE pose array that is overwritten in place between the calls
    (the constructor's own array, or the array of the first update_pose; possibly a matrix of a pose stack);
    aabb() is asked at every stage"""
    for c in cases:
        sh = c["shape"]
        k = sh["kind"]
        if k not in sc.POSE_KINDS or rng.random() >= HISTORY_SHARE.get(k, 0.4):
            continue
        stream = sh.get("stream", "random")
        c["history"] = sc.gen_pose_history(rng, sh, stream)
        if k in ("sphere", "disk", "ellipse"):
            if k == "ellipse":
                Rf = [[sh["a0"][i], sh["a1"][i], sc.cross3(sh["a0"], sh["a1"])[i]] for i in range(3)]
            else:
                Rf = sc.gen_rotation(rng, stream if stream in ("lattice", "exact", "near", "composed") else "random")
                if k == "disk":
                    Rf = sc.frame_with_third_column(Rf, sh["n"])
            c["shape"] = sc.with_pose(sh, Rf, sh["c"])


def gen_cases(rng, tier):
    per = 8 if tier == "quick" else 90
    cases = []
    for kind in sc.KINDS:
        for stream, share in (("random", 1.0), ("lattice", 0.6), ("exact", 0.4)):
            for _ in range(int(per * share)):
                sh = sc.gen_shape(rng, kind, stream)
                margin = None
                if rng.random() < 0.25:
                    margin = rng.choice(sc.LATTICE) if stream in ("lattice", "exact") else 10 ** rng.uniform(-2, 1)
                cases.append(dict(shape=sh, margin=margin))
    add_histories(rng, cases)
    for c in cases:
        k = c["shape"]["kind"]
        if k not in ("mesh",) and rng.random() < 0.5:
            sh2 = sc.gen_shape(rng, k, "random")
            if k == "hull":
                sh2["vs"] = [[1.5 * x + 0.25 for x in v] for v in c["shape"]["vs"]]
            c["shape2"] = sh2
    # axes within 1e-3 .. 1e-8 rad of a coordinate axis: sqrt(1 - a*a) ~ angle, far above the tolerance
    for kind in ("cylinder", "cone", "disk", "capsule", "ellipse", "box", "mesh"):
        for _ in range(max(3, per // 3)):
            cases.append(dict(shape=sc.gen_shape(rng, kind, "near"), margin=None))
    # almost equal sizes (relative 1e-7 .. 1e-4)
    for kind in ("ellipsoid", "box", "cylinder", "capsule", "cone", "ellipse"):
        for _ in range(max(3, per // 2)):
            cases.append(dict(shape=sc.gen_shape(rng, kind, "degen"), margin=None))
    # poses orthonormal only up to 1 ulp (entries 1.0000000000000002): the radicand 1 - a*a hazard
    for kind in ("cylinder", "cone", "disk", "capsule", "ellipsoid", "box", "ellipse"):
        for _ in range(max(2, per // 4)):
            cases.append(dict(shape=sc.gen_shape(rng, kind, "composed"), margin=None))
    add_histories(rng, [c for c in cases if c["shape"].get("stream") in ("near", "degen", "composed")])
    for _ in range(12 if tier == "quick" else 60):
        cases.append(dict(shape=gen_rigid_body(rng, rng.choice(["random", "lattice"])), margin=None))
    # the two documented witnesses, always present
    c = sc._C
    cases.append(dict(shape=dict(kind="ellipsoid", stream="witness", R=[[c, -c, 0.0], [c, c, 0.0], [0.0, 0.0, 1.0]],
                                 t=[0.0, 0.0, 0.0], radii=[1.0, 2.0, 1.0]), margin=None))
    cases.append(dict(shape=dict(kind="rigid_body", maker="box", stream="witness",
                                 R=[[1.0, 0.0, 0.0], [0.0, 1.0, 0.0], [0.0, 0.0, 1.0]], t=[10.0, 0.0, 0.0],
                                 size=[1.0, 2.0, 3.0]), margin=None))
    rng.shuffle(cases)
    return cases


# ---------------------------------------------------------------- oracle
def exact_bounds(sh, margin, r):
    """per axis: ((min_lo, min_hi), (max_lo, max_hi)) rational enclosures of the true extrema"""
    out = []
    if sh["kind"] == "rigid_body":
        M, c = sc.Fm(sh["R"]), sc.Fv(sh["t"])
        used = sorted({i for t in r["tetrahedra"] for i in t})
        ws = [sc.qadd(sc.qmatvec(M, sc.Fv(r["vertices"][i])), c) for i in used]
        for k in range(3):
            lo, hi = min(w[k] for w in ws), max(w[k] for w in ws)
            out.append(((lo, lo), (hi, hi)))
        return out
    for k in range(3):
        e = [0.0, 0.0, 0.0]
        e[k] = 1.0
        ne = [0.0, 0.0, 0.0]
        ne[k] = -1.0
        hlo, hhi = sc.support_value_bounds(sh, e, margin or 0.0)
        nlo, nhi = sc.support_value_bounds(sh, ne, margin or 0.0)
        out.append(((-nhi, -nlo), (hlo, hhi)))
    return out


def rigid_body_L(sh, r):
    m = max(abs(x) for v in r["vertices"] for x in v)
    return max(1.0, 2 * m, sc.normf(sh["t"]))


def judge_box(sh, margin, box, r, L, what):
    tau = Fr(1e-9) * Fr(L)
    fails = []
    if len(box) != 2 or not sc.finite(box[0]) or not sc.finite(box[1]):
        return [f"{what}: non-finite bounds {box}"]
    ex = exact_bounds(sh, margin, r)
    for k in range(3):
        (mn_lo, mn_hi), (mx_lo, mx_hi) = ex[k]
        lo, hi = Fr(box[0][k]), Fr(box[1][k])
        ax = "xyz"[k]
        if hi < mx_lo - tau:
            fails.append(f"{what}: not enclosing on +{ax}: hi = {box[1][k]!r} but the shape reaches {float(mx_lo):.17g} (short by {float(mx_lo - hi):.3e})")
        elif hi > mx_hi + tau:
            fails.append(f"{what}: not tight on +{ax}: hi = {box[1][k]!r}, maximum of the shape {float(mx_hi):.17g} (slack {float(hi - mx_hi):.3e})")
        if lo > mn_hi + tau:
            fails.append(f"{what}: not enclosing on -{ax}: lo = {box[0][k]!r} but the shape reaches {float(mn_hi):.17g} (short by {float(lo - mn_hi):.3e})")
        elif lo < mn_lo - tau:
            fails.append(f"{what}: not tight on -{ax}: lo = {box[0][k]!r}, minimum of the shape {float(mn_lo):.17g} (slack {float(mn_lo - lo):.3e})")
    return fails


def judge_case(case, r):
    """-> list of (site, failure text)"""
    sh = case["shape"]
    if "exc" in r:
        return [("aabb", f"raised {r['exc']}: {r.get('exc_msg', '')}")]
    out = []
    if sh["kind"] == "rigid_body":
        L = rigid_body_L(sh, r)
        return [("RigidBody.aabb", f) for f in judge_box(sh, None, r["aabb"], r, L, "RigidBody.aabb()")]
    L = sc.shape_L(sh, case["margin"] or 0.0)
    site = f"{sh['kind']}_aabb"
    out += [(site + ".state", m) for m in (r.get("modified") or [])]
    ip = r.get("inplace")
    if isinstance(ip, dict) and ip.get("same") is False:
        out.append((site + ".state", f"containment.{site}: after overwriting the argument arrays IN PLACE with another {sh['kind']} (shape2 of the "
                                     f"replay) the same array objects give {ip['got']}, fresh arrays with the same values give {ip['want']}"))
    name = f"{sh['kind'].capitalize()}.aabb()" if case["margin"] is None else f"Margin({sh['kind'].capitalize()}).aabb()"
    hist = case.get("history")
    if hist is not None:
        how = ("the pose array handed to the constructor" if hist["ctor_array"] else "the array of the first update_pose") + \
              (" (matrix 1 of a (3,4,4) stack)" if hist.get("stack") else "")
        ctx = (f"[history: constructed at another pose, aabb(), then {len(hist['mids']) + 1} update_pose call(s) each followed by aabb(); "
               f"{how} is overwritten in place and passed to update_pose again] ")
        for si, (shs, ob) in enumerate(zip(sc.history_stage_shapes(sh, hist), r.get("stages") or [])):
            where = "after construction" if si == 0 else f"after update_pose #{si} of the history"
            out += [(f"{site}@stage{si}", f) for f in judge_box(shs, case["margin"], ob["aabb"], r, sc.shape_L(shs, case["margin"] or 0.0),
                                                                f"{name} {where}")]
            if not ob.get("again_same", True):
                out.append((site + ".state", f"{name} {where}: a second aabb() call returns another box"))
    out += [(site, f) for f in judge_box(sh, case["margin"], r["aabb"], r, L, name)]
    if hist is not None and out:
        out[0] = (out[0][0], ctx + out[0][1])
    if "free" in r:
        out += [(site, f) for f in judge_box(sh, None, r["free"], r, sc.shape_L(sh), f"containment.{site if sh['kind'] != 'hull' else 'axis_aligned_bounding_box'}")]
    return out


def known_id(case, site):
    """the input-class predicate of the two known findings"""
    sh = case["shape"]
    site, _, stage = site.partition("@stage")
    if stage != "":                  # an observation at an intermediate pose of a history: the class is that of THAT pose
        sh = sc.history_stage_shapes(sh, case["history"])[int(stage)]
    if site == "ellipsoid_aabb" and sh["kind"] == "ellipsoid" and not sc.is_signed_permutation(sh["R"]):
        return "F9"
    if site == "RigidBody.aabb" and sh["kind"] == "rigid_body" and not sc.is_identity_pose(sh["R"], sh["t"]):
        return "RB-AABB"
    return None


# ---------------------------------------------------------------- Coq-proven certificates
def cert_job(case, r):
    """(labels, (definitions, expression : list bool)): aabb_cert of Checker/ShapesCert.v for the collider's
    box (with its margin) and for the free function's box"""
    from .. import narrow
    sh = case["shape"]
    if sh["kind"] == "rigid_body" or "aabb" not in r:
        return [], None
    if sh["kind"] in ("hull", "mesh") and len(sh["vs"]) > 40:
        return [], None
    labels, items, defs = [], [], []
    m = case["margin"]
    for name, box, mm, var in (("aabb", r["aabb"], m, "shS"), ("free", r.get("free"), None, "shB")):
        if box is None or not (sc.finite(box[0]) and sc.finite(box[1])):
            continue
        if name == "free" and m is None:
            continue                       # identical to aabb() (compared bitwise in the correspondence)
        spec = sc.to_spec(sh, mm)
        tau = narrow._q(Fr(1e-9) * Fr(sc.shape_L(sh, mm or 0.0)))
        ws = []
        for k in range(3):
            for sg in (-1.0, 1.0):
                e = [0.0, 0.0, 0.0]
                e[k] = sg
                ws.append(narrow.wit_expr(spec, narrow.support_point(spec, e)))
        defs.append((var, narrow.sh_expr(spec)))
        labels.append(name)
        items.append(f"aabb_cert {var} ({', '.join(ws)}) {narrow.vq(box[0])} {narrow.vq(box[1])} {tau}")
    if not labels:
        return [], None
    return labels, (defs, f"[{'; '.join(items)}]")


def line_coverage(hits, scope):
    from ..impl import shapes_trace as st
    import os
    base = cm.REPO / "distance3d"
    by_path = {}
    for f, v in hits.items():
        for rel in scope:
            if rel.split("/")[-1] == f:
                by_path[os.path.realpath(str(base / rel))] = sorted(v)
    return st.summarize(by_path, {str(base / f): names for f, names in scope.items()})


# ---------------------------------------------------------------- model side
def coq_case_expr(case, r):
    sh = case["shape"]
    if sh["kind"] == "rigid_body":
        vs = sc.clist(sc.cv(v) for v in r["vertices"])
        ts = sc.clist("(" + ", ".join(sc.cnat(i) for i in t) + ")" for t in r["tetrahedra"])
        return f"oboxl (rigid_body_aabb {sc.cpose(sh['R'], sh['t'])} {vs} {ts})"
    e = sc.coq_aabb_expr(sh)
    if case["margin"] is None:
        return e
    head, rest = e.split(" ", 1)
    if head == "boxl":
        return f"boxl (margin_aabb {rest} {cm.fhex(case['margin'])})"
    return f"oboxl (match {rest} with Some b => Some (margin_aabb b {cm.fhex(case['margin'])}) | None => None end)"


def tetra_box_diffs(r):
    """RigidBody.aabbs (the leaves of the tree): each must be exactly the min / max over the four
    stored vertices of its tetrahedron (no rounding is involved)"""
    diffs = []
    if "tetra_aabbs" not in r:
        return diffs
    V = r["vertices"]
    if len(r["tetra_aabbs"]) != len(r["tetrahedra"]):
        return [f"RigidBody.aabbs has {len(r['tetra_aabbs'])} boxes for {len(r['tetrahedra'])} tetrahedra"]
    for t, (lo, hi) in zip(r["tetrahedra"], r["tetra_aabbs"]):
        pts = [V[i] for i in t]
        want_lo = [min(p[k] for p in pts) for k in range(3)]
        want_hi = [max(p[k] for p in pts) for k in range(3)]
        if lo != want_lo or hi != want_hi:
            diffs.append(f"RigidBody.aabbs: tetrahedron {t}: box ({lo}, {hi}) but the vertices span ({want_lo}, {want_hi})")
            break
    return diffs


def compare_case(case, r, m):
    sh = case["shape"]
    if sh["kind"] == "rigid_body":
        pre = tetra_box_diffs(r)
        if pre:
            return pre
    L = rigid_body_L(sh, r) if sh["kind"] == "rigid_body" else sc.shape_L(sh, case["margin"] or 0.0)
    tol = 1e-9 * L
    impl = list(r["aabb"][0]) + list(r["aabb"][1])
    if len(m) != 6:
        return [f"model returned no box ({m})"]
    diffs = []
    for i, (a, b) in enumerate(zip(m, impl)):
        fa, fb = sc.finite([a]), sc.finite([b])
        if not fa and not fb:
            continue
        if fa != fb or abs(a - b) > tol:
            diffs.append(f"bound {['lo', 'hi'][i // 3]}_{'xyz'[i % 3]}: model {a!r} vs implementation {b!r}")
    if "free" in r and case["margin"] is None:
        fr = list(r["free"][0]) + list(r["free"][1])
        if [repr(x) for x in fr] != [repr(x) for x in impl]:
            diffs.append(f"collider.aabb() {impl} differs from the containment free function {fr}")
    return diffs


# ---------------------------------------------------------------- running
def run_impl_cases(cases, tag, hits=None):
    nw = min(cm.NCPU, max(1, len(cases) // 25))
    chunks = [cases[i::nw] for i in range(nw)]
    res = cm.run_impl_parallel(PID, "c04", [dict(cases=c) for c in chunks], timeout=900, tag=tag)
    out = [None] * len(cases)
    for w, (rr, ch) in enumerate(zip(res, chunks)):
        idxs = list(range(w, len(cases), nw))
        if rr["status"] == "ok":
            if hits is not None:
                for f, lines in (rr["result"].get("line_hits") or {}).items():
                    hits.setdefault(f, set()).update(lines)
            for i, x in zip(idxs, rr["result"]["results"]):
                out[i] = x
        else:
            singles = cm.run_impl_parallel(PID, "c04", [dict(cases=[c]) for c in ch], timeout=120, tag=tag + "_iso")
            for i, s in zip(idxs, singles):
                if s["status"] == "ok":
                    out[i] = s["result"]["results"][0]
                else:
                    out[i] = dict(exc=f"PROCESS-{s['status'].upper()}", exc_msg=f"rc={s.get('rc')} {s.get('log', '')[-300:]}")
    return out


def run(tier, seed, replay=None):
    R = cm.Run(PID, "proof", tier, seed)
    known = load_known()
    R.cov["rule"] = ("case = one collider (10 kinds x streams random general position / lattice poses [24 axis permutations x "
                     "optional exact 45-degree factor, sizes and offsets from {1/4,1/2,1,2,4}] / 'composed' poses orthonormal "
                     "only up to 1 ulp / 'near' poses = an axis permutation turned by 1e-3..1e-8 rad; 25% wrapped in Margin) -> collider.aabb() and the containment free function; plus "
                     "RigidBody.make_{box,cube,sphere,ellipsoid} at identity / translated / rotated / general poses -> "
                     "RigidBody.aabb(), for 60% observed a second time after express_in(identity or another pose) [cache "
                     "invalidation]; pose histories [40-70% of the collider cases of the nine kinds with update_pose: constructed at another pose, aabb(), then 1-4 update_pose "
                     "calls each followed by aabb() (twice), all poses carried by ONE array object overwritten in place between the calls (the constructor's own array "
                     "or the array of the first update, optionally a matrix of a (3,4,4) stack); every stage's box is judged against the pose of that stage, the final box "
                     "also by the certificate and the model]; streams also include 'exact' (axis permutations only); the two documented witnesses are always included. distinct_nontrivial counts distinct "
                     "case hashes whose box was judged (finite answer) and has non-zero extent on every axis or belongs to a flat shape")
    R.assumptions += [
        "theorems are about the Gallina model Model/Aabb.v instantiated at exact real arithmetic; the tie to /repo is the correspondence check run here (binary64 instance of the same model vs implementation, six bounds at 1e-9*L)",
        "per-input verdict: the gate is an independent exact Python oracle (fractions.Fraction, integer-square-root bounds at 2^-160): exact support values along +-e_k of c + M.K under the exact float pose; polytopes and rigid bodies: exact extrema over the vertices (rigid bodies: vertices_ mapped by body2origin_); every collider box is ALSO submitted to the Coq-proven checker aabb_cert (Checker/ShapesCert.v: enclosure on six sides by proven upper bounds of the support value, tightness by six untrusted witness points) evaluated by vm_compute; coverage.certificates counts the verdicts that are thereby consequences of aabb_cert_sound (a rejected certificate with an accepting oracle is counted as inconclusive, never as a failure; rigid bodies and hulls of more than 40 vertices are not submitted)",
        "certificates speak about the shape expression of harness/narrow.py (axis vectors = binary64 products size*column, disk frame completed in floating point): a perturbation of the set below 1e-15*L",
        "coverage.impl_line_coverage: source lines of /repo's containment.py, the aabb() methods of colliders.py and RigidBody.aabb()/aabbs/aabb_tree/express_in executed by this run's inputs (sys.settrace in the workers)",
        "RigidBody.aabb() is modelled as the merge of the per-tetrahedron boxes; that the tree's root box equals this merge is the C05 theorem, and is re-checked here only through the correspondence",
        "IEEE rounding is not modelled by the theorems; its effect is only measured here against 1e-9*L",
        "pose histories: C04 is read as a statement about the collider in ANY state reachable through its public methods: after update_pose(P) the box must enclose (tightly) the shape at pose P, whichever array object carried P and whatever was asked before; observations after an in-place edit WITHOUT a following update_pose are not judged (no property text promises them)",
        "harness/compat.py import shim; numpy/numba/CPython/BLAS",
    ]
    sc.check_proofs_retry(R, PROOF_FILES, build_targets=["theories/Props/C04.vo", "theories/Model/ShapesRun.vo",
                                               "theories/Checker/ShapesCert.vo"])

    cases = []
    corpus = cm.VERIF / "corpus" / PID
    if replay:
        cases.append(json.loads(open(replay).read())["case"])
    else:
        if corpus.exists():
            for f in sorted(corpus.glob("*.json")):
                cases.append(json.loads(f.read_text())["case"])
        cases += gen_cases(R.rng, tier)

    hits = {}
    results = run_impl_cases(cases, "impl", hits)
    # a rigid body observed again after express_in(new frame) is a second case: same tetrahedra, the new
    # stored vertices and the new body2origin_
    n_hist = 0
    for c, r in list(zip(cases, results)):
        if c["shape"]["kind"] == "rigid_body" and isinstance(r.get("after"), dict):
            a = r["after"]
            T = a["body2origin"]
            sh2 = dict(c["shape"], R=[row[:3] for row in T[:3]], t=[row[3] for row in T[:3]], derived="after_express_in")
            sh2.pop("express_in", None)
            cases.append(dict(shape=sh2, margin=None))
            results.append(dict(aabb=a["aabb"], vertices=a["vertices"], tetrahedra=r["tetrahedra"]))
            n_hist += 1
    R.cov["rigid_body_histories"] = n_hist
    bad = []
    known_counts = {}
    unbuilt = 0
    n_eval = 0
    fails_by_case = {}
    for ci, (c, r) in enumerate(zip(cases, results)):
        if "build_exc" in r:
            if c["shape"]["kind"] == "rigid_body":
                bad.append((c, [("RigidBody.aabb", f"raised {r['build_exc']}: {r.get('build_msg', '')}")]))
            else:
                unbuilt += 1
            continue
        n_eval += 2 if "free" in r else 1
        fs = judge_case(c, r)
        fails_by_case[ci] = fs
        unknown = []
        for site, f in fs:
            kid = known_id(c, site)
            if kid is not None and kid in known:
                known_counts[kid] = known_counts.get(kid, 0) + 1
                R.known_finding(kid, known[kid]["what"])
            elif kid is not None:
                unknown.append((site, f + f" [matches finding {kid}, which is not registered in known_findings*.json]"))
            else:
                unknown.append((site, f))
        if unknown:
            bad.append((c, unknown))
    R.cov["evaluations"] = n_eval
    R.cov["cases"] = len(cases)
    R.cov["cases_not_constructible"] = unbuilt
    R.cov["known_finding_failures"] = known_counts

    # Coq-proven certificates on the implementation's boxes
    jobs = []
    for ci, (c, r) in enumerate(zip(cases, results)):
        if "build_exc" in r or "exc" in r:
            continue
        try:
            labels, e = cert_job(c, r)
            if labels:
                jobs.append((ci, labels, e))
        except Exception as e:  # witness construction is untrusted and may fail
            R.notes.append(dict(certificate_construction_failed=f"{type(e).__name__}: {str(e)[:200]}", case_hash=cm.canon_hash(c)))
    cert = dict(submitted=sum(len(l) for _, l, _ in jobs), accepted=0, rejected_but_oracle_accepts=0,
                rejected_and_oracle_rejects=0)
    try:
        outs = sc.coq_eval_blocks(PID, sc.CERT_HEADER, [e for _, _, e in jobs], tag="cert",
                                  per_file=max(2, len(jobs) // cm.NCPU + 1), timeout=1500)
        rej = {}
        for (ci, labels, _), o in zip(jobs, outs):
            verdicts = [x.strip() == "true" for x in o.strip().strip("[]").split(";")]
            if len(verdicts) != len(labels):
                raise RuntimeError(f"unexpected checker output {o[:200]}")
            for ok in verdicts:
                if ok:
                    cert["accepted"] += 1
                elif fails_by_case.get(ci):
                    cert["rejected_and_oracle_rejects"] += 1
                else:
                    cert["rejected_but_oracle_accepts"] += 1
                    k = cases[ci]["shape"]["kind"]
                    rej[k] = rej.get(k, 0) + 1
        if rej:
            cert["inconclusive_by_kind"] = rej
    except RuntimeError as e:
        R.notes.append(dict(certificate_evaluation_failed=str(e)[:500]))
    cert["theorem"] = "Checker/ShapesCert.v aabb_cert_sound"
    R.cov["certificates"] = cert
    cov = line_coverage(hits, TRACE_SCOPE)
    R.cov["impl_line_coverage"] = dict(
        executable=sum(v["executable"] for v in cov.values()), hit=sum(v["hit"] for v in cov.values()),
        functions=len(cov), missed={k: v["missed"] for k, v in cov.items() if v["missed"]})

    exprs, idx = [], []
    for i, (c, r) in enumerate(zip(cases, results)):
        if "build_exc" in r or "exc" in r:
            continue
        exprs.append(coq_case_expr(c, r))
        idx.append(i)
    ndiff = 0
    nan_model = 0
    try:
        outs = sc.coq_eval_lines_retry(PID, sc.HEADER, exprs, per_file=max(4, len(exprs) // (cm.NCPU * 2) + 1))
        for i, o in zip(idx, outs):
            m = sc.parse_coq_value(o)
            if not sc.finite(m):
                nan_model += 1
            d = compare_case(cases[i], results[i], m)
            if d:
                ndiff += 1
                if len(R.corr_broken) < 5:
                    R.corr_broken.append(f"Aabb model vs implementation ({cases[i]['shape']['kind']}): {d[0]}")
                R.notes.append(dict(correspondence_diff=d[:3], case_hash=cm.canon_hash(cases[i])))
    except RuntimeError as e:
        R.corr_broken.append(f"model evaluation failed: {str(e)[:500]}")
    R.cov["traces_validated_against_impl"] = len(idx) - ndiff
    R.cov["correspondence_disagreements"] = ndiff
    R.cov["model_runs_with_nan_bound"] = nan_model

    distinct = set()
    hist = {}
    for c, r in zip(cases, results):
        sh = c["shape"]
        key = (sh["kind"] + ("/" + sh["maker"] if sh["kind"] == "rigid_body" else "")
               + ("+margin" if c["margin"] is not None else "") + "/" + sh.get("stream", "?"))
        hist[key] = hist.get(key, 0) + 1
        if "aabb" in r and sc.finite(r["aabb"][0] + r["aabb"][1]):
            ext = [r["aabb"][1][k] - r["aabb"][0][k] for k in range(3)]
            if all(e > 0 for e in ext) or sh["kind"] in ("disk", "ellipse", "hull"):
                distinct.add(cm.canon_hash(c))
    R.cov["distinct_nontrivial"] = len(distinct)
    hh = {}
    for c, r in zip(cases, results):
        if c.get("history") is not None and "stages" in r:
            key = c["shape"]["kind"] + ("/ctor_array" if c["history"]["ctor_array"] else "/update_array") + ("/stack" if c["history"].get("stack") else "")
            hh[key] = hh.get(key, 0) + 1
    R.cov["input_histogram"] = dict(cases_by_kind_stream=hist, pose_histories=hh)
    R.cov["pose_history_cases"] = sum(hh.values())
    for c, r in list(zip(cases, results))[:3]:
        if "aabb" in r:
            R.sample(dict(shape={k: v for k, v in c["shape"].items()}, margin=c["margin"], aabb=r["aabb"]))
    for c, fs in bad[:5]:
        R.failure("; ".join(f for _, f in fs[:3]), c, site=fs[0][0])
    if (R.proof_broken or R.corr_broken) and not bad and not replay:
        extra = gen_cases(R.rng, "thorough")
        res2 = run_impl_cases(extra, "search")
        R.cov["search_evaluations"] = len(extra)
        for c, r in zip(extra, res2):
            if "build_exc" in r:
                continue
            fs = [(s, f) for s, f in judge_case(c, r) if known_id(c, s) is None]
            if fs:
                R.failure("; ".join(f for _, f in fs[:3]), c, site=fs[0][0])
                break
    return R.finish()
