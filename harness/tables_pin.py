"""Whole-body pinning for the fail-closed source readers (tables_c14.py, tables_c17.py).

A reader extracts *data* (literal tables, flags) from /repo's sources; the Coq model hard-codes
everything else.  `pin` ties "everything else" to the model: the function / class is normalised

  * docstrings, other constant-expression statements and `pass` are dropped (they do nothing;
    comments and blank lines never reach the ast),
  * every node the reader has consumed as data is replaced by the placeholder `__TABLE__`
    (consecutive placeholder statements collapse into one),
  * nodes listed in `unwrap` are replaced by their single child given there (used for the
    optional `np.ascontiguousarray(...)` wrappers whose presence is itself extracted as a flag),

and the result must be equal (ast.dump without positions / ctx) to the normalised REFERENCE text
kept in the reader next to the name of the model definition that transliterates it.  Any
difference raises TablesError naming the function, with a short unified diff.
"""
import ast
import difflib

from .tables import TablesError

HOLE = "__TABLE__"


def _is_noop_stmt(s):
    return isinstance(s, ast.Pass) or (isinstance(s, ast.Expr) and isinstance(s.value, ast.Constant))


def _is_hole_stmt(s):
    return isinstance(s, ast.Expr) and isinstance(s.value, ast.Name) and s.value.id == HOLE


def normalise(node, holes=(), unwrap=None):
    """-> a fresh, position-free copy of `node` (see module docstring)."""
    hole_ids = {id(h) for h in holes}
    unwrap = {id(k): v for k, v in (unwrap or [])}

    def go(n):
        if isinstance(n, list):
            out = []
            for x in n:
                if isinstance(x, ast.stmt):
                    if id(x) not in hole_ids and _is_noop_stmt(x):
                        continue
                    y = go(x)
                    if _is_hole_stmt(y) and out and _is_hole_stmt(out[-1]):
                        continue
                    out.append(y)
                else:
                    out.append(go(x))
            return out
        if not isinstance(n, ast.AST):
            return n
        if id(n) in hole_ids:
            nm = ast.Name(id=HOLE, ctx=ast.Load())
            return ast.Expr(value=nm) if isinstance(n, ast.stmt) else nm
        if id(n) in unwrap:
            return go(unwrap[id(n)])
        new = type(n)()
        for f, v in ast.iter_fields(n):
            v2 = go(v)
            if f == "body" and isinstance(v, list) and not v2 and not isinstance(n, ast.Module):
                v2 = [ast.Pass()]
            setattr(new, f, v2)
        return new

    return go(node)


def dump(n):
    s = ast.dump(n, annotate_fields=True, include_attributes=False)
    return s.replace(", ctx=Store()", "").replace(", ctx=Load()", "").replace(", ctx=Del()", "") \
            .replace("ctx=Store()", "").replace("ctx=Load()", "").replace("ctx=Del()", "")


def text(n):
    try:
        return ast.unparse(ast.fix_missing_locations(n))
    except Exception as e:  # noqa: BLE001  (never let the error message mask the error)
        return f"<cannot print: {e}>"


def parse_reference(src):
    """Reference text -> {name: normalised FunctionDef / ClassDef}; other statements under their text."""
    out = {}
    for st in ast.parse(src).body:
        key = st.name if isinstance(st, (ast.FunctionDef, ast.ClassDef)) else text(st)
        if key in out:
            raise TablesError(f"reference text defines {key} twice")
        out[key] = normalise(st)
    return out


def pin(node, ref_node, what, model, holes=(), unwrap=None):
    """Raise TablesError unless normalise(node) equals the (already normalised) reference."""
    got = normalise(node, holes, unwrap)
    if dump(got) == dump(ref_node):
        return
    a, b = text(ref_node).splitlines(), text(got).splitlines()
    diff = [ln for ln in difflib.unified_diff(a, b, "modelled", "source", n=0, lineterm="")][2:]
    shown = "\n".join(diff[:14]) if diff else "(same text, different syntax tree)\n" + dump(got)[:300]
    raise TablesError(f"{what}: the source differs from the code the model transliterates (outside the tables that are "
                      f"re-read as data):\n{shown}\n[model: {model}]")


def top_level_bindings(tree):
    """name -> number of statements OUTSIDE function / class bodies that (re)bind it."""
    count = {}

    def bind(nm):
        count[nm] = count.get(nm, 0) + 1

    def targets(t):
        for m in ast.walk(t):
            if isinstance(m, ast.Name):
                bind(m.id)

    def walk(stmts):
        for s in stmts:
            if isinstance(s, (ast.FunctionDef, ast.AsyncFunctionDef, ast.ClassDef)):
                bind(s.name)
                continue
            if isinstance(s, (ast.Import, ast.ImportFrom)):
                for a in s.names:
                    bind("*" if a.name == "*" else (a.asname or a.name.split(".")[0]))
                continue
            if isinstance(s, ast.Assign):
                for t in s.targets:
                    targets(t)
            elif isinstance(s, (ast.AugAssign, ast.AnnAssign)):
                targets(s.target)
            elif isinstance(s, ast.Delete):
                for t in s.targets:
                    targets(t)
            elif isinstance(s, (ast.For, ast.AsyncFor)):
                targets(s.target)
            elif isinstance(s, (ast.With, ast.AsyncWith)):
                for it in s.items:
                    if it.optional_vars is not None:
                        targets(it.optional_vars)
            for n in ast.walk(s):       # walrus / global tricks anywhere in a module-level statement
                if isinstance(n, ast.NamedExpr):
                    targets(n.target)
            for f in ("body", "orelse", "finalbody"):
                sub = getattr(s, f, None)
                if isinstance(sub, list) and sub and isinstance(sub[0], ast.stmt):
                    walk(sub)
            for h in getattr(s, "handlers", []) or []:
                if h.name:
                    bind(h.name)
                walk(h.body)
            for c in getattr(s, "cases", []) or []:
                walk(c.body)
    walk(tree.body)
    return count


def closed(fn):
    """Decorator: whatever goes wrong inside a reader is a TablesError (fail closed, never a crash)."""
    def wrapper(*a, **k):
        try:
            return fn(*a, **k)
        except TablesError:
            raise
        except (SyntaxError, OSError):
            raise
        except Exception as e:  # noqa: BLE001
            raise TablesError(f"{fn.__name__}: source has a shape the reader does not understand "
                              f"({type(e).__name__}: {e})") from e
    wrapper.__name__ = fn.__name__
    wrapper.__doc__ = fn.__doc__
    return wrapper
