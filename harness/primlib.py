"""Primitives of distance3d.distance for the C10 / C11 checks: generators (domain P),
argument layout, exact (fractions) geometry used by the Python-side oracles and for
building the untrusted witnesses handed to the Coq checkers (Checker/Prim.v).

A primitive is a JSON-able dict {"kind": ..., fields...}; every number is a float and is
read EXACTLY (float -> Fraction) by the oracles.

Sets (identical to Spec/Prims.v; poses are used as given, no orthonormality is assumed):
  point {p}; line {p + t d}; line_segment {s + t (e - s), 0<=t<=1}; plane {x | (x-p).n = 0}
  triangle {a + v (b-a) + w (c-a), v,w>=0, v+w<=1}
  rectangle {c + k0 a0 + k1 a1, |ki| <= li/2};   box {c + M k, |ki| <= size_i/2}
  disk {x | (x-c).n = 0, |x-c|^2 <= r^2};  circle {x | (x-c).n = 0, |x-c|^2 = r^2}
  cylinder {c + a X + b Y + h Z | a^2+b^2 <= r^2, |h| <= l/2}  (X, Y, Z columns of the pose)
  ellipsoid {c + M diag(radii) k | |k|^2 <= 1}   (solid: distance_to_surface=False)
"""
import math
from fractions import Fraction as Fr

KINDS = ["point", "line", "line_segment", "plane", "triangle", "rectangle", "circle",
         "disk", "box", "ellipsoid", "cylinder"]
CONVEX = set(KINDS) - {"circle"}
UNBOUNDED = {"line", "plane"}

FUNCS = [
    "point_to_line", "point_to_line_segment", "point_to_plane", "point_to_triangle",
    "point_to_rectangle", "point_to_disk", "point_to_circle", "point_to_box",
    "point_to_ellipsoid", "point_to_cylinder", "line_to_line", "line_to_line_segment",
    "line_to_plane", "line_to_triangle", "line_to_rectangle", "line_to_circle", "line_to_box",
    "line_segment_to_line_segment", "line_segment_to_plane", "line_segment_to_triangle",
    "line_segment_to_rectangle", "line_segment_to_circle", "line_segment_to_box",
    "plane_to_plane", "plane_to_triangle", "plane_to_rectangle", "plane_to_box",
    "plane_to_ellipsoid", "plane_to_cylinder", "triangle_to_triangle", "triangle_to_rectangle",
    "rectangle_to_rectangle", "rectangle_to_box", "disk_to_disk",
]


def kinds_of(fn):
    a, b = fn.split("_to_")
    return a, b


# ----------------------------------------------------------------------------- vectors
def fv(v):
    return tuple(Fr(float(x)) for x in v)


def vadd(a, b): return tuple(x + y for x, y in zip(a, b))
def vsub(a, b): return tuple(x - y for x, y in zip(a, b))
def vscale(s, a): return tuple(s * x for x in a)
def dot(a, b): return sum(x * y for x, y in zip(a, b))
def cross(a, b):
    return (a[1] * b[2] - a[2] * b[1], a[2] * b[0] - a[0] * b[2], a[0] * b[1] - a[1] * b[0])
def n2(a): return dot(a, a)
def fl(a): return tuple(float(x) for x in a)
def fnorm(a): return math.sqrt(float(n2(a)))


def sqrt_up(q, bits=80):
    """rational upper bound of sqrt(q), relative excess < 2^-bits-ish"""
    q = Fr(q)
    if q <= 0:
        return Fr(0)
    a, b = q.numerator, q.denominator
    k = max(0, bits - (a.bit_length() - b.bit_length()) // 2 + 2)
    s = math.isqrt((a * b) << (2 * k)) + 1
    return Fr(s, b << k)


def sqrt_lo(q, bits=80):
    q = Fr(q)
    if q <= 0:
        return Fr(0)
    a, b = q.numerator, q.denominator
    k = max(0, bits - (a.bit_length() - b.bit_length()) // 2 + 2)
    s = math.isqrt((a * b) << (2 * k))
    return Fr(s, b << k)


def clampf(x, lo, hi):
    return lo if x < lo else hi if x > hi else x


def cols(pose):
    """columns X, Y, Z of the rotation block and translation c of a 4x4 pose (exact)"""
    P = [[Fr(float(x)) for x in row] for row in pose]
    X = (P[0][0], P[1][0], P[2][0])
    Y = (P[0][1], P[1][1], P[2][1])
    Z = (P[0][2], P[1][2], P[2][2])
    c = (P[0][3], P[1][3], P[2][3])
    return X, Y, Z, c


# ----------------------------------------------------------------------------- layout
def prim_args(p):
    k = p["kind"]
    if k == "point":
        return [p["p"]]
    if k == "line":
        return [p["p"], p["d"]]
    if k == "line_segment":
        return [p["s"], p["e"]]
    if k == "plane":
        return [p["p"], p["n"]]
    if k == "triangle":
        return [p["pts"]]
    if k == "rectangle":
        return [p["c"], p["axes"], p["lengths"]]
    if k in ("circle", "disk"):
        return [p["c"], p["r"], p["n"]]
    if k == "box":
        return [p["pose"], p["size"]]
    if k == "ellipsoid":
        return [p["pose"], p["radii"]]
    if k == "cylinder":
        return [p["pose"], p["r"], p["l"]]
    raise KeyError(k)


def centre(p):
    k = p["kind"]
    if k in ("point", "line", "plane"):
        return fl(p["p"])
    if k == "line_segment":
        return tuple(0.5 * (a + b) for a, b in zip(p["s"], p["e"]))
    if k == "triangle":
        return tuple(sum(p["pts"][i][j] for i in range(3)) / 3.0 for j in range(3))
    if k in ("rectangle", "circle", "disk"):
        return fl(p["c"])
    return (p["pose"][0][3], p["pose"][1][3], p["pose"][2][3])


def feature_sizes(p):
    k = p["kind"]
    if k == "line_segment":
        return [math.dist(p["s"], p["e"])]
    if k == "triangle":
        t = p["pts"]
        return [math.dist(t[0], t[1]), math.dist(t[1], t[2]), math.dist(t[2], t[0])]
    if k == "rectangle":
        return list(p["lengths"])
    if k in ("circle", "disk"):
        return [p["r"]]
    if k == "box":
        return list(p["size"])
    if k == "ellipsoid":
        return list(p["radii"])
    if k == "cylinder":
        return [p["r"], p["l"]]
    return []


def scale_L(A, B):
    """L = max(1, largest feature size, centre distance)"""
    return max([1.0, math.dist(centre(A), centre(B))] + feature_sizes(A) + feature_sizes(B))


# ----------------------------------------------------------------------------- rotations
def _perm_rotations():
    import itertools
    out = []
    for perm in itertools.permutations(range(3)):
        for signs in itertools.product([1.0, -1.0], repeat=3):
            m = [[0.0] * 3 for _ in range(3)]
            for i in range(3):
                m[i][perm[i]] = signs[i]
            det = (m[0][0] * (m[1][1] * m[2][2] - m[1][2] * m[2][1])
                   - m[0][1] * (m[1][0] * m[2][2] - m[1][2] * m[2][0])
                   + m[0][2] * (m[1][0] * m[2][1] - m[1][1] * m[2][0]))
            if det > 0:
                out.append(m)
    return out


PERM_ROT = _perm_rotations()
S = math.sqrt(0.5)
ROT45 = [
    [[1.0, 0.0, 0.0], [0.0, S, -S], [0.0, S, S]],
    [[S, 0.0, S], [0.0, 1.0, 0.0], [-S, 0.0, S]],
    [[S, -S, 0.0], [S, S, 0.0], [0.0, 0.0, 1.0]],
]
# 3-4-5 rotations: exactly orthonormal in binary64? (0.6, 0.8 are not exact but 0.36+0.64 rounds to 1)
ROT345 = [[0.6, -0.8, 0.0], [0.8, 0.6, 0.0], [0.0, 0.0, 1.0]]


def matmul(a, b):
    return [[sum(a[i][k] * b[k][j] for k in range(3)) for j in range(3)] for i in range(3)]


def matvec(m, v):
    return [sum(m[i][k] * v[k] for k in range(3)) for i in range(3)]


def lattice_rot(rng):
    m = rng.choice(PERM_ROT)
    u = rng.random()
    if u < 0.35:
        m = matmul(rng.choice(ROT45), m)     # one 45 degree turn about an axis
    elif u < 0.42:
        m = matmul(ROT345, m)
    return m


def random_rot(rng):
    while True:
        q = [rng.gauss(0, 1) for _ in range(4)]
        n = math.sqrt(sum(x * x for x in q))
        if n > 1e-3:
            break
    w, x, y, z = (c / n for c in q)
    return [[1 - 2 * (y * y + z * z), 2 * (x * y - z * w), 2 * (x * z + y * w)],
            [2 * (x * y + z * w), 1 - 2 * (x * x + z * z), 2 * (y * z - x * w)],
            [2 * (x * z - y * w), 2 * (y * z + x * w), 1 - 2 * (x * x + y * y)]]


def axis_angle(ax, ang):
    """rotation matrix (floats) about the unit axis ax by the angle ang (Rodrigues)"""
    c, si = math.cos(ang), math.sin(ang)
    x, y, z = ax
    return [[c + x * x * (1 - c), x * y * (1 - c) - z * si, x * z * (1 - c) + y * si],
            [y * x * (1 - c) + z * si, c + y * y * (1 - c), y * z * (1 - c) - x * si],
            [z * x * (1 - c) - y * si, z * y * (1 - c) + x * si, c + z * z * (1 - c)]]


def unit(v):
    n = math.sqrt(sum(x * x for x in v))
    return [x / n for x in v]


def colv(m, j):
    return [m[0][j], m[1][j], m[2][j]]


def pose_of(m, c):
    return [[m[0][0], m[0][1], m[0][2], c[0]], [m[1][0], m[1][1], m[1][2], c[1]],
            [m[2][0], m[2][1], m[2][2], c[2]], [0.0, 0.0, 0.0, 1.0]]


LAT_SIZES = [0.25, 0.5, 1.0, 2.0, 4.0]
LAT_OFFS = [0.0, 0.0, 0.25, -0.25, 0.5, -0.5, 1.0, -1.0, 2.0, -2.0, 4.0, -4.0]


def rand_size(rng):
    return 10 ** rng.uniform(math.log10(0.2), 2.0)


SIZE_MIN = 0.01


def tri_ok(t):
    e = [math.dist(t[0], t[1]), math.dist(t[1], t[2]), math.dist(t[2], t[0])]
    if min(e) < SIZE_MIN or max(e) > 100.0:
        return False
    ab = [t[1][i] - t[0][i] for i in range(3)]
    ac = [t[2][i] - t[0][i] for i in range(3)]
    cr = cross(ab, ac)
    area2 = math.sqrt(sum(x * x for x in cr))
    return area2 / max(e) >= 0.2 * min(1.0, max(e))          # not a sliver: smallest altitude >= 0.2 * min(1, longest edge)


def gen_prim(rng, kind, mode, c, m=None, size=None):
    """A well-formed primitive of the given kind with reference point c (list of 3 floats).
    mode 'lattice': orientation from the lattice rotations, sizes from LAT_SIZES;
    mode 'random' : uniform random rotation, log-uniform sizes in [0.2, 100]."""
    lat = mode == "lattice"
    if m is None:
        m = lattice_rot(rng) if lat else random_rot(rng)
    if mode == "small":
        sz = lambda: 10 ** rng.uniform(-2.0, math.log10(0.06)) * 1.0001
    elif mode == "aniso":
        sz = lambda: 10 ** rng.uniform(-2.0, 2.0) * 0.9999      # every size independently over the whole declared range
    elif lat:
        sz = lambda: rng.choice(LAT_SIZES)
    elif size:
        sz = lambda: min(100.0, max(0.2, size * 10 ** rng.uniform(-0.5, 0.5)))
    else:
        sz = lambda: rand_size(rng)
    c = [float(x) for x in c]
    if kind == "point":
        return dict(kind=kind, p=c)
    if kind == "line":
        return dict(kind=kind, p=c, d=colv(m, 0))
    if kind == "plane":
        return dict(kind=kind, p=c, n=colv(m, 2))
    if kind == "line_segment":
        h = 0.5 * sz()
        d = colv(m, 0)
        return dict(kind=kind, s=[c[i] - h * d[i] for i in range(3)], e=[c[i] + h * d[i] for i in range(3)])
    if kind == "triangle":
        for _ in range(200):
            if lat:
                loc = [[rng.choice([-2.0, -1.0, -0.5, 0.0, 0.5, 1.0, 2.0]) for _ in range(2)] + [0.0] for _ in range(3)]
                if rng.random() < 0.3:
                    for r in loc:
                        r[2] = rng.choice([-1.0, 0.0, 0.5, 1.0])
            else:
                s = sz()
                loc = [[rng.uniform(-1, 1) * s for _ in range(3)] for _ in range(3)]
            pts = [[c[i] + matvec(m, r)[i] for i in range(3)] for r in loc]
            if tri_ok(pts):
                return dict(kind=kind, pts=pts)
        pts = [[c[0], c[1], c[2]], [c[0] + 1.0, c[1], c[2]], [c[0], c[1] + 1.0, c[2]]]
        return dict(kind=kind, pts=pts)
    if kind == "rectangle":
        return dict(kind=kind, c=c, axes=[colv(m, 0), colv(m, 1)], lengths=[sz(), sz()])
    if kind in ("circle", "disk"):
        return dict(kind=kind, c=c, r=sz(), n=colv(m, 2))
    if kind == "box":
        return dict(kind=kind, pose=pose_of(m, c), size=[sz(), sz(), sz()])
    if kind == "ellipsoid":
        return dict(kind=kind, pose=pose_of(m, c), radii=[sz(), sz(), sz()])
    if kind == "cylinder":
        return dict(kind=kind, pose=pose_of(m, c), r=sz(), l=sz())
    raise KeyError(kind)


def sample_point_on(rng, p, special=True):
    """a (float) point of the primitive; with special=True biased to vertices/edges/centre"""
    k = p["kind"]
    ch = (lambda vals: rng.choice(vals)) if special else None
    u = (lambda lo, hi: ch([lo, hi, 0.5 * (lo + hi), lo, hi]) if special and rng.random() < 0.7 else rng.uniform(lo, hi))
    if k == "point":
        return list(p["p"])
    if k == "line":
        t = rng.choice([0.0, 1.0, -2.0, 0.5]) if special else rng.uniform(-5, 5)
        return [p["p"][i] + t * p["d"][i] for i in range(3)]
    if k == "line_segment":
        t = u(0.0, 1.0)
        return [p["s"][i] + t * (p["e"][i] - p["s"][i]) for i in range(3)]
    if k == "plane":
        n = p["n"]
        a = unit(cross(n, [1.0, 0.0, 0.0]) if abs(n[0]) < 0.9 else cross(n, [0.0, 1.0, 0.0]))
        b = cross(n, a)
        s, t = (rng.choice([0.0, 1.0, -2.0]), rng.choice([0.0, 0.5, 3.0])) if special else (rng.uniform(-5, 5), rng.uniform(-5, 5))
        return [p["p"][i] + s * a[i] + t * b[i] for i in range(3)]
    if k == "triangle":
        v = u(0.0, 1.0)
        w = u(0.0, 1.0 - v)
        t = p["pts"]
        return [t[0][i] + v * (t[1][i] - t[0][i]) + w * (t[2][i] - t[0][i]) for i in range(3)]
    if k == "rectangle":
        k0 = u(-0.5 * p["lengths"][0], 0.5 * p["lengths"][0])
        k1 = u(-0.5 * p["lengths"][1], 0.5 * p["lengths"][1])
        return [p["c"][i] + k0 * p["axes"][0][i] + k1 * p["axes"][1][i] for i in range(3)]
    if k in ("circle", "disk"):
        n = p["n"]
        a = unit(cross(n, [1.0, 0.0, 0.0]) if abs(n[0]) < 0.9 else cross(n, [0.0, 1.0, 0.0]))
        b = cross(n, a)
        th = rng.choice([0.0, 0.5 * math.pi, math.pi, 0.25 * math.pi]) if special else rng.uniform(0, 2 * math.pi)
        rr = p["r"] if k == "circle" else u(0.0, p["r"])
        return [p["c"][i] + rr * (math.cos(th) * a[i] + math.sin(th) * b[i]) for i in range(3)]
    if k in ("box", "ellipsoid", "cylinder"):
        M = [[p["pose"][i][j] for j in range(3)] for i in range(3)]
        c = [p["pose"][i][3] for i in range(3)]
        if k == "box":
            loc = [u(-0.5 * s, 0.5 * s) for s in p["size"]]
        elif k == "ellipsoid":
            d = unit([rng.gauss(0, 1) for _ in range(3)]) if not special else rng.choice(
                [[1.0, 0, 0], [0, 1.0, 0], [0, 0, -1.0], unit([1.0, 1.0, 0]), unit([1.0, 1.0, 1.0])])
            s = rng.choice([1.0, 1.0, 0.5, 0.0])
            loc = [s * d[i] * p["radii"][i] for i in range(3)]
        else:
            th = rng.choice([0.0, 0.5 * math.pi, math.pi, 0.25 * math.pi]) if special else rng.uniform(0, 2 * math.pi)
            rr = u(0.0, p["r"])
            loc = [rr * math.cos(th), rr * math.sin(th), u(-0.5 * p["l"], 0.5 * p["l"])]
        w = matvec(M, loc)
        return [c[i] + w[i] for i in range(3)]
    raise KeyError(k)


def translate(p, t):
    """the primitive moved by the vector t"""
    q = dict(p)
    k = p["kind"]
    mv = lambda v: [v[i] + t[i] for i in range(3)]
    if k in ("point", "line", "plane"):
        q["p"] = mv(p["p"])
    elif k == "line_segment":
        q["s"], q["e"] = mv(p["s"]), mv(p["e"])
    elif k == "triangle":
        q["pts"] = [mv(v) for v in p["pts"]]
    elif k in ("rectangle", "circle", "disk"):
        q["c"] = mv(p["c"])
    else:
        P = [list(r) for r in p["pose"]]
        for i in range(3):
            P[i][3] += t[i]
        q["pose"] = P
    return q


def in_domain(A, B):
    for p in (A, B):
        if any(not (SIZE_MIN <= s <= 100.0) for s in feature_sizes(p)):
            return False
        if p["kind"] == "triangle" and not tri_ok(p["pts"]):
            return False
        pts = []
        k = p["kind"]
        if k == "line_segment":
            pts = [p["s"], p["e"]]
        elif k == "triangle":
            pts = p["pts"]
        else:
            pts = [centre(p)]
        if any(math.sqrt(sum(x * x for x in v)) > 1000.0 for v in pts):
            return False
    return True


TINY_NZ = True      # switched off by the checks while the known-finding entry FD8 is not merged (see c10.py)
MULTI_SIZE = {"ellipsoid", "box", "cylinder", "rectangle"}      # kinds with several independent sizes
PLANAR = {"plane", "triangle", "rectangle", "disk", "circle"}
AXIAL = {"circle", "disk", "cylinder", "plane"}
BASE_MIX = ["random", "random", "far", "lattice", "lattice", "lattice", "touch", "touch", "same", "rotlat", "shallow", "small"]


def stream_mix(ka, kb):
    """streams applicable to the pair of kinds; the structural streams get more weight where they apply"""
    mix = list(BASE_MIX)
    if kb in PLANAR and ka in ("point", "line", "line_segment", "triangle", "rectangle", "disk"):
        mix += ["coplanar"] * 3
    if kb in AXIAL and ka in ("point", "line", "line_segment"):
        mix += ["axis"] * 4
    if ka == "line_segment" or kb == "line_segment" or "triangle" in (ka, kb):
        mix += ["small"]
    if {ka, kb} & MULTI_SIZE:
        mix += ["aniso"] * (8 if "ellipsoid" in (ka, kb) else 2)
    return mix


def plane_frame(B):
    """(origin, unit normal, two in-plane unit vectors, characteristic size) of a planar / axial primitive"""
    k = B["kind"]
    if k == "triangle":
        a, b, c = B["pts"]
        n = unit(cross([b[i] - a[i] for i in range(3)], [c[i] - a[i] for i in range(3)]))
        size = max(feature_sizes(B))
        org = centre(B)
    elif k == "rectangle":
        n = unit(cross(B["axes"][0], B["axes"][1]))
        size = max(B["lengths"])
        org = list(B["c"])
    elif k in ("disk", "circle"):
        n, size, org = list(B["n"]), B["r"], list(B["c"])
    elif k == "plane":
        n, size, org = list(B["n"]), 1.0, list(B["p"])
    elif k == "cylinder":
        P = B["pose"]
        n, size, org = [P[i][2] for i in range(3)], max(B["r"], B["l"]), [P[i][3] for i in range(3)]
    else:
        return None
    if k == "rectangle":
        u, v = list(B["axes"][0]), list(B["axes"][1])
    else:
        u = unit(cross(n, [1.0, 0.0, 0.0]) if abs(n[0]) < 0.9 else cross(n, [0.0, 1.0, 0.0]))
        v = cross(n, u)
    return list(org), n, u, v, size


def in_plane_prim(rng, ka, B, lattice=False):
    """primitive of kind ka lying in the plane of the planar primitive B, placed around B"""
    fr = plane_frame(B)
    if fr is None:
        return None
    org, n, u, v, size = fr
    grid = [-1.5, -1.0, -0.75, -0.5, -0.25, 0.0, 0.25, 0.5, 0.75, 1.0, 1.5]
    co = (lambda: rng.choice(grid) * size) if lattice else (lambda: rng.uniform(-1.6, 1.6) * size)
    pt = lambda: [org[i] + a * u[i] + b * v[i] for (a, b) in [(co(), co())] for i in range(3)]
    def P():
        a, b = co(), co()
        return [org[i] + a * u[i] + b * v[i] for i in range(3)]
    if ka == "point":
        return dict(kind="point", p=P())
    if ka == "line":
        p, q = P(), P()
        d = [q[i] - p[i] for i in range(3)]
        if sum(x * x for x in d) < 1e-6:
            return None
        return dict(kind="line", p=p, d=unit(d))
    if ka == "line_segment":
        if rng.random() < 0.4:
            # a SHORT in-plane segment (absolute length 0.03 .. 0.9) near the boundary of B: corner cuts, grazing passes
            a, b = co(), co()
            th = rng.uniform(0, 2 * math.pi)
            lam = 10 ** rng.uniform(math.log10(0.03), math.log10(0.9))
            s0 = [org[i] + a * u[i] + b * v[i] for i in range(3)]
            e0 = [s0[i] + lam * (math.cos(th) * u[i] + math.sin(th) * v[i]) for i in range(3)]
            return dict(kind="line_segment", s=s0, e=e0)
        return dict(kind="line_segment", s=P(), e=P())
    if ka == "triangle":
        return dict(kind="triangle", pts=[P(), P(), P()])
    if ka == "rectangle":
        c = P()
        th = rng.choice([0.0, math.pi / 4, math.pi / 2]) if lattice else rng.uniform(0, math.pi)
        a0 = [math.cos(th) * u[i] + math.sin(th) * v[i] for i in range(3)]
        a1 = cross(n, a0)
        return dict(kind="rectangle", c=c, axes=[unit(a0), unit(a1)], lengths=[abs(co()) + 0.25 * size, abs(co()) + 0.25 * size])
    if ka == "disk":
        return dict(kind="disk", c=P(), r=abs(co()) + 0.25 * size, n=list(n))
    return None


def on_axis_prim(rng, ka, B):
    """point / line / segment lying exactly on the axis (centre + h n) of an axial primitive B"""
    fr = plane_frame(B)
    if fr is None:
        return None
    org, n, u, v, size = fr
    hs = [0.0, 0.5 * size, -size, 2.0 * size, rng.uniform(-2, 2) * size, rng.uniform(-2, 2) * size, rng.uniform(0.1, 1.5) * size]
    on = lambda h: [org[i] + h * n[i] for i in range(3)]
    if ka == "point":
        return dict(kind="point", p=on(rng.choice(hs)))
    if ka == "line":
        d = list(n) if rng.random() < 0.7 else unit([n[i] + 0.5 * u[i] for i in range(3)])   # the axis, or a line through the centre
        return dict(kind="line", p=on(rng.choice(hs[:2])), d=d)
    if ka == "line_segment":
        h0, h1 = rng.sample(hs, 2)
        if abs(h0 - h1) < 0.02:
            h1 = h0 + size
        return dict(kind="line_segment", s=on(h0), e=on(h1))
    return None


def gen_pair(rng, fn, stream=None):
    """One input of domain P for function fn.  Streams:
       random   general position, sizes log-uniform, centre offset relative to the sizes
       far      as random, centres up to 1e3 from the origin / each other
       lattice  lattice rotations (axis permutations, one 45 degree turn, 3-4-5), sizes and
                offsets from {1/4,1/2,1,2,4}: exactly parallel / perpendicular / coplanar /
                touching / contained / coincident placements
       touch    B is moved so that a (special) point of B coincides with a (special) point of A
       same     both primitives share the reference point and the frame (coincident / nested)
       rotlat   a lattice placement moved by one random rigid motion (nearly degenerate in float)
       small    sizes log-uniform in [0.01, 0.06] (short segments, tiny triangles ...), general position, centre
                offsets of the order of the sizes
       aniso    one primitive with several sizes (ellipsoid, box, cylinder, rectangle) gets them independently log-uniform
                over [0.01, 100] (needles, plates); the other primitive near the surface / a short axis / far / inside
       coplanar B is planar (plane, triangle, rectangle, disk, circle): A is built INSIDE B's plane from
                in-plane points around B (segments / lines cutting corners, passing by, ending inside ...)
       axis     B has an axis (circle, disk, cylinder, plane normal): the point / line / segment lies exactly
                on that axis (point = centre + h n, line = axis, segment on the axis), random oblique frame
       shallow  a lattice / coincident placement in which B is then turned by a tiny angle
                (1e-7 .. 5e-3 rad) about a random axis through its reference point, or (point_to_X)
                the point is a special point of B / a point of B's axis moved by a tiny offset:
                inputs INSIDE the epsilon bands of the parallel / on-axis tests
    """
    ka, kb = kinds_of(fn)
    if stream is None:
        stream = rng.choice(stream_mix(ka, kb))
    for _ in range(100):
        if stream in ("random", "far"):
            s = rand_size(rng)
            R0 = 900.0 if stream == "far" else 10 ** rng.uniform(-1, 2)
            o = [rng.uniform(-1, 1) * R0 * 0.5 for _ in range(3)]
            A = gen_prim(rng, ka, "random", o, size=s)
            off = 10 ** rng.uniform(-1, 1) * s if stream == "random" else rng.uniform(0, 400.0)
            dirv = unit([rng.gauss(0, 1) for _ in range(3)])
            B = gen_prim(rng, kb, "random", [o[i] + off * dirv[i] for i in range(3)],
                         size=s * 10 ** rng.uniform(-0.5, 0.5))
        elif stream in ("lattice", "rotlat", "same"):
            o = [rng.choice([0.0, 0.0, 1.0, -2.0, 8.0]) for _ in range(3)]
            A = gen_prim(rng, ka, "lattice", o)
            if stream == "same":
                mB = None if rng.random() < 0.5 else lattice_rot(rng)
                B = gen_prim(rng, kb, "lattice", o, m=mB)
                if ka == kb and rng.random() < 0.5:
                    B = dict(A)
            else:
                B = gen_prim(rng, kb, "lattice", [o[i] + rng.choice(LAT_OFFS) for i in range(3)])
                if fn == "disk_to_disk" and rng.random() < 0.15:
                    # both centres on the common line of the two planes, at a distance below / above r1 + r2
                    # (the `elif ell <= radius1 + radius2` test of disk_to_disk and its fall-through)
                    cr = cross(A["n"], B["n"])
                    if any(abs(x) > 1e-9 for x in cr):
                        u = unit(cr)
                        k = rng.choice([0.25, 1.0, 4.0, 8.0, 16.0]) * rng.choice([-1.0, 1.0])
                        B = dict(B, c=[A["c"][i] + k * u[i] for i in range(3)])
            if stream == "rotlat":
                Rm = random_rot(rng)
                t = [rng.uniform(-5, 5) for _ in range(3)]
                A, B = rigid(A, Rm, t), rigid(B, Rm, t)
        elif stream == "small":
            s0 = 10 ** rng.uniform(-2.0, math.log10(0.06))
            o = [rng.uniform(-1, 1) for _ in range(3)]
            A = gen_prim(rng, ka, "small", o)
            dirv = unit([rng.gauss(0, 1) for _ in range(3)])
            off = s0 * 10 ** rng.uniform(-1, 0.7)
            B = gen_prim(rng, kb, "small", [o[i] + off * dirv[i] for i in range(3)])
        elif stream == "aniso":
            # strongly anisotropic shapes: the sizes of one primitive are drawn independently, log-uniform over [0.01, 100]
            # (ratios up to 1e4: needles, plates); the other primitive sits near a short axis / near the surface / far away
            o = [rng.uniform(-2, 2) for _ in range(3)]
            which = "B" if kb in MULTI_SIZE else "A"
            big = gen_prim(rng, kb if which == "B" else ka, "aniso", o)
            place = rng.choice(["surface", "surface", "short-axis", "short-axis", "far", "inside"])
            q = sample_point_on(rng, big, special=False)          # a point of the shape
            cb = centre(big)
            out = unit([q[i] - cb[i] for i in range(3)]) if math.dist(q, cb) > 1e-9 else unit([rng.gauss(0, 1) for _ in range(3)])
            sizes = feature_sizes(big)
            if place == "surface":
                gap = 10 ** rng.uniform(-3, 0) * min(sizes + [1.0])
                ref = [q[i] + gap * out[i] for i in range(3)]
            elif place == "short-axis":
                M = [[big["pose"][i][j] for j in range(3)] for i in range(3)] if "pose" in big else None
                if M is not None:
                    ssz = (big.get("radii") or big.get("size") or [big.get("r", 1.0), big.get("r", 1.0), big.get("l", 1.0)])
                    j = min(range(3), key=lambda k: ssz[k])
                    ax = [M[i][j] for i in range(3)]
                    h = ssz[j] * (1.0 if big["kind"] == "ellipsoid" else 0.5) + 10 ** rng.uniform(-3, 1) * ssz[j]
                    ref = [cb[i] + rng.choice([-1.0, 1.0]) * h * ax[i] + 0.01 * max(ssz) * rng.gauss(0, 1) * M[i][(j + 1) % 3] for i in range(3)]
                else:
                    ref = [q[i] + 0.1 * min(sizes) * out[i] for i in range(3)]
            elif place == "far":
                ref = [cb[i] + rng.uniform(2, 6) * max(sizes) * out[i] for i in range(3)]
            else:
                ref = list(q)
            other = gen_prim(rng, ka if which == "B" else kb, "random", ref, size=min(10.0, max(0.05, min(sizes + [1.0]))))
            A, B = (other, big) if which == "B" else (big, other)
        elif stream == "coplanar":
            mode = rng.choice(["lattice", "random"])
            o = [rng.choice([0.0, 1.0, -2.0]) for _ in range(3)] if mode == "lattice" else [rng.uniform(-5, 5) for _ in range(3)]
            B = gen_prim(rng, kb, mode, o)
            A = in_plane_prim(rng, ka, B, lattice=(mode == "lattice"))
            if A is None:
                continue
        elif stream == "axis":
            mode = rng.choice(["lattice", "random", "random", "random", "random"])
            o = [rng.choice([0.0, 1.0, -2.0]) for _ in range(3)] if mode == "lattice" else [rng.uniform(-5, 5) for _ in range(3)]
            B = gen_prim(rng, kb, mode, o)
            if TINY_NZ and kb in ("circle", "disk") and rng.random() < 0.3:
                # a normal with a TINY but non-zero z component (pytransform3d's perpendicular_to_vector switches at 1e-7)
                th = rng.uniform(0, 2 * math.pi)
                nz = rng.choice([1e-16, 1e-12, 1e-9, 1e-8, 3e-8, 9e-8, 2e-7, 1e-6]) * rng.choice([-1.0, 1.0])
                B = dict(B, n=unit([math.cos(th), math.sin(th), nz]))
            A = on_axis_prim(rng, ka, B)
            if A is None:
                continue
        elif stream == "shallow":
            o = [rng.choice([0.0, 0.0, 1.0, -2.0]) for _ in range(3)]
            A = gen_prim(rng, ka, "lattice", o)
            if ka == "point":
                B = gen_prim(rng, kb, "lattice", [o[i] + rng.choice([0.0, 0.0, 1.0, -0.5]) for i in range(3)])
                q = sample_point_on(rng, B, special=True)
                ns = normals_of(B)
                if ns and rng.random() < 0.6:       # a point of the axis through the centre
                    n = unit([float(x) for x in ns[-1]])
                    h = rng.choice([0.0, 0.5, -1.0, 2.0])
                    q = [centre(B)[i] + h * n[i] for i in range(3)]
                dv = unit([rng.gauss(0, 1) for _ in range(3)])
                mag = 10 ** rng.uniform(-9, -2)
                A = dict(kind="point", p=[q[i] + mag * dv[i] for i in range(3)])
            else:
                B = gen_prim(rng, kb, "lattice", [o[i] + rng.choice([0.0, 0.0, 0.0, 0.25, -0.5, 1.0]) for i in range(3)])
                ax = unit([rng.gauss(0, 1) for _ in range(3)])
                ang = 10 ** rng.uniform(-7, -2.3)
                Rm = axis_angle(ax, ang)
                cB = centre(B)
                rc = matvec(Rm, cB)
                B = rigid(B, Rm, [cB[i] - rc[i] for i in range(3)])
        elif stream == "touch":
            mode = rng.choice(["lattice", "random"])
            o = [rng.choice([0.0, 1.0, -2.0]) for _ in range(3)] if mode == "lattice" else [rng.uniform(-20, 20) for _ in range(3)]
            A = gen_prim(rng, ka, mode, o)
            B = gen_prim(rng, kb, mode, o)
            pa = sample_point_on(rng, A, special=True)
            pb = sample_point_on(rng, B, special=True)
            B = translate(B, [pa[i] - pb[i] for i in range(3)])
        else:
            raise KeyError(stream)
        if in_domain(A, B):
            return dict(fn=fn, A=A, B=B, stream=stream)
    # fallback that is always inside the domain
    A = gen_prim(rng, ka, "lattice", [0.0, 0.0, 0.0])
    B = gen_prim(rng, kb, "lattice", [1.0, 0.5, 2.0])
    return dict(fn=fn, A=A, B=B, stream="lattice")


def rigid(p, Rm, t):
    """the primitive moved by x -> Rm x + t (floats)"""
    k = p["kind"]
    mp = lambda v: [matvec(Rm, v)[i] + t[i] for i in range(3)]
    md = lambda v: matvec(Rm, v)
    q = dict(p)
    if k == "point":
        q["p"] = mp(p["p"])
    elif k == "line":
        q["p"], q["d"] = mp(p["p"]), unit(md(p["d"]))
    elif k == "plane":
        q["p"], q["n"] = mp(p["p"]), unit(md(p["n"]))
    elif k == "line_segment":
        q["s"], q["e"] = mp(p["s"]), mp(p["e"])
    elif k == "triangle":
        q["pts"] = [mp(v) for v in p["pts"]]
    elif k == "rectangle":
        q["c"] = mp(p["c"])
        q["axes"] = [unit(md(a)) for a in p["axes"]]
    elif k in ("circle", "disk"):
        q["c"], q["n"] = mp(p["c"]), unit(md(p["n"]))
    else:
        M = [[p["pose"][i][j] for j in range(3)] for i in range(3)]
        c = [p["pose"][i][3] for i in range(3)]
        q["pose"] = pose_of(matmul(Rm, M), mp(c))
    return q


def case_args(case):
    return prim_args(case["A"]) + prim_args(case["B"])


# ----------------------------------------------------------------------------- exact geometry
def verts(p):
    """generating points of a polytope-like primitive (exact)"""
    k = p["kind"]
    if k == "point":
        return [fv(p["p"])]
    if k == "line_segment":
        return [fv(p["s"]), fv(p["e"])]
    if k == "triangle":
        return [fv(v) for v in p["pts"]]
    if k == "rectangle":
        c, a0, a1 = fv(p["c"]), fv(p["axes"][0]), fv(p["axes"][1])
        h0, h1 = Fr(float(p["lengths"][0])) / 2, Fr(float(p["lengths"][1])) / 2
        return [vadd(c, vadd(vscale(s0 * h0, a0), vscale(s1 * h1, a1))) for s0 in (-1, 1) for s1 in (-1, 1)]
    if k == "box":
        X, Y, Z, c = cols(p["pose"])
        h = [Fr(float(s)) / 2 for s in p["size"]]
        return [vadd(c, vadd(vscale(s0 * h[0], X), vadd(vscale(s1 * h[1], Y), vscale(s2 * h[2], Z))))
                for s0 in (-1, 1) for s1 in (-1, 1) for s2 in (-1, 1)]
    return None


def nearest_on_segment(x, s, e):
    d = vsub(e, s)
    t = clampf(dot(vsub(x, s), d) / n2(d), Fr(0), Fr(1))
    return vadd(s, vscale(t, d)), t


def nearest_on_triangle(x, a, b, c):
    """exact nearest point of the triangle (projection onto the plane, else nearest edge)"""
    ab, ac = vsub(b, a), vsub(c, a)
    ap = vsub(x, a)
    g00, g01, g11 = n2(ab), dot(ab, ac), n2(ac)
    r0, r1 = dot(ab, ap), dot(ac, ap)
    det = g00 * g11 - g01 * g01
    v = (r0 * g11 - r1 * g01) / det
    w = (g00 * r1 - g01 * r0) / det
    if v >= 0 and w >= 0 and v + w <= 1:
        return vadd(a, vadd(vscale(v, ab), vscale(w, ac))), (v, w)
    best = None
    for (s, e, f) in ((a, b, lambda t: (t, Fr(0))), (a, c, lambda t: (Fr(0), t)), (b, c, lambda t: (1 - t, t))):
        y, t = nearest_on_segment(x, s, e)
        d2 = n2(vsub(x, y))
        if best is None or d2 < best[0]:
            best = (d2, y, f(t))
    return best[1], best[2]


def witness(p, x):
    """(y, w): y an EXACT point of the primitive near the exact point x, and the rational
    parameters w that prove its membership (the untrusted witness given to the Coq checker).
    For the circle (no rational points in general) y is None and w is empty; use
    dist2_upper."""
    k = p["kind"]
    if k == "point":
        return fv(p["p"]), []
    if k == "line":
        lp, d = fv(p["p"]), fv(p["d"])
        t = dot(vsub(x, lp), d) / n2(d)
        return vadd(lp, vscale(t, d)), [t]
    if k == "line_segment":
        y, t = nearest_on_segment(x, fv(p["s"]), fv(p["e"]))
        return y, [t]
    if k == "plane":
        pp, n = fv(p["p"]), fv(p["n"])
        t = dot(vsub(x, pp), n) / n2(n)
        return vsub(x, vscale(t, n)), []
    if k == "triangle":
        a, b, c = (fv(v) for v in p["pts"])
        y, (v, w) = nearest_on_triangle(x, a, b, c)
        return y, [v, w]
    if k == "rectangle":
        c, a0, a1 = fv(p["c"]), fv(p["axes"][0]), fv(p["axes"][1])
        h0, h1 = Fr(float(p["lengths"][0])) / 2, Fr(float(p["lengths"][1])) / 2
        d = vsub(x, c)
        k0 = clampf(dot(d, a0) / n2(a0), -h0, h0)
        k1 = clampf(dot(d, a1) / n2(a1), -h1, h1)
        return vadd(c, vadd(vscale(k0, a0), vscale(k1, a1))), [k0, k1]
    if k == "box":
        X, Y, Z, c = cols(p["pose"])
        h = [Fr(float(s)) / 2 for s in p["size"]]
        d = vsub(x, c)
        ks = [clampf(dot(d, ax) / n2(ax), -h[i], h[i]) for i, ax in enumerate((X, Y, Z))]
        return vadd(c, vadd(vscale(ks[0], X), vadd(vscale(ks[1], Y), vscale(ks[2], Z)))), ks
    if k == "disk":
        c, n, r = fv(p["c"]), fv(p["n"]), Fr(float(p["r"]))
        d = vsub(x, c)
        q = vsub(d, vscale(dot(d, n) / n2(n), n))
        qq = n2(q)
        if qq > r * r:
            s = Fr(float(r) / math.sqrt(float(qq))) * (1 - Fr(1, 2 ** 40))
            q = vscale(s, q)
        return vadd(c, q), []
    if k == "cylinder":
        X, Y, Z, c = cols(p["pose"])
        r, l = Fr(float(p["r"])), Fr(float(p["l"]))
        d = vsub(x, c)
        a, b = dot(d, X) / n2(X), dot(d, Y) / n2(Y)
        h = clampf(dot(d, Z) / n2(Z), -l / 2, l / 2)
        if a * a + b * b > r * r:
            s = Fr(float(r) / math.sqrt(float(a * a + b * b))) * (1 - Fr(1, 2 ** 40))
            a, b = a * s, b * s
        return vadd(c, vadd(vscale(a, X), vadd(vscale(b, Y), vscale(h, Z)))), [a, b, h]
    if k == "ellipsoid":
        X, Y, Z, c = cols(p["pose"])
        rr = [Fr(float(s)) for s in p["radii"]]
        d = vsub(x, c)
        ks = [dot(d, ax) / n2(ax) / rr[i] for i, ax in enumerate((X, Y, Z))]
        s2 = sum(kk * kk for kk in ks)
        if s2 > 1:
            s = Fr(1.0 / math.sqrt(float(s2))) * (1 - Fr(1, 2 ** 40))
            ks = [kk * s for kk in ks]
        return vadd(c, vadd(vscale(ks[0] * rr[0], X), vadd(vscale(ks[1] * rr[1], Y), vscale(ks[2] * rr[2], Z)))), ks
    if k == "circle":
        return None, []
    raise KeyError(k)


def member(p, y, w):
    """exact membership test of the point y with membership witness w (independent of how
    the witness was produced)"""
    k = p["kind"]
    if k == "point":
        return y == fv(p["p"])
    if k == "line":
        return y == vadd(fv(p["p"]), vscale(w[0], fv(p["d"])))
    if k == "line_segment":
        s, e = fv(p["s"]), fv(p["e"])
        return 0 <= w[0] <= 1 and y == vadd(s, vscale(w[0], vsub(e, s)))
    if k == "plane":
        return dot(vsub(y, fv(p["p"])), fv(p["n"])) == 0
    if k == "triangle":
        a, b, c = (fv(v) for v in p["pts"])
        v, ww = w
        return v >= 0 and ww >= 0 and v + ww <= 1 and y == vadd(a, vadd(vscale(v, vsub(b, a)), vscale(ww, vsub(c, a))))
    if k == "rectangle":
        c, a0, a1 = fv(p["c"]), fv(p["axes"][0]), fv(p["axes"][1])
        h0, h1 = Fr(float(p["lengths"][0])) / 2, Fr(float(p["lengths"][1])) / 2
        return abs(w[0]) <= h0 and abs(w[1]) <= h1 and y == vadd(c, vadd(vscale(w[0], a0), vscale(w[1], a1)))
    if k == "box":
        X, Y, Z, c = cols(p["pose"])
        h = [Fr(float(s)) / 2 for s in p["size"]]
        return all(abs(w[i]) <= h[i] for i in range(3)) and y == vadd(
            c, vadd(vscale(w[0], X), vadd(vscale(w[1], Y), vscale(w[2], Z))))
    if k == "disk":
        c, n, r = fv(p["c"]), fv(p["n"]), Fr(float(p["r"]))
        d = vsub(y, c)
        return dot(d, n) == 0 and n2(d) <= r * r
    if k == "cylinder":
        X, Y, Z, c = cols(p["pose"])
        r, l = Fr(float(p["r"])), Fr(float(p["l"]))
        a, b, h = w
        return a * a + b * b <= r * r and abs(h) <= l / 2 and y == vadd(
            c, vadd(vscale(a, X), vadd(vscale(b, Y), vscale(h, Z))))
    if k == "ellipsoid":
        X, Y, Z, c = cols(p["pose"])
        rr = [Fr(float(s)) for s in p["radii"]]
        return sum(kk * kk for kk in w) <= 1 and y == vadd(
            c, vadd(vscale(w[0] * rr[0], X), vadd(vscale(w[1] * rr[1], Y), vscale(w[2] * rr[2], Z))))
    raise KeyError(k)


def circle_parts(p, x):
    """h2 = squared distance of x to the circle's plane, rho2 = squared in-plane distance to
    the centre (both exact)"""
    c, n = fv(p["c"]), fv(p["n"])
    d = vsub(x, c)
    dn = dot(d, n)
    h2 = dn * dn / n2(n)
    rho2 = n2(d) - h2
    return h2, rho2


def dist2_upper(p, x):
    """exact rational upper bound of dist(x, primitive)^2 (x exact).  For every kind but the
    circle: squared distance to an exactly verified member point; circle: closed form
    h^2 + (rho - r)^2 with a rational lower bound of rho."""
    if p["kind"] == "circle":
        r = Fr(float(p["r"]))
        h2, rho2 = circle_parts(p, x)
        return h2 + rho2 + r * r - 2 * r * sqrt_lo(rho2)
    y, w = witness(p, x)
    if not member(p, y, w):
        return None
    return n2(vsub(x, y))


def dist2_lower_circle(p, x):
    r = Fr(float(p["r"]))
    h2, rho2 = circle_parts(p, x)
    return h2 + rho2 + r * r - 2 * r * sqrt_up(rho2)


# ----------------------------------------------------------------------------- support values
def sup_upper(p, n):
    """rational upper bound of sup {x.n | x in primitive}; None if unbounded."""
    k = p["kind"]
    vs = verts(p)
    if vs is not None:
        return max(dot(v, n) for v in vs)
    if k == "line":
        if dot(fv(p["d"]), n) != 0:
            return None
        return dot(fv(p["p"]), n)
    if k == "plane":
        if any(c != 0 for c in cross(fv(p["n"]), n)):
            return None
        return dot(fv(p["p"]), n)
    if k in ("disk", "circle"):
        c, nr, r = fv(p["c"]), fv(p["n"]), Fr(float(p["r"]))
        npar2 = n2(n) - dot(n, nr) ** 2 / n2(nr)
        return dot(c, n) + r * sqrt_up(npar2)
    if k == "cylinder":
        X, Y, Z, c = cols(p["pose"])
        r, l = Fr(float(p["r"])), Fr(float(p["l"]))
        return dot(c, n) + r * sqrt_up(dot(n, X) ** 2 + dot(n, Y) ** 2) + l / 2 * abs(dot(n, Z))
    if k == "ellipsoid":
        X, Y, Z, c = cols(p["pose"])
        rr = [Fr(float(s)) for s in p["radii"]]
        return dot(c, n) + sqrt_up(sum((rr[i] * dot(n, ax)) ** 2 for i, ax in enumerate((X, Y, Z))))
    raise KeyError(k)


def directions_of(p):
    """exact direction vectors along which the primitive extends (for witness projection and
    candidate normals)"""
    k = p["kind"]
    if k == "line":
        return [fv(p["d"])]
    if k == "line_segment":
        return [vsub(fv(p["e"]), fv(p["s"]))]
    if k == "triangle":
        a, b, c = (fv(v) for v in p["pts"])
        return [vsub(b, a), vsub(c, b), vsub(a, c)]
    if k == "rectangle":
        return [fv(p["axes"][0]), fv(p["axes"][1])]
    if k in ("box", "cylinder", "ellipsoid"):
        X, Y, Z, _ = cols(p["pose"])
        return [X, Y, Z]
    return []


def normals_of(p):
    k = p["kind"]
    if k in ("plane", "disk", "circle"):
        return [fv(p["n"])]
    if k == "triangle":
        a, b, c = (fv(v) for v in p["pts"])
        return [cross(vsub(b, a), vsub(c, a))]
    if k == "rectangle":
        return [cross(fv(p["axes"][0]), fv(p["axes"][1]))]
    if k in ("box", "cylinder"):
        X, Y, Z, _ = cols(p["pose"])
        return [X, Y, Z] if k == "box" else [Z]
    return []


def project_out(n, ds):
    """remove from n its components along the (exact) directions ds (Gram-Schmidt)"""
    basis = []
    for d in ds:
        for b in basis:
            d = vsub(d, vscale(dot(d, b) / n2(b), b))
        if any(c != 0 for c in d):
            basis.append(d)
    for b in basis:
        n = vsub(n, vscale(dot(n, b) / n2(b), b))
    return n


def round_vec(n, bits=60):
    """a nearby vector with short rationals (keeps Coq/Fraction arithmetic small)"""
    m = max(abs(c) for c in n)
    if m == 0:
        return n
    sc = Fr(2) ** (bits - 1) / m
    return tuple(Fr(round(c * sc)) for c in n)


def candidate_normals(A, B, p1, p2):
    """untrusted candidate separating directions pointing from A to B"""
    out = []
    base = vsub(p2, p1)
    unb = []
    for p in (A, B):
        if p["kind"] == "line":
            unb.append(fv(p["d"]))
    pl = [fv(p["n"]) for p in (A, B) if p["kind"] == "plane"]
    if pl:
        nn = pl[0]
        out.append(nn if dot(nn, base) >= 0 else vscale(-1, nn))
        return out
    if unb:
        out.append(project_out(base, unb))
        if len(unb) == 2:
            c = cross(unb[0], unb[1])
            if any(x != 0 for x in c):
                out.append(c if dot(c, base) >= 0 else vscale(-1, c))
        # face normals / edge cross products made orthogonal to the line(s)
        for nn in normals_of(A) + normals_of(B):
            nn = project_out(nn, unb)
            if any(x != 0 for x in nn):
                out.append(nn if dot(nn, base) >= 0 else vscale(-1, nn))
        for da in directions_of(A):
            for db in directions_of(B):
                c = project_out(cross(da, db), unb)
                if any(x != 0 for x in c):
                    out.append(c if dot(c, base) >= 0 else vscale(-1, c))
        return out
    out.append(base)
    if all(c == 0 for c in base):
        out = []
    for nn in normals_of(A) + normals_of(B):
        out.append(nn if dot(nn, base) >= 0 else vscale(-1, nn))
    for da in directions_of(A):
        for db in directions_of(B):
            c = cross(da, db)
            if any(x != 0 for x in c):
                out.append(c if dot(c, base) >= 0 else vscale(-1, c))
    return out


def sep_cert(A, B, n, bound):
    """exact check that direction n proves dist(A, B) >= bound (bound a Fraction > 0):
       sup_A(n) <= inf_B(n) and (inf_B - sup_A)^2 >= bound^2 * |n|^2."""
    if all(c == 0 for c in n):
        return False
    sa = sup_upper(A, n)
    sb = sup_upper(B, vscale(-1, n))
    if sa is None or sb is None:
        return False
    gap = -sb - sa
    return gap >= 0 and gap * gap >= bound * bound * n2(n)


# ----------------------------------------------------------------------------- float geometry (search)
def fproj(p, x):
    """float nearest point of primitive p to x (independent closed forms; untrusted, used
    only to look for a closer pair which is then verified exactly)"""
    y, _ = witness_float(p, x)
    return y


def witness_float(p, x):
    k = p["kind"]
    x = [float(c) for c in x]
    sub = lambda a, b: [a[i] - b[i] for i in range(3)]
    add = lambda a, b: [a[i] + b[i] for i in range(3)]
    sc = lambda s, a: [s * a[i] for i in range(3)]
    dt = lambda a, b: sum(a[i] * b[i] for i in range(3))
    if k == "point":
        return list(p["p"]), None
    if k == "line":
        t = dt(sub(x, p["p"]), p["d"]) / dt(p["d"], p["d"])
        return add(p["p"], sc(t, p["d"])), None
    if k == "line_segment":
        d = sub(p["e"], p["s"])
        t = min(1.0, max(0.0, dt(sub(x, p["s"]), d) / dt(d, d)))
        return add(p["s"], sc(t, d)), None
    if k == "plane":
        t = dt(sub(x, p["p"]), p["n"]) / dt(p["n"], p["n"])
        return sub(x, sc(t, p["n"])), None
    if k == "triangle":
        y, _ = nearest_on_triangle(tuple(x), *(tuple(float(c) for c in v) for v in p["pts"]))
        return list(y), None
    if k == "rectangle":
        d = sub(x, p["c"])
        y = list(p["c"])
        for i in range(2):
            h = 0.5 * p["lengths"][i]
            kk = min(h, max(-h, dt(d, p["axes"][i])))
            y = add(y, sc(kk, p["axes"][i]))
        return y, None
    if k in ("disk", "circle"):
        d = sub(x, p["c"])
        q = sub(d, sc(dt(d, p["n"]), p["n"]))
        l = math.sqrt(dt(q, q))
        if k == "disk":
            s = 1.0 if l <= p["r"] else p["r"] / l
        else:
            if l == 0.0:
                n = p["n"]
                q = unit(cross(n, [1.0, 0.0, 0.0]) if abs(n[0]) < 0.9 else cross(n, [0.0, 1.0, 0.0]))
                l = 1.0
            s = p["r"] / l
        return add(p["c"], sc(s, q)), None
    M = [[p["pose"][i][j] for j in range(3)] for i in range(3)]
    c = [p["pose"][i][3] for i in range(3)]
    d = sub(x, c)
    loc = [dt(d, colv(M, j)) for j in range(3)]
    if k == "box":
        loc = [min(0.5 * s, max(-0.5 * s, loc[i])) for i, s in enumerate(p["size"])]
    elif k == "cylinder":
        l = math.hypot(loc[0], loc[1])
        s = 1.0 if l <= p["r"] else p["r"] / l
        loc = [s * loc[0], s * loc[1], min(0.5 * p["l"], max(-0.5 * p["l"], loc[2]))]
    elif k == "ellipsoid":
        loc = ell_project(loc, p["radii"])
    return add(c, matvec(M, loc)), None


def ell_project(q, r):
    """nearest point of the solid axis-aligned ellipsoid (bisection on the Lagrange multiplier)"""
    if sum((q[i] / r[i]) ** 2 for i in range(3)) <= 1.0:
        return list(q)
    lo, hi = 0.0, max(r) * math.sqrt(sum(c * c for c in q)) + max(r) ** 2
    g = lambda t: sum((r[i] * q[i] / (t + r[i] ** 2)) ** 2 for i in range(3)) - 1.0
    for _ in range(200):
        mid = 0.5 * (lo + hi)
        if g(mid) > 0:
            lo = mid
        else:
            hi = mid
    t = 0.5 * (lo + hi)
    return [r[i] ** 2 * q[i] / (t + r[i] ** 2) for i in range(3)]


def closer_pair_search(rng, A, B, starts, iters=400):
    """alternating projections from several starts (+ a scan of the circle if one is
    involved); returns the best (dist, a, b) found in floats."""
    best = None
    cand = list(starts)
    for p in (A, B):
        vs = verts(p)
        if vs:
            cand += [fl(v) for v in vs]
        cand.append(centre(p))
    circ = [p for p in (A, B) if p["kind"] == "circle"]
    if circ:
        p = circ[0]
        n = p["n"]
        a = unit(cross(n, [1.0, 0.0, 0.0]) if abs(n[0]) < 0.9 else cross(n, [0.0, 1.0, 0.0]))
        b = cross(n, a)
        for i in range(720):
            th = 2 * math.pi * i / 720
            cand.append([p["c"][j] + p["r"] * (math.cos(th) * a[j] + math.sin(th) * b[j]) for j in range(3)])
    scored = []
    for x in cand:
        a = fproj(A, x)
        b = fproj(B, a)
        scored.append((math.dist(a, b), a, b))
    scored.sort(key=lambda s: s[0])
    for d0, a, b in scored[:12]:
        prev = d0
        for it in range(iters):
            a = fproj(A, b)
            b = fproj(B, a)
            d = math.dist(a, b)
            if prev - d < 1e-15 * max(1.0, d) and it > 3:
                break
            prev = d
        if best is None or d < best[0]:
            best = (d, a, b)
    return best


# ----------------------------------------------------------------------------- cheap float pre-screen (case selection only)
def sup_float(p, n):
    """float value of sup {x.n | x in primitive}; None if unbounded in that direction (untrusted; used only to decide
    which pooled candidates deserve the exact judgement)"""
    k = p["kind"]
    dt = lambda a, b: a[0] * b[0] + a[1] * b[1] + a[2] * b[2]
    if k == "point":
        return dt(p["p"], n)
    if k == "line_segment":
        return max(dt(p["s"], n), dt(p["e"], n))
    if k == "triangle":
        return max(dt(v, n) for v in p["pts"])
    if k == "rectangle":
        return dt(p["c"], n) + 0.5 * p["lengths"][0] * abs(dt(p["axes"][0], n)) + 0.5 * p["lengths"][1] * abs(dt(p["axes"][1], n))
    if k == "line":
        return dt(p["p"], n) if abs(dt(p["d"], n)) <= 1e-12 * math.sqrt(dt(n, n)) else None
    if k == "plane":
        c = cross(p["n"], n)
        return dt(p["p"], n) if dt(c, c) <= 1e-24 * dt(n, n) else None
    if k in ("disk", "circle"):
        nn = dt(p["n"], p["n"])
        return dt(p["c"], n) + p["r"] * math.sqrt(max(0.0, dt(n, n) - dt(n, p["n"]) ** 2 / nn))
    P = p["pose"]
    X, Y, Z = ([P[i][j] for i in range(3)] for j in range(3))
    c = [P[i][3] for i in range(3)]
    if k == "box":
        return dt(c, n) + sum(0.5 * p["size"][j] * abs(dt(ax, n)) for j, ax in enumerate((X, Y, Z)))
    if k == "cylinder":
        return dt(c, n) + p["r"] * math.sqrt(dt(n, X) ** 2 + dt(n, Y) ** 2) + 0.5 * p["l"] * abs(dt(n, Z))
    if k == "ellipsoid":
        return dt(c, n) + math.sqrt(sum((p["radii"][j] * dt(n, ax)) ** 2 for j, ax in enumerate((X, Y, Z))))
    return None


def float_suspicious(case, out):
    """cheap float screen of an implementation result [d, p1.., p2..]: True if the result looks wrong (point off its
    primitive by > 1e-7 L, |p1-p2| differs from d by > 1e-5 L, or -- convex pairs -- the direction p2 - p1 does not separate
    the primitives by d - 1e-5 L).  Errs on both sides; it only steers which candidates get the exact judgement."""
    A, B = case["A"], case["B"]
    if out is None or any(not math.isfinite(x) for x in out):
        return True
    d = out[0]
    if A["kind"] == "point":
        p1, p2 = list(A["p"]), out[1:4]
    else:
        p1, p2 = out[1:4], out[4:7]
    if len(p2) != 3 or len(p1) != 3:
        return True
    L = scale_L(A, B)
    if d < 0 or abs(math.dist(p1, p2) - d) > 1e-5 * L:
        return True
    for prim, x in ((A, p1), (B, p2)):
        if math.dist(fproj(prim, x), x) > 1e-7 * L:
            return True
    if "circle" in (A["kind"], B["kind"]) or d <= 1e-5 * L:
        return False
    n = [p2[i] - p1[i] for i in range(3)]
    for prim in (A, B):
        if prim["kind"] == "line":
            t = sum(n[i] * prim["d"][i] for i in range(3))
            n = [n[i] - t * prim["d"][i] for i in range(3)]
        elif prim["kind"] == "plane":
            sgn = 1.0 if sum(n[i] * prim["n"][i] for i in range(3)) >= 0 else -1.0
            n = [sgn * x for x in prim["n"]]
    nn = math.sqrt(sum(x * x for x in n))
    if nn == 0.0:
        return True
    sa = sup_float(A, n)
    sb = sup_float(B, [-x for x in n])
    if sa is None or sb is None:
        return False
    return (-sb - sa) < (d - 1e-5 * L) * nn
