"""Additions to harness/narrow.py used by C02 / C09 / C19 (owned by narrow-bool).

* exact (Fraction) evaluation of membership witnesses, mirroring `point_of` of
  coq/theories/Checker/Shapes.v, and a parser for the witness strings of narrow.wit_expr
* exact membership witnesses: a witness whose denoted point EQUALS a prescribed
  rational target (needed by `para_cert` of Checker/NarrowB.v, which compares with Qeq)
* deep-membership witnesses (`deepw` of NarrowB.v): DBall (Deep.deep_cert) and DPara
* float helpers used only to CONSTRUCT pairs (membership, depth along a ray); every
  verdict comes from the Coq certificates, never from these
* generators that construct pairs at a prescribed certified overlap depth / gap
"""
import math
import re
from fractions import Fraction as Fr

import numpy as np

from . import narrow as nw

COQ_HEADER = nw.COQ_HEADER + "From D3 Require Import Checker.Narrow Checker.Deep Checker.NarrowB.\n"
DELTA_K = 1e-3            # delta = DELTA_K * L
SIGMA_K = 1e-7            # slack of the DBall route, times L


# ----------------------------------------------------------------------------- fractions
def F(x):
    return x if isinstance(x, Fr) else Fr(float(x))


def Fv(v):
    return [F(x) for x in v]


def fdot(a, b):
    return a[0] * b[0] + a[1] * b[1] + a[2] * b[2]


def fadd(a, b):
    return [a[0] + b[0], a[1] + b[1], a[2] + b[2]]


def fsub(a, b):
    return [a[0] - b[0], a[1] - b[1], a[2] - b[2]]


def fscale(s, a):
    return [s * a[0], s * a[1], s * a[2]]


def fcross(a, b):
    return [a[1] * b[2] - a[2] * b[1], a[2] * b[0] - a[0] * b[2], a[0] * b[1] - a[1] * b[0]]


def solve3(c1, c2, c3, rhs):
    """t with t1 c1 + t2 c2 + t3 c3 = rhs (exact); None if singular."""
    D = fdot(c1, fcross(c2, c3))
    if D == 0:
        return None
    return [fdot(rhs, fcross(c2, c3)) / D, fdot(rhs, fcross(c3, c1)) / D, fdot(rhs, fcross(c1, c2)) / D]


def q(x):
    return nw._q(x)


def vq(v):
    return "(V " + " ".join(q(x) for x in v) + ")"


# ----------------------------------------------------------------------------- shape trees (mirror of sh_expr)
def sh_tree(spec):
    """The shape expression of narrow.sh_expr as a tuple tree over Fractions."""
    ps = nw.parts(spec)

    def one(p):
        if p[0] == "pt":
            return ("Pt", Fv(p[1]))
        if p[0] == "seg":
            return ("Seg", Fv(p[1]))
        if p[0] == "ell":
            return ("Ell", Fv(p[1]), Fv(p[2]), Fv(p[3]))
        if p[0] == "hull":
            return ("HullPts", [Fv(v) for v in p[1]])
        if p[0] == "cone":
            apex, c, a1, a2 = p[1:]
            return ("HullU", ("Pt", Fv(apex)), ("Sum", ("Pt", Fv(c)), ("Ell", Fv(a1), Fv(a2), Fv(np.zeros(3)))))
        raise ValueError(p[0])
    return [one(p) for p in ps]          # list of summands (right-nested Sum in Coq)


ZERO3 = [Fr(0), Fr(0), Fr(0)]


def point_of(sh, w):
    """Mirror of Coq's point_of on one summand tree; Fractions or None."""
    t = sh[0]
    if t == "Pt":
        return sh[1] if w[0] == "WPt" else None
    if t == "Seg":
        if w[0] != "WSeg" or not (-1 <= w[1] <= 1):
            return None
        return fscale(w[1], sh[1])
    if t == "Ell":
        if w[0] != "WEll":
            return None
        t1, t2, t3 = w[1:]
        if t1 * t1 + t2 * t2 + t3 * t3 > 1:
            return None
        return fadd(fscale(t1, sh[1]), fadd(fscale(t2, sh[2]), fscale(t3, sh[3])))
    if t == "Sum":
        if w[0] != "WSum":
            return None
        a, b = point_of(sh[1], w[1]), point_of(sh[2], w[2])
        return None if a is None or b is None else fadd(a, b)
    if t == "HullPts":
        if w[0] != "WHull" or len(w[1]) != len(sh[1]) or any(x < 0 for x in w[1]) or sum(w[1]) != 1:
            return None
        out = ZERO3
        for x, v in zip(w[1], sh[1]):
            out = fadd(out, fscale(x, v))
        return out
    if t == "HullU":
        if w[0] != "WHullU" or not (0 <= w[1] <= 1):
            return None
        a, b = point_of(sh[1], w[2]), point_of(sh[2], w[3])
        if a is None or b is None:
            return None
        return fadd(fscale(1 - w[1], a), fscale(w[1], b))
    raise ValueError(t)


def point_of_parts(shs, ws):
    out = ZERO3
    if len(shs) != len(ws):
        return None
    for s, w in zip(shs, ws):
        p = point_of(s, w)
        if p is None:
            return None
        out = fadd(out, p)
    return out


# ----------------------------------------------------------------------------- witness strings
_TOK = re.compile(r"\(|\)|\[|\]|;|#|-?\d+|[A-Za-z]+")


def parse_wit(s):
    toks = _TOK.findall(s)
    pos = [0]

    def peek():
        return toks[pos[0]]

    def eat(t=None):
        x = toks[pos[0]]
        if t is not None and x != t:
            raise ValueError(f"expected {t} got {x}")
        pos[0] += 1
        return x

    def pq():
        eat("(")
        if peek() == "(":
            eat("(")
            n = int(eat())
            eat(")")
        else:
            n = int(eat())
        eat("#")
        d = int(eat())
        eat(")")
        return Fr(n, d)

    def pw():
        if peek() == "WPt":
            eat()
            return ("WPt",)
        eat("(")
        name = eat()
        if name == "WPt":
            r = ("WPt",)
        elif name == "WSeg":
            r = ("WSeg", pq())
        elif name == "WEll":
            r = ("WEll", pq(), pq(), pq())
        elif name == "WSum":
            a = pw()
            b = pw()
            r = ("WSum", a, b)
        elif name == "WHull":
            eat("[")
            xs = []
            while peek() != "]":
                xs.append(pq())
                if peek() == ";":
                    eat(";")
            eat("]")
            r = ("WHull", xs)
        elif name == "WHullU":
            t = pq()
            a = pw()
            b = pw()
            r = ("WHullU", t, a, b)
        else:
            raise ValueError(name)
        eat(")")
        return r
    w = pw()
    if pos[0] != len(toks):
        raise ValueError("trailing tokens")
    return w


def flatten_sum(w, n):
    """right-nested WSum chain -> list of n summand witnesses"""
    out = []
    while len(out) < n - 1:
        if w[0] != "WSum":
            raise ValueError("witness does not match the shape")
        out.append(w[1])
        w = w[2]
    out.append(w)
    return out


def emit_wit(w):
    t = w[0]
    if t == "WPt":
        return "WPt"
    if t == "WSeg":
        return f"(WSeg {q(w[1])})"
    if t == "WEll":
        return f"(WEll {q(w[1])} {q(w[2])} {q(w[3])})"
    if t == "WSum":
        return f"(WSum {emit_wit(w[1])} {emit_wit(w[2])})"
    if t == "WHull":
        return "(WHull [" + "; ".join(q(x) for x in w[1]) + "])"
    if t == "WHullU":
        return f"(WHullU {q(w[1])} {emit_wit(w[2])} {emit_wit(w[3])})"
    raise ValueError(t)


def emit_parts(ws):
    e = emit_wit(ws[-1])
    for w in reversed(ws[:-1]):
        e = f"(WSum {emit_wit(w)} {e})"
    return e


# ----------------------------------------------------------------------------- exact witnesses
WELL0 = ("WEll", Fr(0), Fr(0), Fr(0))


def _hull_exact(V, target):
    """convex weights (Fractions, >= 0, sum exactly 1) with sum w_i V_i == target exactly, or None."""
    from scipy.optimize import linprog
    n = len(V)
    Vf = np.array([[float(x) for x in v] for v in V])
    tf = np.array([float(x) for x in target])
    sc = max(1.0, float(np.max(np.abs(Vf))))
    A = np.vstack([Vf.T / sc, np.ones((1, n))])
    b = np.concatenate([tf / sc, [1.0]])
    try:
        res = linprog(np.zeros(n), A_eq=A, b_eq=b, bounds=[(0, None)] * n, method="highs-ds")
    except Exception:  # noqa
        return None
    if not res.success:
        return None
    order = list(np.argsort(-res.x))
    base = order[:4] if n >= 4 else order
    if len(base) < 4:
        return None

    def solve4(idx):
        # [V_i ; 1] w = [target ; 1] by exact Gaussian elimination
        M = [[V[i][r] for i in idx] + [target[r]] for r in range(3)] + [[Fr(1)] * 4 + [Fr(1)]]
        for c in range(4):
            piv = next((r for r in range(c, 4) if M[r][c] != 0), None)
            if piv is None:
                return None
            M[c], M[piv] = M[piv], M[c]
            pv = M[c][c]
            M[c] = [x / pv for x in M[c]]
            for r in range(4):
                if r != c and M[r][c] != 0:
                    f = M[r][c]
                    M[r] = [x - f * y for x, y in zip(M[r], M[c])]
        return [M[r][4] for r in range(4)]
    w4 = solve4(base)
    if w4 is None or any(x < 0 for x in w4):
        return None
    w = [Fr(0)] * n
    for i, x in zip(base, w4):
        w[i] = x
    return w


def exact_wit(spec, target):
    """List of summand witnesses (one per part of narrow.parts(spec)) whose point equals the
    rational `target` exactly, or None when none is found."""
    target = Fv(target)
    if "margin" in spec:
        core = {k: v for k, v in spec.items() if k != "margin"}
        m = F(spec["margin"])
        w = exact_wit(core, target)
        if w is not None:
            return w + [WELL0]
        if m <= 0:
            return None
        shs = sh_tree(core)
        try:
            wc = flatten_sum(parse_wit(nw.wit_expr(core, [float(x) for x in target])), len(shs))
        except Exception:  # noqa
            return None
        pt = point_of_parts(shs, wc)
        if pt is None:
            return None
        t = [x / m for x in fsub(target, pt)]
        if fdot(t, t) > 1:
            return None
        return wc + [("WEll", t[0], t[1], t[2])]
    k = spec["kind"]
    shs = sh_tree(spec)
    if k == "sphere":
        c, r = shs[0][1], F(spec["radius"])
        t = [x / r for x in fsub(target, c)]
        return [("WPt",), ("WEll", t[0], t[1], t[2])] if fdot(t, t) <= 1 else None
    if k == "capsule":
        c, v, r = shs[0][1], shs[1][1], F(spec["radius"])
        rest = fsub(target, c)
        vv = fdot(v, v)
        ts = F(min(1.0, max(-1.0, float(fdot(rest, v) / vv)))) if vv != 0 else Fr(0)
        t = [x / r for x in fsub(rest, fscale(ts, v))]
        return [("WPt",), ("WSeg", ts), ("WEll", t[0], t[1], t[2])] if fdot(t, t) <= 1 else None
    if k == "box":
        rest = fsub(target, shs[0][1])
        t = solve3(shs[1][1], shs[2][1], shs[3][1], rest)
        if t is None or any(abs(x) > 1 for x in t):
            return None
        return [("WPt",)] + [("WSeg", x) for x in t]
    if k == "ellipsoid":
        rest = fsub(target, shs[0][1])
        t = solve3(shs[1][1], shs[1][2], shs[1][3], rest)
        if t is None or fdot(t, t) > 1:
            return None
        return [("WPt",), ("WEll", t[0], t[1], t[2])]
    if k == "cylinder":
        rest = fsub(target, shs[0][1])
        t = solve3(shs[1][1], shs[2][1], shs[2][2], rest)
        if t is None or abs(t[0]) > 1 or t[1] * t[1] + t[2] * t[2] > 1:
            return None
        return [("WPt",), ("WSeg", t[0]), ("WEll", t[1], t[2], Fr(0))]
    if k == "cone":
        hu = shs[0]
        apex, c = hu[1][1], hu[2][1][1]
        a1, a2 = hu[2][2][1], hu[2][2][2]
        s = solve3(fsub(c, apex), a1, a2, fsub(target, apex))
        if s is None or not (0 < s[0] <= 1):
            return None
        t1, t2 = s[1] / s[0], s[2] / s[0]
        if t1 * t1 + t2 * t2 > 1:
            return None
        return [("WHullU", s[0], ("WPt",), ("WSum", ("WPt",), ("WEll", t1, t2, Fr(0))))]
    if k in ("hull", "mesh"):
        w = _hull_exact(shs[0][1], target)
        return None if w is None else [("WHull", w)]
    return None      # disk, ellipse: empty interior


# ----------------------------------------------------------------------------- float membership (construction only)
_HULL_CACHE = {}


def _hull_eq(spec):
    key = id(spec.get("vertices"))
    from scipy.spatial import ConvexHull
    V = np.array(spec["vertices"], float)
    if spec["kind"] == "mesh":
        T = np.array(spec["pose"], float)
        V = V @ T[:3, :3].T + T[:3, 3]
    kk = (key, V.tobytes())
    if kk not in _HULL_CACHE:
        try:
            _HULL_CACHE[kk] = ConvexHull(V).equations
        except Exception:  # noqa
            _HULL_CACHE[kk] = None
        if len(_HULL_CACHE) > 4000:
            _HULL_CACHE.clear()
    return _HULL_CACHE[kk]


def slack_core(spec, X):
    """>= 0 iff the point is inside the collider WITHOUT its margin; a (not necessarily
    Euclidean) measure of how far inside, in length units.  X: (n,3)."""
    X = np.atleast_2d(np.array(X, float))
    k = spec["kind"]
    if k == "sphere":
        return spec["radius"] - np.linalg.norm(X - np.array(spec["center"]), axis=1)
    if k in ("disk", "ellipse"):
        return -np.ones(len(X))
    if k in ("hull", "mesh"):
        eq = _hull_eq(spec)
        if eq is None:
            return -np.ones(len(X))
        return -np.max(X @ eq[:, :3].T + eq[:, 3], axis=1)
    T = np.array(spec["pose"], float)
    loc = (X - T[:3, 3]) @ T[:3, :3]
    if k == "box":
        h = 0.5 * np.array(spec["size"])
        return np.min(h - np.abs(loc), axis=1)
    if k == "ellipsoid":
        r = np.array(spec["radii"])
        return (1.0 - np.sqrt(np.sum((loc / r) ** 2, axis=1))) * float(np.min(r))
    if k == "cylinder":
        return np.minimum(0.5 * spec["length"] - np.abs(loc[:, 2]), spec["radius"] - np.hypot(loc[:, 0], loc[:, 1]))
    if k == "capsule":
        z = np.clip(loc[:, 2], -0.5 * spec["height"], 0.5 * spec["height"])
        return spec["radius"] - np.sqrt(loc[:, 0] ** 2 + loc[:, 1] ** 2 + (loc[:, 2] - z) ** 2)
    if k == "cone":
        r, h = spec["radius"], spec["height"]
        rho = np.hypot(loc[:, 0], loc[:, 1])
        side = (r * (1 - loc[:, 2] / h) - rho) * h / math.hypot(r, h)
        return np.minimum(np.minimum(loc[:, 2], h - loc[:, 2]), side)
    raise ValueError(k)


def frame_of(spec):
    """three (nearly orthonormal) exact rational axes used for the parallelepiped"""
    if "pose" in spec and spec["kind"] != "mesh":
        T = spec["pose"]
        return [[F(T[i][j]) for i in range(3)] for j in range(3)]
    return [[Fr(1), Fr(0), Fr(0)], [Fr(0), Fr(1), Fr(0)], [Fr(0), Fr(0), Fr(1)]]


SIGNS = [(1, 1, 1), (1, 1, -1), (1, -1, 1), (1, -1, -1), (-1, 1, 1), (-1, 1, -1), (-1, -1, 1), (-1, -1, -1)]


def para_depth(spec, p):
    """largest rho such that the 8 corners p +- rho a1 +- rho a2 +- rho a3 are inside the core (float)"""
    fr = np.array([[float(x) for x in a] for a in frame_of(spec)])
    S = np.array(SIGNS, float) @ fr
    p = np.array(p, float)
    if slack_core(spec, [p])[0] <= 0:
        return 0.0
    lo, hi = 0.0, max(1e-9, 2.0 * nw.feature_size(spec))
    for _ in range(50):
        mid = 0.5 * (lo + hi)
        if np.min(slack_core(spec, p + mid * S)) >= 0:
            lo = mid
        else:
            hi = mid
    return lo


def core_dist(spec, p):
    """float distance from p to the collider without its LAST ball (margin, or the radius of a
    sphere / capsule); None when there is no last ball."""
    p = np.array(p, float)
    if "margin" in spec:
        core = {k: v for k, v in spec.items() if k != "margin"}
        if spec["kind"] not in ("disk", "ellipse") and slack_core(core, [p])[0] >= 0:
            return 0.0
        try:
            shs = sh_tree(core)
            wc = flatten_sum(parse_wit(nw.wit_expr(core, p.tolist())), len(shs))
            pt = point_of_parts(shs, wc)
        except Exception:  # noqa
            return None
        if pt is None:
            return None
        return float(np.linalg.norm(p - np.array([float(x) for x in pt])))
    if spec["kind"] == "sphere":
        return float(np.linalg.norm(p - np.array(spec["center"])))
    if spec["kind"] == "capsule":
        return spec["radius"] - float(slack_core(spec, [p])[0])
    return None


def last_ball_radius(spec):
    if "margin" in spec:
        return spec["margin"]
    if spec["kind"] in ("sphere", "capsule"):
        return spec["radius"]
    return None


def depth_float(spec, p):
    """float estimate of the depth the certificates can prove for p (max of the two routes)"""
    d = para_depth({k: v for k, v in spec.items() if k != "margin"}, p)
    r = last_ball_radius(spec)
    if r is not None:
        cd = core_dist(spec, p)
        if cd is not None:
            d = max(d, r - cd)
    return d


# ----------------------------------------------------------------------------- deep witnesses (Coq `deepw`)
def shrink_spec(spec, by):
    s = dict(spec)
    if "margin" in s:
        s["margin"] = s["margin"] - by
        return s if s["margin"] >= 0 else None
    if s["kind"] in ("sphere", "capsule"):
        s["radius"] = s["radius"] - by
        return s if s["radius"] >= 0 else None
    return None


def dball_expr(spec, p, delta, sigma):
    """`DBall w sigma` : Deep.deep_cert route (witness for the shape with its last ball shrunk by delta+sigma)"""
    r = last_ball_radius(spec)
    if r is None:
        return None
    by = float(F(delta) + F(sigma))
    s2 = shrink_spec(spec, by)
    if s2 is None or F(r) < F(delta) + F(sigma):
        return None
    try:
        w = nw.wit_expr(s2, [float(x) for x in p])
    except Exception:  # noqa
        return None
    return f"(DBall {w} {q(sigma)})"


def dpara_expr(spec, p, delta, rho=None):
    """`DPara [8 witnesses] w1 w2 w3` with w_k = rho * frame axis, corners exact."""
    p = Fv(p)
    rho = F(float(delta) * (1 + 1e-9)) if rho is None else F(rho)
    core = {k: v for k, v in spec.items() if k != "margin"}
    W = [fscale(rho, a) for a in frame_of(core)]
    wits = []
    for s in SIGNS:
        tgt = fadd(p, fadd(fscale(Fr(s[0]), W[0]), fadd(fscale(Fr(s[1]), W[1]), fscale(Fr(s[2]), W[2]))))
        w = exact_wit(spec, tgt)
        if w is None:
            return None
        wits.append(emit_parts(w))
    return "(DPara [" + "; ".join(wits) + f"] {vq(W[0])} {vq(W[1])} {vq(W[2])})"


def deep_exprs(spec, p, delta, sigma):
    """candidate deep witnesses for p in spec, most promising first"""
    out = []
    r = last_ball_radius(spec)
    cd = core_dist(spec, p) if r is not None else None
    if r is not None and cd is not None and r - cd >= float(delta) + 2 * float(sigma):
        e = dball_expr(spec, p, delta, sigma)
        if e:
            out.append(e)
    core = {k: v for k, v in spec.items() if k != "margin"}
    if core["kind"] not in ("disk", "ellipse") and para_depth(core, p) >= float(delta) * (1 + 2e-9):
        e = dpara_expr(spec, p, delta)
        if e:
            out.append(e)
    return out


def overlap_expr(s1, s2, p, delta, sigma):
    """Coq boolean: the ball of radius delta around p lies in both colliders; None if no witness was found"""
    A, B = nw.sh_expr(s1), nw.sh_expr(s2)
    da, db = deep_exprs(s1, p, delta, sigma), deep_exprs(s2, p, delta, sigma)
    if not da or not db:
        return None
    return f"overlap_cert {A} {B} {da[0]} {db[0]} {vq(Fv(p))} {q(delta)}"


def gap_expr(s1, s2, n, delta):
    return f"gap_cert {nw.sh_expr(s1)} {nw.sh_expr(s2)} {vq(Fv(n))} {q(delta)}"


# ----------------------------------------------------------------------------- construction of pairs
def delta_of(L):
    return Fr(DELTA_K) * Fr(float(L))


def point_at_depth(spec, u, depth):
    """a point of the collider whose certifiable depth is ~`depth`, on the ray from the support point
    along u towards the centre (for a last ball big enough: on the inward normal).  None if the collider is too small."""
    u = np.array(u, float)
    r = last_ball_radius(spec)
    s = nw.support_point(spec, u)
    if r is not None and r >= depth * 1.05:
        return s - depth * u
    c = nw.center_of(spec)
    if spec["kind"] == "cone":       # centre of the cone is its base centre: move to the centroid
        T = np.array(spec["pose"], float)
        c = c + 0.25 * spec["height"] * T[:3, 2]
    if depth_float(spec, c) < depth:
        return None
    lo, hi = 0.0, 1.0
    for _ in range(50):
        mid = 0.5 * (lo + hi)
        if depth_float(spec, s + mid * (c - s)) >= depth:
            hi = mid
        else:
            lo = mid
    return s + hi * (c - s)


def construct_overlap(rng, k1, k2, kdepth, stream="moderate", margin_prob=0.15):
    """a pair sharing a point p whose certifiable depth in both is ~ kdepth * delta.  Returns (s1, s2, meta) or None."""
    s1 = nw.gen_collider(rng, k1, stream, spread=3.0, margin_prob=margin_prob)
    s2 = nw.gen_collider(rng, k2, stream, spread=3.0, margin_prob=margin_prob)
    u = nw.rand_unit(rng, stream if stream == "lattice" else "random")
    L = nw.scene_scale([s1, s2])
    s2t, p = None, None
    for _ in range(3):
        dl = float(delta_of(L))
        pa = point_at_depth(s1, u, kdepth * dl * 1.02 + 2 * SIGMA_K * L)
        pb = point_at_depth(s2, -u, kdepth * dl * 1.02 + 2 * SIGMA_K * L)
        if pa is None or pb is None:
            return None
        s2t = nw.translate_spec(s2, pa - pb)
        p = pa
        L2 = nw.scene_scale([s1, s2t])
        if abs(L2 - L) < 1e-9 * L:
            break
        L = L2
    L = nw.scene_scale([s1, s2t])
    meta = dict(stream="overlap", kinds=[k1, k2], kdepth=kdepth, dir=u.tolist(), p=[float(x) for x in p], L=L,
                sub=stream)
    return s1, s2t, meta


def construct_gap(rng, k1, k2, kgap, stream="moderate", margin_prob=0.15, abs_gap=None):
    s1 = nw.gen_collider(rng, k1, stream, spread=3.0, margin_prob=margin_prob)
    s2 = nw.gen_collider(rng, k2, stream, spread=3.0, margin_prob=margin_prob)
    u = nw.rand_unit(rng, stream if stream == "lattice" else "random")
    L = nw.scene_scale([s1, s2])
    s2t = s2
    sa, sb = nw.support_point(s1, u), nw.support_point(s2, -u)
    for _ in range(3):
        g = (kgap * float(delta_of(L)) * 1.02) if abs_gap is None else abs_gap
        # the two support points face each other at distance g along u: the true distance IS g
        # (u separates with plane gap g, and the two support points are g apart)
        s2t = nw.translate_spec(s2, sa + g * u - sb)
        L2 = nw.scene_scale([s1, s2t])
        if abs(L2 - L) < 1e-9 * L:
            break
        L = L2
    L = nw.scene_scale([s1, s2t])
    meta = dict(stream="gap", kinds=[k1, k2], kgap=kgap, dir=u.tolist(), L=L, sub=stream)
    if abs_gap is not None:
        meta.update(stream="touch", gap=abs_gap)
    return s1, s2t, meta


def candidate_points(s1, s2, jolt=None):
    """candidate common interior points of an overlapping pair (floats)"""
    c1, c2 = nw.center_of(s1), nw.center_of(s2)
    cands = [c1, c2, 0.5 * (c1 + c2)]
    for s in (s1, s2):
        if s["kind"] == "cone":
            T = np.array(s["pose"], float)
            cands.append(nw.center_of(s) + 0.25 * s["height"] * T[:3, 2])
    d = c2 - c1
    n = float(np.linalg.norm(d))
    if n > 0:
        u = d / n
        a = nw.support_point(s1, u)
        b = nw.support_point(s2, -u)
        cands.append(0.5 * (a + b))
    if jolt is not None and jolt.get("a") is not None:
        cands.append(0.5 * (np.array(jolt["a"]) + np.array(jolt["b"])))
    return cands


def best_common_point(s1, s2, jolt=None):
    best, bd = None, -1.0
    for c in candidate_points(s1, s2, jolt):
        d = min(depth_float(s1, c), depth_float(s2, c))
        if d > bd:
            best, bd = c, d
    return best, bd


# ----------------------------------------------------------------------------- running the workers
def warm(pid, script="narrowb"):
    """Compile every numba kernel the narrow-phase ops need once, in ONE process and without per-call alarm, so that
    the parallel workers load them from the on-disk cache (the first call after any change of /repo recompiles;
    that must not be mistaken for a hang)."""
    import random
    from . import common as cm
    rng = random.Random(12345)
    pairs = [("sphere", "capsule"), ("box", "ellipsoid"), ("cylinder", "cone"), ("disk", "ellipse"), ("mesh", "hull"),
             ("box", "box"), ("mesh", "mesh")]
    cases = []
    for k1, k2 in pairs:
        for gap in (0.5, -0.2):
            s1 = nw.gen_collider(rng, k1, "lattice", margin_prob=0.0)
            s2 = nw.gen_collider(rng, k2, "lattice", margin_prob=0.0)
            if k1 == "mesh" and k2 == "mesh":
                s2["margin"] = 0.25
            u = nw.rand_unit(rng, "random")
            s2 = nw.translate_spec(s2, nw.support_point(s1, u) + gap * u - nw.support_point(s2, -u))
            if script == "narrowb":
                fns = ["gjk_jolt", "original_full", "b_jolt", "b_libccd", "b_mpr", "mpr_pen_full", "epa_full", "jolt_iterations"]
                ops = [dict(fn=f, timeout=900) for f in fns]
                ops += [dict(fn="nesterov_full", kw=dict(use_nesterov_acceleration=a), timeout=900) for a in (False, True)]
                if k1 in nw.PRIMS and k2 in nw.PRIMS:
                    ops += [dict(fn="nesterov_prim_full", kw=dict(use_nesterov_acceleration=a), timeout=900) for a in (False, True)]
            else:
                fns = ["gjk_jolt", "gjk_original", "isect_jolt", "isect_libccd", "isect_mpr", "isect_nesterov", "mpr_pen", "epa"]
                ops = [dict(fn=f, timeout=900) for f in fns]
                if k1 in nw.PRIMS and k2 in nw.PRIMS:
                    ops.append(dict(fn="isect_nesterov_prim", timeout=900))
            cases.append(dict(c1=s1, c2=s2, ops=ops))
    r = cm.run_impl(pid, script, dict(cases=cases), timeout=2400, tag="warm")
    return r["status"]


def _is_hang(r):
    """a result that may be an artefact of the machine rather than of /repo's code: per-call timeout, dead worker, or a
    numba on-disk cache race between worker processes (first run after a change of /repo)"""
    if r.get("exc") == "TIMEOUT" or str(r.get("exc", "")).startswith("PROCESS-"):
        return True
    return "exc" in r and ("numba/core/caching.py" in r.get("tb", "") or "no compiled object yet" in r.get("exc_msg", ""))


def run_cases(pid, cases, tag="implb", timeout=1500, jit=True, per_worker_min=4, script="narrowb", retry_timeout=120):
    """like narrow.run_cases, for harness/impl/narrowb.py (cases may also be dict(scene=...)).  A per-call TIMEOUT or a
    dead worker is CONFIRMED by re-running that case alone with a `retry_timeout` s alarm before it is reported
    (machine load must not produce a false hang); confirmed results carry retried=True."""
    from . import common as cm
    nwk = min(cm.NCPU, max(1, len(cases) // per_worker_min))
    chunks = [cases[i::nwk] for i in range(nwk)]
    res = cm.run_impl_parallel(pid, script, [dict(cases=c) for c in chunks], timeout=timeout, jit=jit, tag=tag)
    out = [None] * len(cases)

    def dead(c, s):
        ops = c.get("ops") or [dict(fn="self_collision")]
        return [dict(fn=o["fn"], exc=f"PROCESS-{s['status'].upper()}", exc_msg=f"rc={s.get('rc')} {s.get('log', '')[-200:]}",
                     support_calls=0) for o in ops]
    for w, (rr, ch) in enumerate(zip(res, chunks)):
        idxs = list(range(w, len(cases), nwk))
        if rr["status"] == "ok":
            for i, x in zip(idxs, rr["result"]["results"]):
                out[i] = x
        else:
            singles = cm.run_impl_parallel(pid, script, [dict(cases=[c]) for c in ch], timeout=240, jit=jit, tag=tag + "_iso")
            for i, s, c in zip(idxs, singles, ch):
                out[i] = s["result"]["results"][0] if s["status"] == "ok" else dead(c, s)
    # confirm hangs
    suspects = [i for i, rr in enumerate(out) if any(_is_hang(r) for r in rr)]
    if suspects:
        redo = []
        for i in suspects[:64]:
            c = json_copy(cases[i])
            if "scene" in c:
                c["scene"]["timeout"] = retry_timeout
            for o in c.get("ops", []):
                o["timeout"] = retry_timeout
            redo.append(c)
        singles = []
        for k in range(0, len(redo), 4):       # few at a time: the point is to take machine load out of the picture
            singles += cm.run_impl_parallel(pid, script, [dict(cases=[c]) for c in redo[k:k + 4]],
                                            timeout=retry_timeout * 14 + 120, jit=jit, tag=tag + "_retry")
        for i, s, c in zip(suspects[:64], singles, redo):
            new = s["result"]["results"][0] if s["status"] == "ok" else dead(c, s)
            for r in new:
                r["retried"] = True
            out[i] = new
    return out


def json_copy(x):
    import json
    return json.loads(json.dumps(x))


# ----------------------------------------------------------------------------- extreme colliders (C09, C19)
def aspect_collider(rng, kind):
    """aspect ratios up to 1e4: sizes from {1e-2, 1e2} mixed inside one collider (needles, plates)"""
    s = nw.gen_collider(rng, kind, rng.choice(["random", "lattice"]), spread=5.0, margin_prob=0.1)
    lo, hi = 1e-2, 1e2
    pick = lambda: rng.choice([lo, hi, 10 ** rng.uniform(-2, 2)])  # noqa
    if kind == "ellipsoid":
        s["radii"] = rng.choice([[lo, hi, hi], [lo, lo, hi], [hi, lo, pick()]])
    elif kind == "capsule":
        s["radius"], s["height"] = rng.choice([(lo, hi), (hi, lo)])
    elif kind == "cylinder":
        s["radius"], s["length"] = rng.choice([(lo, hi), (hi, lo)])
    elif kind == "cone":
        s["radius"], s["height"] = rng.choice([(lo, hi), (hi, lo)])
    elif kind == "box":
        s["size"] = rng.choice([[lo, hi, hi], [lo, lo, hi], [hi, lo, pick()]])
    elif kind == "ellipse":
        s["radii"] = rng.choice([[lo, hi], [hi, lo]])
    elif kind in ("sphere", "disk"):
        s["radius"] = rng.choice([lo, hi])
    elif kind in ("mesh", "hull"):
        sc = np.array(rng.choice([[lo, hi, hi], [lo, lo, hi], [hi, lo, 1.0]])) / 1.0
        n = rng.choice([6, 8, 12, 20])
        pts = []
        for _ in range(n):
            v = np.array([rng.gauss(0, 1) for _ in range(3)])
            v = v / np.linalg.norm(v) * sc * 0.5
            pts.append(v.tolist())
        s["vertices"] = pts
    if "margin" in s:
        s["margin"] = rng.choice([lo, 0.125])
    return s


def flat_collider(rng):
    """zero-volume colliders: single vertex, segment, planar hull, disk, ellipse"""
    k = rng.choice(["vertex", "segment", "triangle", "planar", "disk", "ellipse"])
    st = rng.choice(["lattice", "random"])
    if k in ("disk", "ellipse"):
        return nw.gen_collider(rng, k, st, spread=3.0, margin_prob=0.0)
    c = np.array(nw.rand_center(rng, st, 3.0))
    R = nw.rand_rotation(rng, st)
    sz = nw.rand_size(rng, st if st == "lattice" else "moderate")
    if k == "vertex":
        P = [[0, 0, 0]]
    elif k == "segment":
        P = [[-1, 0, 0], [1, 0, 0]]
    elif k == "triangle":
        P = [[-1, -1, 0], [1, -1, 0], [0, 1, 0]]
    else:
        P = [[-1, -1, 0], [1, -1, 0], [1, 1, 0], [-1, 1, 0], [0, 0, 0]]
    V = (sz * np.array(P, float)) @ R.T + c
    return dict(kind="hull", vertices=V.tolist(), flat=k)


def load_case(path):
    """a corpus / replay file: {"case": {...}} or the case itself"""
    import json
    d = json.loads(open(path).read())
    c = d.get("case", d)
    c.setdefault("meta", {})
    return c


def bigmesh_pair(rng):
    """F-M1's witness class: a MESH with large coordinates (radius 10..100) and a small collider in front of the
    middle of one of its faces, so that the GJK search direction becomes that face's normal up to rounding and
    several mesh vertices are equally extreme (mesh hill climbing)."""
    from scipy.spatial import ConvexHull
    R = nw.rand_rotation(rng, rng.choice(["random", "lattice"]))
    c = nw.rand_center(rng, "random", 5.0)
    size = rng.choice([10.0, 30.0, 70.0, 100.0])
    n = rng.choice([4, 4, 6, 8, 12])
    if rng.random() < 0.3:
        pts = [[size * a, size * b, size * cc] for a in (-0.5, 0.5) for b in (-0.5, 0.5) for cc in (-0.5, 0.5)]
    else:
        pts = []
        for _ in range(n):
            v = np.array([rng.gauss(0, 1) for _ in range(3)])
            pts.append((v / np.linalg.norm(v) * size * rng.uniform(0.6, 1.0)).tolist())
    s1 = dict(kind="mesh", pose=nw.pose_of(R, c), vertices=pts)
    if rng.random() < 0.2:
        s1["margin"] = rng.choice([0.125, 0.5])
    W = np.array(pts) @ np.array(R).T + np.array(c)
    try:
        hull = ConvexHull(W)
    except Exception:  # noqa
        return None
    f = rng.randrange(len(hull.simplices))
    tri = W[hull.simplices[f]]
    nrm = hull.equations[f][:3]
    wts = rng.choice([[1 / 3, 1 / 3, 1 / 3], [0.5, 0.5, 0.0], [0.6, 0.3, 0.1], [1.0, 0.0, 0.0]])
    q = sum(w * v for w, v in zip(wts, tri))
    k2 = rng.choice(nw.KINDS)
    s2 = nw.gen_collider(rng, k2, "moderate", spread=1.0, margin_prob=0.1,
                         sizes=[0.02, 0.1, 0.5, 1.5] if rng.random() < 0.7 else None)
    g = rng.choice([0.5, 0.1, 1e-3, 1e-6, 0.0, -1e-3, -0.1]) + s1.get("margin", 0.0)
    s2 = nw.translate_spec(s2, q + g * nrm - nw.support_point(s2, -nrm))
    meta = dict(stream="bigmesh", kinds=["mesh", k2], gap=g, dir=nrm.tolist())
    if rng.random() < 0.5:
        return s2, s1, dict(meta, kinds=[k2, "mesh"])
    return s1, s2, meta


# ----------------------------------------------------------------------------- statement coverage of the implementation
COV_FILES = ("gjk/_gjk_jolt.py", "gjk/_gjk_libccd.py", "gjk/_gjk_original.py", "gjk/_gjk_nesterov_accelerated.py",
             "gjk/_gjk_nesterov_accelerated_primitives.py", "mpr.py", "epa.py")


def _executable_lines(path):
    """line numbers of the statements inside function bodies (docstrings and def lines excluded)"""
    import ast
    tree = ast.parse(open(path).read())
    lines = set()
    for fn in ast.walk(tree):
        if isinstance(fn, (ast.FunctionDef,)):
            body = fn.body
            if body and isinstance(body[0], ast.Expr) and isinstance(getattr(body[0], "value", None), ast.Constant) \
                    and isinstance(body[0].value.value, str):
                body = body[1:]
            for st in body:
                for node in ast.walk(st):
                    if isinstance(node, ast.stmt) and not isinstance(node, (ast.FunctionDef, ast.ClassDef)):
                        lines.add(node.lineno)
    return lines


def statement_coverage(pid, cases, n=64, workers=8):
    """Run `n` of the cases with NUMBA_DISABLE_JIT=1 under sys.settrace (harness/impl/narrowbcov.py) and report the
    statement coverage of /repo's narrow-phase modules reached by the generators."""
    from . import common as cm
    step = max(1, len(cases) // max(1, n // 2))
    pick = [i for i in range(0, len(cases), step) if "scene" not in cases[i]][: n // 2]
    # plus unwrapped primitive pairs (the jitted *_primitives loop is only observable from outside when interpreted)
    prim = [i for i, c in enumerate(cases) if "scene" not in c and i not in set(pick)
            and c["c1"]["kind"] in nw.PRIMS and c["c2"]["kind"] in nw.PRIMS and "margin" not in c["c1"] and "margin" not in c["c2"]]
    pick += prim[:: max(1, len(prim) // max(1, n - len(pick)))][: n - len(pick)]
    sel = [dict(c1=cases[i]["c1"], c2=cases[i]["c2"], ops=cases[i]["ops"], idx=i,
                same_object=cases[i].get("same_object", False)) for i in pick]
    if not sel:
        return {}
    workers = min(workers, len(sel))
    res = cm.run_impl_parallel(pid, "narrowbcov", [dict(cases=sel[i::workers]) for i in range(workers)], timeout=1500,
                               jit=False, tag="cov")
    hits = {}
    calls = 0
    excs = []
    for r in res:
        if r["status"] != "ok":
            continue
        calls += r["result"]["calls"]
        excs += r["result"].get("exceptions", [])
        for k, v in r["result"]["hits"].items():
            hits.setdefault(k, set()).update(v)
    out = dict(calls=calls, cases=len(sel), interpreted_exceptions=excs)
    for f in COV_FILES:
        ex = _executable_lines(cm.REPO / "distance3d" / f)
        got = hits.get(f, set()) & ex
        missed = sorted(ex - got)
        out[f] = dict(statements=len(ex), executed=len(got), percent=round(100.0 * len(got) / max(1, len(ex)), 1),
                      never_executed_lines=missed[:40])
    return out


def lattice_box_pair(rng, overlap=True):
    """axis-aligned (or axis-permuted) polytopes with sizes and offsets on a 0.25 grid: boxes, cube meshes, cube hulls - many
    collinear / coplanar Minkowski-difference vertices (EPA zero-area faces, exactly degenerate GJK simplices)"""
    def poly(kind, size, pos, R):
        if kind == "box":
            return dict(kind="box", pose=nw.pose_of(R, pos), size=list(size))
        pts = [[0.5 * size[0] * a, 0.5 * size[1] * b, 0.5 * size[2] * c] for a in (-1, 1) for b in (-1, 1) for c in (-1, 1)]
        if kind == "mesh":
            return dict(kind="mesh", pose=nw.pose_of(R, pos), vertices=pts)
        return dict(kind="hull", vertices=(np.array(pts) @ np.array(R).T + np.array(pos)).tolist())
    grid = [0.25 * k for k in range(-12, 13)]
    sizes = [0.5, 1.0, 1.0, 2.0, 2.0, 4.0]
    k1 = rng.choice(["box", "box", "box", "mesh", "hull"])
    k2 = rng.choice(["box", "box", "box", "mesh", "hull"])
    s1 = [rng.choice(sizes) for _ in range(3)]
    s2 = [rng.choice(sizes) for _ in range(3)]
    R1 = nw.AXIS_PERMS[rng.randrange(len(nw.AXIS_PERMS))] if rng.random() < 0.3 else np.eye(3)
    R2 = nw.AXIS_PERMS[rng.randrange(len(nw.AXIS_PERMS))] if rng.random() < 0.3 else np.eye(3)
    p1 = [rng.choice([0.0, 0.0, 0.5, -1.0, 2.0]) for _ in range(3)]
    e1 = np.abs(R1) @ np.array(s1) / 2
    e2 = np.abs(R2) @ np.array(s2) / 2
    for _ in range(50):
        off = np.array([rng.choice(grid) for _ in range(3)])
        pen = (e1 + e2) - np.abs(off)             # > 0 on every axis: boxes overlap
        if overlap is True and np.all(pen > 0):
            break
        if overlap is False and np.any(pen < 0):
            break
        if overlap is None:
            break
    p2 = (np.array(p1) + off).tolist()
    a, b = poly(k1, s1, p1, R1), poly(k2, s2, p2, R2)
    return a, b, dict(stream="lattice_boxes", kinds=[k1, k2], overlap=bool(np.all((e1 + e2) - np.abs(off) > 0)))


def bigface_pair(rng):
    """A small smooth collider in front of the INTERIOR of a face of a big vertex hull / mesh (4-12 vertices, radius 5-40) at
    a true distance of 1..20: GJK converges with a 3-point simplex on that face and the next support point does not improve
    (flat 4-point simplex) - the class of finding F-O1 (gjk_distance_original) and of the gjk_distance_jolt deviations."""
    from scipy.spatial import ConvexHull
    nv = rng.choice([4, 5, 6, 8, 12])
    size = rng.choice([5.0, 10.0, 20.0, 40.0])
    pts = []
    for _ in range(nv):
        v = np.array([rng.gauss(0, 1) for _ in range(3)])
        pts.append(v / np.linalg.norm(v) * size * rng.uniform(0.6, 1.0))
    Wv = np.array(pts) + np.array([rng.uniform(-5, 5) for _ in range(3)])
    try:
        hull = ConvexHull(Wv)
    except Exception:  # noqa
        return None
    f = rng.randrange(len(hull.simplices))
    tri = Wv[hull.simplices[f]]
    nrm = hull.equations[f][:3]
    w = np.array([rng.random() + 0.1 for _ in range(3)])
    w /= w.sum()
    q = w @ tri
    k1 = rng.choice(["cone", "cylinder", "ellipsoid", "capsule", "sphere", "disk", "ellipse"])
    s1 = nw.gen_collider(rng, k1, "random", spread=0.0, margin_prob=0.0, sizes=[10 ** rng.uniform(-1.3, 0.0) for _ in range(4)])
    g = rng.choice([1.0, 3.0, 9.0, 20.0])
    s1 = nw.translate_spec(s1, q + g * nrm - nw.support_point(s1, -nrm))
    if rng.random() < 0.7:
        s2 = dict(kind="hull", vertices=Wv.tolist())
        k2 = "hull"
    else:
        c = Wv.mean(axis=0)
        s2 = dict(kind="mesh", pose=nw.pose_of(np.eye(3), c.tolist()), vertices=(Wv - c).tolist())
        k2 = "mesh"
    meta = dict(stream="bigface", kinds=[k1, k2], gap=g, dir=(-nrm).tolist())
    if rng.random() < 0.5:
        return s2, s1, dict(meta, kinds=[k2, k1], dir=nrm.tolist())
    return s1, s2, meta


def flat_ellipsoid_prim_pair(rng):
    """an unwrapped primitive pair with a very flat ellipsoid (one radius 0.01..0.04, the others 0.2..1) and a sphere /
    capsule / ellipsoid of size 0.2..1, both placed in a box of side 3 (near, touching or overlapping): the class in which
    the accelerated Nesterov loop leaves its accelerated phase through the convergence check with a full simplex"""
    s1 = nw.gen_collider(rng, "ellipsoid", "random", spread=1.5, margin_prob=0.0)
    rr = [10 ** rng.uniform(-2, -1.4), rng.uniform(0.2, 1.0), rng.uniform(0.2, 1.0)]
    rng.shuffle(rr)
    s1["radii"] = rr
    k2 = rng.choice(["capsule", "sphere", "ellipsoid"])
    s2 = nw.gen_collider(rng, k2, "random", spread=1.5, margin_prob=0.0, sizes=[rng.uniform(0.2, 1.0) for _ in range(4)])
    if k2 == "ellipsoid" and rng.random() < 0.5:
        r2 = [10 ** rng.uniform(-2, -1.4), rng.uniform(0.2, 1.0), rng.uniform(0.2, 1.0)]
        rng.shuffle(r2)
        s2["radii"] = r2
    meta = dict(stream="flat_ellipsoid_prims", kinds=["ellipsoid", k2])
    if rng.random() < 0.5:
        return s2, s1, dict(meta, kinds=[k2, "ellipsoid"])
    return s1, s2, meta


def moved_lattice_pair(rng):
    """A lattice scene under a random rigid motion (class of finding F-N3): two colliders with lattice sizes, poses and centres
    (harness/narrow.py's "lattice" stream; mostly a cube mesh / hull / box against a flat ellipse / disk), placed at a plane
    gap of +-1e-6 / +-1e-3 / 0 / 1e-9 / 0.1 along a lattice direction, then BOTH moved by one random rotation and a translation
    of up to 25.  The Minkowski difference keeps its big flat faces, parallel edges and (nearly) coplanar support points, but
    none of the exact zeros of the unmoved scene survives: GJK's 4-point simplices are almost flat with the origin within
    1e-6 of their plane, and the sign tests of the simplex projections are decided by the last bits."""
    poly = ["mesh", "hull", "box"]
    other = ["ellipse", "disk", "cylinder", "cone", "box", "mesh", "hull", "capsule", "ellipsoid", "sphere"]
    k1 = rng.choice(poly)
    k2 = rng.choice(["ellipse", "disk"]) if rng.random() < 0.6 else rng.choice(other)
    if rng.random() < 0.5:
        k1, k2 = k2, k1
    s1 = nw.gen_collider(rng, k1, "lattice", margin_prob=0.0)
    s2 = nw.gen_collider(rng, k2, "lattice", margin_prob=0.0)
    u = nw.rand_unit(rng, "lattice")
    g = rng.choice([1e-6, -1e-6, 1e-6, -1e-6, 1e-3, -1e-3, 0.1, 0.0, 1e-9])
    s2 = nw.translate_spec(s2, (g + nw.support_value(s1, u) + nw.support_value(s2, -u)) * u)
    Rm = nw.rand_rotation(rng, "random")
    t = np.array([rng.uniform(-25.0, 25.0) for _ in range(3)])
    m1, m2 = nw.transform_spec(s1, Rm, t, 1.0), nw.transform_spec(s2, Rm, t, 1.0)
    # no "gap"/"dir" in meta: the plane gap is not the distance, and the construction's support points are no witnesses
    return m1, m2, dict(stream="moved_lattice", kinds=[k1, k2], plane_gap=g, plane_dir=(np.array(Rm) @ np.array(u)).tolist())


def coq_eval_retry(pid, header, exprs, tag, per_file, rebuild, timeout=1500):
    """cm.coq_eval_lines; if another build replaced a dependency between our build and this evaluation
    ("inconsistent assumptions"), rebuild the given targets once and retry"""
    from . import common as cm
    try:
        return cm.coq_eval_lines(pid, header, exprs, tag=tag, per_file=per_file, timeout=timeout)
    except RuntimeError as e:
        if "inconsistent assumptions" not in str(e):
            raise
        cm.coq_build(rebuild)
        return cm.coq_eval_lines(pid, header, exprs, tag=tag, per_file=per_file, timeout=timeout)


_SYM_AXES = [(1.0, 1.0, 0.0), (1.0, 0.0, 1.0), (0.0, 1.0, 1.0), (1.0, 1.0, 1.0), (1.0, -1.0, 0.0), (0.0, 0.0, 1.0), (1.0, 0.0, 0.0)]
_SYM_ANGLES = [60.0, 120.0, 45.0, 30.0, 90.0, 180.0, 36.0]


def symmetric_polytope_pair(rng):
    """two overlapping boxes / cube hulls / cube meshes in a SYMMETRIC relative pose: concentric or at an offset on a 0.25 grid,
    one of them rotated by 30/36/45/60/90/120/180 degrees about an axis, face diagonal or space diagonal.  In such placements
    several faces of EPA's polytope are visible from a new support point at once and in every order of the face array (class
    of the seeded change C19-3: the face swapped into a freed slot must be re-examined); on the unchanged code EPA converges."""
    def rot(axis, deg):
        a = np.array(axis, float)
        a /= np.linalg.norm(a)
        K = np.array([[0.0, -a[2], a[1]], [a[2], 0.0, -a[0]], [-a[1], a[0], 0.0]])
        t = math.radians(deg)
        return np.eye(3) + math.sin(t) * K + (1.0 - math.cos(t)) * (K @ K)

    def poly(kind, size, pos, R):
        if kind == "box":
            return dict(kind="box", pose=nw.pose_of(R, pos), size=list(size))
        pts = [[0.5 * size[0] * a, 0.5 * size[1] * b, 0.5 * size[2] * c] for a in (-1, 1) for b in (-1, 1) for c in (-1, 1)]
        if kind == "mesh":
            return dict(kind="mesh", pose=nw.pose_of(R, pos), vertices=pts)
        return dict(kind="hull", vertices=(np.array(pts) @ np.array(R).T + np.array(pos)).tolist())
    k1 = rng.choice(["hull", "box", "box", "mesh"])
    k2 = rng.choice(["hull", "box", "box", "mesh"])
    if rng.random() < 0.5:
        s1 = [1.0, 1.0, 1.0]
        s2 = [rng.choice([1.0, 1.0, 0.5, 2.0])] * 3
    else:
        s1 = [rng.choice([0.5, 1.0, 2.0]) for _ in range(3)]
        s2 = list(s1) if rng.random() < 0.5 else [rng.choice([0.5, 1.0, 2.0]) for _ in range(3)]
    R1 = np.eye(3) if rng.random() < 0.7 else rot(rng.choice(_SYM_AXES), rng.choice(_SYM_ANGLES))
    R2 = rot(rng.choice(_SYM_AXES), rng.choice(_SYM_ANGLES))
    p1 = [rng.choice([0.0, 0.0, 0.5, -1.0]) for _ in range(3)]
    lim = 0.5 * min(min(s1), min(s2))
    off = [0.0, 0.0, 0.0] if rng.random() < 0.3 else [rng.choice([0.0, 0.0, 0.25, -0.25, 0.125]) for _ in range(3)]
    off = [max(-lim, min(lim, o)) for o in off]
    a = poly(k1, s1, p1, R1)
    b = poly(k2, s2, (np.array(p1) + np.array(off)).tolist(), R2)
    return a, b, dict(stream="symmetric_polytopes", kinds=[k1, k2])
