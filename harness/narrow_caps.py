"""Fail-closed `ast` reader of the iteration caps and loop shapes of the narrow-phase entry points
of /repo  ->  coq/theories/Gen/NarrowCaps.v  (regenerated on every run of C19).

What is read and PINNED (any deviation raises CapsError, the dependent theorem Props/C19.v
capped_loops_bounded is then reported broken instead of being checked against stale numbers):
* the default arguments that cap a loop, and the comparison operator of every cap test;
* the number of collider support EVALUATIONS one pass of each loop makes, counted by walking the loop body
  AND the bodies of the module-level functions it calls (both syntactic forms: `x.support_function(d)` = 1
  evaluation, `support_function(c1, c2, d)` of distance3d.minkowski = the 2 evaluations its body contains);
  the statements before / after the loop are counted the same way;
* the position of every counter increment: exactly one `k += 1` in the whole loop, a direct statement of the
  loop body (not under an `if`), at the pinned place (last statement, resp. directly before the cap test), and no
  other assignment to the counter inside the loop;
* for the Nesterov loops: every `continue` is guarded by `if use_nesterov_acceleration:` and preceded by
  `use_nesterov_acceleration = False`, and the flag is never switched on inside the loop;
* which loops have no cap at all.
Limits (stated in C19's level text): calls through objects other than `<expr>.support_function`, dynamically
bound names, and support evaluations hidden behind callables passed as data are not seen.
"""
import ast
from pathlib import Path


class CapsError(Exception):
    pass


def _fn(tree, name, path):
    for node in ast.walk(tree):
        if isinstance(node, ast.FunctionDef) and node.name == name:
            return node
    raise CapsError(f"{path}: function {name} not found")


def _funcs(tree):
    return {n.name: n for n in ast.walk(tree) if isinstance(n, ast.FunctionDef)}


def _default(fn, arg, path):
    args = fn.args.args
    defs = fn.args.defaults
    names = [a.arg for a in args]
    if arg not in names:
        raise CapsError(f"{path}:{fn.name}: no argument {arg}")
    i = names.index(arg) - (len(args) - len(defs))
    if i < 0:
        raise CapsError(f"{path}:{fn.name}: argument {arg} has no default")
    try:
        v = ast.literal_eval(defs[i])
    except Exception as e:  # noqa
        raise CapsError(f"{path}:{fn.name}: default of {arg} is not a literal ({e})")
    if not isinstance(v, int) or isinstance(v, bool) or v < 0:
        raise CapsError(f"{path}:{fn.name}: default of {arg} is {v!r}, expected a natural number")
    return v


def _loops(fn):
    return [n for n in ast.walk(fn) if isinstance(n, (ast.While, ast.For))]


def _is_while_true(loop):
    return isinstance(loop, ast.While) and isinstance(loop.test, ast.Constant) and loop.test.value is True


def _is_for_range(loop, var):
    return (isinstance(loop, ast.For) and isinstance(loop.iter, ast.Call) and isinstance(loop.iter.func, ast.Name)
            and loop.iter.func.id == "range" and len(loop.iter.args) == 1 and isinstance(loop.iter.args[0], ast.Name)
            and loop.iter.args[0].id == var)


def _compares_with(node, var):
    """all Compare nodes `x OP var` inside node -> list of (left name, op class name)"""
    out = []
    for c in ast.walk(node):
        if isinstance(c, ast.Compare) and len(c.ops) == 1 and isinstance(c.comparators[0], ast.Name) \
                and c.comparators[0].id == var and isinstance(c.left, ast.Name):
            out.append((c.left.id, type(c.ops[0]).__name__))
    return out


def _one(lst, what):
    if len(lst) != 1:
        raise CapsError(f"expected exactly one {what}, found {len(lst)}")
    return lst[0]


class Evals:
    """support evaluations made by executing a piece of code once (syntactic count through callees)"""

    def __init__(self, repo, path, tree):
        self.path = path
        self.funcs = _funcs(tree)
        self.imported_pair = None
        # `from .minkowski import ... support_function ...` / `from distance3d.minkowski import ...`
        for node in tree.body:
            if isinstance(node, ast.ImportFrom) and node.module and node.module.endswith("minkowski"):
                if any(a.name == "support_function" for a in node.names):
                    mp = Path(repo) / "distance3d" / "minkowski.py"
                    mt = ast.parse(mp.read_text())
                    f = _fn(mt, "support_function", mp)
                    if _loops(f):
                        raise CapsError(f"{mp}:support_function: unexpected loop")
                    n = sum(1 for c in ast.walk(f) if isinstance(c, ast.Call) and isinstance(c.func, ast.Attribute)
                            and c.func.attr == "support_function")
                    other = sum(1 for c in ast.walk(f) if isinstance(c, ast.Call) and isinstance(c.func, ast.Name)
                                and c.func.id == "support_function")
                    if n != 2 or other:
                        raise CapsError(f"{mp}:support_function: expected exactly two collider.support_function calls, found {n}")
                    self.imported_pair = n

    def entry_ok(self, fn, allowed):
        """an entry point / wrapper makes no support evaluation of its own: only through the functions in `allowed`"""
        for c in ast.walk(fn):
            if not isinstance(c, ast.Call):
                continue
            if isinstance(c.func, ast.Attribute) and c.func.attr == "support_function":
                raise CapsError(f"{self.path}:{fn.name}: direct support evaluation")
            if isinstance(c.func, ast.Name) and c.func.id not in allowed:
                nm = c.func.id
                if nm == "support_function" and nm not in self.funcs:
                    raise CapsError(f"{self.path}:{fn.name}: direct support evaluation")
                if nm in self.funcs and self.count(self.funcs[nm].body, (fn.name,), loops_ok=True):
                    raise CapsError(f"{self.path}:{fn.name}: support evaluations through {nm}")
        if _loops(fn):
            raise CapsError(f"{self.path}:{fn.name}: unexpected loop")

    def count(self, node, stack=(), loops_ok=False):
        """node: an AST node or a list of statements"""
        nodes = node if isinstance(node, list) else [node]
        total = 0
        for nd in nodes:
            for c in ast.walk(nd):
                if not isinstance(c, ast.Call):
                    continue
                if isinstance(c.func, ast.Attribute) and c.func.attr == "support_function":
                    total += 1
                elif isinstance(c.func, ast.Name):
                    nm = c.func.id
                    if nm in self.funcs:
                        if nm in stack:
                            raise CapsError(f"{self.path}: recursion through {nm}")
                        if len(stack) > 6:
                            raise CapsError(f"{self.path}: call chain too deep at {nm}")
                        f = self.funcs[nm]
                        sub = self.count(f.body, stack + (nm,), loops_ok)
                        if _loops(f) and sub and not loops_ok:
                            raise CapsError(f"{self.path}:{nm}: a callee with a loop makes support evaluations")
                        total += sub
                    elif nm == "support_function":
                        if self.imported_pair is None:
                            raise CapsError(f"{self.path}: support_function is neither defined here nor imported from minkowski")
                        total += self.imported_pair
        return total


def _main_loop_with_pure_fors(fn, ev, what):
    """the ONE `while` loop of fn.  Besides it only `for <k> in range(<expr>)` loops nested inside it are accepted, and only
    if they are inert for the bound: no support evaluation (direct or through a callee), no call at all except `range`,
    no nested loop, no break / continue / return, and no assignment to anything but subscript-free local names other
    than the loop counter `i`, `max_interations` and `use_nesterov_acceleration` (a finite pure scan, e.g. the comparison
    of the new support point with the rows of the simplex)."""
    loops = _loops(fn)
    whiles = [lp for lp in loops if isinstance(lp, ast.While)]
    main = _one(whiles, what)
    inside = {id(n) for n in ast.walk(main)}
    for lp in loops:
        if lp is main:
            continue
        if id(lp) not in inside:
            raise CapsError(f"{what}: a loop outside the main loop")
        if not (isinstance(lp, ast.For) and isinstance(lp.target, ast.Name) and lp.target.id not in ("i", "max_interations", "use_nesterov_acceleration")
                and isinstance(lp.iter, ast.Call) and isinstance(lp.iter.func, ast.Name) and lp.iter.func.id == "range" and not lp.orelse):
            raise CapsError(f"{what}: inner loop is not `for <k> in range(...)`")
        for n in ast.walk(lp):
            if n is lp:
                continue
            if isinstance(n, (ast.While, ast.For, ast.Break, ast.Continue, ast.Return, ast.Yield, ast.YieldFrom, ast.Raise)):
                raise CapsError(f"{what}: inner `for` loop contains {type(n).__name__}")
            if isinstance(n, ast.Call) and n is not lp.iter:
                raise CapsError(f"{what}: inner `for` loop makes a call")
            if isinstance(n, (ast.Assign, ast.AugAssign, ast.AnnAssign)):
                tg = n.targets if isinstance(n, ast.Assign) else [n.target]
                for t in tg:
                    if not isinstance(t, ast.Name) or t.id in ("i", "max_interations", "use_nesterov_acceleration", "simplex_len"):
                        raise CapsError(f"{what}: inner `for` loop assigns to something other than a scratch name")
        if any(isinstance(n, ast.Call) for a in lp.iter.args for n in ast.walk(a)):
            raise CapsError(f"{what}: inner `for` loop has a call in its range")
        if ev.count(lp.body):
            raise CapsError(f"{what}: inner `for` loop makes support evaluations")
    return main


def _pin_counter(loop, var, where, path, fname, before_test_of=None):
    """exactly one `var += 1` in the loop, a direct statement of the loop body at the pinned place; no other
    assignment to `var` inside the loop"""
    incs = [n for n in ast.walk(loop) if isinstance(n, ast.AugAssign) and isinstance(n.target, ast.Name) and n.target.id == var]
    others = [n for n in ast.walk(loop) if isinstance(n, (ast.Assign, ast.AnnAssign)) and
              any(isinstance(t, ast.Name) and t.id == var for t in (n.targets if isinstance(n, ast.Assign) else [n.target]))]
    if others:
        raise CapsError(f"{path}:{fname}: `{var}` is assigned inside the loop")
    inc = _one(incs, f"`{var} += 1` in the loop of {path}:{fname}")
    if not (isinstance(inc.op, ast.Add) and isinstance(inc.value, ast.Constant) and inc.value.value == 1):
        raise CapsError(f"{path}:{fname}: `{var}` is not incremented by 1")
    if inc not in loop.body:
        raise CapsError(f"{path}:{fname}: `{var} += 1` is not a direct statement of the loop body")
    k = loop.body.index(inc)
    if where == "last" and k != len(loop.body) - 1:
        raise CapsError(f"{path}:{fname}: `{var} += 1` is not the last statement of the loop body")
    if where == "before_cap_test":
        nxt = loop.body[k + 1] if k + 1 < len(loop.body) else None
        if not (isinstance(nxt, ast.If) and _compares_with(nxt.test, before_test_of)):
            raise CapsError(f"{path}:{fname}: `{var} += 1` is not directly followed by the cap test")
        if not any(isinstance(x, ast.Break) for x in nxt.body):
            raise CapsError(f"{path}:{fname}: the cap test does not break")
        if k + 1 != len(loop.body) - 1:
            raise CapsError(f"{path}:{fname}: statements after the cap test")
    return k


def read(repo):
    repo = Path(repo)
    d = {}
    # ---------------------------------------------------------------- libccd
    p = repo / "distance3d" / "gjk" / "_gjk_libccd.py"
    t = ast.parse(p.read_text())
    ev = Evals(repo, p, t)
    d["libccd_max_iterations"] = _default(_fn(t, "gjk_intersection_libccd", p), "max_iterations", p)
    g = _fn(t, "_gjk", p)
    loop = _one(_loops(g), f"loop in {p}:_gjk")
    if not _is_for_range(loop, "max_iterations"):
        raise CapsError(f"{p}:_gjk: loop is not `for _ in range(max_iterations)`")
    per = ev.count(loop.body)
    if per != 2 or ev.count(g.body) != per:
        raise CapsError(f"{p}:_gjk: expected 2 support evaluations per pass and none outside the loop, found {per} / {ev.count(g.body)}")
    d["libccd_pairs_per_pass"] = per // 2
    ev.entry_ok(_fn(t, "gjk_intersection_libccd", p), {"_gjk"})
    # ---------------------------------------------------------------- MPR
    p = repo / "distance3d" / "mpr.py"
    t = ast.parse(p.read_text())
    ev = Evals(repo, p, t)
    d["mpr_max_iterations"] = _default(_fn(t, "mpr_intersection", p), "max_iterations", p)
    d["mpr_pen_max_iterations"] = _default(_fn(t, "mpr_penetration", p), "max_iterations", p)
    disc = _fn(t, "_discover_portal", p)
    loop = _one(_loops(disc), f"loop in {p}:_discover_portal")
    if loop not in disc.body:
        raise CapsError(f"{p}:_discover_portal: the loop is nested")
    k = disc.body.index(loop)
    pre = ev.count(disc.body[:k])
    post = ev.count(disc.body[k + 1:])
    per = ev.count(loop.body)
    if pre % 2 or per != 2 or post:
        raise CapsError(f"{p}:_discover_portal: support evaluations before / per pass / after the loop = {pre} / {per} / {post}")
    d["mpr_discover_pre_pairs"] = pre // 2
    if not (isinstance(loop, ast.While) and isinstance(loop.test, ast.Compare)):
        raise CapsError(f"{p}:_discover_portal: loop is not `while portal.n_points < 4`")
    _pin_counter(loop, "it", "before_cap_test", p, "_discover_portal", before_test_of="max_iterations")
    cmp_ = _one(_compares_with(loop, "max_iterations"), f"cap test in {p}:_discover_portal")
    if cmp_[0] != "it" or cmp_[1] not in ("GtE", "Gt"):
        raise CapsError(f"{p}:_discover_portal: cap test is {cmp_}")
    d["mpr_discover_cap_is_ge"] = cmp_[1] == "GtE"
    # `it = 0` directly before the loop
    prev = disc.body[k - 1]
    if not (isinstance(prev, ast.Assign) and isinstance(prev.targets[0], ast.Name) and prev.targets[0].id == "it"
            and isinstance(prev.value, ast.Constant) and prev.value.value == 0):
        raise CapsError(f"{p}:_discover_portal: `it = 0` does not directly precede the loop")
    ref = _fn(t, "_refine_portal", p)
    loop = _one(_loops(ref), f"loop in {p}:_refine_portal")
    if not _is_while_true(loop) or ev.count(loop.body) != 2 or ev.count(ref.body) != 2:
        raise CapsError(f"{p}:_refine_portal: expected `while True` with 2 support evaluations per pass")
    d["mpr_refine_capped"] = bool(_compares_with(ref, "max_iterations"))
    pen = _fn(t, "_find_penetration_info", p)
    loop = _one(_loops(pen), f"loop in {p}:_find_penetration_info")
    if not _is_while_true(loop) or ev.count(loop.body) != 2 or ev.count(pen.body) != 2:
        raise CapsError(f"{p}:_find_penetration_info: expected `while True` with 2 support evaluations per pass")
    _pin_counter(loop, "iterations", "last", p, "_find_penetration_info")
    cmp_ = _one(_compares_with(loop, "max_iterations"), f"cap test in {p}:_find_penetration_info")
    if cmp_[0] != "iterations" or cmp_[1] not in ("GtE", "Gt"):
        raise CapsError(f"{p}:_find_penetration_info: cap test is {cmp_}")
    d["mpr_pen_cap_is_ge"] = cmp_[1] == "GtE"
    # the entry points make no support evaluation of their own (only through the three functions above)
    ev.entry_ok(_fn(t, "mpr_intersection", p), {"_discover_portal", "_refine_portal"})
    ev.entry_ok(_fn(t, "mpr_penetration", p), {"_discover_portal", "_refine_portal", "_find_penetration_info"})
    # ---------------------------------------------------------------- EPA
    p = repo / "distance3d" / "epa.py"
    t = ast.parse(p.read_text())
    ev = Evals(repo, p, t)
    e = _fn(t, "epa", p)
    for a in ("max_iter", "max_loose_edges", "max_faces"):
        d["epa_" + a] = _default(e, a, p)
    loop = _one(_loops(e), f"loop in {p}:epa")
    if not _is_for_range(loop, "max_iter"):
        raise CapsError(f"{p}:epa: loop is not `for iteration in range(max_iter)`")
    per = ev.count(loop.body)
    # methods of Polytope / LooseEdges are called through objects: make sure none of them evaluates supports
    for cls in [n for n in t.body if isinstance(n, ast.ClassDef)]:
        if ev.count(cls.body):
            raise CapsError(f"{p}:{cls.name}: a method makes support evaluations")
    if per != 2 or ev.count(e.body) != per:
        raise CapsError(f"{p}:epa: expected 2 support evaluations per pass and none outside the loop, found {per}")
    d["epa_evals_per_pass"] = per
    # ---------------------------------------------------------------- Nesterov (generic and primitives)
    for key, fname, func, expect_evals in (
            ("nesterov", "_gjk_nesterov_accelerated.py", "gjk_nesterov_accelerated", 2),
            ("nesterov_prim", "_gjk_nesterov_accelerated_primitives.py", "run_gjk_nesterov_accelerated", 0)):
        p = repo / "distance3d" / "gjk" / fname
        t = ast.parse(p.read_text())
        ev = Evals(repo, p, t)
        entry = _fn(t, "gjk_nesterov_accelerated" if key == "nesterov" else "gjk_nesterov_accelerated_primitives", p)
        d[key + "_max_interations"] = _default(entry, "max_interations", p)
        f = _fn(t, func, p)
        loop = _main_loop_with_pure_fors(f, ev, f"loop in {p}:{func}")
        if not (isinstance(loop, ast.While) and isinstance(loop.test, ast.Compare) and len(loop.test.ops) == 1
                and isinstance(loop.test.ops[0], ast.Lt) and isinstance(loop.test.left, ast.Name) and loop.test.left.id == "i"
                and isinstance(loop.test.comparators[0], ast.Name) and loop.test.comparators[0].id == "max_interations"):
            raise CapsError(f"{p}:{func}: loop is not `while i < max_interations`")
        # one call of the module's support_function per pass; its body makes `expect_evals` collider evaluations
        ncalls = sum(1 for c in ast.walk(loop) if isinstance(c, ast.Call) and isinstance(c.func, ast.Name) and c.func.id == "support_function")
        if ncalls != 1 or "support_function" not in ev.funcs:
            raise CapsError(f"{p}:{func}: expected exactly one call of this module's support_function per pass")
        per = ev.count(loop.body)
        if per != expect_evals or ev.count(f.body) != per:
            raise CapsError(f"{p}:{func}: {per} collider support evaluations per pass (expected {expect_evals}), or evaluations outside the loop")
        if entry is not f:
            ev.entry_ok(entry, {func})
        _pin_counter(loop, "i", "last", p, func)
        conts = 0
        for node in ast.walk(loop):
            if isinstance(node, ast.If):
                for body in (node.body, node.orelse):
                    for j, st in enumerate(body):
                        if isinstance(st, ast.Continue):
                            conts += 1
                            ok = any(isinstance(prev, ast.Assign) and isinstance(prev.targets[0], ast.Name)
                                     and prev.targets[0].id == "use_nesterov_acceleration"
                                     and isinstance(prev.value, ast.Constant) and prev.value.value is False
                                     for prev in body[:j])
                            if not ok:
                                raise CapsError(f"{p}:{func}: a `continue` that does not switch the acceleration off")
        if any(isinstance(st, ast.Continue) for st in loop.body):
            raise CapsError(f"{p}:{func}: an unconditional `continue`")
        guards = 0
        for node in ast.walk(loop):
            if isinstance(node, ast.If) and isinstance(node.test, ast.Name) and node.test.id == "use_nesterov_acceleration":
                guards += sum(1 for x in ast.walk(node) if isinstance(x, ast.Continue))
        if guards < conts:
            raise CapsError(f"{p}:{func}: a `continue` outside `if use_nesterov_acceleration:`")
        for node in ast.walk(loop):
            if isinstance(node, ast.Assign) and isinstance(node.targets[0], ast.Name) \
                    and node.targets[0].id == "use_nesterov_acceleration" \
                    and not (isinstance(node.value, ast.Constant) and node.value.value is False):
                raise CapsError(f"{p}:{func}: use_nesterov_acceleration is re-enabled inside the loop")
        d[key + "_continues"] = conts
    # ---------------------------------------------------------------- uncapped loops
    p = repo / "distance3d" / "gjk" / "_gjk_jolt.py"
    t = ast.parse(p.read_text())
    ev = Evals(repo, p, t)
    for fn in ("gjk_intersection_jolt", "gjk_distance_jolt", "gjk_distance_jolt_iterations"):
        loop = _one(_loops(_fn(t, fn, p)), f"loop in {p}:{fn}")
        if not _is_while_true(loop) or ev.count(loop.body) != 2:
            raise CapsError(f"{p}:{fn}: expected `while True` with two support evaluations per pass")
    p = repo / "distance3d" / "gjk" / "_gjk_original.py"
    t = ast.parse(p.read_text())
    loop = _one(_loops(_fn(t, "gjk_distance_original", p)), f"loop in {p}:gjk_distance_original")
    if not _is_while_true(loop):
        raise CapsError(f"{p}:gjk_distance_original: expected `while True`")
    return d


def coq_text(d):
    def b(x):
        return "true" if x else "false"
    lines = ["(* GENERATED by harness/narrow_caps.py from /repo sources on every run of C19. Do not edit. *)",
             "(* iteration caps (default arguments), cap comparison operators and support evaluations per pass *)", ""]
    for k in ("libccd_max_iterations", "libccd_pairs_per_pass", "mpr_max_iterations", "mpr_pen_max_iterations",
              "mpr_discover_pre_pairs", "epa_max_iter", "epa_max_loose_edges", "epa_max_faces", "epa_evals_per_pass",
              "nesterov_max_interations", "nesterov_continues", "nesterov_prim_max_interations", "nesterov_prim_continues"):
        lines.append(f"Definition {k} : nat := {d[k]}.")
    for k in ("mpr_discover_cap_is_ge", "mpr_pen_cap_is_ge", "mpr_refine_capped"):
        lines.append(f"Definition {k} : bool := {b(d[k])}.")
    return "\n".join(lines) + "\n"


def generate(repo, out):
    """-> (changed, dict).  Raises CapsError."""
    d = read(repo)
    txt = coq_text(d)
    out = Path(out)
    if out.exists() and out.read_text() == txt:
        return False, d
    out.parent.mkdir(parents=True, exist_ok=True)
    out.write_text(txt)
    return True, d


if __name__ == "__main__":
    import sys
    sys.path.insert(0, str(Path(__file__).resolve().parent.parent))
    from harness.common import REPO, COQ
    ch, dd = generate(REPO, COQ / "theories" / "Gen" / "NarrowCaps.v")
    print("changed" if ch else "unchanged", dd)
