"""Fail-closed `ast` reader of the iteration caps and loop shapes of the narrow-phase entry points
of /repo  ->  coq/theories/Gen/NarrowCaps.v  (regenerated on every run of C19).

What is read: the default arguments that cap a loop, the comparison operator of every cap test,
the number of support evaluations per loop pass, and which loops have no cap at all.  Any
unexpected shape raises CapsError: the dependent theorem (Props/C19.v capped_loops_bounded) is
then reported broken instead of being checked against stale numbers.
"""
import ast
from pathlib import Path


class CapsError(Exception):
    pass


def _fn(tree, name, path):
    for node in ast.walk(tree):
        if isinstance(node, ast.FunctionDef) and node.name == name:
            return node
    raise CapsError(f"{path}: function {name} not found")


def _default(fn, arg, path):
    args = fn.args.args
    defs = fn.args.defaults
    names = [a.arg for a in args]
    if arg not in names:
        raise CapsError(f"{path}:{fn.name}: no argument {arg}")
    i = names.index(arg) - (len(args) - len(defs))
    if i < 0:
        raise CapsError(f"{path}:{fn.name}: argument {arg} has no default")
    try:
        v = ast.literal_eval(defs[i])
    except Exception as e:  # noqa
        raise CapsError(f"{path}:{fn.name}: default of {arg} is not a literal ({e})")
    if not isinstance(v, int) or isinstance(v, bool) or v < 0:
        raise CapsError(f"{path}:{fn.name}: default of {arg} is {v!r}, expected a natural number")
    return v


def _loops(fn):
    return [n for n in ast.walk(fn) if isinstance(n, (ast.While, ast.For))]


def _calls(node, name=None, attr=None):
    n = 0
    for c in ast.walk(node):
        if isinstance(c, ast.Call):
            if name is not None and isinstance(c.func, ast.Name) and c.func.id == name:
                n += 1
            if attr is not None and isinstance(c.func, ast.Attribute) and c.func.attr == attr:
                n += 1
    return n


def _is_while_true(loop):
    return isinstance(loop, ast.While) and isinstance(loop.test, ast.Constant) and loop.test.value is True


def _is_for_range(loop, var):
    return (isinstance(loop, ast.For) and isinstance(loop.iter, ast.Call) and isinstance(loop.iter.func, ast.Name)
            and loop.iter.func.id == "range" and len(loop.iter.args) == 1 and isinstance(loop.iter.args[0], ast.Name)
            and loop.iter.args[0].id == var)


def _compares_with(node, var):
    """all Compare nodes `x OP var` inside node -> list of (left name, op class name)"""
    out = []
    for c in ast.walk(node):
        if isinstance(c, ast.Compare) and len(c.ops) == 1 and isinstance(c.comparators[0], ast.Name) \
                and c.comparators[0].id == var and isinstance(c.left, ast.Name):
            out.append((c.left.id, type(c.ops[0]).__name__))
    return out


def _one(lst, what):
    if len(lst) != 1:
        raise CapsError(f"expected exactly one {what}, found {len(lst)}")
    return lst[0]


def _increments(loop, var):
    return sum(1 for n in ast.walk(loop) if isinstance(n, ast.AugAssign) and isinstance(n.target, ast.Name)
               and n.target.id == var and isinstance(n.op, ast.Add) and isinstance(n.value, ast.Constant) and n.value.value == 1)


def read(repo):
    repo = Path(repo)
    d = {}
    # ---------------------------------------------------------------- libccd
    p = repo / "distance3d" / "gjk" / "_gjk_libccd.py"
    t = ast.parse(p.read_text())
    d["libccd_max_iterations"] = _default(_fn(t, "gjk_intersection_libccd", p), "max_iterations", p)
    g = _fn(t, "_gjk", p)
    loop = _one(_loops(g), f"loop in {p}:_gjk")
    if not _is_for_range(loop, "max_iterations"):
        raise CapsError(f"{p}:_gjk: loop is not `for _ in range(max_iterations)`")
    d["libccd_pairs_per_pass"] = _calls(loop, name="support_function")
    if d["libccd_pairs_per_pass"] != 1 or _calls(g, name="support_function") != 1:
        raise CapsError(f"{p}:_gjk: expected exactly one support_function call, inside the loop")
    # ---------------------------------------------------------------- MPR
    p = repo / "distance3d" / "mpr.py"
    t = ast.parse(p.read_text())
    d["mpr_max_iterations"] = _default(_fn(t, "mpr_intersection", p), "max_iterations", p)
    d["mpr_pen_max_iterations"] = _default(_fn(t, "mpr_penetration", p), "max_iterations", p)
    disc = _fn(t, "_discover_portal", p)
    pre = 0
    for helper in ("_find_origin_ray", "_find_support_in_direction_of_origin_ray",
                   "_find_support_perpendicular_to_plane_containing_origin_v01"):
        if _calls(disc, name=helper) != 1:
            raise CapsError(f"{p}:_discover_portal: expected one call of {helper}")
        h = _fn(t, helper, p)
        if _loops(h):
            raise CapsError(f"{p}:{helper}: unexpected loop")
        pre += _calls(h, name="support_function")
    d["mpr_discover_pre_pairs"] = pre
    loop = _one(_loops(disc), f"loop in {p}:_discover_portal")
    if not (isinstance(loop, ast.While) and isinstance(loop.test, ast.Compare)):
        raise CapsError(f"{p}:_discover_portal: loop is not `while portal.n_points < 4`")
    if _calls(loop, name="support_function") != 1 or _increments(loop, "it") != 1:
        raise CapsError(f"{p}:_discover_portal: expected one support_function call and one `it += 1` per pass")
    cmp_ = _one(_compares_with(loop, "max_iterations"), f"cap test in {p}:_discover_portal")
    if cmp_[0] != "it" or cmp_[1] not in ("GtE", "Gt"):
        raise CapsError(f"{p}:_discover_portal: cap test is {cmp_}")
    d["mpr_discover_cap_is_ge"] = cmp_[1] == "GtE"
    # the cap test must be followed by a break
    capif = [n for n in ast.walk(loop) if isinstance(n, ast.If) and _compares_with(n.test, "max_iterations")]
    if len(capif) != 1 or not any(isinstance(x, ast.Break) for x in ast.walk(capif[0])):
        raise CapsError(f"{p}:_discover_portal: cap test does not break")
    ref = _fn(t, "_refine_portal", p)
    loop = _one(_loops(ref), f"loop in {p}:_refine_portal")
    if not _is_while_true(loop) or _calls(loop, name="support_function") != 1:
        raise CapsError(f"{p}:_refine_portal: expected `while True` with one support_function call")
    d["mpr_refine_capped"] = bool(_compares_with(ref, "max_iterations"))
    pen = _fn(t, "_find_penetration_info", p)
    loop = _one(_loops(pen), f"loop in {p}:_find_penetration_info")
    if not _is_while_true(loop) or _calls(loop, name="support_function") != 1 or _increments(loop, "iterations") != 1:
        raise CapsError(f"{p}:_find_penetration_info: expected `while True`, one support_function call, one `iterations += 1`")
    cmp_ = _one(_compares_with(loop, "max_iterations"), f"cap test in {p}:_find_penetration_info")
    if cmp_[0] != "iterations" or cmp_[1] not in ("GtE", "Gt"):
        raise CapsError(f"{p}:_find_penetration_info: cap test is {cmp_}")
    d["mpr_pen_cap_is_ge"] = cmp_[1] == "GtE"
    # ---------------------------------------------------------------- EPA
    p = repo / "distance3d" / "epa.py"
    t = ast.parse(p.read_text())
    e = _fn(t, "epa", p)
    for a in ("max_iter", "max_loose_edges", "max_faces"):
        d["epa_" + a] = _default(e, a, p)
    loops = [lp for lp in _loops(e)]
    loop = _one(loops, f"loop in {p}:epa")
    if not _is_for_range(loop, "max_iter"):
        raise CapsError(f"{p}:epa: loop is not `for iteration in range(max_iter)`")
    n = _calls(loop, attr="support_function")
    if n != 2 or _calls(e, attr="support_function") != 2:
        raise CapsError(f"{p}:epa: expected two collider.support_function calls, inside the loop")
    d["epa_evals_per_pass"] = n
    # ---------------------------------------------------------------- Nesterov (generic and primitives)
    for key, fname, func in (("nesterov", "_gjk_nesterov_accelerated.py", "gjk_nesterov_accelerated"),
                             ("nesterov_prim", "_gjk_nesterov_accelerated_primitives.py", "run_gjk_nesterov_accelerated")):
        p = repo / "distance3d" / "gjk" / fname
        t = ast.parse(p.read_text())
        entry = _fn(t, "gjk_nesterov_accelerated" if key == "nesterov" else "gjk_nesterov_accelerated_primitives", p)
        d[key + "_max_interations"] = _default(entry, "max_interations", p)
        f = _fn(t, func, p)
        loop = _one(_loops(f), f"loop in {p}:{func}")
        if not (isinstance(loop, ast.While) and isinstance(loop.test, ast.Compare) and len(loop.test.ops) == 1
                and isinstance(loop.test.ops[0], ast.Lt) and isinstance(loop.test.left, ast.Name) and loop.test.left.id == "i"
                and isinstance(loop.test.comparators[0], ast.Name) and loop.test.comparators[0].id == "max_interations"):
            raise CapsError(f"{p}:{func}: loop is not `while i < max_interations`")
        if _calls(loop, name="support_function") != 1 or _increments(loop, "i") != 1:
            raise CapsError(f"{p}:{func}: expected one support_function call and one `i += 1` per pass")
        # every `continue` must directly follow `use_nesterov_acceleration = False` inside `if use_nesterov_acceleration:`
        conts = 0
        for node in ast.walk(loop):
            if isinstance(node, ast.If):
                for body in (node.body, node.orelse):
                    for j, st in enumerate(body):
                        if isinstance(st, ast.Continue):
                            conts += 1
                            ok = any(isinstance(prev, ast.Assign) and isinstance(prev.targets[0], ast.Name)
                                     and prev.targets[0].id == "use_nesterov_acceleration"
                                     and isinstance(prev.value, ast.Constant) and prev.value.value is False
                                     for prev in body[:j])
                            if not ok:
                                raise CapsError(f"{p}:{func}: a `continue` that does not switch the acceleration off")
        guards = 0
        for node in ast.walk(loop):
            if isinstance(node, ast.If) and isinstance(node.test, ast.Name) and node.test.id == "use_nesterov_acceleration":
                guards += sum(1 for x in ast.walk(node) if isinstance(x, ast.Continue))
        if guards < conts:
            raise CapsError(f"{p}:{func}: a `continue` outside `if use_nesterov_acceleration:`")
        # the flag is never switched back on inside the loop
        for node in ast.walk(loop):
            if isinstance(node, ast.Assign) and isinstance(node.targets[0], ast.Name) \
                    and node.targets[0].id == "use_nesterov_acceleration" \
                    and not (isinstance(node.value, ast.Constant) and node.value.value is False):
                raise CapsError(f"{p}:{func}: use_nesterov_acceleration is re-enabled inside the loop")
        d[key + "_continues"] = conts
    # ---------------------------------------------------------------- uncapped loops
    p = repo / "distance3d" / "gjk" / "_gjk_jolt.py"
    t = ast.parse(p.read_text())
    for fn in ("gjk_intersection_jolt", "gjk_distance_jolt", "gjk_distance_jolt_iterations"):
        loop = _one(_loops(_fn(t, fn, p)), f"loop in {p}:{fn}")
        if not _is_while_true(loop) or _calls(loop, attr="support_function") != 2:
            raise CapsError(f"{p}:{fn}: expected `while True` with two support_function calls")
    p = repo / "distance3d" / "gjk" / "_gjk_original.py"
    t = ast.parse(p.read_text())
    loop = _one(_loops(_fn(t, "gjk_distance_original", p)), f"loop in {p}:gjk_distance_original")
    if not _is_while_true(loop):
        raise CapsError(f"{p}:gjk_distance_original: expected `while True`")
    return d


def coq_text(d):
    def b(x):
        return "true" if x else "false"
    lines = ["(* GENERATED by harness/narrow_caps.py from /repo sources on every run of C19. Do not edit. *)",
             "(* iteration caps (default arguments), cap comparison operators and support evaluations per pass *)", ""]
    for k in ("libccd_max_iterations", "libccd_pairs_per_pass", "mpr_max_iterations", "mpr_pen_max_iterations",
              "mpr_discover_pre_pairs", "epa_max_iter", "epa_max_loose_edges", "epa_max_faces", "epa_evals_per_pass",
              "nesterov_max_interations", "nesterov_continues", "nesterov_prim_max_interations", "nesterov_prim_continues"):
        lines.append(f"Definition {k} : nat := {d[k]}.")
    for k in ("mpr_discover_cap_is_ge", "mpr_pen_cap_is_ge", "mpr_refine_capped"):
        lines.append(f"Definition {k} : bool := {b(d[k])}.")
    return "\n".join(lines) + "\n"


def generate(repo, out):
    """-> (changed, dict).  Raises CapsError."""
    d = read(repo)
    txt = coq_text(d)
    out = Path(out)
    if out.exists() and out.read_text() == txt:
        return False, d
    out.parent.mkdir(parents=True, exist_ok=True)
    out.write_text(txt)
    return True, d


if __name__ == "__main__":
    import sys
    sys.path.insert(0, str(Path(__file__).resolve().parent.parent))
    from harness.common import REPO, COQ
    ch, dd = generate(REPO, COQ / "theories" / "Gen" / "NarrowCaps.v")
    print("changed" if ch else "unchanged", dd)
