"""Worker for the penetration checks (C07 EPA, C08 MPR): runs /repo's gjk+epa and
mpr_penetration on JSON collider specs and reports, besides every returned field,
which arms of the code were taken.  Arms are observed from the harness side only:
module-level functions / plain-Python class methods of /repo's modules are wrapped
inside this worker process (nothing in /repo changes).

ops
  epa      : d, a, b, simplex = gjk.gjk(c1, c2); if d == 0.0: epa(simplex, c1, c2).
             options: flip (swap simplex rows 1 and 2 = other winding), kw (epa keyword args)
             reports: n_points (live rows of GJK's work array when it stopped, taken from the
             return value of _distance_loop), rows_supported (per simplex row: is it bitwise a
             difference p - q of support points GJK obtained from the two colliders),
             mtv, success, n_faces, arms{...}
  mpr_pen  : mpr.mpr_penetration(c1, c2); reports all four fields, the portal at the end, arms{...}
"""
import json
import signal
import sys
import time
import traceback

from harness import compat  # noqa: F401
import numpy as np
from distance3d import gjk, mpr as MPR, epa as EPA
from distance3d.gjk import _gjk_jolt as J
from distance3d.utils import EPSILON

from harness.impl.narrow import build, arr, Timeout, _alarm


class Rec:
    """support-call recorder for one collider"""
    def __init__(self, col):
        self.pts = []
        self.n = 0
        inner = col.support_function

        def counted(d, _inner=inner, _self=self):
            p = _inner(d)
            _self.n += 1
            _self.pts.append(np.array(p, dtype=float, copy=True))
            return p
        col.support_function = counted


# ----------------------------------------------------------------------------- GJK exit state
_gjk_info = {}
_orig_distance_loop = J._distance_loop


def _distance_loop_w(*a):
    r = _orig_distance_loop(*a)
    _gjk_info["n_points"] = None if r[1] is None else int(r[1])
    _gjk_info["state"] = str(r[0])
    _gjk_info["calls"] = _gjk_info.get("calls", 0) + 1
    return r


J._distance_loop = _distance_loop_w

# ----------------------------------------------------------------------------- EPA arms
ARM = {}


def bump(k, n=1):
    ARM[k] = ARM.get(k, 0) + n


_P = EPA.Polytope
_L = EPA.LooseEdges
_o_fix = _P.fix_ccw_normal_direction
_o_ext = _P.extend_with_point
_o_rem = _P.remove_face
_o_closest = _P.find_face_closest_to_origin
_o_faces_pt = _P.triangle_faces_point
_o_in_list = _L.edge_already_in_list
_o_add = _L.add_edge_to_list


def _fix_w(self, face_idx, *a, **k):
    before = self.faces[face_idx, 3].copy()
    r = _o_fix(self, face_idx, *a, **k)
    bump("winding_flipped" if not np.array_equal(before, self.faces[face_idx, 3]) else "winding_kept")
    return r


def _ext_w(self, loose_edges, new_point):
    n0 = self.n_faces
    r = _o_ext(self, loose_edges, new_point)
    added = self.n_faces - n0
    bump("faces_added", added)
    if added < loose_edges.n_loose_edges:
        bump("degenerate_face_skipped", loose_edges.n_loose_edges - added)
    bump("loose_edges_%s" % ("3" if loose_edges.n_loose_edges == 3 else "gt3" if loose_edges.n_loose_edges > 3 else "lt3"))
    return r


def _rem_w(self, i):
    bump("face_removed_last" if i == self.n_faces - 1 else "face_removed_swap")
    return _o_rem(self, i)


def _closest_w(self):
    bump("iterations")
    r = _o_closest(self)
    if r[0] < 0.0:
        bump("closest_dist_negative")
    return r


def _in_list_w(self, edge_idx, current_edge):
    r = _o_in_list(self, edge_idx, current_edge)
    bump("edge_shared" if r else "edge_not_shared")
    return r


def _add_w(self, edge):
    r = _o_add(self, edge)
    if not r:
        bump("loose_edge_overflow")
    return r


_P.fix_ccw_normal_direction = _fix_w
_P.extend_with_point = _ext_w
_P.remove_face = _rem_w
_P.find_face_closest_to_origin = _closest_w
_L.edge_already_in_list = _in_list_w
_L.add_edge_to_list = _add_w

# ----------------------------------------------------------------------------- MPR arms
_mpr_last = {}


def _wrap_mpr():
    o_touch = MPR._find_penetration_touch
    o_seg = MPR._find_penetration_segment
    o_info = MPR._penetration_info
    o_expand = MPR._expand_portal
    o_discover = MPR._discover_portal
    o_refine = MPR._refine_portal
    o_iter = MPR._iterate_discover_portal
    o_origin_ray = MPR._find_origin_ray
    o_swapdir = MPR._search_direction_perpendicular_to_plane_containing_v012
    o_reach = MPR._portal_reach_tolerance

    def touch(v1, v2):
        bump("origin_on_v1")
        return o_touch(v1, v2)

    def seg(v, v1, v2):
        bump("origin_on_v0v1_segment")
        return o_seg(v, v1, v2)

    def info(v, v1, v2):
        _mpr_last["portal"] = dict(v=arr(v), v1=arr(v1), v2=arr(v2))
        r = o_info(v, v1, v2)
        bump("pen_info_touching" if abs(r[0]) < EPSILON else "pen_info_regular")
        b = np.array([np.cross(v[1], v[2]).dot(v[3]), np.cross(v[3], v[2]).dot(v[0]),
                      np.cross(v[0], v[1]).dot(v[3]), np.cross(v[2], v[1]).dot(v[0])])
        bump("contact_bary_fallback" if np.sum(b) < EPSILON else "contact_bary_regular")
        if np.any(b < 0.0):
            bump("contact_bary_negative_weight")
        _mpr_last["raw_dir"] = arr(r[1])
        return r

    def expand(v, v1, v2, v4, v14, v24):
        v4v0 = np.cross(v4, v[0])
        if v[1].dot(v4v0) > 0.0:
            bump("expand_replace_v1_a" if v[2].dot(v4v0) > 0.0 else "expand_replace_v3")
        else:
            bump("expand_replace_v2" if v[3].dot(v4v0) > 0.0 else "expand_replace_v1_b")
        return o_expand(v, v1, v2, v4, v14, v24)

    def discover(c1, c2, max_iterations):
        r = o_discover(c1, c2, max_iterations)
        bump("discover_" + r[0].name)
        _mpr_last["portal_obj"] = r[1]
        _mpr_last["state"] = r[0].name
        return r

    def refine(c1, c2, portal, tol):
        r = o_refine(c1, c2, portal, tol)
        bump("refine_true" if r else "refine_false")
        return r

    def iterate(v, v1, v2, sd, size):
        before2 = v[2].copy()
        r = o_iter(v, v1, v2, sd, size)
        bump("discover_iter_done" if r[1] == 4 else "discover_iter_continue")
        if r[1] != 4:
            # which of the two replacement arms was taken (observed: the row that now holds the new point v[3])
            if np.array_equal(v[2], v[3]) and not np.array_equal(before2, v[3]):
                bump("discover_iter_replace_v2")
            elif np.array_equal(v[1], v[3]):
                bump("discover_iter_replace_v1")
            else:
                bump("discover_iter_replace_unknown")
        return r

    def origin_ray(portal, c1, c2):
        r = o_origin_ray(portal, c1, c2)
        if portal.v[0, 0] == EPSILON * 10.0 and portal.v[0, 1] == 0.0 and portal.v[0, 2] == 0.0:
            bump("centers_coincide")
        return r

    def swapdir(v, v1, v2):
        before = v[1].copy()
        r = o_swapdir(v, v1, v2)
        bump("discover_swapped_v1v2" if not np.array_equal(before, v[1]) else "discover_kept_v1v2")
        return r

    def reach(v, v4, sd, tol):
        r = o_reach(v, v4, sd, tol)
        bump("reach_tolerance_true" if r else "reach_tolerance_false")
        return r

    MPR._find_penetration_touch = touch
    MPR._find_penetration_segment = seg
    MPR._penetration_info = info
    MPR._expand_portal = expand
    MPR._discover_portal = discover
    MPR._refine_portal = refine
    MPR._iterate_discover_portal = iterate
    MPR._find_origin_ray = origin_ray
    MPR._search_direction_perpendicular_to_plane_containing_v012 = swapdir
    MPR._portal_reach_tolerance = reach


_wrap_mpr()


def complete_simplex(Y, n, c1, c2):
    """A tetrahedron of support differences of A - B that (up to GJK's tolerance) contains the origin, built from
    the n live rows GJK stopped with (the origin lies in their hull): the harness' stand-in for what gjk() should
    have handed over.  None if no such tetrahedron is found (touching contact in a vertex, flat difference)."""
    Y = np.asarray(Y, dtype=float)

    def sup(d):
        return c1.support_function(d) - c2.support_function(-d)
    P = [Y[i].copy() for i in range(n)]
    if n == 2:
        seg = P[1] - P[0]
        axis = np.zeros(3)
        axis[int(np.argmin(np.abs(seg)))] = 1.0
        d = np.cross(seg, axis)
        d = d / np.linalg.norm(d)
        for dd in (d, -d, np.cross(seg / np.linalg.norm(seg), d), -np.cross(seg / np.linalg.norm(seg), d)):
            w = sup(dd)
            if float(np.dot(w - P[0], dd)) > 1e-9:
                P.append(w)
                break
    if len(P) == 3:
        nrm = np.cross(P[1] - P[0], P[2] - P[0])
        ln = float(np.linalg.norm(nrm))
        if ln > 0:
            nrm = nrm / ln
            for dd in (nrm, -nrm):
                w = sup(dd)
                if float(np.dot(w - P[0], dd)) > 1e-9:
                    P.append(w)
                    break
    if len(P) != 4:
        return None
    return np.ascontiguousarray(np.array(P))


_DUMMY = None


def _interleaved_query():
    global _DUMMY
    if _DUMMY is None:
        T = np.eye(4)
        T[:3, 3] = [0.3, 0.2, 0.1]
        _DUMMY = (build(dict(kind="box", pose=np.eye(4).tolist(), size=[1.0, 2.0, 3.0])),
                  build(dict(kind="capsule", pose=T.tolist(), radius=0.5, height=1.0)),
                  build(dict(kind="sphere", center=[0.0, 0.0, 0.0], radius=1.0)),
                  build(dict(kind="sphere", center=[1.5, 0.0, 0.0], radius=1.0)))
    MPR.mpr_penetration(_DUMMY[0], _DUMMY[1])     # general portal arm
    MPR.mpr_penetration(_DUMMY[2], _DUMMY[3])     # origin-on-segment arm


def face_set_stats(faces):
    """(number of triangles that occur more than once, number of undirected edges that are not shared by exactly two
    triangles) of the face array epa() returned; vertices are compared bitwise (they are copies of support differences)"""
    tri, edges = {}, {}
    for f in np.asarray(faces, dtype=float):
        vs = [f[k].tobytes() for k in range(3)]
        key = frozenset(vs)
        tri[key] = tri.get(key, 0) + 1
        for a, b in ((0, 1), (1, 2), (2, 0)):
            e = frozenset((vs[a], vs[b]))
            edges[e] = edges.get(e, 0) + 1
    return (int(sum(1 for v in tri.values() if v > 1)), int(sum(1 for v in edges.values() if v != 2)))


def rows_supported(simplex, r1, r2):
    """per row: bitwise equal to some p_k - q_k of the support points GJK was given"""
    D = [p - q for p, q in zip(r1.pts, r2.pts)]
    out = []
    for row in np.asarray(simplex):
        out.append(bool(any(np.array_equal(row, d) for d in D)))
    return out


def run_op(op, s1, s2):
    ARM.clear()
    _gjk_info.clear()
    _mpr_last.clear()
    c1 = build(s1)
    c2 = build(s2)
    r1, r2 = Rec(c1), Rec(c2)
    name = op["fn"]
    out = dict(fn=name)
    kw = op.get("kw", {})
    t0 = time.time()
    signal.signal(signal.SIGALRM, _alarm)
    signal.alarm(int(op.get("timeout", 30)))
    try:
        if name == "epa":
            d, a, b, simplex = gjk.gjk(c1, c2)
            out.update(d=float(d), a=arr(a), b=arr(b), simplex=arr(simplex), n_points=_gjk_info.get("n_points"),
                       gjk_state=_gjk_info.get("state"), n_gjk=r1.n)
            if simplex is not None:
                out["rows_supported"] = rows_supported(simplex, r1, r2)
            if d == 0.0:
                if op.get("complete"):
                    # replace GJK's work array by a proper tetrahedron of support differences built from the live rows
                    simplex = complete_simplex(simplex, int(_gjk_info.get("n_points") or 0), c1, c2)
                    if simplex is None:
                        out["skipped"] = "no completed simplex"
                        raise StopIteration
                    out["completed_simplex"] = arr(simplex)
                if op.get("flip"):
                    simplex = np.ascontiguousarray(np.asarray(simplex)[[0, 2, 1, 3]])
                S = np.asarray(simplex, dtype=float)
                if S.shape == (4, 3) and np.all(np.isfinite(S)):
                    out["simplex_orientation"] = float(np.linalg.det(S[1:] - S[0]))
                out["stage"] = "epa"
                mtv, faces, success = EPA.epa(simplex, c1, c2, **kw)
                out.update(mtv=arr(mtv), success=bool(success), n_faces=int(len(faces)) if faces is not None else None)
                if faces is not None:
                    out["faces_duplicate"], out["faces_open_edges"] = face_set_stats(faces)
            else:
                out["skipped"] = "gjk reports no overlap"
        elif name == "mpr_pen":
            inter, depth, pdir, pos = MPR.mpr_penetration(c1, c2, **kw)
            early = (None if depth is None else float(depth), arr(pdir), arr(pos))
            po = _mpr_last.pop("portal_obj", None)
            if po is not None:      # the portal the query ended with (copied before anything else runs)
                out["final_portal"] = dict(v=arr(po.v), v1=arr(po.v1), v2=arr(po.v2), state=_mpr_last.get("state"))
            saved_arms, saved_last = dict(ARM), {k: v for k, v in _mpr_last.items() if k != "portal_obj"}
            # results are read only after another, unrelated query has been made (a caller that collects
            # the contacts of all candidate pairs first): a result that aliases internal scratch state changes
            _interleaved_query()
            ARM.clear()
            ARM.update(saved_arms)
            _mpr_last.clear()
            _mpr_last.update(saved_last)
            out.update(ans=bool(inter), depth=None if depth is None else float(depth), dir=arr(pdir), pos=arr(pos),
                       portal=_mpr_last.get("portal"), raw_dir=_mpr_last.get("raw_dir"))
            late = (out["depth"], out["dir"], out["pos"])
            if json.dumps(early) != json.dumps(late):
                out["changed_after_next_query"] = dict(early=early, late=late)
        else:
            raise ValueError(name)
    except StopIteration:
        pass
    except Timeout:
        out["exc"] = "TIMEOUT"
    except BaseException as e:  # noqa
        out["exc"] = type(e).__name__
        out["exc_msg"] = str(e)[:200]
        out["tb"] = traceback.format_exc()[-800:]
    finally:
        signal.alarm(0)
    out["arms"] = dict(ARM)
    out["support_calls"] = r1.n + r2.n
    out["wall"] = round(time.time() - t0, 4)
    return out


def main():
    payload = json.load(open(sys.argv[1]))
    res = []
    for case in payload["cases"]:
        r = []
        for op in case["ops"]:
            r.append(run_op(op, case["c1"], case["c2"]))
        res.append(r)
    json.dump(dict(results=res), open(sys.argv[2], "w"))


if __name__ == "__main__":
    main()
