"""Worker: run /repo's tetrahedral mesh factories, the mesh helpers and RigidBody.make_* (C17).

Input  {"cases": [{"factory": name, "args": {...}, "pose": [16 floats] | null}, ...]}
Output {"results": [ {...} | {"exc": type, "exc_msg": str} ]}
Floats cross the boundary through JSON (repr round-trips binary64 exactly).
"""
import json
import sys
import traceback

from harness import compat  # noqa: F401
import numpy as np

if not hasattr(np, "product"):
    np.product = np.prod

from distance3d.hydroelastic_contact import _tetra_mesh_creation as TM
from distance3d.hydroelastic_contact import _mesh_processing as MP
from distance3d.hydroelastic_contact._rigid_body import RigidBody


def call_factory(name, a):
    if name == "sphere":
        return TM.make_tetrahedral_sphere(float(a["radius"]), int(a["order"]))
    if name == "ellipsoid":
        return TM.make_tetrahedral_ellipsoid(np.array(a["radii"], dtype=float), int(a["order"]))
    if name == "cube":
        return TM.make_tetrahedral_cube(float(a["size"]))
    if name == "box":
        return TM.make_tetrahedral_box(np.array(a["size"], dtype=float))
    if name == "cylinder":
        return TM.make_tetrahedral_cylinder(float(a["radius"]), float(a["length"]), float(a["resolution_hint"]))
    if name == "capsule":
        return TM.make_tetrahedral_capsule(float(a["radius"]), float(a["height"]), float(a["resolution_hint"]))
    raise ValueError(f"unknown factory {name}")


def call_rigid_body(name, a, pose):
    if name == "sphere":
        return RigidBody.make_sphere(np.array(pose[:3, 3]), float(a["radius"]), int(a["order"]))
    if name == "ellipsoid":
        return RigidBody.make_ellipsoid(pose, np.array(a["radii"], dtype=float), int(a["order"]))
    if name == "cube":
        return RigidBody.make_cube(pose, float(a["size"]))
    if name == "box":
        return RigidBody.make_box(pose, np.array(a["size"], dtype=float))
    if name == "cylinder":
        return RigidBody.make_cylinder(pose, float(a["radius"]), float(a["length"]), float(a["resolution_hint"]))
    if name == "capsule":
        return RigidBody.make_capsule(pose, float(a["radius"]), float(a["height"]), float(a["resolution_hint"]))
    raise ValueError(f"unknown factory {name}")


def run_history(rb, hist, E, P):
    """apply a sequence of property reads / express_in calls to one RigidBody; after every step record what
    was returned and the state (vertices_, body2origin_) a direct computation has to be made from"""
    snaps = []
    for op in hist:
        name = op[0]
        rec = {"op": name}
        try:
            if name == "com":
                rec["value"] = np.asarray(rb.com, dtype=float).reshape(-1).tolist()
            elif name == "aabbs":
                rec["value"] = np.asarray(rb.aabbs, dtype=float).reshape(-1).tolist()
            elif name == "tp":
                rec["value"] = np.asarray(rb.tetrahedra_points, dtype=float).reshape(-1).tolist()
            elif name == "tpot":
                rec["value"] = np.asarray(rb.tetrahedra_potentials, dtype=float).reshape(-1).tolist()
            elif name == "aabb":
                rec["value"] = np.asarray(rb.aabb(), dtype=float).reshape(-1).tolist()
            elif name == "express_in":
                rb.express_in(np.array(op[1], dtype=float).reshape(4, 4))
            else:
                raise ValueError(f"unknown history op {name}")
        except Exception as e:  # noqa: BLE001
            rec["exc"] = type(e).__name__
            rec["exc_msg"] = str(e)[:200]
        rec["vertices"] = np.asarray(rb.vertices_, dtype=float).reshape(-1).tolist()
        rec["body2origin"] = np.asarray(rb.body2origin_, dtype=float).reshape(-1).tolist()
        rec["same_tetrahedra"] = bool(np.array_equal(np.asarray(rb.tetrahedra_), E))
        rec["same_potentials"] = bool(np.array_equal(np.asarray(rb.potentials_), P))
        snaps.append(rec)
    return snaps


def run_case(c):
    out = {}
    try:
        name, a = c["factory"], c["args"]
        V, E, P = call_factory(name, a)
        V = np.asarray(V)
        E = np.asarray(E)
        P = np.asarray(P)
        out["shapes"] = [list(V.shape), list(E.shape), list(P.shape)]
        out["dtypes"] = [str(V.dtype), str(E.dtype), str(P.dtype)]
        out["vertices"] = V.astype(float).reshape(-1).tolist()
        out["tetrahedra"] = [int(i) for i in E.reshape(-1)]
        out["potentials"] = P.astype(float).reshape(-1).tolist()
        if E.ndim == 2 and E.shape[1] == 4 and len(E) > 0 and E.min() >= 0 and E.max() < len(V):
            tp = V[E]
            out["volumes"] = np.asarray(MP.tetrahedral_mesh_volumes(tp), dtype=float).reshape(-1).tolist()
            ab = np.asarray(MP.tetrahedral_mesh_aabbs(tp), dtype=float)
            out["aabbs_shape"] = list(ab.shape)
            out["aabbs"] = ab.reshape(-1).tolist()
            out["com"] = np.asarray(MP.center_of_mass_tetrahedral_mesh(tp), dtype=float).reshape(-1).tolist()
        if c.get("pose") is not None:
            pose = np.array(c["pose"], dtype=float).reshape(4, 4)
            rb = call_rigid_body(name, a, pose)
            r = {}
            r["same_vertices"] = bool(np.array_equal(np.asarray(rb.vertices_), V))
            r["same_tetrahedra"] = bool(np.array_equal(np.asarray(rb.tetrahedra_), E))
            r["same_potentials"] = bool(np.array_equal(np.asarray(rb.potentials_), P))
            r["body2origin"] = np.asarray(rb.body2origin_, dtype=float).reshape(-1).tolist()
            r["tetrahedra_points_ok"] = bool(np.array_equal(rb.tetrahedra_points, V[E]))
            r["tetrahedra_potentials_ok"] = bool(np.array_equal(rb.tetrahedra_potentials, P[E]))
            r["com"] = np.asarray(rb.com, dtype=float).reshape(-1).tolist()
            r["aabbs"] = np.asarray(rb.aabbs, dtype=float).reshape(-1).tolist()
            if c.get("root_aabb"):
                r["root_aabb"] = np.asarray(rb.aabb(), dtype=float).reshape(-1).tolist()
            out["rigid_body"] = r
            if c.get("history"):
                out["history"] = run_history(call_rigid_body(name, a, pose), c["history"], E, P)
    except Exception as e:  # noqa: BLE001
        out = {"exc": type(e).__name__, "exc_msg": str(e)[:300], "tb": traceback.format_exc()[-600:]}
    return out


TRACED = {}


def _code_lines(code, acc):
    # only function bodies (CO_OPTIMIZED): module and class bodies run at import time, before tracing starts
    if code.co_flags & 0x1:
        for _s, _e, ln in code.co_lines():
            if ln is not None and ln != code.co_firstlineno:
                acc.add(ln)
    for k in code.co_consts:
        if hasattr(k, "co_lines"):
            _code_lines(k, acc)


def start_line_coverage():
    """line coverage of the three files in scope (sys.settrace, this process only)"""
    import os
    files = {}
    for mod in (TM, MP, sys.modules[RigidBody.__module__]):
        fn = os.path.realpath(mod.__file__)
        files[fn] = os.path.basename(fn)
        TRACED[files[fn]] = set()

    def tracer(frame, event, arg):
        name = files.get(frame.f_code.co_filename)
        if name is None:
            return None
        if event == "line":
            TRACED[name].add(frame.f_lineno)
        return tracer
    sys.settrace(tracer)
    return files


def executable_lines(files):
    out = {}
    for fn, name in files.items():
        acc = set()
        _code_lines(compile(open(fn).read(), fn, "exec"), acc)
        out[name] = sorted(acc)
    return out


def main():
    payload = json.loads(open(sys.argv[1]).read())
    files = start_line_coverage() if payload.get("coverage") else None
    results = [run_case(c) for c in payload["cases"]]
    sys.settrace(None)
    out = {"results": results}
    if files is not None:
        out["coverage"] = {"hit": {k: sorted(v) for k, v in TRACED.items()}, "lines": executable_lines(files)}
    with open(sys.argv[2], "w") as fh:
        json.dump(out, fh)


if __name__ == "__main__":
    main()
