"""Worker: runs gjk_intersection_libccd / mpr_intersection of /repo on collider pairs and records, for every
support evaluation, the direction handed to collider 1 and the two support points returned, plus the
initial points the algorithms take without a support evaluation (first_vertex, center) — by wrapping
the bound methods of each collider INSTANCE; /repo is untouched."""
import json
import signal
import sys

from harness import compat  # noqa: F401
import numpy as np
from distance3d import gjk, mpr
from harness.impl.narrow import build, Timeout, _alarm


def record(col, log, init):
    inner = col.support_function

    def rec(d, _inner=inner):
        dd = np.array(d, dtype=float, copy=True)
        r = _inner(d)
        log.append((dd.tolist(), np.array(r, dtype=float, copy=True).tolist()))
        return r
    col.support_function = rec
    for name in ("first_vertex", "center"):
        f = getattr(col, name)

        def wrapped(_f=f, _name=name):
            r = _f()
            init[_name] = np.array(r, dtype=float, copy=True).tolist()
            return r
        setattr(col, name, wrapped)
    return col


def run(case):
    out = {}
    for fn in case["fns"]:
        l1, l2, i1, i2 = [], [], {}, {}
        o = dict(fn=fn)
        signal.signal(signal.SIGALRM, _alarm)
        signal.alarm(int(case.get("timeout", 30)))
        try:
            c1 = record(build(case["c1"]), l1, i1)
            c2 = record(build(case["c2"]), l2, i2)
            if fn == "libccd":
                o.update(ans=bool(gjk.gjk_intersection_libccd(c1, c2, **case.get("kw", {}))))
            elif fn == "mpr":
                o.update(ans=bool(mpr.mpr_intersection(c1, c2, **case.get("kw", {}))))
            else:
                raise ValueError(fn)
        except Timeout:
            o["exc"] = "TIMEOUT"
        except BaseException as e:  # noqa
            o["exc"] = type(e).__name__
            o["exc_msg"] = str(e)[:200]
        finally:
            signal.alarm(0)
        n = min(len(l1), len(l2))
        o["dirs"] = [x[0] for x in l1[:n]]
        o["ndirs2"] = [x[0] for x in l2[:n]]
        o["p"] = [x[1] for x in l1[:n]]
        o["q"] = [x[1] for x in l2[:n]]
        o["init1"], o["init2"] = i1, i2
        out[fn] = o
    return out


def main():
    payload = json.load(open(sys.argv[1]))
    json.dump(dict(results=[run(c) for c in payload["cases"]]), open(sys.argv[2], "w"))


if __name__ == "__main__":
    main()
