"""Worker of the C20 check: executes ONE serialised call list and serialises every result.
The parent runs this worker twice on the same list -- with numba JIT as installed and with
NUMBA_DISABLE_JIT=1 -- and compares the two outputs.

payload {"calls": [call, ...], "budget": seconds per call}
call kinds
  {"k": "call", "mod": "distance3d.utils", "fn": "norm_vector", "args": [arg...]}
       arg: float | int (stays a Python int) | bool | None | {"a": nested list}  (fresh C-contiguous float64 array)
            | {"i": nested list} (int64 array) | {"b": ...} (bool array) | {"l": [arg...]} (Python list)
            | {"ni": v} / {"ni32": v} (numpy integer scalar)
  {"k": "distint", "case": {"fn", "args"}}   distance3d.distance call via harness/impl/c10.run_case with scalar arguments
       passed AS GIVEN (int / numpy int), not through float()
  "raw_scalars" on a collider call: scalar sizes of the specs reach the constructors as given (build_raw)
  {"k": "collider", "c1": spec, "c2": spec, "ops": [op...]}      ops of harness/impl/c12.py
  {"k": "mesh", "spec": mesh collider spec, "dirs": [[..]...]}    sequence of support queries on ONE
       MeshGraph (the cached start vertex is part of the observable: the index is returned)
  {"k": "aabbtree", "case": case of harness/props/c05.gen_case}   via harness/impl/c05.run_case
  {"k": "emptytree", "q": box}                                   queries / root box of an EMPTY AabbTree
  {"k": "worker", "module": "c15", "case": {...}}                 harness/impl/<module>.run_case(case)
result per call: {"ok": serialised value} | {"exc": exception type name}, plus "mutated": true if
a call of kind "call" changed one of its array arguments.
Serialisation: ndarray -> {"nd": flat list, "shape", "kind"}; floats as hex strings (exact);
tuples/lists -> lists; dict -> dict; numba typed containers -> lists; enums -> names.
A forked monitor kills the worker when a call overruns its budget (compiled loops cannot be
interrupted from Python); the call in flight is written to <out>.hang and results so far to
<out>.partial.
"""
import importlib
import json
import os
import signal
import sys
import traceback

from harness import compat  # noqa: F401
import numpy as np

from harness.impl import c12 as W12


def to_arg(a):
    if isinstance(a, dict):
        if "a" in a:
            return np.ascontiguousarray(np.array(a["a"], dtype=np.float64))
        if "i" in a:
            return np.ascontiguousarray(np.array(a["i"], dtype=np.int64))
        if "b" in a:
            return np.ascontiguousarray(np.array(a["b"], dtype=bool))
        if "l" in a:
            return [to_arg(x) for x in a["l"]]
        if "ni" in a:                       # numpy integer scalar (a size taken out of an integer array)
            return np.int64(a["ni"])
        if "ni32" in a:
            return np.int32(a["ni32"])
        raise ValueError(a)
    return a                                # float | Python int (stays an int) | bool | None


def ser(x, depth=0):
    if depth > 12:
        return {"repr": "too-deep"}
    if x is None or isinstance(x, (bool, str)):
        return x
    if isinstance(x, (np.bool_,)):
        return bool(x)
    if isinstance(x, (int, np.integer)):
        return int(x)
    if isinstance(x, (float, np.floating)):
        return {"f": float(x).hex()}
    if isinstance(x, np.ndarray):
        k = x.dtype.kind
        flat = x.reshape(-1)
        if k == "f":
            vals = [float(v).hex() for v in flat]
        elif k in "iu":
            vals = [int(v) for v in flat]
        elif k == "b":
            vals = [bool(v) for v in flat]
        else:
            vals = [ser(v, depth + 1) for v in flat.tolist()]
        return {"nd": vals, "shape": list(x.shape), "kind": "i" if k in "iu" else k}
    if isinstance(x, dict):
        return {"dict": {str(k): ser(v, depth + 1) for k, v in x.items()}}
    if isinstance(x, (tuple, list)):
        return [ser(v, depth + 1) for v in x]
    import enum
    if isinstance(x, enum.Enum):
        return {"enum": x.name}
    try:        # numba typed List / reflected containers
        return [ser(v, depth + 1) for v in list(x)]
    except TypeError:
        return {"repr": type(x).__name__}


def run_call(c):
    mod = importlib.import_module(c["mod"])
    f = getattr(mod, c["fn"])
    args = [to_arg(a) for a in c["args"]]
    keep = [a.copy() if isinstance(a, np.ndarray) else None for a in args]
    out = {"ok": ser(f(*args))}
    if any(k is not None and not np.array_equal(a, k, equal_nan=True) for a, k in zip(args, keep)):
        out["mutated"] = True
    return out


def build_raw(spec, np_scalars):
    """like harness/impl/narrow.build, but scalar sizes reach the constructor AS GIVEN: a Python int stays a Python int
    (or becomes a numpy int64 scalar with np_scalars), nothing is passed through float().  Arrays are float64."""
    from distance3d import colliders as C

    def raw(x):
        if isinstance(x, int) and not isinstance(x, bool):
            return np.int64(x) if np_scalars else x
        return x
    arr = lambda v: np.array(v, dtype=float)
    k = spec["kind"]
    if k == "sphere":
        c = C.Sphere(arr(spec["center"]), raw(spec["radius"]))
    elif k == "capsule":
        c = C.Capsule(arr(spec["pose"]), raw(spec["radius"]), raw(spec["height"]))
    elif k == "cylinder":
        c = C.Cylinder(arr(spec["pose"]), raw(spec["radius"]), raw(spec["length"]))
    elif k == "cone":
        c = C.Cone(arr(spec["pose"]), raw(spec["radius"]), raw(spec["height"]))
    elif k == "disk":
        c = C.Disk(arr(spec["center"]), raw(spec["radius"]), arr(spec["normal"]))
    else:
        return W12.NW.build(spec)
    if "margin" in spec:
        c = C.Margin(c, raw(spec["margin"]))
    return c


def run_collider(c):
    if c.get("raw_scalars"):
        c1 = build_raw(c["c1"], bool(c.get("np_scalars")))
        c2 = c1 if c.get("same_object") else build_raw(c["c2"], bool(c.get("np_scalars")))
    else:
        c1 = W12.NW.build(c["c1"])
        c2 = c1 if c.get("same_object") else W12.NW.build(c["c2"])
    res = []
    for op in c["ops"]:
        r = W12.run_op(op, c1, c2)
        r.pop("wall", None)
        r.pop("tb", None)
        r.pop("exc_msg", None)
        res.append(r)
    return {"ok": ser(res)}


def run_mesh(c):
    m = W12.NW.build(c["spec"])          # MeshGraph (no Margin)
    res = []
    for d in c["dirs"]:
        idx, p = m._support_function(np.array(d, dtype=float))
        res.append([int(idx), np.asarray(p, dtype=float)])
    return {"ok": ser(res)}


def run_emptytree(c):
    from distance3d import aabb_tree as AT
    out = {}
    q = np.array(c["q"], dtype=float).reshape(3, 2)
    for name, f in (("overlaps_aabb", lambda t: t.overlaps_aabb(q)),
                    ("overlaps_aabb_tree", lambda t: t.overlaps_aabb_tree(AT.AabbTree())),
                    ("root_aabb", lambda t: t.get_root_aabb()),
                    ("len", lambda t: len(t)),
                    ("str", lambda t: isinstance(str(t), str))):
        try:
            out[name] = ser(f(AT.AabbTree()))
        except BaseException as e:  # noqa
            out[name] = {"exc": type(e).__name__}
    return {"ok": {"dict": out}}


def run_treeapi(c):
    """the public AabbTree query API on two small trees: RAW return values (dtype kind and shape are part of the
    serialisation: callers index arrays with them)"""
    from distance3d import aabb_tree as AT

    def tree(boxes, mode):
        t = AT.AabbTree()
        if boxes:
            t.insert_aabbs(np.array(boxes, dtype=float).reshape(-1, 3, 2), list(range(len(boxes))), pre_insertion_methode=mode)
        return t
    out = {}
    t1, t2 = tree(c["boxes1"], c.get("mode", "none")), tree(c["boxes2"], c.get("mode", "none"))
    for name, f in (("tree_tree", lambda: t1.overlaps_aabb_tree(t2)), ("tree_tree_rev", lambda: t2.overlaps_aabb_tree(t1)),
                    ("box", lambda: t1.overlaps_aabb(np.array(c["q"], dtype=float).reshape(3, 2))),
                    ("root", lambda: t1.get_root_aabb())):
        try:
            r = f()
            if name.startswith("tree_tree"):
                flag, u1, u2, pairs = r
                r = [flag, np.sort(np.asarray(u1)), np.sort(np.asarray(u2)), sorted([int(a), int(b)] for a, b in pairs)]
                out[name + "_index_dtypes"] = [np.asarray(u1).dtype.kind, np.asarray(u2).dtype.kind]
                # what a caller does with the result: index an array with it
                np.zeros((max(1, len(t1.aabbs)), 3))[np.asarray(u1)]
            elif name == "box":
                r = [r[0], sorted(int(i) for i in r[1])]
            out[name] = ser(r)
        except BaseException as e:  # noqa
            out[name] = {"exc": type(e).__name__}
    return {"ok": {"dict": out}}


def strip(x):
    """drop volatile keys of foreign workers' results"""
    if isinstance(x, dict):
        return {k: strip(v) for k, v in x.items() if k not in ("wall", "tb", "exc_msg", "time", "t", "elapsed", "log")}
    if isinstance(x, list):
        return [strip(v) for v in x]
    return x


_loaded = set()


def run_worker(c):
    mod = importlib.import_module("harness.impl." + c["module"])
    if c["module"] not in _loaded and hasattr(mod, "load"):
        mod.load()
    _loaded.add(c["module"])
    return {"ok": {"json": strip(mod.run_case(c["case"]))}}


def run_distint(c):
    """a distance3d.distance call through harness/impl/c10.run_case (same result record as the "distance" family), except
    that scalar arguments are NOT passed through float(): JSON ints stay Python ints, {"ni": v} becomes numpy.int64(v)"""
    from harness.impl import c10 as W10
    orig = W10.to_arg

    def keep_scalars(a):
        if isinstance(a, dict):
            return to_arg(a)
        if isinstance(a, int) and not isinstance(a, bool):
            return a
        return orig(a)
    W10.to_arg = keep_scalars
    try:
        r = W10.run_case(c["case"])
    finally:
        W10.to_arg = orig
    return {"ok": {"json": strip(r)}}


KINDS = dict(call=run_call, collider=run_collider, mesh=run_mesh, emptytree=run_emptytree, worker=run_worker, treeapi=run_treeapi,
             distint=run_distint)


def run_aabbtree(c):
    from harness.impl import c05
    return {"ok": {"json": strip(c05.run_case(c["case"]))}}


KINDS["aabbtree"] = run_aabbtree


def main():
    payload = json.load(open(sys.argv[1]))
    mon = W12.Monitor(sys.argv[2] + ".hang")
    budget = float(payload.get("budget", 60.0))
    res = []
    for i, c in enumerate(payload["calls"]):
        mon.beat(float(c.get("budget", budget)), dict(call=i, k=c["k"], fn=c.get("fn") or c.get("module")))
        try:
            res.append(KINDS[c["k"]](c))
        except BaseException as e:  # noqa
            res.append({"exc": type(e).__name__, "msg": str(e)[:200], "tb": traceback.format_exc()[-500:]})
        if i % 50 == 49:
            json.dump(dict(results=res), open(sys.argv[2] + ".partial", "w"))
    mon.beat(120.0, dict(call=-1, k="write"))
    import numba
    from distance3d import utils as U
    compiled = isinstance(U.norm_vector, numba.core.registry.CPUDispatcher)
    json.dump(dict(results=res, numba_disabled=os.environ.get("NUMBA_DISABLE_JIT", ""), compiled=bool(compiled)), open(sys.argv[2], "w"))


if __name__ == "__main__":
    main()
