"""Worker: run /repo's AabbTree on histories (C05).  Input/ouput JSON files."""
import json
import sys
import traceback

from harness import compat  # noqa: F401
import numpy as np
from distance3d import aabb_tree as AT


def box_arr(b):
    return np.array([[b[0], b[1]], [b[2], b[3]], [b[4], b[5]]], dtype=float)


def snapshot(t):
    return dict(
        root=int(t.root), filled=int(t.filled_len),
        nodes=np.asarray(t.nodes).astype(int).reshape(-1).tolist(),
        n_nodes=int(len(t.nodes)), n_aabbs=int(len(t.aabbs)),
        ext=[None if e is None else int(e) for e in t.external_data_list],
        n_ext=len(t.external_data_list),
        n_insidx=len(t.insert_index_list),
    )


def mid_queries(t, qboxes, hist):
    """queries interleaved with the insertions (a query must not change later answers)"""
    rec = dict(q=[], root=None)
    for q in qboxes:
        flag, ov = t.overlaps_aabb(box_arr(q))
        ov = [int(i) for i in ov]
        rec["q"].append(dict(box=q, ov=ov, flag=bool(flag),
                             boxes=[np.asarray(t.aabbs[i], dtype=float).reshape(-1).tolist() for i in ov],
                             ext=[None if t.external_data_list[i] is None else int(t.external_data_list[i]) for i in ov]))
    if len(t.aabbs) > 0:
        rec["root"] = np.asarray(t.get_root_aabb(), dtype=float).reshape(-1).tolist()
        flag, u1, u2, pairs = t.overlaps_aabb_tree(t)
        rec["self_pairs"] = len(pairs)
    hist.append(rec)


def run_history(h, mid=None):
    t = AT.AabbTree()
    snaps = []
    orders = []
    if mid is not None:
        mid_queries(t, [[-1e6, 1e6, -1e6, 1e6, -1e6, 1e6]], mid)
    for b in h:
        boxes = [box_arr(x) for x in b["boxes"]]
        data = b["data"]
        mode = b["mode"]
        old = t.filled_len
        n = len(boxes)
        if mode == "single":
            assert n == 1
            order = [old]
            t.insert_aabb(boxes[0], data[0] if data is not None else None)
        else:
            arr = np.array(boxes, dtype=float).reshape(n, 3, 2)
            if mode == "none":
                order = list(range(old, old + n))
            elif mode == "sort":
                order = [] if n == 0 else [int(old + i) for i in AT._sort_aabbs(arr)]
            elif mode == "shuffle":
                o = np.array(range(old, old + n))
                np.random.seed(b["seed"])
                np.random.shuffle(o)
                order = [int(i) for i in o]
                np.random.seed(b["seed"])
            if b.get("as_list"):
                t.insert_aabbs(list(arr), data, pre_insertion_methode=mode)
            else:
                t.insert_aabbs(arr, data, pre_insertion_methode=mode)
        if n > 0:
            snaps.append(snapshot(t))
            orders.append(order)
        if mid is not None:
            mid_queries(t, [[-1e6, 1e6, -1e6, 1e6, -1e6, 1e6]] + [list(x) for x in b["boxes"][:3]], mid)
    return t, snaps, orders


def run_case(c):
    out = {}
    try:
        mid = [] if c.get("interleave") else None
        t1, s1, o1 = run_history(c["h1"], mid)
        t2, s2, o2 = run_history(c["h2"])
        out.update(s1=s1, s2=s2, o1=o1, o2=o2)
        if mid is not None:
            out["mid"] = mid
        out["boxes1"] = np.asarray(t1.aabbs, dtype=float).reshape(-1, 3, 2).reshape(-1).tolist()
        out["boxes2"] = np.asarray(t2.aabbs, dtype=float).reshape(-1, 3, 2).reshape(-1).tolist()
        qs = []
        for q in c["queries"]:
            flag, ov = t1.overlaps_aabb(box_arr(q))
            ov = [int(i) for i in ov]
            if bool(flag) != (len(ov) > 0):
                raise AssertionError("flag inconsistent with overlaps")
            qs.append(ov)
        out["q"] = qs
        flag, u1, u2, pairs = t1.overlaps_aabb_tree(t2)
        pairs = [[int(a), int(b)] for a, b in pairs]
        out["pairs"] = pairs
        out["pairs_flag"] = bool(flag)
        out["u1"] = [int(i) for i in u1]
        out["u2"] = [int(i) for i in u2]
        if len(t1.aabbs) > 0:
            out["root_aabb"] = np.asarray(t1.get_root_aabb(), dtype=float).reshape(-1).tolist()
    except BaseException as e:  # noqa
        out["exc"] = type(e).__name__
        out["exc_msg"] = str(e)[:300]
        out["tb"] = traceback.format_exc()[-1500:]
    return out


def main():
    payload = json.load(open(sys.argv[1]))
    res = []
    for c in payload["cases"]:
        res.append(run_case(c))
        # flush progressively so that a later crash keeps earlier results
    json.dump(dict(results=res), open(sys.argv[2], "w"))


if __name__ == "__main__":
    main()
