"""Worker: runs gjk_distance_jolt / gjk_intersection_jolt of /repo on collider pairs and records,
for every iteration, the search direction handed to collider 1 and the two support points
returned (by wrapping the bound support_function of each collider INSTANCE; /repo is untouched)."""
import json
import signal
import sys

from harness import compat  # noqa: F401
import numpy as np
from distance3d import gjk
from harness.impl.narrow import build, arr, Timeout, _alarm


def record(col, log):
    inner = col.support_function

    def rec(d, _inner=inner):
        dd = np.array(d, dtype=float, copy=True)
        r = _inner(d)
        log.append((dd.tolist(), np.array(r, dtype=float, copy=True).tolist()))
        return r
    col.support_function = rec
    return col


def run(case):
    out = {}
    for fn in case["fns"]:
        l1, l2 = [], []
        c1 = record(build(case["c1"]), l1)
        c2 = record(build(case["c2"]), l2)
        o = dict(fn=fn)
        signal.signal(signal.SIGALRM, _alarm)
        signal.alarm(int(case.get("timeout", 120)))
        try:
            if fn == "distance":
                d, a, b, simplex = gjk.gjk_distance_jolt(c1, c2, **case.get("kw", {}))
                o.update(d=float(d), a=arr(a), b=arr(b))
            elif fn == "intersection":
                o.update(ans=bool(gjk.gjk_intersection_jolt(c1, c2, **case.get("kw_i", {}))))
            else:
                raise ValueError(fn)
        except Timeout:
            o["exc"] = "TIMEOUT"
        except BaseException as e:  # noqa
            o["exc"] = type(e).__name__
            o["exc_msg"] = str(e)[:200]
        finally:
            signal.alarm(0)
        o["dirs"] = [x[0] for x in l1]
        o["ndirs2"] = [x[0] for x in l2]
        o["p"] = [x[1] for x in l1]
        o["q"] = [x[1] for x in l2]
        out[fn] = o
    return out


def main():
    payload = json.load(open(sys.argv[1]))
    json.dump(dict(results=[run(c) for c in payload["cases"]]), open(sys.argv[2], "w"))


if __name__ == "__main__":
    main()
