"""Worker: line and branch coverage of /repo's distance3d/distance/*.py reached by the generated
C10/C11 calls.  Must be started with NUMBA_DISABLE_JIT=1 (run_impl(..., jit=False)): the
@njit kernels then run as plain Python and are visible to coverage.py.

payload: {"cases": [{"fn": name, "args": [...]}, ...]}     (same layout as harness/impl/c10.py)
result : {"files": {basename: {"statements": n, "executed": n, "missing_lines": [...],
                               "branches": n, "missing_branches": [[from, to], ...]}},
          "errors": n_calls_that_raised, "raised": [{"index": i, "exc": type, "msg": text}, ...]}
"""
import json
import os
import sys

import coverage

from harness import compat  # noqa: F401
import numpy as np


def main():
    payload = json.load(open(sys.argv[1]))
    repo = os.environ.get("PYTHONPATH", "/repo").split(":")[0]
    pkg = os.path.join(repo, "distance3d", "distance")
    cov = coverage.Coverage(branch=True, include=[os.path.join(pkg, "*.py")], data_file=None, config_file=False)
    cov.start()
    import distance3d.distance as D      # imported under coverage: module-level lines count as executed
    from harness.impl.c10 import to_arg
    errors = 0
    raised = []
    for i, c in enumerate(payload["cases"]):
        try:
            getattr(D, c["fn"])(*[to_arg(a) for a in c["args"]])
        except BaseException as e:       # noqa
            errors += 1
            if len(raised) < 50:
                raised.append(dict(index=i, exc=type(e).__name__, msg=str(e)[:160]))
    cov.stop()
    files = {}
    for f in sorted(cov.get_data().measured_files()):
        an = cov._analyze(f)
        nums = an.numbers
        mb = an.missing_branch_arcs()
        files[os.path.basename(f)] = dict(
            statements=nums.n_statements, executed=nums.n_statements - nums.n_missing,
            missing_lines=sorted(an.missing),
            branches=nums.n_branches, missing_branches=sorted([a, b] for a, bs in mb.items() for b in bs))
    json.dump(dict(files=files, errors=errors, raised=raised), open(sys.argv[2], "w"))


if __name__ == "__main__":
    main()
