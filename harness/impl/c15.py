"""Worker: run /repo's hydroelastic tetrahedron intersection (C15).

Two kinds of cases
  kind="pair"    one tetrahedron pair with linear potentials; runs the public
                 intersect_tetrahedron_pair (both orders), compute_contact_force and the
                 internals (contact_plane, pre-check, make_halfplanes, intersect_halfplanes,
                 order_points, filter_unique_points, project_polygon_to_3d) step by step so
                 that the Coq model can be compared stage by stage.
  kind="bodies"  two RigidBody factory bodies at given poses / Young's moduli through
                 find_contact_surface (+ accumulate_wrenches); every reported contact is
                 returned with its two tetrahedra (in body 2's frame, the frame the polygon
                 lives in) and re-run with the two tetrahedra swapped.
Input/output: JSON files (sys.argv[1], sys.argv[2]).
"""
import json
import sys
import traceback

from harness import compat  # noqa: F401
import numpy as np

if not hasattr(np, "product"):
    np.product = np.prod

hc = ti = hp = fo = plane_basis_from_normal = None
COVERED = ["_tetrahedron_intersection.py", "_halfplanes.py", "_forces.py", "_interface.py"]


def load():
    """import distance3d (after coverage measurement has been started, if requested)"""
    global hc, ti, hp, fo, plane_basis_from_normal
    from distance3d import hydroelastic_contact as _hc
    from distance3d.hydroelastic_contact import _tetrahedron_intersection as _ti
    from distance3d.hydroelastic_contact import _halfplanes as _hp
    from distance3d.hydroelastic_contact import _forces as _fo
    from distance3d.utils import plane_basis_from_normal as _pb
    hc, ti, hp, fo, plane_basis_from_normal = _hc, _ti, _hp, _fo, _pb


def A(x):
    return np.ascontiguousarray(np.asarray(x, dtype=float))


def L(x):
    return np.asarray(x, dtype=float).tolist()


def bary(t):
    return np.ascontiguousarray(hc.barycentric_transforms(t.reshape(1, 4, 3))[0])


def match_perm(pts, ordered):
    """indices p with ordered[k] == pts[p[k]] (bitwise), each index used once"""
    used = [False] * len(pts)
    perm = []
    for row in ordered:
        for i in range(len(pts)):
            if not used[i] and pts[i][0] == row[0] and pts[i][1] == row[1]:
                used[i] = True
                perm.append(i)
                break
        else:
            return None
    return perm


def run_order(t1, e1, t2, e2, E1, E2, stages=True):
    """intersect_tetrahedron_pair(t1, t2) and, optionally, its internals."""
    out = {}
    X1, X2 = bary(t1), bary(t2)
    out["X1"], out["X2"] = L(X1), L(X2)
    if stages:
        plane, same = ti.contact_plane(X1, X2, e1, e2, float(E1), float(E2))
        out["plane0"] = L(plane)
        out["same"] = bool(same)
        if not same:
            n = np.ascontiguousarray(plane[:3])
            d = float(plane[3])
            out["pre"] = bool(ti.check_tetrahedra_intersect_contact_plane(t1, t2, n, d, 1e-6))
            plane_point = n * d
            c2p = np.ascontiguousarray(np.vstack(plane_basis_from_normal(n)))
            out["c2p"] = L(c2p)
            hps = ti.make_halfplanes(np.ascontiguousarray(np.vstack((X1, X2))), plane_point, c2p)
            out["hps"] = L(hps)
            if len(hps) > 0:
                try:
                    pts = np.ascontiguousarray(hp.intersect_halfplanes(np.ascontiguousarray(hps)))
                    out["pts"] = L(pts)
                    if len(pts) >= 3:
                        ordered = ti.order_points(pts)
                        out["ordered"] = L(ordered)
                        out["perm"] = match_perm(pts.tolist(), ordered.tolist())
                        uniq = ti.filter_unique_points(np.ascontiguousarray(ordered))
                        out["uniq"] = L(uniq)
                        if len(uniq) >= 3:
                            out["poly3d"] = L(ti.project_polygon_to_3d(
                                np.ascontiguousarray(uniq), c2p, plane_point))
                except AssertionError as e:  # the assert inside intersect_halfplanes
                    out["pts_exc"] = "AssertionError"
    try:
        inter, (plane_f, poly) = hc.intersect_tetrahedron_pair(t1, e1, X1, t2, e2, X2, float(E1), float(E2))
    except AssertionError:
        # the `assert n_intersections < len(points)` of intersect_halfplanes (compiled code: raised after the loop)
        out["raised"] = "AssertionError"
        out["inter"] = False
        out["plane"] = out.get("plane0", [float("nan")] * 4)
        out["poly"] = None
        return out
    out["inter"] = bool(inter)
    out["plane"] = L(plane_f)
    out["poly"] = None if poly is None else L(poly)
    if inter:
        com, force, area, tris = hc.compute_contact_force(t1, e1, A(plane_f), A(poly), float(E1))
        out["com"], out["force"], out["area"] = L(com), L(force), float(area)
    return out


def run_pair(c):
    t1, e1, t2, e2 = A(c["t1"]), A(c["e1"]), A(c["t2"]), A(c["e2"])
    E1, E2 = float(c.get("E1", 1.0)), float(c.get("E2", 1.0))
    return dict(o12=run_order(t1, e1, t2, e2, E1, E2), o21=run_order(t2, e2, t1, e1, E2, E1))


def make_body(spec):
    RB = hc.RigidBody
    s = spec["shape"]
    pose = A(spec["pose"])
    p = spec["params"]
    if s == "sphere":
        b = RB.make_sphere(A(pose[:3, 3]), float(p["radius"]), int(p["order"]))
    elif s == "ellipsoid":
        b = RB.make_ellipsoid(pose, A(p["radii"]), int(p["order"]))
    elif s == "cube":
        b = RB.make_cube(pose, float(p["size"]))
    elif s == "box":
        b = RB.make_box(pose, A(p["size"]))
    elif s == "cylinder":
        b = RB.make_cylinder(pose, float(p["radius"]), float(p["length"]), float(p["resolution_hint"]))
    elif s == "capsule":
        b = RB.make_capsule(pose, float(p["radius"]), float(p["height"]), float(p["resolution_hint"]))
    else:
        raise ValueError(s)
    b.youngs_modulus = float(spec.get("E", 1.0))
    return b


def run_bodies(c):
    b1, b2 = make_body(c["b1"]), make_body(c["b2"])
    if c.get("warm") is not None:
        # the judged call is not the first one on these objects: body 2 has been second argument before, then first
        # argument against a third body (re-expressed in that body's frame), body 1 likewise
        b3 = make_body(c["warm"])
        for x, y, flag in ((b1, b2, False), (b2, b3, True), (b1, b3, False), (b3, b1, True)):
            hc.find_contact_surface(x, y, use_aabb_trees=flag)
    try:
        cs = hc.find_contact_surface(b1, b2, use_aabb_trees=bool(c.get("use_aabb_trees", False)))
    except AssertionError:
        # find the tetrahedron pairs whose intersection raises, so that they can be judged as single pairs
        tp1, tp2 = b1.tetrahedra_points, b2.tetrahedra_points
        ep1, ep2 = b1.tetrahedra_potentials, b2.tetrahedra_potentials
        bad = []
        if len(tp1) * len(tp2) <= 40000:
            X1a, X2a = hc.barycentric_transforms(tp1), hc.barycentric_transforms(tp2)
            for i in range(len(tp1)):
                for j in range(len(tp2)):
                    try:
                        hc.intersect_tetrahedron_pair(A(tp1[i]), A(ep1[i]), A(X1a[i]), A(tp2[j]), A(ep2[j]), A(X2a[j]),
                                                      float(b1.youngs_modulus), float(b2.youngs_modulus))
                    except AssertionError:
                        if len(bad) < 8:
                            bad.append(dict(i=i, j=j, t1=L(tp1[i]), e1=L(ep1[i]), t2=L(tp2[j]), e2=L(ep2[j])))
        return dict(raised="AssertionError", raising_pairs=bad, E=[float(b1.youngs_modulus), float(b2.youngs_modulus)])
    w12, w21 = fo.accumulate_wrenches(cs, b1, b2)
    kept = None
    if c.get("then") is not None:
        # the surface is KEPT while another, different pair of bodies is computed: nothing of it may change
        before = [np.copy(np.asarray(x)) for x in (cs.contact_forces, cs.contact_areas, cs.contact_coms, cs.contact_planes)] + \
                 [np.copy(np.asarray(p)) for p in cs.contact_polygons]
        o1, o2 = make_body(c["then"]["b1"]), make_body(c["then"]["b2"])
        cs_other = hc.find_contact_surface(o1, o2)
        fo.accumulate_wrenches(cs_other, o1, o2)
        after = [np.asarray(x) for x in (cs.contact_forces, cs.contact_areas, cs.contact_coms, cs.contact_planes)] + \
                [np.asarray(p) for p in cs.contact_polygons]
        kept = bool(len(before) == len(after) and all(np.array_equal(x, y) for x, y in zip(before, after)))
    out = dict(intersection=bool(cs.intersection), w12=L(w12), w21=L(w21),
               frame2world=L(cs.frame2world), n_tets=[len(b1.tetrahedra_), len(b2.tetrahedra_)],
               E=[float(b1.youngs_modulus), float(b2.youngs_modulus)])
    tp1, tp2 = b1.tetrahedra_points, b2.tetrahedra_points
    ep1, ep2 = b1.tetrahedra_potentials, b2.tetrahedra_potentials
    contacts = []
    limit = int(c.get("max_contacts", 10 ** 9))
    n = len(cs.intersecting_tetrahedra1)
    out["n_contacts"] = n
    idxs = list(range(n))
    if n > limit:  # deterministic thinning, keeps first/last
        step = n / float(limit)
        idxs = sorted({int(k * step) for k in range(limit)} | {n - 1})
    for k in idxs:
        i, j = int(cs.intersecting_tetrahedra1[k]), int(cs.intersecting_tetrahedra2[k])
        t1, t2 = A(tp1[i]), A(tp2[j])
        e1, e2 = A(ep1[i]), A(ep2[j])
        X1, X2 = bary(t1), bary(t2)
        sw_inter, (sw_plane, sw_poly) = hc.intersect_tetrahedron_pair(
            t2, e2, X2, t1, e1, X1, float(b2.youngs_modulus), float(b1.youngs_modulus))
        contacts.append(dict(
            i=i, j=j, t1=L(t1), e1=L(e1), t2=L(t2), e2=L(e2),
            plane=L(cs.contact_planes[k]), poly=L(cs.contact_polygons[k]),
            force=L(cs.contact_forces[k]), area=float(cs.contact_areas[k]), com=L(cs.contact_coms[k]),
            sw_inter=bool(sw_inter), sw_plane=L(sw_plane), sw_poly=None if sw_poly is None else L(sw_poly)))
    out["contacts"] = contacts
    if kept is not None:
        out["kept_unchanged"] = kept
    out["reported_pairs"] = [[int(i), int(j)] for i, j in zip(cs.intersecting_tetrahedra1, cs.intersecting_tetrahedra2)]
    out["com1"], out["com2"] = L(b1.com), L(b2.com)
    if n:
        out["sum_force"] = L(np.sum(cs.contact_forces, axis=0))
    if c.get("all_pairs") and len(tp1) * len(tp2) <= int(c.get("all_pairs_limit", 6000)):
        # narrow phase on EVERY tetrahedron pair (no broad phase): the reported set must be this set
        X1a, X2a = hc.barycentric_transforms(tp1), hc.barycentric_transforms(tp2)
        allp = []
        E1, E2 = float(b1.youngs_modulus), float(b2.youngs_modulus)
        for i in range(len(tp1)):
            for j in range(len(tp2)):
                inter, _ = hc.intersect_tetrahedron_pair(A(tp1[i]), A(ep1[i]), A(X1a[i]), A(tp2[j]), A(ep2[j]), A(X2a[j]), E1, E2)
                if inter:
                    allp.append([i, j])
        out["all_pairs"] = allp
    if c.get("want_vertices"):
        # both bodies in the frame the intersection was computed in (body 2's frame)
        out["verts1"] = L(b1.vertices_)
        out["verts2"] = L(b2.vertices_)
    return out


def run_unit(c):
    """one internal function on crafted inputs (bit-exact comparison with the model)"""
    fn, a = c["fn"], c["args"]
    if fn == "pre":
        return dict(out=bool(ti.check_tetrahedra_intersect_contact_plane(
            A(a["t1"]), A(a["t2"]), A(a["n"]), float(a["d"]), 1e-6)))
    if fn == "outside":
        return dict(out=bool(hp.point_outside_of_halfplane(A(a["h"]), A(a["p"]))))
    if fn == "two":
        return dict(out=L(hp.intersect_two_halfplanes(A(a["h1"]), A(a["h2"]))))
    if fn == "inter":
        try:
            return dict(out=L(hp.intersect_halfplanes(A(a["hps"]).reshape(-1, 4))))
        except AssertionError:
            return dict(out="AssertionError")
    if fn == "filter":
        return dict(out=L(ti.filter_unique_points(A(a["pts"]).reshape(-1, 2))))
    if fn == "make_hp":
        return dict(out=L(ti.make_halfplanes(A(a["X"]), A(a["pp"]), A(a["c2p"]))))
    if fn == "plane":
        pl, same = ti.contact_plane(A(a["X1"]), A(a["X2"]), A(a["e1"]), A(a["e2"]), float(a["E1"]), float(a["E2"]))
        return dict(out=L(pl), same=bool(same))
    if fn == "basis":
        x, y = plane_basis_from_normal(A(a["n"]))
        return dict(out=L(x) + L(y))
    if fn == "same":
        pl, poly = ti._handle_same_tetrahedron(A(a["e"]), A(a["t"]))
        return dict(out=[L(pl)] + L(poly))
    if fn == "project":
        return dict(out=L(ti.project_polygon_to_3d(A(a["vs"]).reshape(-1, 2), A(a["c2p"]), A(a["pp"]))))
    if fn == "order":
        pts = A(a["pts"]).reshape(-1, 2)
        ordered = ti.order_points(pts)
        return dict(out=L(ordered), perm=match_perm(pts.tolist(), ordered.tolist()))
    if fn == "force":
        com, force, area, tris = fo.compute_contact_force(A(a["t"]), A(a["e"]), A(a["plane"]), A(a["poly"]), float(a["E"]))
        return dict(out=L(com) + L(force) + [float(area)], tris=np.asarray(tris).astype(int).tolist())
    if fn == "tess":
        return dict(out=np.asarray(fo.tesselate_ordered_polygon(int(a["n"]))).astype(int).tolist(),
                    table=np.asarray(fo.TRIANGLES).astype(int).tolist())
    if fn == "pairs":
        # intersect_tetrahedron_pairs on explicit arrays: index wiring of the batch loop
        tp1, tp2 = A(a["tp1"]), A(a["tp2"])
        ep1, ep2 = A(a["ep1"]), A(a["ep2"])
        X1 = {i: bary(tp1[i]) for i in range(len(tp1))}
        X2 = {j: bary(tp2[j]) for j in range(len(tp2))}
        inter, planes, polys, i1, i2 = ti.intersect_tetrahedron_pairs(
            [tuple(p) for p in a["pairs"]], tp1, tp2, ep1, ep2, X1, X2, float(a["E1"]), float(a["E2"]))
        direct = []
        for i, j in a["pairs"]:
            it, (pl, po) = hc.intersect_tetrahedron_pair(A(tp1[i]), A(ep1[i]), X1[i], A(tp2[j]), A(ep2[j]), X2[j], float(a["E1"]), float(a["E2"]))
            direct.append(dict(inter=bool(it), plane=L(pl), poly=None if po is None else L(po)))
        return dict(out=None, inter=bool(inter), planes=L(planes) if len(i1) else [], polys=[L(p) for p in polys],
                    i1=[int(i) for i in i1], i2=[int(j) for j in i2], direct=direct)
    raise ValueError(fn)


def run_case(c):
    try:
        if c["kind"] == "pair":
            return run_pair(c)
        if c["kind"] == "unit":
            return run_unit(c)
        return run_bodies(c)
    except BaseException as e:  # noqa
        return dict(exc=type(e).__name__, exc_msg=str(e)[:300], tb=traceback.format_exc()[-1500:])


def main():
    payload = json.load(open(sys.argv[1]))
    cov = None
    if payload.get("trace"):
        # line/branch coverage of the interpreted code (the harness runs this worker with
        # NUMBA_DISABLE_JIT=1): which lines/branches of the files in scope the cases reach
        import coverage
        cov = coverage.Coverage(branch=True, data_file=None, include=["*/hydroelastic_contact/" + f for f in COVERED])
        cov.start()
    load()
    res = [run_case(c) for c in payload["cases"]]
    out = dict(results=res)
    if cov is not None:
        cov.stop()
        import os
        rep = {}
        base = os.path.dirname(hc.__file__)
        for f in COVERED:
            an = cov._analyze(os.path.join(base, f))
            miss_arcs = an.missing_branch_arcs()
            rep[f] = dict(statements=len(an.statements), missing_lines=sorted(an.missing),
                          branches=an.numbers.n_branches, missing_branches=an.numbers.n_missing_branches,
                          missing_arcs=sorted([int(a), int(b)] for a, bs in miss_arcs.items() for b in bs))
        out["coverage"] = rep
    json.dump(out, open(sys.argv[2], "w"))


if __name__ == "__main__":
    main()
