"""Worker: run /repo's hydroelastic tetrahedron intersection (C15).

Two kinds of cases
  kind="pair"    one tetrahedron pair with linear potentials; runs the public
                 intersect_tetrahedron_pair (both orders), compute_contact_force and the
                 internals (contact_plane, pre-check, make_halfplanes, intersect_halfplanes,
                 order_points, filter_unique_points, project_polygon_to_3d) step by step so
                 that the Coq model can be compared stage by stage.
  kind="bodies"  two RigidBody factory bodies at given poses / Young's moduli through
                 find_contact_surface (+ accumulate_wrenches); every reported contact is
                 returned with its two tetrahedra (in body 2's frame, the frame the polygon
                 lives in) and re-run with the two tetrahedra swapped.
Input/output: JSON files (sys.argv[1], sys.argv[2]).
"""
import json
import sys
import traceback

from harness import compat  # noqa: F401
import numpy as np

if not hasattr(np, "product"):
    np.product = np.prod

from distance3d import hydroelastic_contact as hc
from distance3d.hydroelastic_contact import _tetrahedron_intersection as ti
from distance3d.hydroelastic_contact import _halfplanes as hp
from distance3d.hydroelastic_contact import _forces as fo
from distance3d.utils import plane_basis_from_normal


def A(x):
    return np.ascontiguousarray(np.asarray(x, dtype=float))


def L(x):
    return np.asarray(x, dtype=float).tolist()


def bary(t):
    return np.ascontiguousarray(hc.barycentric_transforms(t.reshape(1, 4, 3))[0])


def match_perm(pts, ordered):
    """indices p with ordered[k] == pts[p[k]] (bitwise), each index used once"""
    used = [False] * len(pts)
    perm = []
    for row in ordered:
        for i in range(len(pts)):
            if not used[i] and pts[i][0] == row[0] and pts[i][1] == row[1]:
                used[i] = True
                perm.append(i)
                break
        else:
            return None
    return perm


def run_order(t1, e1, t2, e2, E1, E2, stages=True):
    """intersect_tetrahedron_pair(t1, t2) and, optionally, its internals."""
    out = {}
    X1, X2 = bary(t1), bary(t2)
    out["X1"], out["X2"] = L(X1), L(X2)
    if stages:
        plane, same = ti.contact_plane(X1, X2, e1, e2, float(E1), float(E2))
        out["plane0"] = L(plane)
        out["same"] = bool(same)
        if not same:
            n = np.ascontiguousarray(plane[:3])
            d = float(plane[3])
            out["pre"] = bool(ti.check_tetrahedra_intersect_contact_plane(t1, t2, n, d, 1e-6))
            plane_point = n * d
            c2p = np.ascontiguousarray(np.vstack(plane_basis_from_normal(n)))
            out["c2p"] = L(c2p)
            hps = ti.make_halfplanes(np.ascontiguousarray(np.vstack((X1, X2))), plane_point, c2p)
            out["hps"] = L(hps)
            if len(hps) > 0:
                try:
                    pts = np.ascontiguousarray(hp.intersect_halfplanes(np.ascontiguousarray(hps)))
                    out["pts"] = L(pts)
                    if len(pts) >= 3:
                        ordered = ti.order_points(pts)
                        out["ordered"] = L(ordered)
                        out["perm"] = match_perm(pts.tolist(), ordered.tolist())
                        uniq = ti.filter_unique_points(np.ascontiguousarray(ordered))
                        out["uniq"] = L(uniq)
                        if len(uniq) >= 3:
                            out["poly3d"] = L(ti.project_polygon_to_3d(
                                np.ascontiguousarray(uniq), c2p, plane_point))
                except AssertionError as e:  # the assert inside intersect_halfplanes
                    out["pts_exc"] = "AssertionError"
    inter, (plane_f, poly) = hc.intersect_tetrahedron_pair(t1, e1, X1, t2, e2, X2, float(E1), float(E2))
    out["inter"] = bool(inter)
    out["plane"] = L(plane_f)
    out["poly"] = None if poly is None else L(poly)
    if inter:
        com, force, area, tris = hc.compute_contact_force(t1, e1, A(plane_f), A(poly), float(E1))
        out["com"], out["force"], out["area"] = L(com), L(force), float(area)
    return out


def run_pair(c):
    t1, e1, t2, e2 = A(c["t1"]), A(c["e1"]), A(c["t2"]), A(c["e2"])
    E1, E2 = float(c.get("E1", 1.0)), float(c.get("E2", 1.0))
    return dict(o12=run_order(t1, e1, t2, e2, E1, E2), o21=run_order(t2, e2, t1, e1, E2, E1))


def make_body(spec):
    RB = hc.RigidBody
    s = spec["shape"]
    pose = A(spec["pose"])
    p = spec["params"]
    if s == "sphere":
        b = RB.make_sphere(A(pose[:3, 3]), float(p["radius"]), int(p["order"]))
    elif s == "ellipsoid":
        b = RB.make_ellipsoid(pose, A(p["radii"]), int(p["order"]))
    elif s == "cube":
        b = RB.make_cube(pose, float(p["size"]))
    elif s == "box":
        b = RB.make_box(pose, A(p["size"]))
    elif s == "cylinder":
        b = RB.make_cylinder(pose, float(p["radius"]), float(p["length"]), float(p["resolution_hint"]))
    elif s == "capsule":
        b = RB.make_capsule(pose, float(p["radius"]), float(p["height"]), float(p["resolution_hint"]))
    else:
        raise ValueError(s)
    b.youngs_modulus = float(spec.get("E", 1.0))
    return b


def run_bodies(c):
    b1, b2 = make_body(c["b1"]), make_body(c["b2"])
    cs = hc.find_contact_surface(b1, b2, use_aabb_trees=bool(c.get("use_aabb_trees", False)))
    w12, w21 = fo.accumulate_wrenches(cs, b1, b2)
    out = dict(intersection=bool(cs.intersection), w12=L(w12), w21=L(w21),
               frame2world=L(cs.frame2world), n_tets=[len(b1.tetrahedra_), len(b2.tetrahedra_)],
               E=[float(b1.youngs_modulus), float(b2.youngs_modulus)])
    tp1, tp2 = b1.tetrahedra_points, b2.tetrahedra_points
    ep1, ep2 = b1.tetrahedra_potentials, b2.tetrahedra_potentials
    contacts = []
    limit = int(c.get("max_contacts", 10 ** 9))
    n = len(cs.intersecting_tetrahedra1)
    out["n_contacts"] = n
    idxs = list(range(n))
    if n > limit:  # deterministic thinning, keeps first/last
        step = n / float(limit)
        idxs = sorted({int(k * step) for k in range(limit)} | {n - 1})
    for k in idxs:
        i, j = int(cs.intersecting_tetrahedra1[k]), int(cs.intersecting_tetrahedra2[k])
        t1, t2 = A(tp1[i]), A(tp2[j])
        e1, e2 = A(ep1[i]), A(ep2[j])
        X1, X2 = bary(t1), bary(t2)
        sw_inter, (sw_plane, sw_poly) = hc.intersect_tetrahedron_pair(
            t2, e2, X2, t1, e1, X1, float(b2.youngs_modulus), float(b1.youngs_modulus))
        contacts.append(dict(
            i=i, j=j, t1=L(t1), e1=L(e1), t2=L(t2), e2=L(e2),
            plane=L(cs.contact_planes[k]), poly=L(cs.contact_polygons[k]),
            force=L(cs.contact_forces[k]), area=float(cs.contact_areas[k]), com=L(cs.contact_coms[k]),
            sw_inter=bool(sw_inter), sw_plane=L(sw_plane), sw_poly=None if sw_poly is None else L(sw_poly)))
    out["contacts"] = contacts
    if c.get("want_vertices"):
        # both bodies in the frame the intersection was computed in (body 2's frame)
        out["verts1"] = L(b1.vertices_)
        out["verts2"] = L(b2.vertices_)
    return out


def run_case(c):
    try:
        if c["kind"] == "pair":
            return run_pair(c)
        return run_bodies(c)
    except BaseException as e:  # noqa
        return dict(exc=type(e).__name__, exc_msg=str(e)[:300], tb=traceback.format_exc()[-1500:])


def main():
    payload = json.load(open(sys.argv[1]))
    res = [run_case(c) for c in payload["cases"]]
    json.dump(dict(results=res), open(sys.argv[2], "w"))


if __name__ == "__main__":
    main()
