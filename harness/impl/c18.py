"""Worker: run /repo's two simplex solvers on k-point configurations (C18).

payload: {"cases": [[[x,y,z], ...k points...], ...]}  (floats; k in 1..4)
result : {"results": [{"jolt": {...}, "orig": {...}}, ...]}

Jolt   : get_closest_point_to_origin(Y, n, inf) -> success, v, v_len_sq, bit set; and the same call
         with prev_v_len_sqr = the returned v_len_sq / its successor (must fail / succeed)
Original: distance_subalgorithm_with_backup_procedure(simplex, Solution(), True); the
          simplex is built through the public API the GJK loop itself uses
          (set_first_point / add_new_point), fed in the order that makes
          simplex.points[:k] equal the given configuration; indices_polytope1 carries
          the index of each input point so the reordered subset can be named.
All floats are returned as hex strings (exact).
"""
import json
import sys

from harness import compat  # noqa: F401
import numpy as np
from distance3d.gjk import _gjk_jolt as J
from distance3d.gjk import _gjk_original as G


def hx(a):
    return [float(x).hex() for x in np.asarray(a, dtype=float).reshape(-1)]


def run_jolt(pts):
    k = len(pts)
    Y = np.empty((4, 3), dtype=float)
    Y[:] = 0.0
    Y[:k] = pts
    Y0 = Y.copy()
    ok, v, vlen, simplex = J.get_closest_point_to_origin(Y, k, np.inf)
    out = dict(success=bool(ok), y_unchanged=bool(np.array_equal(Y, Y0)))
    if ok:
        out.update(v=hx(v), v_len_sq=float(vlen).hex(), bits=int(simplex))
        # the only other branch of the function: "v_len_sq < prev_v_len_sqr" with a finite bound
        vl = float(vlen)
        ok_eq = J.get_closest_point_to_origin(Y0.copy(), k, vl)[0]
        ok_next = J.get_closest_point_to_origin(Y0.copy(), k, float(np.nextafter(vl, np.inf)))[0]
        out.update(ok_prev_equal=bool(ok_eq), ok_prev_next=bool(ok_next))
    return out


def build_simplex(pts):
    """simplex.points[:k] == pts, built with set_first_point/add_new_point:
    add_new_point moves row 0 to row n and writes the new point into row 0, so feeding
    p1, p2, ..., p_{k-1}, p0 yields rows p0, p1, ..., p_{k-1}."""
    k = len(pts)
    s = G.SimplexInfo()
    s.points[:] = 0.0            # np.empty rows beyond k are read by reorder() (full matmul)
    s.dot_product_table[:] = 0.0
    order = list(range(1, k)) + [0]
    first = True
    for i in order:
        p = np.array(pts[i], dtype=float)
        if first:
            s.set_first_point(i, i, p)
            first = False
        else:
            s.add_new_point(i, i, p)
    return s


def run_orig(pts):
    k = len(pts)
    s = build_simplex(pts)
    built_ok = bool(np.array_equal(s.points[:k], np.array(pts, dtype=float))) and \
        [int(i) for i in s.indices_polytope1[:k]] == list(range(k))
    sol, backup = G.distance_subalgorithm_with_backup_procedure(s, G.Solution(), True)
    n = len(s)
    return dict(built_ok=built_ok, backup=bool(backup), n=int(n),
                v=hx(sol.search_direction), dist_sq=float(sol.distance_squared).hex(),
                bary=hx(sol.barycentric_coordinates[:n]),
                idx=[int(i) for i in s.indices_polytope1[:n]],
                sub=hx(s.points[:n]))


def main():
    payload = json.loads(open(sys.argv[1]).read())
    res = []
    for pts in payload["cases"]:
        r = {}
        for name, f in (("jolt", run_jolt), ("orig", run_orig)):
            try:
                r[name] = f(pts)
            except Exception as e:  # noqa: BLE001
                r[name] = dict(exc=type(e).__name__, exc_msg=str(e)[:200])
        res.append(r)
    open(sys.argv[2], "w").write(json.dumps(dict(results=res)))


if __name__ == "__main__":
    main()
