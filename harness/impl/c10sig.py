"""Worker: execution-path signature of every call (C10/C11 case selection).  Must run with NUMBA_DISABLE_JIT=1
(run_impl(..., jit=False)) so that the @njit kernels are plain Python and visible to sys.settrace.

payload: {"cases": [{"fn": name, "args": [...]}, ...]}
result : {"outs": [[d, p1.., p2..] floats of the (interpreted) call | null], "files": [basename, ...], "lines": [[file_index * 10000000 + line key, ...] per case]}   ([] if the call raised)
The set of executed lines names the path through the branches of the implementation that the input takes; the harness
selects the cases of a run so that rarely executed lines are covered several times on every run.
"""
import hashlib
import json
import os
import sys

from harness import compat  # noqa: F401
import numpy as np


def main():
    payload = json.load(open(sys.argv[1]))
    import distance3d.distance as D
    from harness.impl.c10 import to_arg
    root = os.path.dirname(D.__file__) + os.sep
    seen = set()

    def local(frame, event, arg):
        if event == "line":
            seen.add((frame.f_code.co_filename, frame.f_lineno))
        return local

    def local_idx(frame, event, arg):
        # functions parameterised by axis indices (i0, i1, i2 of Eberly's box code, convert_* helpers): the same source
        # line is a different branch of the algorithm for every index permutation, so the indices are part of the key
        if event == "line":
            loc = frame.f_locals
            k = 0
            for nm in ("i0", "i1", "i2"):
                v = loc.get(nm)
                k = k * 4 + (v + 1 if isinstance(v, int) and 0 <= v <= 2 else 0)
            seen.add((frame.f_code.co_filename, frame.f_lineno + 10000 * k))
        return local_idx

    def tracer(frame, event, arg):
        if event == "call" and frame.f_code.co_filename.startswith(root):
            return local_idx if "i0" in frame.f_code.co_varnames else local
        return None

    files = {}
    lines = []
    outs = []
    for c in payload["cases"]:
        seen.clear()
        args = [to_arg(a) for a in c["args"]]
        f = getattr(D, c["fn"])
        sys.settrace(tracer)
        try:
            res = f(*args)
            exc = None
            outs.append([float(res[0])] + [float(x) for p_ in res[1:] for x in np.asarray(p_, dtype=float).reshape(-1)])
        except BaseException as e:  # noqa
            exc = type(e).__name__
        finally:
            sys.settrace(None)
        if exc:
            outs.append(None)
            lines.append([-1])       # raised in the interpreted run: the harness always keeps such a case
        else:
            lines.append(sorted(files.setdefault(os.path.basename(a), len(files)) * 10000000 + b for a, b in seen))
    json.dump(dict(files=sorted(files, key=files.get), lines=lines, outs=outs), open(sys.argv[2], "w"))


if __name__ == "__main__":
    main()
