"""Worker for the harness' own float oracles and witness builders of the penetration checks
(C07, C08): runs a module-level function of harness/props/<module>.py on a list of arguments.
Does not import /repo's code; it is a worker only so that the work is spread over processes
through common.run_impl (machine-wide slot throttle)."""
import importlib
import json
import sys


def main():
    payload = json.load(open(sys.argv[1]))
    mod = importlib.import_module("harness.props." + payload["module"])
    f = getattr(mod, payload["func"])
    out = [f(a) for a in payload["args"]]
    json.dump(dict(results=out), open(sys.argv[2], "w"))


if __name__ == "__main__":
    main()
