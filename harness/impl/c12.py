"""Worker of the C12 check (collider part): builds the two colliders of a case ONCE and runs
every requested query on these same objects, in the order given, optionally with the
arguments swapped (`swap`: the call is f(c2, c1) on the same two Python objects, so state kept
inside a collider or keyed on the first argument shows as an asymmetry).

payload {"cases": [{"c1": spec, "c2": spec, "ops": [{"fn":..., "kw":..., "swap": bool}, ...]}]}
Ops are those of harness/impl/narrow.py (same names, same result fields) plus
  epa        additionally reports `n_points`, the number of live simplex points with which
             gjk_distance_jolt left its loop (known finding C07/F2 is the class n_points < 4)
  support    {"fn": "support", "which": 1|2, "d": [..]} -> {"p": support point}
  center     {"fn": "center", "which": 1|2}             -> {"p": collider.center()}
"""
import json
import os
import signal
import sys
import time
import traceback

from harness import compat  # noqa: F401
import numpy as np
from distance3d import gjk, mpr, epa as EPA
from distance3d.gjk import _gjk_jolt as J
from harness.impl import narrow as NW

_info = {}
_orig_loop = J._distance_loop


def _loop(*a):
    r = _orig_loop(*a)
    _info["n_points"] = r[1]
    return r


J._distance_loop = _loop

from distance3d.gjk import _gjk_original as GO
_orig_sub = GO.distance_subalgorithm_with_backup_procedure


def _sub(simplex, solution, backup):
    r = _orig_sub(simplex, solution, backup)
    _info["orig_last"] = (int(len(simplex)), float(r[0].distance_squared), bool(backup))
    return r


GO.distance_subalgorithm_with_backup_procedure = _sub


def run_op(op, c1, c2):
    if op.get("swap"):
        c1, c2 = c2, c1
    name = op["fn"]
    out = dict(fn=name)
    kw = op.get("kw", {})
    t0 = time.time()
    signal.signal(signal.SIGALRM, NW._alarm)
    signal.alarm(int(op.get("timeout", 20)))
    arr = NW.arr
    try:
        if name == "gjk_jolt":
            d, a, b, simplex = gjk.gjk_distance_jolt(c1, c2, **kw)
            out.update(d=float(d), a=arr(a), b=arr(b))
        elif name == "gjk_original":
            _info.pop("orig_last", None)
            r = gjk.gjk_distance_original(c1, c2)
            out.update(d=float(r[0]), a=arr(r[1]), b=arr(r[2]))
            last = _info.get("orig_last")
            if last is not None:
                # (simplex size, distance^2 of the last (backup) solution): the exit forces d = 0 whenever the size is 4
                out.update(last_simplex=last[0], last_d2=last[1])
        elif name == "nesterov":
            r = gjk.gjk_nesterov_accelerated(c1, c2, **kw)
            out.update(contact=bool(r[0]), d=float(r[1]))
        elif name == "nesterov_distance":
            out.update(d=float(gjk.gjk_nesterov_accelerated_distance(c1, c2)))
        elif name == "nesterov_prim":
            r = gjk.gjk_nesterov_accelerated_primitives(c1, c2, **kw)
            out.update(contact=bool(r[0]), d=float(r[1]))
        elif name == "nesterov_prim_distance":
            out.update(d=float(gjk.gjk_nesterov_accelerated_primitives_distance(c1, c2)))
        elif name == "isect_jolt":
            out.update(ans=bool(gjk.gjk_intersection_jolt(c1, c2)))
        elif name == "isect_libccd":
            out.update(ans=bool(gjk.gjk_intersection_libccd(c1, c2)))
        elif name == "isect_mpr":
            out.update(ans=bool(mpr.mpr_intersection(c1, c2)))
        elif name == "isect_nesterov":
            out.update(ans=bool(gjk.gjk_nesterov_accelerated_intersection(c1, c2)))
        elif name == "isect_nesterov_prim":
            out.update(ans=bool(gjk.gjk_nesterov_accelerated_primitives_intersection(c1, c2)))
        elif name == "epa":
            _info.pop("n_points", None)
            d, a, b, simplex = gjk.gjk_distance_jolt(c1, c2)
            out.update(d=float(d), n_points=_info.get("n_points"), simplex=arr(simplex))
            if d < 1e-12:
                mtv, faces, success = EPA.epa(simplex, c1, c2, **kw)
                out.update(mtv=arr(mtv), success=bool(success))
            else:
                out.update(skipped="gjk reports no overlap")
        elif name == "mpr_pen":
            inter, depth, pdir, pos = mpr.mpr_penetration(c1, c2, **kw)
            out.update(ans=bool(inter), depth=None if depth is None else float(depth), dir=arr(pdir), pos=arr(pos))
        elif name == "support":
            c = c1 if op.get("which", 1) == 1 else c2
            out.update(p=arr(c.support_function(np.array(op["d"], dtype=float))))
        elif name == "center":
            c = c1 if op.get("which", 1) == 1 else c2
            out.update(p=arr(c.center()))
        else:
            raise ValueError(name)
    except NW.Timeout:
        out["exc"] = "TIMEOUT"
    except BaseException as e:  # noqa
        out["exc"] = type(e).__name__
        out["exc_msg"] = str(e)[:200]
        out["tb"] = traceback.format_exc()[-600:]
    finally:
        signal.alarm(0)
    out["wall"] = round(time.time() - t0, 4)
    return out


class Monitor:
    """A forked child that kills this worker (SIGKILL) when one op overruns its budget by 10 s
    (budgets are generous -- op timeout + 100 s -- so that a cold numba cache or a loaded machine
    is not mistaken for a hang; the parent re-runs a killed case alone before calling it a hang).
    Compiled (njit) loops hold the GIL and ignore SIGALRM, so neither a signal handler nor a
    watchdog thread can stop them.  The op in flight is recorded in <out>.hang for the report."""

    def __init__(self, hang_path):
        r, w = os.pipe()
        self.parent = os.getpid()
        pid = os.fork()
        if pid == 0:
            os.close(w)
            self._child(r, hang_path)
            os._exit(0)
        os.close(r)
        self.w = w

    def _child(self, r, hang_path):
        import select
        budget, label, buf = 120.0, "startup", b""
        while True:
            ready, _, _ = select.select([r], [], [], budget + 10.0)
            if not ready:
                try:
                    with open(hang_path, "w") as fh:
                        fh.write(label)
                    os.kill(self.parent, signal.SIGKILL)
                finally:
                    return
            data = os.read(r, 65536)
            if not data:
                return
            buf += data
            while b"\n" in buf:
                line, buf = buf.split(b"\n", 1)
                try:
                    msg = json.loads(line)
                    budget, label = float(msg["budget"]), json.dumps(msg["label"])
                except Exception:  # noqa
                    pass

    def beat(self, budget, label):
        os.write(self.w, (json.dumps(dict(budget=budget, label=label)) + "\n").encode())


def move_in_place(col, G, moved_spec):
    """apply the rigid motion G (4x4) to an EXISTING collider the way an application does: take the pose array the
    collider exposes, overwrite it IN PLACE with G @ pose and hand the same array object to update_pose().  Colliders
    without update_pose (vertex hulls) are rebuilt from the moved specification."""
    try:
        P = col.collider2origin()
        P[:] = G.dot(P)
        col.update_pose(P)
        return col
    except NotImplementedError:
        return NW.build(moved_spec)


WARM_SPECS = [
    dict(kind="sphere", center=[0.0, 0.0, 0.0], radius=1.0),
    dict(kind="box", pose=np.eye(4).tolist(), size=[1.0, 1.0, 1.0]),
    dict(kind="capsule", pose=np.eye(4).tolist(), radius=0.5, height=1.0),
    dict(kind="cylinder", pose=np.eye(4).tolist(), radius=0.5, length=1.0),
    dict(kind="ellipsoid", pose=np.eye(4).tolist(), radii=[1.0, 0.5, 0.25]),
    dict(kind="cone", pose=np.eye(4).tolist(), radius=0.5, height=1.0),
    dict(kind="disk", center=[0.0, 0.0, 0.0], radius=1.0, normal=[0.0, 0.0, 1.0]),
    dict(kind="ellipse", center=[0.0, 0.0, 0.0], axes=[[1.0, 0.0, 0.0], [0.0, 1.0, 0.0]], radii=[1.0, 0.5]),
    dict(kind="mesh", pose=np.eye(4).tolist(), vertices=[[0.0, 0.0, 0.0], [1.0, 0.0, 0.0], [0.0, 1.0, 0.0], [0.0, 0.0, 1.0]]),
    dict(kind="hull", vertices=[[0.0, 0.0, 0.0], [1.0, 0.0, 0.0], [0.0, 1.0, 0.0], [0.0, 0.0, 1.0]], margin=0.1),
]
WARM_OPS = ["gjk_jolt", "gjk_original", "nesterov_distance", "nesterov", "isect_jolt", "isect_libccd", "isect_mpr",
            "isect_nesterov", "mpr_pen", "epa"]
WARM_PRIM_OPS = ["nesterov_prim_distance", "isect_nesterov_prim", "nesterov_prim"]


def warm_up():
    """compile / load from the numba cache everything the ops use BEFORE any per-op time limit applies (a cold cache
    costs 10-60 s per function; an alarm firing inside the compiler is not a verdict and breaks the dispatcher)"""
    if os.environ.get("NUMBA_DISABLE_JIT"):
        return
    cols = [NW.build(s) for s in WARM_SPECS]
    far = NW.build(dict(kind="sphere", center=[0.25, 0.1, 0.2], radius=0.5))
    sep = NW.build(dict(kind="box", pose=[[1.0, 0.0, 0.0, 5.0], [0.0, 1.0, 0.0, 0.0], [0.0, 0.0, 1.0, 0.0], [0.0, 0.0, 0.0, 1.0]],
                        size=[1.0, 1.0, 1.0]))
    for c in cols:
        for other in (far, sep):
            for fn in WARM_OPS:
                run_op(dict(fn=fn, timeout=0), c, other)
    prims = cols[:5]
    for a in prims:
        for b in prims[:2]:
            for fn in WARM_PRIM_OPS:
                run_op(dict(fn=fn, timeout=0), a, b)


def main():
    payload = json.load(open(sys.argv[1]))
    mon = Monitor(sys.argv[2] + ".hang")
    mon.beat(3000.0, dict(case=-2, op="warm-up"))
    if payload.get("warm", True):
        warm_up()
    res = []
    for ci, case in enumerate(payload["cases"]):
        mon.beat(120.0, dict(case=ci, op="build"))
        try:
            c1 = NW.build(case["c1"])
            c2 = c1 if case.get("same_object") else NW.build(case["c2"])
        except BaseException as e:  # noqa
            res.append([dict(fn=o["fn"], exc="BUILD-" + type(e).__name__, exc_msg=str(e)[:200]) for o in case["ops"]])
            continue
        if case.get("update") is not None:
            # one query first (fills whatever the colliders cache), then move both colliders through update_pose
            try:
                run_op(dict(fn="gjk_jolt", timeout=0), c1, c2)
                run_op(dict(fn="isect_mpr", timeout=0), c1, c2)
                G = np.eye(4)
                G[:3, :3] = np.array(case["update"]["R"], dtype=float)
                G[:3, 3] = np.array(case["update"]["t"], dtype=float)
                same = c2 is c1
                c1 = move_in_place(c1, G, case["moved"][0])
                c2 = c1 if same else move_in_place(c2, G, case["moved"][1])
            except BaseException as e:  # noqa
                res.append([dict(fn=o["fn"], exc="UPDATE-" + type(e).__name__, exc_msg=str(e)[:200]) for o in case["ops"]])
                continue
        rr = []
        for op in case["ops"]:
            mon.beat(float(op.get("timeout", 20)) + 100.0, dict(case=ci, op=op))
            rr.append(run_op(op, c1, c2))
        res.append(rr)
    mon.beat(120.0, dict(case=-1, op="write"))
    json.dump(dict(results=res), open(sys.argv[2], "w"))


if __name__ == "__main__":
    main()
