"""Worker: run /repo's colliders' support_function / first_vertex / center (C03).
Input / output JSON files (sys.argv[1], sys.argv[2]).

Besides the answers of the compiled code the worker reports
  * `pyfunc_diff`: queries on which the interpreted source of a numba function (its .py_func)
    returns a different point than the compiled function (1e-9 relative), and
  * `line_hits`: the source lines of geometry.py / colliders.py / mesh.py / utils.py executed
    by this worker's inputs (interpreted re-execution under sys.settrace)."""
import json
import sys
import traceback

from harness import compat  # noqa: F401
import numpy as np
from distance3d import colliders, geometry, mesh, utils
from harness.impl import shapes_trace as st

TRACE_FILES = [geometry.__file__, colliders.__file__, mesh.__file__, utils.__file__]
HIST_DIRS = 4        # queries per intermediate stage of a pose history


def pose4(Rm, t):
    T = np.eye(4)
    T[:3, :3] = np.array(Rm, dtype=float)
    T[:3, 3] = np.array(t, dtype=float)
    return np.ascontiguousarray(T)


def arr(v):
    return np.ascontiguousarray(np.array(v, dtype=float))


def build(sh, T=None):
    """T: the 4x4 array object to hand to the constructor (kinds whose constructor takes a pose); default a new one"""
    k = sh["kind"]
    extra = {}
    if T is not None:
        P = T

        def pose4(Rm, t):  # noqa: F811  (the caller's array, already filled with this pose)
            assert np.array_equal(P, globals()["pose4"](Rm, t))
            return P
    else:
        pose4 = globals()["pose4"]
    if k == "sphere":
        c = colliders.Sphere(arr(sh["c"]), float(sh["r"]))
    elif k == "box":
        c = colliders.Box(pose4(sh["R"], sh["t"]), arr(sh["size"]))
    elif k == "cylinder":
        c = colliders.Cylinder(pose4(sh["R"], sh["t"]), float(sh["r"]), float(sh["l"]))
    elif k == "capsule":
        c = colliders.Capsule(pose4(sh["R"], sh["t"]), float(sh["r"]), float(sh["h"]))
    elif k == "ellipsoid":
        c = colliders.Ellipsoid(pose4(sh["R"], sh["t"]), arr(sh["radii"]))
    elif k == "cone":
        c = colliders.Cone(pose4(sh["R"], sh["t"]), float(sh["r"]), float(sh["h"]))
    elif k == "disk":
        c = colliders.Disk(arr(sh["c"]), float(sh["r"]), arr(sh["n"]))
    elif k == "ellipse":
        c = colliders.Ellipse(arr(sh["c"]), arr([sh["a0"], sh["a1"]]), arr([sh["r0"], sh["r1"]]))
    elif k == "hull":
        c = colliders.ConvexHullVertices(arr(sh["vs"]))
    elif k == "mesh":
        vs = arr(sh["vs"])
        if sh.get("triangles") is not None:
            tri = np.array(sh["triangles"], dtype=int)
        else:
            tri = mesh.make_convex_mesh(vs)
        if sh.get("flip_winding") and not sh.get("winding_done"):
            import random as _random
            rr = _random.Random(int(sh["flip_winding"]))
            tri = np.array([[t[0], t[2], t[1]] if rr.random() < 0.5 else list(t) for t in np.asarray(tri).tolist()], dtype=tri.dtype)
        c = colliders.MeshGraph(pose4(sh["R"], sh["t"]), vs, tri)
        sf = c._support_function
        extra["triangles"] = np.asarray(tri).astype(int).tolist()
        extra["connections"] = [[int(key), [int(x) for x in val]] for key, val in sf.connections.items()]
        extra["shortcuts"] = [int(x) for x in sf.shortcut_connections]
        extra["first_idx0"] = int(sf.first_idx)
    else:
        raise ValueError(k)
    return c, extra


def fl(v):
    return [float(x) for x in np.asarray(v, dtype=float).reshape(-1)]


# ---------------------------------------------------------------- pose histories
def shape_at(sh, P):
    """the same shape at pose P = dict(R, t) (mirror of harness/props/shapes_common.with_pose)"""
    k = sh["kind"]
    out = dict(sh)
    Rm, t = P["R"], P["t"]
    if "R" in sh:
        out.update(R=Rm, t=t)
    elif k == "sphere":
        out.update(c=t)
    elif k == "disk":
        out.update(c=t, n=[Rm[i][2] for i in range(3)])
    elif k == "ellipse":
        out.update(c=t, a0=[Rm[i][0] for i in range(3)], a1=[Rm[i][1] for i in range(3)])
    else:
        raise ValueError(k)
    return out


def final_pose(sh):
    if "R" in sh:
        return dict(R=sh["R"], t=sh["t"])
    return dict(R=sh["Rfull"], t=sh["c"])


def build_with_history(sh, hist, margin, observe, triangles=None):
    """construct at hist['start'], then update_pose through hist['mids'] to the pose of `sh`, re-using ONE array
    object for the poses (overwritten in place between the calls): the constructor's own array (ctor_array) or
    the array of the first update_pose; optionally that array is matrix 1 of a (3, 4, 4) stack.  `observe(col)`
    is called after construction and after every intermediate update.
    -> (bare collider, collider incl. Margin, extra, [observations])"""
    stack = np.zeros((3, 4, 4)) if hist.get("stack") else None

    def new_array(P):
        T = pose4(P["R"], P["t"])
        if stack is not None:
            stack[0] = np.eye(4)
            stack[2] = np.eye(4)
            stack[1][...] = T
            return stack[1]
        return T
    start_sh = shape_at(sh, hist["start"])
    if triangles is not None:
        start_sh = dict(start_sh, triangles=triangles, winding_done=True)
    A = None
    if hist.get("ctor_array"):
        A = new_array(hist["start"])
        c, extra = build(start_sh, T=A)
    else:
        c, extra = build(start_sh)
    col = c if margin is None else colliders.Margin(c, float(margin))
    stages = [observe(col)]
    fin = final_pose(sh)
    for P in list(hist["mids"]) + [fin]:
        if A is None:
            A = new_array(P)
        else:
            A[...] = pose4(P["R"], P["t"])          # the caller moves the SAME array in place ...
        col.update_pose(A)                           # ... and tells the collider
        if P is not fin:
            stages.append(observe(col))
    return c, col, extra, stages


def same_bits(a, b):
    """interpreted vs compiled: equal up to 1e-9 relative (numba's np.linalg.norm / np.dot kernels
    are not bit-identical to numpy's; bitwise JIT equivalence is C20's subject)"""
    a = np.asarray(a, dtype=float).reshape(-1)
    b = np.asarray(b, dtype=float).reshape(-1)
    if a.shape != b.shape:
        return False
    fin = np.isfinite(a) & np.isfinite(b)
    if not np.all(fin == (np.isfinite(a) | np.isfinite(b))):
        return False
    return bool(np.all(np.abs(a[fin] - b[fin]) <= 1e-9 * (1.0 + np.abs(b[fin]))))


def interpreted_replay(case, out, tracer_mods):
    """re-run the queries of this case with the interpreted source of the numba functions, under
    the tracer (already active); compare with the compiled answers"""
    sh = case["shape"]
    diffs = []
    with st.interpreted(tracer_mods):
        c, _ = build(dict(sh, triangles=out.get("triangles"), winding_done=True))
        col = c if case.get("margin") is None else colliders.Margin(c, float(case["margin"]))
        if sh["kind"] == "mesh" and case.get("history") is not None:
            c._support_function.first_idx = out["first_idx0"]      # the vertex cached by the history's queries
        if not same_bits(col.first_vertex(), out["first_vertex"]):
            diffs.append("first_vertex")
        if not same_bits(col.center(), out["center"]):
            diffs.append("center")
        for i, d in enumerate(case["dirs"]):
            s = col.support_function(arr(d))
            if not same_bits(s, out["sup"][i]):
                diffs.append(f"support_function(dirs[{i}]): interpreted {fl(s)} compiled {out['sup'][i]}")
        if sh["kind"] == "box":
            T = pose4(sh["R"], sh["t"])
            hl = arr([0.5 * x for x in sh["size"]])
            for i, d in enumerate(case["dirs"]):
                s = geometry.support_function_box(arr(d), T, hl)
                if not same_bits(s, out["free_box"][i]):
                    diffs.append(f"support_function_box(dirs[{i}])")
    return diffs


def array_state(obj):
    """copies of the numpy arrays a collider holds (its pose, sizes, vertices, ...)"""
    st8 = {}
    for name, val in vars(obj).items():
        if isinstance(val, np.ndarray):
            st8[name] = val.copy()
    sf = getattr(obj, "_support_function", None)
    if sf is not None:
        for name, val in vars(sf).items():
            if isinstance(val, np.ndarray):
                st8["_support_function." + name] = val.copy()
    return st8


def changed(before, obj):
    after = array_state(obj)
    return sorted(k for k in before if k not in after or before[k].shape != after[k].shape
                  or not np.array_equal(before[k], after[k], equal_nan=True))


def run_case(case, tracer, tracer_mods):
    out = {}
    sh = case["shape"]
    hist = case.get("history")
    try:
        if hist is None:
            c, extra = build(sh)
        else:
            c, extra = build(shape_at(sh, hist["start"]))      # constructible at all? (and the triangles of a mesh)
        out.update(extra)
    except BaseException as e:  # noqa
        out["build_exc"] = type(e).__name__
        out["build_msg"] = str(e)[:300]
        return out
    try:
        col = c
        if case.get("margin") is not None:
            col = colliders.Margin(c, float(case["margin"]))
        if hist is not None:
            hd = [arr(d) for d in case["dirs"][:HIST_DIRS]]

            def observe(cl):
                return dict(sup=[fl(cl.support_function(d.copy())) for d in hd], first_vertex=fl(cl.first_vertex()),
                            center=fl(cl.center()))
            c, col, extra2, stages = build_with_history(sh, hist, case.get("margin"), observe, triangles=extra.get("triangles"))
            out["stages"] = stages
            if sh["kind"] == "mesh":
                out["first_idx_ctor"] = extra["first_idx0"]
                extra = dict(extra2, first_idx0=int(c._support_function.first_idx))
                out["first_idx0"] = extra["first_idx0"]
        state0 = array_state(c)
        out["first_vertex"] = fl(col.first_vertex())
        out["center"] = fl(col.center())
        sup = []
        idxs = []
        modified = []
        dbuf = arr([0.0, 0.0, 0.0])
        for i, d in enumerate(case["dirs"]):
            if case.get("shared_dir_buffer"):
                dbuf[...] = d            # the SAME array object for every query, new content
                da = dbuf
            else:
                da = arr(d)
            sup.append(fl(col.support_function(da)))
            if not np.array_equal(da, arr(d), equal_nan=True):
                modified.append(f"support_function(dirs[{i}]) modified its argument")
            if sh["kind"] == "mesh":
                idxs.append(int(c._support_function.first_idx))
        ch = changed(state0, c)
        if ch:
            modified.append(f"the queries modified the collider's arrays {ch}")
        out["modified"] = modified
        # the first query again, after all the others: same object, same direction
        if case["dirs"]:
            if sh["kind"] == "mesh":
                c._support_function.first_idx = extra["first_idx0"]
            out["again0"] = fl(col.support_function(arr(case["dirs"][0])))
            if sh["kind"] == "mesh":
                c._support_function.first_idx = idxs[-1]
        out["sup"] = sup
        if sh["kind"] == "mesh":
            out["seq_idx"] = idxs
            fresh = []
            fresh_idx = []
            for d in case["dirs"]:
                c2, _ = build(dict(sh, triangles=out["triangles"], winding_done=True))
                col2 = c2 if case.get("margin") is None else colliders.Margin(c2, float(case["margin"]))
                fresh.append(fl(col2.support_function(arr(d))))
                fresh_idx.append(int(c2._support_function.first_idx))
            out["fresh"] = fresh
            out["fresh_idx"] = fresh_idx
        if sh["kind"] == "box":
            T = pose4(sh["R"], sh["t"])
            hl = arr([0.5 * x for x in sh["size"]])
            out["free_box"] = [fl(geometry.support_function_box(arr(d), T, hl)) for d in case["dirs"]]
        if sh["kind"] == "mesh" and case.get("sweep"):
            # every cached start vertex: first_idx is what an earlier query left behind
            sweep = []
            for d in case["dirs"]:
                row = []
                for start in sorted(int(k) for k in c._support_function.connections.keys()):
                    # only vertices of the triangulation can have been cached by an earlier query
                    c._support_function.first_idx = start
                    p = fl(col.support_function(arr(d)))
                    row.append([int(c._support_function.first_idx), p])
                sweep.append(row)
            out["sweep"] = sweep
    except BaseException as e:  # noqa
        out["exc"] = type(e).__name__
        out["exc_msg"] = str(e)[:300]
        out["tb"] = traceback.format_exc()[-1200:]
        return out
    try:
        with tracer:
            out["pyfunc_diff"] = interpreted_replay(case, out, tracer_mods)
    except BaseException as e:  # noqa
        out["pyfunc_exc"] = f"{type(e).__name__}: {str(e)[:300]}"
    return out


WARM = [
    dict(kind="sphere", c=[0.0, 0.0, 0.0], r=1.0),
    dict(kind="box", R=[[1.0, 0, 0], [0, 1.0, 0], [0, 0, 1.0]], t=[0.0, 0, 0], size=[1.0, 1.0, 1.0]),
    dict(kind="cylinder", R=[[1.0, 0, 0], [0, 1.0, 0], [0, 0, 1.0]], t=[0.0, 0, 0], r=1.0, l=1.0),
    dict(kind="capsule", R=[[1.0, 0, 0], [0, 1.0, 0], [0, 0, 1.0]], t=[0.0, 0, 0], r=1.0, h=1.0),
    dict(kind="ellipsoid", R=[[1.0, 0, 0], [0, 1.0, 0], [0, 0, 1.0]], t=[0.0, 0, 0], radii=[1.0, 2.0, 3.0]),
    dict(kind="cone", R=[[1.0, 0, 0], [0, 1.0, 0], [0, 0, 1.0]], t=[0.0, 0, 0], r=1.0, h=1.0),
    dict(kind="disk", c=[0.0, 0, 0], r=1.0, n=[0.0, 0, 1.0]),
    dict(kind="ellipse", c=[0.0, 0, 0], a0=[1.0, 0, 0], a1=[0.0, 1.0, 0], r0=1.0, r1=2.0),
    dict(kind="hull", vs=[[0.0, 0, 0], [1.0, 0, 0], [0, 1.0, 0], [0, 0, 1.0]]),
    dict(kind="mesh", R=[[1.0, 0, 0], [0, 1.0, 0], [0, 0, 1.0]], t=[0.0, 0, 0],
         vs=[[0.0, 0, 0], [1.0, 0, 0], [0, 1.0, 0], [0, 0, 1.0]], triangles=[[0, 2, 1], [0, 1, 3], [0, 3, 2], [1, 2, 3]]),
]


def warm_up():
    """compile / load every numba function used below BEFORE the per-case CPU budget applies"""
    for sh in WARM:
        c, _ = build(sh)
        c.support_function(arr([0.3, -0.2, 1.0]))
        if sh["kind"] == "box":
            geometry.support_function_box(arr([0.3, -0.2, 1.0]), pose4(sh["R"], sh["t"]), arr([0.5, 0.5, 0.5]))


def arm(budget):
    """CPU-time watchdog (load independent): the kernel terminates this process (SIGVTALRM, default
    action) once it has consumed `budget` more seconds of user CPU time - also inside a compiled loop
    that never returns to the interpreter"""
    import signal
    if budget:
        signal.signal(signal.SIGVTALRM, signal.SIG_DFL)
        signal.setitimer(signal.ITIMER_VIRTUAL, float(budget))


def disarm():
    import signal
    signal.setitimer(signal.ITIMER_VIRTUAL, 0.0)


def main():
    payload = json.load(open(sys.argv[1]))
    tracer = st.LineTracer(TRACE_FILES)
    mods = [geometry, utils, mesh, colliders]
    warm_up()
    res = []
    for c in payload["cases"]:
        arm(payload.get("cpu_budget"))
        try:
            res.append(run_case(c, tracer, mods))
        finally:
            disarm()
    consts = dict(BOX_COORDS=np.asarray(geometry.BOX_COORDS, dtype=float).tolist(),
                  PROJECTION_LENGTH_EPSILON=float(mesh.PROJECTION_LENGTH_EPSILON),
                  EPSILON=float(utils.EPSILON))
    hits = {k.split("/")[-1]: v for k, v in tracer.result().items()}
    json.dump(dict(results=res, consts=consts, line_hits=hits), open(sys.argv[2], "w"))


if __name__ == "__main__":
    main()
