"""Worker: runs gjk_nesterov_accelerated of /repo on collider pairs and records, for every pass of its
loop, the direction handed to the module-level `support_function` and the pair (s0, s1) it returned —
by replacing that module attribute with a recording wrapper in THIS process (/repo is untouched)."""
import json
import signal
import sys

from harness import compat  # noqa: F401
import numpy as np
from distance3d import gjk
import distance3d.gjk._gjk_nesterov_accelerated as NA
import distance3d.gjk._gjk_nesterov_accelerated_primitives as NAP
from distance3d.colliders import MeshGraph, Sphere, Capsule
from harness.impl.narrow import build, Timeout, _alarm

_inner = NA.support_function
LOG = []


def _rec(d, c0, c1):
    dd = np.array(d, dtype=float, copy=True)
    s0, s1 = _inner(d, c0, c1)
    LOG.append((dd.tolist(), np.array(s0, dtype=float, copy=True).tolist(), np.array(s1, dtype=float, copy=True).tolist()))
    return s0, s1


NA.support_function = _rec


def run(case):
    out = {}
    for acc in case.get("accs", [False, True]):
        del LOG[:]
        o = dict(acc=acc)
        signal.signal(signal.SIGALRM, _alarm)
        signal.alarm(int(case.get("timeout", 30)))
        try:
            c0, c1 = build(case["c1"]), build(case["c2"])
            r = gjk.gjk_nesterov_accelerated(c0, c1, use_nesterov_acceleration=acc, **case.get("kw", {}))
            o.update(contact=bool(r[0]), d=float(r[1]), iterations=int(r[3]))
            o.update(type0=type(c0).__name__, type1=type(c1).__name__,
                     radius0=float(getattr(c0, "radius", 0.0)) if type(c0) in (Sphere, Capsule) else 0.0,
                     radius1=float(getattr(c1, "radius", 0.0)) if type(c1) in (Sphere, Capsule) else 0.0)
        except Timeout:
            o["exc"] = "TIMEOUT"
        except BaseException as e:  # noqa
            o["exc"] = type(e).__name__
            o["exc_msg"] = str(e)[:200]
        finally:
            signal.alarm(0)
        o["dirs"] = [x[0] for x in LOG]
        o["s0"] = [x[1] for x in LOG]
        o["s1"] = [x[2] for x in LOG]
        out["acc" if acc else "plain"] = o
    if case.get("prim"):
        for acc in case.get("accs", [False, True]):
            o = dict(acc=acc)
            signal.signal(signal.SIGALRM, _alarm)
            signal.alarm(int(case.get("timeout", 30)))
            try:
                c0, c1 = build(case["c1"]), build(case["c2"])
                md = NAP.get_minkowski_diff(c0, c1)
                o.update(ty0=int(md[0]), data0=np.asarray(md[1], float).tolist(), ty1=int(md[2]),
                         data1=np.asarray(md[3], float).tolist(), oR1=np.asarray(md[4], float).tolist(),
                         ot1=np.asarray(md[5], float).tolist())
                r = gjk.gjk_nesterov_accelerated_primitives(c0, c1, use_nesterov_acceleration=acc, **case.get("kw", {}))
                o.update(contact=bool(r[0]), d=float(r[1]), iterations=int(r[3]))
                o.update(type0=type(c0).__name__, type1=type(c1).__name__,
                         radius0=float(c0.radius) if type(c0) in (Sphere, Capsule) else 0.0,
                         radius1=float(c1.radius) if type(c1) in (Sphere, Capsule) else 0.0)
            except Timeout:
                o["exc"] = "TIMEOUT"
            except BaseException as e:  # noqa
                o["exc"] = type(e).__name__
                o["exc_msg"] = str(e)[:200]
            finally:
                signal.alarm(0)
            out["prim_acc" if acc else "prim_plain"] = o
    return out


def main():
    payload = json.load(open(sys.argv[1]))
    json.dump(dict(results=[run(c) for c in payload["cases"]]), open(sys.argv[2], "w"))


if __name__ == "__main__":
    main()
