"""Worker: calls the simplex projections of /repo's two Nesterov GJK modules (project_line_origin,
project_triangle_origin, project_tetra_to_origin) directly on given simplices and returns ray, simplex_len,
inside and the rewritten simplex rows; optionally measures (sys.settrace on the .py_func versions) which source
lines of those functions the simplices reach."""
import json
import sys

from harness import compat  # noqa: F401
import numpy as np
import distance3d.gjk._gjk_nesterov_accelerated as NA
import distance3d.gjk._gjk_nesterov_accelerated_primitives as NAP

MODS = dict(generic=NA, prim=NAP)
FN = {2: "project_line_origin", 3: "project_triangle_origin", 4: "project_tetra_to_origin"}


def call(mod, rows, py=False):
    n = len(rows)
    arr = np.zeros((4, 3))
    arr[:n] = np.array(rows, dtype=float)
    f = getattr(mod, FN[n])
    if py:
        f = f.py_func
    ray, slen, inside = f(arr)
    return dict(ray=np.asarray(ray, float).tolist(), n=int(slen), inside=bool(inside), rows=arr[:int(slen)].tolist())


def main():
    payload = json.load(open(sys.argv[1]))
    out = []
    for rows in payload["simplices"]:
        o = {}
        for name, mod in MODS.items():
            try:
                o[name] = call(mod, rows)
            except BaseException as e:  # noqa
                o[name] = dict(exc=type(e).__name__, exc_msg=str(e)[:200])
        out.append(o)
    hits = {}
    if payload.get("trace_lines"):
        files = {NA.__file__: "generic", NAP.__file__: "prim"}

        def tracer(frame, event, arg):
            key = files.get(frame.f_code.co_filename)
            if key is None:
                return None
            s = hits.setdefault(key, set())

            def local(frame, event, arg):
                if event == "line":
                    s.add(frame.f_lineno)
                return local
            return local
        import os
        os.environ["NUMBA_DISABLE_JIT"] = "0"
        # helpers called by the py_func versions are jitted dispatchers; replace them by their py_func for the trace
        saved = {}
        for mod in (NA, NAP):
            for nm in ("origin_to_point", "origin_to_segment", "origin_to_triangle", "t_b", "region_a", "region_ab", "region_ac",
                       "region_ad", "region_abc", "region_acd", "region_adb"):
                d = getattr(mod, nm)
                saved[(mod, nm)] = d
                setattr(mod, nm, d.py_func)
        sys.settrace(tracer)
        try:
            for rows in payload["simplices"]:
                for mod in (NA, NAP):
                    try:
                        call(mod, rows, py=True)
                    except BaseException:  # noqa
                        pass
        finally:
            sys.settrace(None)
            for (mod, nm), d in saved.items():
                setattr(mod, nm, d)
    json.dump(dict(results=out, hits={k: sorted(v) for k, v in hits.items()}), open(sys.argv[2], "w"))


if __name__ == "__main__":
    main()
