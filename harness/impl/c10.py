"""Worker: call functions of /repo's distance3d.distance on given arguments (C10, C11).

payload: {"cases": [{"fn": name, "args": [arg, ...]}, ...]}
         every arg is a float, a flat list (vector) or a nested list (matrix); lists are
         turned into fresh C-contiguous float64 arrays for every call.
result : {"results": [{"d": hex, "pts": [[hex,hex,hex], ...]} | {"exc": type, ...}, ...]}
         `pts` has one row for point_to_X (closest point on X) and two rows otherwise
         (closest point on the first / on the second primitive).  Floats travel as hex
         strings (exact).  "mutated": true if the call changed one of its argument arrays.
         For line_segment_to_circle the private helper's `on_line` flag is reported too
         (it names the branch finding F10 lives in); for both line/segment-to-circle functions
         `m0sq` = |direction x normal|^2 computed with the implementation's own operations.
"""
import json
import sys
import traceback

from harness import compat  # noqa: F401
import numpy as np
import distance3d.distance as D
from distance3d.distance import _circle as DC
from distance3d.geometry import convert_segment_to_line


def to_arg(a):
    if isinstance(a, (int, float)):
        return float(a)
    return np.ascontiguousarray(np.array(a, dtype=np.float64))


def hx(v):
    return [float(x).hex() for x in np.asarray(v, dtype=float).reshape(-1)]


def run_case(c):
    out = {}
    try:
        fn = c["fn"]
        if fn not in D.__all__:
            raise KeyError(fn)
        f = getattr(D, fn)
        args = [to_arg(a) for a in c["args"]]
        keep = [a.copy() if isinstance(a, np.ndarray) else a for a in args]
        res = f(*args)
        out["d"] = float(res[0]).hex()
        out["pts"] = [hx(p) for p in res[1:]]
        out["n_out"] = len(res)
        out["shapes"] = [list(np.shape(p)) for p in res[1:]]
        out["mutated"] = any(isinstance(a, np.ndarray) and not np.array_equal(a, k, equal_nan=True)
                             for a, k in zip(args, keep))
        if fn == "line_segment_to_circle":
            args2 = [to_arg(a) for a in c["args"]]
            out["on_line"] = bool(DC._line_segment_to_circle(*args2)[3])
        if fn in ("line_to_circle", "line_segment_to_circle"):
            # |direction x normal|^2 exactly as the implementation computes it (names the arm of finding F23)
            a = [to_arg(x) for x in c["args"]]
            dirn = convert_segment_to_line(a[0], a[1])[0] if fn == "line_segment_to_circle" else a[1]
            cr = np.cross(dirn, a[4])
            out["m0sq"] = float(np.dot(cr, cr))
    except BaseException as e:  # noqa
        out["exc"] = type(e).__name__
        out["exc_msg"] = str(e)[:300]
        out["tb"] = traceback.format_exc()[-1200:]
    return out


def main():
    payload = json.load(open(sys.argv[1]))
    res = [run_case(c) for c in payload["cases"]]
    json.dump(dict(results=res, all=list(D.__all__)), open(sys.argv[2], "w"))


if __name__ == "__main__":
    main()
