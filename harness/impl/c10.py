"""Worker: call functions of /repo's distance3d.distance on given arguments (C10, C11).

payload: {"cases": [{"fn": name, "args": [arg, ...]}, ...]}
         every arg is a float, a flat list (vector) or a nested list (matrix); lists are
         turned into fresh C-contiguous float64 arrays for every call.
result : {"results": [{"d": hex, "pts": [[hex,hex,hex], ...]} | {"exc": type, ...}, ...]}
         `pts` has one row for point_to_X (closest point on X) and two rows otherwise
         (closest point on the first / on the second primitive).  Floats travel as hex
         strings (exact).  "mutated": true if the call changed one of its argument arrays.
         For line_segment_to_circle the private helper's `on_line` flag is reported too
         (it names the branch finding F10 lives in); for both line/segment-to-circle functions
         `m0sq` = |direction x normal|^2 and `lpxn_sq` = |(line point - centre) x normal|^2 computed with the
         implementation's own operations.  "reuse": the result of the same call made with the argument ARRAYS OF
         THE PREVIOUS CALL of that function overwritten in place (history / caching by object identity).
"""
import json
import sys
import traceback

from harness import compat  # noqa: F401
import numpy as np
import distance3d.distance as D
from distance3d.distance import _circle as DC
from distance3d.geometry import convert_segment_to_line


def to_arg(a):
    if isinstance(a, (int, float)):
        return float(a)
    return np.ascontiguousarray(np.array(a, dtype=np.float64))


def hx(v):
    return [float(x).hex() for x in np.asarray(v, dtype=float).reshape(-1)]


_PERSIST = {}      # fn -> argument objects that are REUSED (overwritten in place) from call to call


def reused_args(fn, raw):
    """the same ndarray objects as in the previous call of fn, overwritten in place with the new values
    (a caller that keeps its pose / vertex arrays and updates them between queries)"""
    fresh = [to_arg(a) for a in raw]
    old = _PERSIST.get(fn)
    if old is None or len(old) != len(fresh) or any(
            isinstance(a, np.ndarray) != isinstance(b, np.ndarray) or (isinstance(a, np.ndarray) and a.shape != b.shape)
            for a, b in zip(old, fresh)):
        _PERSIST[fn] = fresh
        return fresh
    for a, b in zip(old, fresh):
        if isinstance(a, np.ndarray):
            np.copyto(a, b)
    out = [a if isinstance(a, np.ndarray) else b for a, b in zip(old, fresh)]
    _PERSIST[fn] = out
    return out


def run_case(c):
    out = {}
    try:
        fn = c["fn"]
        if fn not in D.__all__:
            raise KeyError(fn)
        f = getattr(D, fn)
        args = [to_arg(a) for a in c["args"]]
        keep = [a.copy() if isinstance(a, np.ndarray) else a for a in args]
        res = f(*args)
        out["d"] = float(res[0]).hex()
        out["pts"] = [hx(p) for p in res[1:]]
        out["n_out"] = len(res)
        out["shapes"] = [list(np.shape(p)) for p in res[1:]]
        out["mutated"] = any(isinstance(a, np.ndarray) and not np.array_equal(a, k, equal_nan=True)
                             for a, k in zip(args, keep))
        if fn == "line_segment_to_circle":
            args2 = [to_arg(a) for a in c["args"]]
            out["on_line"] = bool(DC._line_segment_to_circle(*args2)[3])
        if fn in ("line_to_circle", "line_segment_to_circle"):
            # |direction x normal|^2 exactly as the implementation computes it (names the arm of finding F23)
            a = [to_arg(x) for x in c["args"]]
            dirn = convert_segment_to_line(a[0], a[1])[0] if fn == "line_segment_to_circle" else a[1]
            cr = np.cross(dirn, a[4])
            out["m0sq"] = float(np.dot(cr, cr))
            lx = np.cross(a[0] - a[2], a[4])          # (line point - centre) x normal, as the function computes it
            out["lpxn_sq"] = float(np.dot(lx, lx))
    except BaseException as e:  # noqa
        out["exc"] = type(e).__name__
        out["exc_msg"] = str(e)[:300]
        out["tb"] = traceback.format_exc()[-1200:]
    return out


def run_reuse(c, out):
    """the same call with the argument ARRAYS OF THE PREVIOUS reuse-call of this function overwritten in place; done in
    a second pass so that consecutive calls really see the same objects: the result must not depend on the history"""
    if "exc" in out:
        return
    try:
        res2 = getattr(D, c["fn"])(*reused_args(c["fn"], c["args"]))
        out["reuse"] = dict(d=float(res2[0]).hex(), pts=[hx(p) for p in res2[1:]])
    except BaseException as e:  # noqa
        out["reuse"] = dict(exc=type(e).__name__, exc_msg=str(e)[:200])


def main():
    payload = json.load(open(sys.argv[1]))
    res = [run_case(c) for c in payload["cases"]]
    for c, out in zip(payload["cases"], res):
        run_reuse(c, out)
    json.dump(dict(results=res, all=list(D.__all__)), open(sys.argv[2], "w"))


if __name__ == "__main__":
    main()
