"""Worker: run /repo's hydroelastic contact_forces / find_contact_surface on pairs of
factory bodies (C16).  contact_forces mutates body 1 (express_in), so every observation
builds fresh bodies unless repetition is what is being observed.

Per case (two body specs with world poses, a common rigid motion g, optionally a third body):
  base      contact_forces(b1, b2)                      (+ internals for the wrench model)
  swap      contact_forces(b2, b1)
  moved     contact_forces(g*b1, g*b2)
  repeat    contact_forces(b1, b2) called again (twice) on the SAME objects
  inter     contact_forces(b1, b3) then contact_forces(b1, b2) again on the same objects
  broad     find_contact_surface with use_aabb_trees False / True: broad-phase pair sets,
            narrow-phase (intersecting) pair sets, wrenches
Input/output: JSON files (sys.argv[1], sys.argv[2]).
"""
import json
import sys
import traceback

from harness import compat  # noqa: F401
import numpy as np

if not hasattr(np, "product"):
    np.product = np.prod

hc = fo = all_aabbs_overlap = _sort_aabbs = None
COVERED = ["_interface.py", "_forces.py", "_rigid_body.py", "_contact_surface.py"]


def load():
    """import distance3d (after coverage measurement has been started, if requested)"""
    global hc, fo, all_aabbs_overlap, _sort_aabbs
    from distance3d import hydroelastic_contact as _hc
    from distance3d.hydroelastic_contact import _forces as _fo
    from distance3d.aabb_tree import all_aabbs_overlap as _a, _sort_aabbs as _s
    hc, fo, all_aabbs_overlap, _sort_aabbs = _hc, _fo, _a, _s


def A(x):
    return np.ascontiguousarray(np.asarray(x, dtype=float))


def L(x):
    return np.asarray(x, dtype=float).tolist()


def make_body(spec, g=None):
    RB = hc.RigidBody
    s = spec["shape"]
    pose = A(spec["pose"])
    p = spec["params"]
    if s == "sphere":
        b = RB.make_sphere(A(pose[:3, 3]), float(p["radius"]), int(p["order"]))
    elif s == "ellipsoid":
        b = RB.make_ellipsoid(pose, A(p["radii"]), int(p["order"]))
    elif s == "cube":
        b = RB.make_cube(pose, float(p["size"]))
    elif s == "box":
        b = RB.make_box(pose, A(p["size"]))
    elif s == "cylinder":
        b = RB.make_cylinder(pose, float(p["radius"]), float(p["length"]), float(p["resolution_hint"]))
    elif s == "capsule":
        b = RB.make_capsule(pose, float(p["radius"]), float(p["height"]), float(p["resolution_hint"]))
    else:
        raise ValueError(s)
    # the pose of the body in the world: as given (for a sphere the factory only takes the
    # centre; a rotated sphere mesh is a legitimate RigidBody, body2origin_ is a public field)
    b.body2origin_ = A(pose) if g is None else A(np.dot(A(g), A(pose)))
    b.youngs_modulus = float(spec.get("E", 1.0))
    return b


def cf(b1, b2, ratio=True):
    if ratio:
        # same computation as contact_forces(), keeping the contact surface to measure
        # how well conditioned its planes are
        cs = hc.find_contact_surface(b1, b2)
        w12, w21 = fo.accumulate_wrenches(cs, b1, b2)
        return dict(inter=bool(cs.intersection), w12=L(w12), w21=L(w21),
                    min_normal_ratio=min_normal_ratio(cs, b1, b2))
    inter, w12, w21 = hc.contact_forces(b1, b2)
    return dict(inter=bool(inter), w12=L(w12), w21=L(w21))


def internals(b1, b2, max_rows):
    """find_contact_surface + accumulate_wrenches with everything the wrench model needs."""
    cs = hc.find_contact_surface(b1, b2)
    w12, w21 = fo.accumulate_wrenches(cs, b1, b2)
    n = len(cs.intersecting_tetrahedra1)
    out = dict(inter=bool(cs.intersection), w12=L(w12), w21=L(w21), n=n,
               com1=L(b1.com), com2=L(b2.com), frame2world=L(cs.frame2world))
    if n <= max_rows:
        out["forces"] = L(cs.contact_forces).copy() if n else []
        out["coms"] = L(cs.contact_coms).copy() if n else []
    out["areas_sum"] = float(np.sum(cs.contact_areas)) if n else 0.0
    out["force_abs_sum"] = float(np.sum(np.linalg.norm(cs.contact_forces, axis=1))) if n else 0.0
    out["min_normal_ratio"] = min_normal_ratio(cs, b1, b2)
    return out


def min_normal_ratio(cs, b1, b2):
    """min over the reported contacts of |raw plane normal| / (|E1 grad p1| + |E2 grad p2|):
    how well defined the equal-pressure plane of the worst conditioned contact is
    (predicate of known finding F17).  None when there is no contact."""
    n = len(cs.intersecting_tetrahedra1)
    if n == 0:
        return None
    i1 = np.asarray(cs.intersecting_tetrahedra1, dtype=int)
    i2 = np.asarray(cs.intersecting_tetrahedra2, dtype=int)
    X1 = hc.barycentric_transforms(b1.tetrahedra_points[i1])
    X2 = hc.barycentric_transforms(b2.tetrahedra_points[i2])
    g1 = np.einsum("ni,nij->nj", b1.tetrahedra_potentials[i1] * b1.youngs_modulus, X1)[:, :3]
    g2 = np.einsum("ni,nij->nj", b2.tetrahedra_potentials[i2] * b2.youngs_modulus, X2)[:, :3]
    den = np.linalg.norm(g1, axis=1) + np.linalg.norm(g2, axis=1)
    den[den == 0.0] = 1.0
    return float(np.min(np.linalg.norm(g1 - g2, axis=1) / den))


def cache_consistent(b):
    """do the (cached) derived properties of b agree with a body rebuilt from its current
    pose / vertices?  (express_in must invalidate every cache)"""
    fresh = hc.RigidBody(np.copy(b.body2origin_), np.copy(b.vertices_), b.tetrahedra_, b.potentials_)
    root = bool(np.array_equal(b.aabb(), fresh.aabb()))     # the tree first: reading .aabbs must not be needed to refresh it
    return dict(root_aabb=root,
                points=bool(np.array_equal(b.tetrahedra_points, fresh.tetrahedra_points)),
                com=bool(np.array_equal(b.com, fresh.com)),
                aabbs=bool(np.array_equal(b.aabbs, fresh.aabbs)))


def express(spec1, spec2, k=10):
    """RigidBody.express_in observed directly: poses and a sample of the vertices before / after"""
    b1, b2 = make_body(spec1), make_body(spec2)
    _ = b1.com, b1.aabbs, b1.aabb_tree, b1.tetrahedra_points          # fill every cache first
    n = len(b1.vertices_)
    idx = sorted(set(list(range(min(k, n))) + [n - 1]))
    before = L(b1.vertices_[idx])
    old = L(b1.body2origin_)
    b1.express_in(b2.body2origin_)
    out = dict(old=old, new=L(b2.body2origin_), pose_after=L(b1.body2origin_), before=before, after=L(b1.vertices_[idx]),
               caches=cache_consistent(b1), aliased=bool(b1.body2origin_ is b2.body2origin_))
    # a second call with the same frame must leave the vertices (numerically) where they are
    b1.express_in(b2.body2origin_)
    out["after2"] = L(b1.vertices_[idx])
    return out


def details(spec1, spec2, k=12):
    """contact_forces(..., return_details=True): the contact surface re-expressed in the world frame"""
    b1, b2 = make_body(spec1), make_body(spec2)
    inter, w12, w21, det = hc.contact_forces(b1, b2, return_details=True)
    out = dict(inter=bool(inter), w12=L(w12), w21=L(w21), keys=sorted(det.keys()))
    if not det:
        return out
    n = len(det["contact_areas"])
    out["n"] = n
    out["sum_force"] = L(np.sum(det["contact_forces"], axis=0))
    out["contact_point"] = L(det["contact_point"])
    out["area_sum"] = float(np.sum(det["contact_areas"]))
    out["weighted_coms"] = L(np.sum(det["contact_coms"] * det["contact_areas"][:, np.newaxis], axis=0))
    idx = list(range(n)) if n <= k else sorted({int(i * n / k) for i in range(k)} | {n - 1})
    out["contacts"] = [dict(t1=L(det["intersecting_tetrahedra1"][i]), t2=L(det["intersecting_tetrahedra2"][i]),
                            plane=L(det["contact_planes"][i]), poly=L(det["contact_polygons"][i]),
                            force=L(det["contact_forces"][i]), area=float(det["contact_areas"][i]),
                            com=L(det["contact_coms"][i]), pressure=float(det["pressures"][i]),
                            tris=np.asarray(det["contact_polygon_triangles"][i]).astype(int).tolist()) for i in idx]
    out["E1"] = float(b1.youngs_modulus)
    # the same contacts in body 2's frame, for comparison
    c1, c2 = make_body(spec1), make_body(spec2)
    cs = hc.find_contact_surface(c1, c2)
    out["frame2world"] = L(cs.frame2world)
    out["local"] = [dict(plane=L(cs.contact_planes[i]), poly=L(cs.contact_polygons[i]), force=L(cs.contact_forces[i]),
                         com=L(cs.contact_coms[i]), area=float(cs.contact_areas[i])) for i in idx]
    return out


def snapshot(b):
    """a cache-free copy of the CURRENT state of b (pose of the frame its vertices are expressed in, vertices)"""
    nb = hc.RigidBody(np.copy(b.body2origin_), np.copy(b.vertices_), b.tetrahedra_, b.potentials_)
    nb.youngs_modulus = b.youngs_modulus
    return nb


def one_call(bi, bj, mode):
    if mode == "cf":
        inter, w12, w21 = hc.contact_forces(bi, bj)
        return dict(inter=bool(inter), w12=L(w12), w21=L(w21), pairs=None)
    cs = hc.find_contact_surface(bi, bj, use_aabb_trees=(mode == "tree"))
    w12, w21 = fo.accumulate_wrenches(cs, bi, bj)
    out = dict(inter=bool(cs.intersection), w12=L(w12), w21=L(w21),
               pairs=sorted([int(a), int(b)] for a, b in zip(cs.intersecting_tetrahedra1, cs.intersecting_tetrahedra2)))
    n = len(cs.intersecting_tetrahedra1)
    if 0 < n <= 300:
        # everything the wrench model needs, with the centres of mass as they are NOW (non-zero for a re-expressed body)
        out["surface"] = dict(forces=L(cs.contact_forces), coms=L(cs.contact_coms), com1=L(bi.com), com2=L(bj.com),
                              frame2world=L(cs.frame2world), force_abs_sum=float(np.sum(np.linalg.norm(cs.contact_forces, axis=1))))
    return out


def history(specs, steps):
    """a call history on the SAME RigidBody objects (roles change, frames change, poses are updated in place,
    cached properties are read in between).  Before every call both bodies are snapshotted (cache-free copies
    of their current state); the call on the live objects must return what the call on the snapshots returns."""
    B = [make_body(sp) for sp in specs]
    out = []
    for st in steps:
        for k in st.get("read", []):
            _ = B[k].com, B[k].aabb(), B[k].tetrahedra_points          # fills caches (aabb() builds the tree)
        moved_others = []
        if st.get("move") is not None:
            k, M, side = st["move"]
            world_before = [np.dot(b.vertices_, b.body2origin_[:3, :3].T) + b.body2origin_[:3, 3] for b in B]
            # in place, as the simulation examples do
            B[k].body2origin_[:] = np.dot(A(M), B[k].body2origin_) if side == "left" else np.dot(B[k].body2origin_, A(M))
            for m, b in enumerate(B):
                if m != k and not np.array_equal(world_before[m], np.dot(b.vertices_, b.body2origin_[:3, :3].T) + b.body2origin_[:3, 3]):
                    moved_others.append(m)       # bodies share a pose array
        i, j = st["pair"]
        si, sj = snapshot(B[i]), snapshot(B[j])
        exp = one_call(si, sj, st["mode"])
        got = one_call(B[i], B[j], st["mode"])
        out.append(dict(exp=exp, got=got, caches_i=cache_consistent(B[i]), caches_j=cache_consistent(B[j]), moved_others=moved_others))
    return out


def broad(spec1, spec2):
    out = {}
    # broad phase, both ways, on identical (fresh) bodies
    b1, b2 = make_body(spec1), make_body(spec2)
    b1.express_in(b2.body2origin_)
    _, u1, u2, pairs_tree = b1.aabb_tree.overlaps_aabb_tree(b2.aabb_tree)
    v1, v2, pairs_brute = all_aabbs_overlap(b1.aabbs, b2.aabbs)
    pt = sorted((int(i), int(j)) for i, j in pairs_tree)
    pb = sorted((int(i), int(j)) for i, j in pairs_brute)
    out["n_broad_tree"], out["n_broad_brute"] = len(pt), len(pb)
    out["broad_equal"] = pt == pb
    out["broad_dups"] = len(set(pt)) != len(pt) or len(set(pb)) != len(pb)
    out["uniq_equal"] = (sorted(int(i) for i in u1) == sorted(int(i) for i in v1)
                         and sorted(int(i) for i in u2) == sorted(int(i) for i in v2))
    if not out["broad_equal"]:
        out["broad_only_tree"] = [p for p in pt if p not in set(pb)][:5]
        out["broad_only_brute"] = [p for p in pb if p not in set(pt)][:5]
    if len(b1.aabbs) <= 30 and len(b2.aabbs) <= 30:
        # small bodies: hand the boxes and the insertion order to the Coq tree model
        out["aabbs1"] = L(b1.aabbs.reshape(-1, 6))
        out["aabbs2"] = L(b2.aabbs.reshape(-1, 6))
        out["order1"] = [int(i) for i in _sort_aabbs(np.asarray(b1.aabbs, dtype=float))]
        out["order2"] = [int(i) for i in _sort_aabbs(np.asarray(b2.aabbs, dtype=float))]
        out["pairs_tree_ordered"] = [[int(i), int(j)] for i, j in pairs_tree]
    # whole pipeline with either broad phase
    res = {}
    for flag in (False, True):
        c1, c2 = make_body(spec1), make_body(spec2)
        cs = hc.find_contact_surface(c1, c2, use_aabb_trees=flag)
        w12, w21 = fo.accumulate_wrenches(cs, c1, c2)
        res[flag] = (bool(cs.intersection),
                     sorted(zip([int(i) for i in cs.intersecting_tetrahedra1],
                                [int(j) for j in cs.intersecting_tetrahedra2])),
                     L(w12), L(w21))
    out["narrow_equal"] = res[False][1] == res[True][1]
    out["n_narrow"] = len(res[False][1])
    out["inter_brute"], out["inter_tree"] = res[False][0], res[True][0]
    out["w12_brute"], out["w12_tree"] = res[False][2], res[True][2]
    out["w21_brute"], out["w21_tree"] = res[False][3], res[True][3]
    if not out["narrow_equal"]:
        out["narrow_only_tree"] = [p for p in res[True][1] if p not in set(res[False][1])][:5]
        out["narrow_only_brute"] = [p for p in res[False][1] if p not in set(res[True][1])][:5]
    return out


def contacts_run(c):
    """per-contact data of ONE find_contact_surface call (used by the harness to decide whether a known finding
    explains a failed 5 % comparison): bodies specs[a], specs[b] (optionally moved by g) after the preliminary calls
    `pre` = [[i, j], ...] on the same objects."""
    B = [make_body(sp, c.get("g")) for sp in c["specs"]]
    for i, j in c.get("pre", []):
        hc.contact_forces(B[i], B[j])
    b1, b2 = B[c["pair"][0]], B[c["pair"][1]]
    cs = hc.find_contact_surface(b1, b2)
    w12, w21 = fo.accumulate_wrenches(cs, b1, b2)
    n = len(cs.intersecting_tetrahedra1)
    out = dict(inter=bool(cs.intersection), w12=L(w12), w21=L(w21), frame2world=L(cs.frame2world), com1=L(b1.com), com2=L(b2.com), contacts=[])
    if n == 0:
        return out
    i1 = np.asarray(cs.intersecting_tetrahedra1, dtype=int)
    i2 = np.asarray(cs.intersecting_tetrahedra2, dtype=int)
    tp1, tp2 = b1.tetrahedra_points[i1], b2.tetrahedra_points[i2]
    ep1, ep2 = b1.tetrahedra_potentials[i1], b2.tetrahedra_potentials[i2]
    X1, X2 = hc.barycentric_transforms(tp1), hc.barycentric_transforms(tp2)
    g1 = np.einsum("ni,nij->nj", ep1 * b1.youngs_modulus, X1)[:, :3]
    g2 = np.einsum("ni,nij->nj", ep2 * b2.youngs_modulus, X2)[:, :3]
    den = np.linalg.norm(g1, axis=1) + np.linalg.norm(g2, axis=1)
    den[den == 0.0] = 1.0
    ratio = np.linalg.norm(g1 - g2, axis=1) / den
    for k in range(n):
        out["contacts"].append(dict(i=int(i1[k]), j=int(i2[k]), t1=L(tp1[k]), t2=L(tp2[k]), plane=L(cs.contact_planes[k]),
                                    force=L(cs.contact_forces[k]), com=L(cs.contact_coms[k]), area=float(cs.contact_areas[k]),
                                    ratio=float(ratio[k])))
    return out


def run_case(c):
    out = {}
    if c.get("kind") == "contacts":
        try:
            return contacts_run(c)
        except BaseException as e:  # noqa
            return dict(exc=type(e).__name__, exc_msg=str(e)[:300], tb=traceback.format_exc()[-1500:])
    try:
        s1, s2, g = c["b1"], c["b2"], c["g"]
        max_rows = int(c.get("max_rows", 400))
        # base + repetition on the same objects
        b1, b2 = make_body(s1), make_body(s2)
        out["base"] = cf(b1, b2, ratio=False)      # the public entry point itself
        out["repeat1"] = cf(b1, b2, ratio=False)
        out["repeat2"] = cf(b1, b2)
        out["b1_frame_after"] = L(b1.body2origin_)
        out["caches_after_repeat"] = cache_consistent(b1)
        if c.get("b3") is not None:
            b3 = make_body(c["b3"])
            out["inter_b3"] = cf(b1, b3)
            out["caches_after_b3"] = cache_consistent(b1)
            out["inter_back"] = cf(b1, b2)
            out["caches_after_back"] = cache_consistent(b1)
            out["b3_fresh"] = cf(make_body(s1), make_body(c["b3"]))
        out["express"] = express(s1, s2)
        if c.get("history") is not None:
            out["history"] = history(c["history"]["specs"], c["history"]["steps"])
        if c.get("details", True):
            out["details"] = details(s1, s2, int(c.get("details_k", 12)))
            # the property clauses also for calls WITH details: swapped order and common rigid motion, fresh bodies each
            for key, (xa, xb, gg) in (("details_swap", (s2, s1, None)), ("details_moved", (s1, s2, g))):
                it, w12, w21, _det = hc.contact_forces(make_body(xa, gg), make_body(xb, gg), return_details=True)
                out[key] = dict(inter=bool(it), w12=L(w12), w21=L(w21))
        # internals on fresh bodies (must reproduce base bit for bit)
        out["internals"] = internals(make_body(s1), make_body(s2), max_rows)
        out["swap"] = cf(make_body(s2), make_body(s1))
        out["moved"] = cf(make_body(s1, g), make_body(s2, g))
        if c.get("broad", True):
            out["broad"] = broad(s1, s2)
    except BaseException as e:  # noqa
        out["exc"] = type(e).__name__
        out["exc_msg"] = str(e)[:300]
        out["tb"] = traceback.format_exc()[-1500:]
    return out


def main():
    payload = json.load(open(sys.argv[1]))
    cov = None
    if payload.get("trace"):
        import coverage
        cov = coverage.Coverage(branch=True, data_file=None, include=["*/hydroelastic_contact/" + f for f in COVERED])
        cov.start()
    load()
    res = [run_case(c) for c in payload["cases"]]
    out = dict(results=res)
    if cov is not None:
        cov.stop()
        import os
        rep = {}
        base = os.path.dirname(hc.__file__)
        for f in COVERED:
            an = cov._analyze(os.path.join(base, f))
            miss_arcs = an.missing_branch_arcs()
            rep[f] = dict(statements=len(an.statements), missing_lines=sorted(an.missing),
                          branches=an.numbers.n_branches, missing_branches=an.numbers.n_missing_branches,
                          missing_arcs=sorted([int(a), int(b)] for a, bs in miss_arcs.items() for b in bs))
        out["coverage"] = rep
    json.dump(out, open(sys.argv[2], "w"))


if __name__ == "__main__":
    main()
