"""Worker for C09 / C19 (narrow-bool): the ops of harness/impl/narrow.py plus
full-output variants of the alternative distance algorithms, the iteration-count helpers,
self-collision detection on small BVHs, and a finiteness scan of every returned value."""
import json
import math
import signal
import sys
import time
import traceback

from harness import compat  # noqa: F401
import numpy as np
from harness.impl import narrow as W
from distance3d import gjk, mpr, epa as EPA  # noqa: F401

MAX_FLOAT = float(np.finfo(float).max)

# live rows of GJK's work array when it stopped (return value of _distance_loop), observed by wrapping the
# module attribute in THIS process (finding F2: epa() is handed all four rows regardless)
from distance3d.gjk import _gjk_jolt as _J  # noqa: E402
_GJK_INFO = {}
_orig_distance_loop = _J._distance_loop


def _distance_loop_w(*a):
    _GJK_INFO.setdefault("ys", set()).add((np.asarray(a[0], dtype=float) - np.asarray(a[1], dtype=float)).tobytes())
    r = _orig_distance_loop(*a)
    _GJK_INFO["n_points"] = None if r[1] is None else int(r[1])
    return r


_J._distance_loop = _distance_loop_w


def scan(x, out):
    """collect non-finite numbers of a nested result into out (list of str)"""
    if x is None or isinstance(x, (bool, np.bool_, str)):
        return
    if isinstance(x, (int, np.integer)):
        return
    if isinstance(x, (float, np.floating)):
        if not math.isfinite(float(x)):
            out.append(repr(float(x)))
        return
    if isinstance(x, np.ndarray):
        if x.dtype.kind == "f" and not np.all(np.isfinite(x)):
            out.append(f"array with {int(np.sum(~np.isfinite(x)))} non-finite entries")
        return
    if isinstance(x, dict):
        for v in x.values():
            scan(v, out)
        return
    if isinstance(x, (tuple, list)):
        for v in x:
            scan(v, out)
        return


def valid_rows(simplex, n):
    return None if simplex is None else np.asarray(simplex, dtype=float)[:n]


def run_op(op, s1, s2):
    name = op["fn"]
    if name in W_OPS:
        return W.run_op(op, s1, s2)
    cnt = W.Counter()
    c1 = W.instrument(W.build(s1), cnt)
    c2 = c1 if op.get("same_object") else W.instrument(W.build(s2), cnt)
    return exec_op(op, c1, c2, cnt)


def state_of(col, prefix=""):
    """the numeric state of a collider (arrays and floats among its attributes; Margin: also the wrapped collider)"""
    st = {}
    for k, v in vars(col).items():
        if k in ("support_function", "artist_"):
            continue
        if isinstance(v, np.ndarray):
            st[prefix + k] = (v.shape, v.tobytes())
        elif isinstance(v, (float, int, np.floating, np.integer)) and not isinstance(v, bool):
            st[prefix + k] = float(v)
        elif hasattr(v, "support_function") and hasattr(v, "__dict__") and k != "support_function":
            st.update(state_of(v, prefix + k + "."))
    return st


def run_shared(case):
    """all ops of the case on ONE pair of collider objects, in order (a query must not change what later queries see);
    after every op the numeric state of both colliders is compared with the state before it"""
    cnt = W.Counter()
    c1 = W.instrument(W.build(case["c1"]), cnt)
    c2 = c1 if case.get("same_object") else W.instrument(W.build(case["c2"]), cnt)
    res = []
    before = (state_of(c1), state_of(c2))
    for op in case["ops"]:
        n0 = cnt.n
        r = exec_op(op, c1, c2, cnt)
        r["support_calls"] = cnt.n - n0
        after = (state_of(c1), state_of(c2))
        changed = [f"collider{i + 1}.{k}" for i in (0, 1) for k in after[i] if before[i].get(k) != after[i][k]]
        if changed:
            r["state_changed"] = changed
        before = after
        res.append(r)
    return res


def exec_op(op, c1, c2, cnt):
    name = op["fn"]
    out = dict(fn=name)
    kw = op.get("kw", {})
    t0 = time.time()
    signal.signal(signal.SIGALRM, W._alarm)
    signal.alarm(int(op.get("timeout", 20)))
    nonfinite = []
    try:
        if name == "original_full":
            r = gjk.gjk_distance_original(c1, c2)
            out.update(d=float(r[0]), a=W.arr(r[1]), b=W.arr(r[2]), iterations=int(r[4]))
            scan((r[0], r[1], r[2], r[4]), nonfinite)
        elif name == "original_iterations":
            from distance3d.gjk._gjk_original import gjk_distance_iterations
            out.update(iterations=int(gjk_distance_iterations(c1, c2)))
        elif name == "jolt_full":
            r = gjk.gjk_distance_jolt(c1, c2, **kw)
            out.update(d=float(r[0]), a=W.arr(r[1]), b=W.arr(r[2]))
            scan((r[0], r[1], r[2]), nonfinite)     # the simplex is a work array with stale rows (F2): not scanned
        elif name == "jolt_iterations":
            from distance3d.gjk._gjk_jolt import gjk_distance_jolt_iterations
            out.update(iterations=int(gjk_distance_jolt_iterations(c1, c2, **kw)))
        elif name == "nesterov_full":
            r = gjk.gjk_nesterov_accelerated(c1, c2, **kw)
            out.update(contact=bool(r[0]), d=float(r[1]), iterations=int(r[3]))
            scan((r[0], r[1], r[3]), nonfinite)
        elif name == "nesterov_distance":
            d = gjk.gjk_nesterov_accelerated_distance(c1, c2)
            out.update(d=float(d))
            scan(d, nonfinite)
        elif name == "nesterov_iterations":
            from distance3d.gjk._gjk_nesterov_accelerated import gjk_nesterov_accelerated_iterations
            out.update(iterations=int(gjk_nesterov_accelerated_iterations(c1, c2)))
        elif name == "nesterov_prim_full":
            r = gjk.gjk_nesterov_accelerated_primitives(c1, c2, **kw)
            out.update(contact=bool(r[0]), d=float(r[1]), iterations=int(r[3]))
            scan((r[0], r[1], r[3]), nonfinite)
        elif name == "nesterov_prim_distance":
            d = gjk.gjk_nesterov_accelerated_primitives_distance(c1, c2)
            out.update(d=float(d))
            scan(d, nonfinite)
        elif name == "nesterov_prim_iterations":
            from distance3d.gjk._gjk_nesterov_accelerated_primitives import gjk_nesterov_accelerated_primitives_iterations
            out.update(iterations=int(gjk_nesterov_accelerated_primitives_iterations(c1, c2)))
        elif name in ("b_jolt", "b_libccd", "b_mpr", "b_nesterov", "b_nesterov_prim"):
            f = dict(b_jolt=gjk.gjk_intersection_jolt, b_libccd=gjk.gjk_intersection_libccd, b_mpr=mpr.mpr_intersection,
                     b_nesterov=gjk.gjk_nesterov_accelerated_intersection,
                     b_nesterov_prim=gjk.gjk_nesterov_accelerated_primitives_intersection)[name]
            out.update(ans=bool(f(c1, c2)))
        elif name == "mpr_pen_full":
            r = mpr.mpr_penetration(c1, c2, **kw)
            out.update(ans=bool(r[0]), depth=None if r[1] is None else float(r[1]), dir=W.arr(r[2]), pos=W.arr(r[3]))
            scan(r, nonfinite)
        elif name == "epa_full":
            _GJK_INFO["ys"] = set()
            if op.get("poison") is not None:
                # make UNINITIALISED memory observable and deterministic: gjk_distance_jolt takes its (4, 3) work arrays from
                # np.empty, i.e. from numpy's cache of freed small blocks; blocks of that size filled with the poison value are
                # freed right before the call, so rows GJK never writes hold the poison instead of whatever the heap held
                blocks = [np.full((4, 3), float(op["poison"])) for _ in range(16)]
                del blocks
            d, a, b, simplex = gjk.gjk_distance_jolt(c1, c2)
            out.update(d=float(d), n_gjk=cnt.n, n_points=_GJK_INFO.get("n_points"))
            if simplex is not None:
                # rows of the returned work array that are NOT a difference p - q of support points this run obtained
                # (uninitialised np.empty memory); stale-but-genuine rows are points of A - B
                out["garbage_rows"] = int(sum(1 for row in np.asarray(simplex, dtype=float)
                                              if np.ascontiguousarray(row).tobytes() not in _GJK_INFO["ys"]))
            if d < 1e-12 and simplex is not None:
                mtv, faces, success = EPA.epa(simplex, c1, c2, **kw)
                out.update(mtv=W.arr(mtv), success=bool(success))
                scan((mtv, success), nonfinite)
                out["n_epa"] = cnt.n - out["n_gjk"]
            else:
                out.update(skipped=True)
        else:
            raise ValueError(name)
    except W.Timeout:
        out["exc"] = "TIMEOUT"
    except BaseException as e:  # noqa
        out["exc"] = type(e).__name__
        out["exc_msg"] = str(e)[:200]
        out["tb"] = traceback.format_exc()[-800:]
    finally:
        signal.alarm(0)
    out["support_calls"] = cnt.n
    out["wall"] = round(time.time() - t0, 4)
    if nonfinite:
        out["nonfinite"] = nonfinite[:4]
    return out


W_OPS = {"gjk_jolt", "gjk_original", "nesterov", "nesterov_prim", "isect_jolt", "isect_libccd", "isect_mpr",
         "isect_nesterov", "isect_nesterov_prim", "epa", "mpr_pen"}


def run_scene(scene):
    """self_collision.detect / detect_any on a small BVH built from collider specs"""
    from distance3d import self_collision as SC
    from distance3d.broad_phase import BoundingVolumeHierarchy
    from pytransform3d.transform_manager import TransformManager
    out = dict(fn="self_collision")
    cnt = W.Counter()
    t0 = time.time()
    signal.signal(signal.SIGALRM, W._alarm)
    signal.alarm(int(scene.get("timeout", 60)))
    try:
        tm = TransformManager(check=False)
        bvh = BoundingVolumeHierarchy(tm, "base")
        for i, s in enumerate(scene["colliders"]):
            col = W.instrument(W.build(s), cnt)
            bvh.add_collider(f"c{i}", col)
        bvh.self_collision_whitelists_ = {f"c{i}": list(scene.get("whitelists", {}).get(str(i), []))
                                          for i in range(len(scene["colliders"]))}
        r = SC.detect(bvh)
        out["detect"] = {k: bool(v) for k, v in r.items()}
        out["n_detect"] = cnt.n
        out["detect_any"] = bool(SC.detect_any(bvh))
    except W.Timeout:
        out["exc"] = "TIMEOUT"
    except BaseException as e:  # noqa
        out["exc"] = type(e).__name__
        out["exc_msg"] = str(e)[:200]
        out["tb"] = traceback.format_exc()[-800:]
    finally:
        signal.alarm(0)
    out["support_calls"] = cnt.n
    out["wall"] = round(time.time() - t0, 4)
    return out


def main():
    payload = json.load(open(sys.argv[1]))
    res = []
    for case in payload["cases"]:
        if "scene" in case:
            res.append([run_scene(case["scene"])])
            continue
        if case.get("shared"):
            res.append(run_shared(case))
            continue
        r = []
        for op in case["ops"]:
            r.append(run_op(op, case["c1"], case["c2"]))
        res.append(r)
    json.dump(dict(results=res), open(sys.argv[2], "w"))


if __name__ == "__main__":
    main()
