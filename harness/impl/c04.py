"""Worker: run /repo's aabb() methods, containment.*_aabb free functions and RigidBody.aabb() (C04)."""
import json
import sys
import traceback

from harness import compat  # noqa: F401
import numpy as np
from distance3d import colliders, containment, geometry
from distance3d.hydroelastic_contact import _rigid_body, _mesh_processing
from harness.impl.c03 import build, pose4, arr, fl, build_with_history, shape_at
from harness.impl import shapes_trace as st

TRACE_FILES = [containment.__file__, colliders.__file__, _rigid_body.__file__, _mesh_processing.__file__, geometry.__file__]


TRACER = None


def traced(f, *a):
    """only the functions under test run under the line tracer"""
    if TRACER is None:
        return f(*a)
    with TRACER:
        return f(*a)


def free_args(sh):
    k = sh["kind"]
    if k == "sphere":
        return containment.sphere_aabb, [arr(sh["c"]), float(sh["r"])]
    if k == "box":
        return containment.box_aabb, [pose4(sh["R"], sh["t"]), arr(sh["size"])]
    if k == "cylinder":
        return containment.cylinder_aabb, [pose4(sh["R"], sh["t"]), float(sh["r"]), float(sh["l"])]
    if k == "capsule":
        return containment.capsule_aabb, [pose4(sh["R"], sh["t"]), float(sh["r"]), float(sh["h"])]
    if k == "ellipsoid":
        return containment.ellipsoid_aabb, [pose4(sh["R"], sh["t"]), arr(sh["radii"])]
    if k == "cone":
        return containment.cone_aabb, [pose4(sh["R"], sh["t"]), float(sh["r"]), float(sh["h"])]
    if k == "disk":
        return containment.disk_aabb, [arr(sh["c"]), float(sh["r"]), arr(sh["n"])]
    if k == "ellipse":
        return containment.ellipse_aabb, [arr(sh["c"]), arr([sh["a0"], sh["a1"]]), arr([sh["r0"], sh["r1"]])]
    if k == "hull":
        return containment.axis_aligned_bounding_box, [arr(sh["vs"])]
    return None, None


def free_aabb(sh):
    f, args = free_args(sh)
    if f is None:
        return None
    copies = [a.copy() if isinstance(a, np.ndarray) else a for a in args]
    res = f(*args)
    if any(isinstance(a, np.ndarray) and not np.array_equal(a, b, equal_nan=True) for a, b in zip(args, copies)):
        raise AssertionError("the free *_aabb function modified its argument arrays")
    return res


def free_inplace_history(sh, sh2):
    """call, overwrite the SAME argument arrays with another shape of the kind, call again, compare with
    a call on fresh arrays"""
    f, args = free_args(sh)
    f2, args2 = free_args(sh2)
    if f is None or f2 is not f:
        return None
    f(*args)
    call = []
    for a, b in zip(args, args2):
        if isinstance(a, np.ndarray):
            if a.shape != np.asarray(b).shape:
                return None
            a[...] = b
            call.append(a)
        else:
            call.append(b)
    got = f(*call)
    want = f(*free_args(sh2)[1])
    same = all(np.array_equal(np.asarray(x), np.asarray(y), equal_nan=True) for x, y in zip(got, want))
    return dict(same=bool(same), got=[fl(x) for x in got], want=[fl(x) for x in want])


def run_rigid_body(sh):
    from distance3d.hydroelastic_contact import RigidBody
    T = pose4(sh["R"], sh["t"])
    mk = sh["maker"]
    if mk == "box":
        rb = RigidBody.make_box(T, arr(sh["size"]))
    elif mk == "cube":
        rb = RigidBody.make_cube(T, float(sh["size"][0]))
    elif mk == "sphere":
        # make_sphere takes a centre only: build the pose-carrying body by hand from its mesh
        rb0 = RigidBody.make_sphere(np.zeros(3), float(sh["r"]), order=1)
        rb = RigidBody(T, rb0.vertices_, rb0.tetrahedra_, rb0.potentials_)
    elif mk == "ellipsoid":
        rb = RigidBody.make_ellipsoid(T, arr(sh["radii"]), order=1)
    else:
        raise ValueError(mk)
    box = np.asarray(traced(rb.aabb), dtype=float)
    out = dict(aabb=[fl(box[:, 0]), fl(box[:, 1])],
               vertices=np.asarray(rb.vertices_, dtype=float).tolist(),
               tetrahedra=np.asarray(rb.tetrahedra_).astype(int).tolist(),
               # the per-tetrahedron boxes the tree is built from: (n, 3, 2) -> [[mins], [maxs]] per tetrahedron
               tetra_aabbs=[[fl(b[:, 0]), fl(b[:, 1])] for b in np.asarray(rb.aabbs, dtype=float)])
    if sh.get("express_in") is not None:
        # history: aabb() [cached tree] -> express_in(new frame) -> aabb() must describe the NEW stored vertices
        F = pose4(sh["express_in"]["R"], sh["express_in"]["t"])
        traced(rb.express_in, F)
        box2 = np.asarray(traced(rb.aabb), dtype=float)
        out["after"] = dict(aabb=[fl(box2[:, 0]), fl(box2[:, 1])],
                            vertices=np.asarray(rb.vertices_, dtype=float).tolist(),
                            body2origin=np.asarray(rb.body2origin_, dtype=float).tolist())
    return out


def run_case(case):
    out = {}
    sh = case["shape"]
    try:
        if sh["kind"] == "rigid_body":
            out.update(run_rigid_body(sh))
            return out
        hist = case.get("history")
        c, extra = build(sh if hist is None else shape_at(sh, hist["start"]))
        out.update(extra)
    except BaseException as e:  # noqa
        out["build_exc"] = type(e).__name__
        out["build_msg"] = str(e)[:300]
        out["tb"] = traceback.format_exc()[-1200:]
        return out
    try:
        col = c
        if case.get("margin") is not None:
            col = colliders.Margin(c, float(case["margin"]))
        if hist is not None:
            # the collider reaches the pose of `sh` through update_pose calls on ONE re-used pose array; aabb() is
            # asked after construction and after every update (twice: a cached box would be returned the second time)
            def observe(cl):
                b1 = np.asarray(traced(cl.aabb), dtype=float)
                b2 = np.asarray(cl.aabb(), dtype=float)
                return dict(aabb=[fl(b1[:, 0]), fl(b1[:, 1])], again_same=bool(np.array_equal(b1, b2, equal_nan=True)))
            c, col, _, stages = build_with_history(sh, hist, case.get("margin"), observe, triangles=extra.get("triangles"))
            out["stages"] = stages
        from harness.impl.c03 import array_state, changed
        state0 = array_state(c)
        box = np.asarray(traced(col.aabb), dtype=float)
        if box.shape != (3, 2):
            raise AssertionError(f"aabb() shape {box.shape}")
        out["aabb"] = [fl(box[:, 0]), fl(box[:, 1])]
        box_again = np.asarray(col.aabb(), dtype=float)
        out["modified"] = []
        if changed(state0, c):
            out["modified"].append(f"aabb() modified the collider's arrays {changed(state0, c)}")
        if not np.array_equal(box, box_again, equal_nan=True):
            out["modified"].append(f"a second aabb() call returns {box_again.tolist()} instead of {box.tolist()}")
        fr = traced(free_aabb, sh)
        if fr is not None:
            out["free"] = [fl(fr[0]), fl(fr[1])]
        if case.get("shape2") is not None:
            out["inplace"] = traced(free_inplace_history, sh, case["shape2"])
    except BaseException as e:  # noqa
        out["exc"] = type(e).__name__
        out["exc_msg"] = str(e)[:300]
        out["tb"] = traceback.format_exc()[-1200:]
    return out


def main():
    payload = json.load(open(sys.argv[1]))
    global TRACER
    # warm-up (numba: AabbTree) before anything is traced
    from distance3d.hydroelastic_contact import RigidBody
    RigidBody.make_cube(np.eye(4), 1.0).aabb()
    tracer = st.LineTracer(TRACE_FILES)
    TRACER = tracer
    res = [run_case(c) for c in payload["cases"]]
    hits = {k.split("/")[-1]: v for k, v in tracer.result().items()}
    json.dump(dict(results=res, line_hits=hits), open(sys.argv[2], "w"))


if __name__ == "__main__":
    main()
