"""Worker (run with NUMBA_DISABLE_JIT=1): executes the narrow-phase entry points on collider pairs under
sys.settrace and reports which source lines of /repo's narrow-phase modules were executed (statement
coverage of the IMPLEMENTATION reached by the generators; /repo is untouched)."""
import json
import os
import signal
import sys

from harness import compat  # noqa: F401
import numpy as np
from harness.impl import narrow as W
from harness.impl import narrowb as WB

FILES = ("gjk/_gjk_jolt.py", "gjk/_gjk_libccd.py", "gjk/_gjk_original.py", "gjk/_gjk_nesterov_accelerated.py",
         "gjk/_gjk_nesterov_accelerated_primitives.py", "mpr.py", "epa.py", "minkowski.py", "self_collision.py")
HITS = {}


def tracer(frame, event, arg):
    fn = frame.f_code.co_filename
    if "distance3d" not in fn:
        return None
    key = None
    for f in FILES:
        if fn.endswith("distance3d/" + f):
            key = f
            break
    if key is None:
        return None
    s = HITS.setdefault(key, set())

    def local(frame, event, arg):
        if event == "line":
            s.add(frame.f_lineno)
        return local
    s.add(frame.f_lineno)
    return local


def main():
    payload = json.load(open(sys.argv[1]))
    n = 0
    excs = []
    sys.settrace(tracer)
    try:
        for ci, case in enumerate(payload["cases"]):
            for oi, op in enumerate(case["ops"]):
                op = dict(op, timeout=max(60, int(op.get("timeout", 20))))
                r = WB.run_op(op, case["c1"], case["c2"])
                n += 1
                if "exc" in r or r.get("nonfinite"):
                    excs.append(dict(case=case.get("idx", ci), op=oi, fn=r["fn"], exc=r.get("exc"), exc_msg=r.get("exc_msg"),
                                     nonfinite=r.get("nonfinite"), tb=r.get("tb", "")[-500:], n_points=r.get("n_points"), garbage_rows=r.get("garbage_rows")))
    finally:
        sys.settrace(None)
    json.dump(dict(calls=n, hits={k: sorted(v) for k, v in HITS.items()}, exceptions=excs), open(sys.argv[2], "w"))


if __name__ == "__main__":
    main()
