"""Worker: run /repo's BoundingVolumeHierarchy / self_collision on command histories (C06).

payload: {"cases": [case, ...]};  case = {"A": world, "B": world}
world = {
  "base2origin": None | [16],      # base_frame2origin of the BVH constructor
  "urdf": None | {"name": str, "links": [{"name": str, "collisions": [{"name": str|None,
            "kind": sphere|box|cylinder, "params": {...}, "origin": [x,y,z,r,p,y]}]}],
            "joints": [{"name", "type": revolute|prismatic|fixed|continuous, "parent", "child",
                        "origin": [6], "axis": [3], "lower", "upper"}]},
  "extras": [{"frame": str, "parent": str, "T": [16], "kind": sphere|box|cylinder|capsule|cone|mesh,
              "params": {...}, "pose0": [16]}],          # colliders for add_collider
  "cmds": [ {"op": "fill", "whitelists": bool, "use_visuals": bool}    (links may carry "visuals": [...] like "collisions")
          | {"op": "add", "extra": k, "frame": str (optional override), "reuse": j (optional: re-use the
             OBJECT created for an earlier add of extra j  -> aliasing), "no_tm": bool,
             "replace": bool (the frame is registered / known to the transform manager already: tool change),
             "same": bool (re-add the very object that was removed from this frame)}
          | {"op": "remove", "frame": str}     # del bvh.colliders_[frame]; bvh.collider_frames.discard(frame)
          | {"op": "set_joint", "joint": str, "value": float}
          | {"op": "move", "frame": str, "parent": str, "T": [16], "inplace": bool}   # tm.add_transform; inplace: the array
             object handed over earlier is overwritten and added again
          | {"op": "set_wl", "wl": {frame: [frames]}, "replace": bool}
          | {"op": "update"}
          | {"op": "query", "kind":..., "params":..., "pose": [16], "whitelist": [frames]}
          | {"op": "self"} | {"op": "detect"} | {"op": "detect_any"} | {"op": "dump"} ]
}
Result per world: {"objects": [...], "cmds": [...per command record...], "final": snapshot}; per case also
"cross": aabb_overlapping_with_other_bvh(A, B).  Every collider OBJECT gets a number in creation order;
every pose an object ever had (or should have according to the transform manager) gets a stamp number
local to the object, with the AABB of a NEW collider of the same shape built directly at that pose.
All floats travel through JSON (repr round trip = exact).
"""
import json
import signal
import sys
import traceback
import warnings

from harness import compat  # noqa: F401
import numpy as np
from distance3d import colliders as C
from distance3d import gjk as G
from distance3d import self_collision as SC
from distance3d.broad_phase import BoundingVolumeHierarchy
from distance3d.urdf_utils import self_collision_whitelists
from pytransform3d.transform_manager import TransformManager
from pytransform3d.urdf import UrdfTransformManager


class CaseTimeout(BaseException):
    """raised by SIGALRM: one case exceeded its (generous) wall-clock allowance"""


def _on_alarm(signum, frame):
    raise CaseTimeout()


def arr44(p):
    return np.array(p, dtype=float).reshape(4, 4)


def make(kind, params, pose):
    """a NEW collider of the given shape built directly at `pose` (C-contiguous 4x4)"""
    pose = np.ascontiguousarray(pose, dtype=float).copy()
    if kind == "sphere":
        return C.Sphere(pose[:3, 3].copy(), params["radius"])
    if kind == "box":
        return C.Box(pose, np.array(params["size"], dtype=float))
    if kind == "cylinder":
        return C.Cylinder(pose, params["radius"], params["length"])
    if kind == "capsule":
        return C.Capsule(pose, params["radius"], params["height"])
    if kind == "cone":
        return C.Cone(pose, params["radius"], params["height"])
    if kind == "mesh":
        v = np.array(params["vertices"], dtype=float).reshape(-1, 3)
        t = np.array(params["triangles"], dtype=int).reshape(-1, 3)
        return C.MeshGraph(pose, v, t)
    raise ValueError(kind)


def urdf_xml(u):
    out = [f'<?xml version="1.0"?><robot name="{u["name"]}">']
    for ln in u["links"]:
        out.append(f'<link name="{ln["name"]}">')
        for tag, c in [("visual", v) for v in ln.get("visuals", [])] + [("collision", c) for c in ln["collisions"]]:
            nm = f' name="{c["name"]}"' if c.get("name") else ""
            o = c["origin"]
            out.append(f'<{tag}{nm}><origin xyz="{o[0]!r} {o[1]!r} {o[2]!r}" rpy="{o[3]!r} {o[4]!r} {o[5]!r}"/><geometry>')
            p = c["params"]
            if c["kind"] == "sphere":
                out.append(f'<sphere radius="{p["radius"]!r}"/>')
            elif c["kind"] == "box":
                s = p["size"]
                out.append(f'<box size="{s[0]!r} {s[1]!r} {s[2]!r}"/>')
            elif c["kind"] == "cylinder":
                out.append(f'<cylinder radius="{p["radius"]!r}" length="{p["length"]!r}"/>')
            else:
                raise ValueError(c["kind"])
            out.append(f'</geometry></{tag}>')
        out.append('</link>')
    for j in u["joints"]:
        o = j["origin"]
        out.append(f'<joint name="{j["name"]}" type="{j["type"]}"><parent link="{j["parent"]}"/><child link="{j["child"]}"/>'
                   f'<origin xyz="{o[0]!r} {o[1]!r} {o[2]!r}" rpy="{o[3]!r} {o[4]!r} {o[5]!r}"/>')
        if j["type"] != "fixed":
            a = j["axis"]
            out.append(f'<axis xyz="{a[0]!r} {a[1]!r} {a[2]!r}"/>')
        if j["type"] in ("revolute", "prismatic"):
            out.append(f'<limit lower="{j["lower"]!r}" upper="{j["upper"]!r}"/>')
        out.append('</joint>')
    out.append('</robot>')
    return "".join(out)


def pose_key(kind, pose):
    """the part of a pose a collider of this kind depends on (a Sphere keeps the translation only)"""
    pose = np.asarray(pose, dtype=float)
    if kind == "sphere":
        return pose[:3, 3].tobytes()
    return np.ascontiguousarray(pose).tobytes()


def aabb6(a):
    a = np.asarray(a, dtype=float)
    return [float(x) for x in a.reshape(-1)]      # x0 x1 y0 y1 z0 z1


class World:
    def __init__(self, w):
        self.w = w
        self.objects = []          # dicts: obj, kind, params, stamps [{pose, aabb}], keys {key: stamp}
        self.by_id = {}
        self.urdf_geom = {}        # frame -> (kind, params)
        if w["urdf"] is not None:
            self.tm = UrdfTransformManager()
            self.tm.load_urdf(urdf_xml(w["urdf"]))
            self.base = w["urdf"].get("root", w["urdf"]["links"][0]["name"])
            for ln in w["urdf"]["links"]:
                for k, c in enumerate(ln["collisions"]):
                    nm = c["name"] if c.get("name") else str(k)
                    self.urdf_geom[f"collision:{ln['name']}/{nm}"] = (c["kind"], c["params"])
                for k, c in enumerate(ln.get("visuals", [])):
                    nm = c["name"] if c.get("name") else str(k)
                    self.urdf_geom[f"visual:{ln['name']}/{nm}"] = (c["kind"], c["params"])
        else:
            self.tm = TransformManager()
            self.base = "base"
        if w.get("base2origin") is not None:
            self.bvh = BoundingVolumeHierarchy(self.tm, self.base, base_frame2origin=arr44(w["base2origin"]))
        else:
            self.bvh = BoundingVolumeHierarchy(self.tm, self.base)
        self.extra_obj = {}
        self.added = set()
        self.tf = {}            # frame -> (parent, the array OBJECT handed to tm.add_transform)
        self.base_stamp = {}    # oid -> pose stamp after the last state-changing command
        self.removed = {}       # frame -> the object taken out of colliders_ last

    # -- object registry -------------------------------------------------
    def register(self, obj, kind, params, pose0):
        i = len(self.objects)
        rec = dict(obj=obj, kind=kind, params=params, stamps=[], keys={})
        self.objects.append(rec)
        self.by_id[id(obj)] = i
        self.stamp(i, pose0)
        return i

    def stamp(self, i, pose):
        rec = self.objects[i]
        k = pose_key(rec["kind"], pose)
        if k not in rec["keys"]:
            rec["keys"][k] = len(rec["stamps"])
            fresh = make(rec["kind"], rec["params"], np.asarray(pose, dtype=float))
            rec["stamps"].append(dict(pose=[float(x) for x in np.asarray(pose, dtype=float).reshape(-1)],
                                      aabb=aabb6(fresh.aabb())))
        return rec["keys"][k]

    def fresh_at(self, i, s):
        rec = self.objects[i]
        return make(rec["kind"], rec["params"], arr44(rec["stamps"][s]["pose"]))

    def oid(self, obj):
        return self.by_id.get(id(obj), -1)

    def tm_pose(self, frame):
        try:
            return self.tm.get_transform(frame, "origin")
        except KeyError:
            return None

    # -- observation -----------------------------------------------------
    def snapshot(self, with_narrow):
        items = list(self.bvh.colliders_.items())
        ent = []
        for f, c in items:
            i = self.oid(c)
            e = dict(frame=f, oid=i)
            if i >= 0:
                e["stamp_actual"] = self.stamp(i, c.collider2origin())
                e["aabb_actual"] = aabb6(c.aabb())
                p = self.tm_pose(f)
                e["stamp_tm"] = None if p is None else self.stamp(i, p)
            ent.append(e)
        snap = dict(entries=ent, added=sorted(self.added),
                    collider_frames=sorted(self.bvh.get_collider_frames()),
                    get_colliders=[self.oid(c) for c in self.bvh.get_colliders()],
                    ext=[None if d is None else [d[0], self.oid(d[1])] for d in self.bvh.aabbtree_.external_data_list],
                    wl={k: list(v) for k, v in self.bvh.self_collision_whitelists_.items()})
        if with_narrow:
            # all-pairs narrow phase over the registered colliders (first, in dict order) AND the colliders that only
            # survive as payload of the tree (a frame name used twice leaves the old object there until the next update)
            objs = [c for _, c in items]
            seen = {id(c) for c in objs}
            for d in self.bvh.aabbtree_.external_data_list:
                if d is not None and id(d[1]) not in seen:
                    seen.add(id(d[1]))
                    objs.append(d[1])
            ids = [self.oid(c) for c in objs]
            stamps = [self.stamp(i, c.collider2origin()) if i >= 0 else None for i, c in zip(ids, objs)]
            n = len(objs)
            nar = [[None] * n for _ in range(n)]
            nar_fresh = [[None] * n for _ in range(n)]
            fresh = [self.fresh_at(i, st) if i >= 0 else None for i, st in zip(ids, stamps)]
            for a in range(n):
                for b in range(n):
                    try:
                        nar[a][b] = bool(G.gjk_intersection(objs[a], objs[b]))
                    except Exception as ex:  # noqa
                        nar[a][b] = type(ex).__name__
                    try:
                        nar_fresh[a][b] = bool(G.gjk_intersection(fresh[a], fresh[b]))
                    except Exception as ex:  # noqa
                        nar_fresh[a][b] = type(ex).__name__
            snap["narrow"] = nar
            snap["narrow_fresh"] = nar_fresh
            snap["narrow_objs"] = [[i, st] for i, st in zip(ids, stamps)]
        return snap

    # -- commands --------------------------------------------------------
    def run_cmd(self, cmd):
        op = cmd["op"]
        rec = dict(op=op, exc=None)
        bvh, tm = self.bvh, self.tm
        try:
            if op == "fill":
                use_visuals = bool(cmd.get("use_visuals", False))
                frames = [o.frame for o in (tm.visuals if use_visuals else tm.collision_objects)]
                rec["frames"] = frames
                raw_tm = {f: self.tm_pose(f) for f in list(bvh.colliders_) + frames}
                before = dict(bvh.colliders_)
                with warnings.catch_warnings(record=True) as wl:
                    warnings.simplefilter("always")
                    bvh.fill_tree_with_colliders(tm, fill_self_collision_whitelists=cmd.get("whitelists", False),
                                                 use_visuals=use_visuals)
                rec["warnings"] = [str(x.message)[:100] for x in wl]
                new = []
                for f in frames:
                    c = bvh.colliders_.get(f)
                    if c is not None and before.get(f) is not c and id(c) not in self.by_id:
                        kind, params = self.urdf_geom[f]
                        i = self.register(c, kind, params, raw_tm[f])
                        new.append([f, i])
                rec["new"] = new
                self.added |= set(frames)
                rec["tm"] = {f: (None if p is None else self._stamp_frame(f, p)) for f, p in raw_tm.items()}
                if cmd.get("whitelists", False):
                    rec["transforms"] = [[a, b] for a, b in tm.transforms.keys()]
                    rec["nodes"] = list(tm.nodes)
                    with warnings.catch_warnings():
                        warnings.simplefilter("ignore")
                        gw = self_collision_whitelists(tm)
                    rec["generated_wl"] = [[k, list(v)] for k, v in gw.items()]
                    rec["collision_frames"] = [o.frame for o in tm.collision_objects]
            elif op == "add":
                ex = self.w["extras"][cmd["extra"]]
                frame = cmd.get("frame", ex["frame"])
                if not cmd.get("no_tm", False):
                    arr = arr44(ex["T"])
                    tm.add_transform(frame, ex["parent"], arr)
                    self.tf[frame] = (ex["parent"], arr)
                if cmd.get("same"):
                    obj = self.removed[frame]
                    i = self.oid(obj)
                elif "reuse" in cmd:
                    obj = self.extra_obj[cmd["reuse"]]
                    i = self.oid(obj)
                else:
                    obj = make(ex["kind"], ex["params"], arr44(ex["pose0"]))
                    i = self.register(obj, ex["kind"], ex["params"], arr44(ex["pose0"]))
                    self.extra_obj[cmd["extra"]] = obj
                rec["frame"], rec["oid"] = frame, i
                bvh.add_collider(frame, obj)
                self.added.add(frame)
            elif op == "remove":
                # there is no method for it: the caller edits the public attributes
                rec["frame"] = cmd["frame"]
                obj = bvh.colliders_[cmd["frame"]]
                del bvh.colliders_[cmd["frame"]]
                bvh.collider_frames.discard(cmd["frame"])
                self.removed[cmd["frame"]] = obj
                self.added.discard(cmd["frame"])
                rec["oid"] = self.oid(obj)
            elif op == "set_joint":
                tm.set_joint(cmd["joint"], cmd["value"])
            elif op == "move":
                old = self.tf.get(cmd["frame"])
                if cmd.get("inplace") and old is not None and old[0] == cmd["parent"]:
                    arr = old[1]                    # the caller edits ITS array in place and adds it again
                    arr[...] = arr44(cmd["T"])
                else:
                    arr = arr44(cmd["T"])
                tm.add_transform(cmd["frame"], cmd["parent"], arr)
                self.tf[cmd["frame"]] = (cmd["parent"], arr)
                # colliders keep references to / views of the arrays the transform manager hands out: an in-place
                # edit moves them before update_collider_poses is called
                poked = []
                for f, c in bvh.colliders_.items():
                    i = self.oid(c)
                    if i >= 0:
                        st = self.stamp(i, c.collider2origin())
                        if self.base_stamp.get(i) != st:
                            poked.append([i, st])
                            self.base_stamp[i] = st
                rec["poked"] = poked
            elif op == "set_wl":
                if cmd.get("replace", False):
                    bvh.self_collision_whitelists_ = {k: list(v) for k, v in cmd["wl"].items()}
                else:
                    bvh.self_collision_whitelists_.update({k: list(v) for k, v in cmd["wl"].items()})
            elif op == "update":
                raw_tm = {f: self.tm_pose(f) for f in bvh.colliders_}
                rec["tm"] = {f: (None if p is None else self._stamp_frame(f, p)) for f, p in raw_tm.items()}
                bvh.update_collider_poses()
            elif op == "query":
                q = make(cmd["kind"], cmd["params"], arr44(cmd["pose"]))
                rec["q_aabb"] = aabb6(q.aabb())
                rec["snap"] = self.snapshot(False)
                r = bvh.aabb_overlapping_colliders(q, whitelist=tuple(cmd.get("whitelist", ())))
                rec["r"] = [[f, self.oid(c)] for f, c in r.items()]
            elif op == "self":
                rec["snap"] = self.snapshot(False)
                r = bvh.aabb_overlapping_with_self()
                rec["r"] = [[self._datum(a), self._datum(b)] for a, b in r]
            elif op == "detect":
                rec["snap"] = self.snapshot(True)
                r = self._narrow_logged(SC.detect, rec)
                rec["r"] = [[f, bool(v)] for f, v in r.items()]
            elif op == "detect_any":
                rec["snap"] = self.snapshot(True)
                rec["r"] = bool(self._narrow_logged(SC.detect_any, rec))
            elif op == "dump":
                rec["snap"] = self.snapshot(False)
            else:
                raise ValueError(op)
        except Exception as e:  # noqa
            rec["exc"] = type(e).__name__
            rec["msg"] = str(e)[:200]
            rec["tb"] = traceback.format_exc()[-600:]
        if op in ("fill", "add", "update", "remove"):
            for f, c in bvh.colliders_.items():
                i = self.oid(c)
                if i >= 0:
                    try:
                        self.base_stamp[i] = self.stamp(i, c.collider2origin())
                    except Exception:  # noqa
                        pass
        return rec

    def _narrow_logged(self, fn, rec):
        """run detect / detect_any and record WHICH collider objects it hands to the narrow phase"""
        calls = []
        orig = G.gjk_intersection

        def logged(c1, c2, *a, **kw):
            calls.append([self.oid(c1), self.oid(c2)])
            return orig(c1, c2, *a, **kw)
        G.gjk_intersection = logged
        try:
            return fn(self.bvh)
        finally:
            G.gjk_intersection = orig
            rec["narrow_calls"] = calls

    def _stamp_frame(self, f, pose):
        c = self.bvh.colliders_.get(f)
        if c is None or self.oid(c) < 0:
            return dict(pose=[float(x) for x in np.asarray(pose).reshape(-1)])
        return dict(oid=self.oid(c), stamp=self.stamp(self.oid(c), pose))

    def _datum(self, d):
        return None if d is None else [d[0], self.oid(d[1])]

    def export_objects(self):
        return [dict(kind=r["kind"], stamps=r["stamps"]) for r in self.objects]


def run_case(case):
    out = {}
    worlds = {}
    for name in ("A", "B"):
        try:
            w = World(case[name])
            worlds[name] = w
            recs = [w.run_cmd(c) for c in case[name]["cmds"]]
            out[name] = dict(cmds=recs, final=w.snapshot(False))
        except Exception as e:  # noqa
            out[name] = dict(harness_exc=type(e).__name__, harness_msg=str(e)[:300], tb=traceback.format_exc()[-800:])
    if "A" in worlds and "B" in worlds and "harness_exc" not in out["A"] and "harness_exc" not in out["B"]:
        a, b = worlds["A"], worlds["B"]
        try:
            r = a.bvh.aabb_overlapping_with_other_bvh(b.bvh)
            out["cross"] = dict(exc=None, r=[[a._datum(x), b._datum(y)] for x, y in r])
        except Exception as e:  # noqa
            out["cross"] = dict(exc=type(e).__name__, msg=str(e)[:200])
    for name in ("A", "B"):
        if name in worlds and "harness_exc" not in out[name]:
            out[name]["objects"] = worlds[name].export_objects()
    return out


def main():
    payload = json.loads(open(sys.argv[1]).read())
    res = []
    limit = int(payload.get("case_limit_s", 0))
    signal.signal(signal.SIGALRM, _on_alarm)
    for k, case in enumerate(payload["cases"]):
        # the first case of a worker also pays for loading / compiling the numba functions
        signal.alarm(limit * (4 if k == 0 else 1) if limit else 0)
        try:
            res.append(run_case(case))
        except CaseTimeout:
            res.append(dict(harness_exc="CASE-TIMEOUT", harness_msg=f"case exceeded {limit} s inside the worker"))
        except Exception as e:  # noqa
            res.append(dict(harness_exc=type(e).__name__, harness_msg=str(e)[:300], tb=traceback.format_exc()[-800:]))
        finally:
            signal.alarm(0)
    open(sys.argv[2], "w").write(json.dumps(dict(results=res), default=lambda o: f"<unserialisable {type(o).__name__}>"))


if __name__ == "__main__":
    main()
