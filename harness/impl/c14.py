"""Worker: run /repo's colliders through update_pose/query histories (C14).

payload: {"cases": [case, ...]}
case = {
  "cls": sphere|capsule|cylinder|box|ellipsoid|cone|disk|ellipse|mesh,
  "params": {...shape parameters...},
  "margins": [m, ...]            # Margin wrappers, innermost first (possibly empty)
  "pose0": [16 floats],          # construction pose (row major 4x4)
  "ops": [ {"op": "update", "src": fresh|stack|tm|tm2|inplace|stack_inplace|fortran|strided, "pose": [16], "stack": [[16]..], "i": k}
         | {"op": "support", "d": [3], "dsrc": fresh|strided}
         | {"op": "aabb"} | {"op": "center"} | {"op": "first_vertex"} | {"op": "c2o"}
         | {"op": "gjk", "other": {"cls":..., "params":..., "pose": [16]}} ],
  "probe_dirs": [[3], ...], "probe_others": [other, ...]
}
result per case:
  trace    : per op {"exc": type|None, "r": value|None, "flags": {attr: c_contiguous},
              "ref": the same query on a NEW object built at the pose reached so far (queries only)}
  flags0   : flags right after construction
  last_pose: the 16 floats of the array handed to the last update_pose (or pose0)
  upd/fresh: the observable battery on the object that lived through the history and on a
             new object constructed directly at last_pose from C-contiguous copies
  flags_fresh
All floats travel through JSON (repr round trip = exact).
"""
import json
import signal
import sys
import traceback

from harness import compat  # noqa: F401
import numpy as np
from distance3d import colliders as C
from distance3d import gjk as G
from distance3d import mesh as M
from pytransform3d.transform_manager import TransformManager


class CaseTimeout(BaseException):
    """raised by SIGALRM: one case exceeded its (generous) wall-clock allowance"""


def _on_alarm(signum, frame):
    raise CaseTimeout()


def arr44(p):
    return np.array(p, dtype=float).reshape(4, 4)


def make(cls, params, pose):
    """Construct a collider of class `cls` directly at `pose` (a C-contiguous 4x4
    array).  Constructor arguments that are parts of the pose are C-contiguous copies."""
    if cls == "sphere":
        return C.Sphere(np.ascontiguousarray(pose[:3, 3]).copy(), params["radius"])
    if cls == "capsule":
        return C.Capsule(pose, params["radius"], params["height"])
    if cls == "cylinder":
        return C.Cylinder(pose, params["radius"], params["length"])
    if cls == "cone":
        return C.Cone(pose, params["radius"], params["height"])
    if cls == "box":
        return C.Box(pose, np.array(params["size"], dtype=float))
    if cls == "ellipsoid":
        return C.Ellipsoid(pose, np.array(params["radii"], dtype=float))
    if cls == "disk":
        return C.Disk(np.ascontiguousarray(pose[:3, 3]).copy(), params["radius"],
                      np.ascontiguousarray(pose[:3, 2]).copy())
    if cls == "ellipse":
        return C.Ellipse(np.ascontiguousarray(pose[:3, 3]).copy(),
                         np.ascontiguousarray(pose[:3, :2].T).copy(),
                         np.array(params["radii"], dtype=float))
    if cls == "mesh":
        v = np.array(params["vertices"], dtype=float).reshape(-1, 3)
        t = np.array(params["triangles"], dtype=int).reshape(-1, 3)
        return C.MeshGraph(pose, v, t)
    if cls == "hull":   # only as GJK partner (no update_pose)
        v = np.array(params["vertices"], dtype=float).reshape(-1, 3)
        return C.ConvexHullVertices(v)
    raise ValueError(cls)


def wrap(c, margins):
    for m in margins:
        c = C.Margin(c, m)
    return c


def flags(c, prefix=""):
    out = {}
    for k, v in sorted(vars(c).items()):
        if isinstance(v, np.ndarray):
            out[prefix + k] = bool(v.flags.c_contiguous)
        elif isinstance(v, C.ConvexCollider):
            out.update(flags(v, prefix + k + "."))
        elif isinstance(v, M.MeshHillClimbingSupportFunction):
            for k2, v2 in sorted(vars(v).items()):
                if isinstance(v2, np.ndarray):
                    out[prefix + k + "." + k2] = bool(v2.flags.c_contiguous)
    return out


_BUF = {}


def materialise_pose(op):
    """The array object handed to update_pose, built the way `src` says."""
    src = op["src"]
    if src == "inplace":      # ONE pose buffer the caller overwrites in place and hands over again and again
        if "pose" not in _BUF:
            _BUF["pose"] = np.empty((4, 4))
        _BUF["pose"][...] = arr44(op["pose"])
        return _BUF["pose"]
    if src == "stack_inplace":   # one matrix out of a persistent stack of poses that is overwritten in place
        if "stack" not in _BUF:
            _BUF["stack"] = np.zeros((3, 4, 4))
        _BUF["stack"][op["i"]] = arr44(op["pose"])
        return _BUF["stack"][op["i"]]
    if src == "fresh":
        return arr44(op["pose"])
    if src == "stack":
        st = np.stack([arr44(p) for p in op["stack"]])
        assert st.flags.c_contiguous
        return st[op["i"]]
    if src == "tm":
        tm = TransformManager(check=False)
        tm.add_transform("a", "b", arr44(op["pose"]))
        return tm.get_transform("a", "b")
    if src == "tm2":
        tm = TransformManager(check=False)
        tm.add_transform("a", "m", arr44(op["pose_a"]))
        tm.add_transform("m", "b", arr44(op["pose_b"]))
        return tm.get_transform("a", "b")
    if src == "fortran":      # malformed stream: documented only
        return np.asfortranarray(arr44(op["pose"]))
    if src == "strided":      # malformed stream: documented only
        big = np.zeros((8, 8))
        big[::2, ::2] = arr44(op["pose"])
        return big[::2, ::2]
    raise ValueError(src)


def materialise_dir(d, dsrc):
    if dsrc == "strided":
        big = np.zeros(6)
        big[::2] = d
        return big[::2]
    return np.array(d, dtype=float)


def tolist(x):
    if x is None:
        return None
    if isinstance(x, (tuple, list)):
        return [tolist(y) for y in x]
    a = np.asarray(x)
    if a.dtype == object:
        return None
    return a.astype(float).reshape(-1).tolist()


def guarded(f):
    try:
        return dict(exc=None, r=tolist(f()))
    except CaseTimeout:
        raise
    except BaseException as e:  # noqa
        return dict(exc=type(e).__name__, r=None, msg=str(e)[:160])


def gjk_dist(c, o):
    return G.gjk(c, o)[0]


def battery(c, case):
    """All observables of the property, in a fixed order."""
    out = {}
    out["support"] = [guarded(lambda d=d: c.support_function(np.array(d, dtype=float)))
                      for d in case["probe_dirs"]]
    out["aabb"] = guarded(c.aabb)
    out["center"] = guarded(c.center)
    out["first_vertex"] = guarded(c.first_vertex)
    out["c2o"] = guarded(c.collider2origin)
    out["gjk"] = []
    out["gjk_int"] = []
    for o in case["probe_others"]:
        oc = make(o["cls"], o["params"], arr44(o["pose"]))
        out["gjk"].append(guarded(lambda oc=oc: gjk_dist(c, oc)))
        oc = make(o["cls"], o["params"], arr44(o["pose"]))
        out["gjk_int"].append(guarded(lambda oc=oc: float(G.gjk_intersection(c, oc))))
    # support again after GJK (mesh start-vertex cache has moved)
    out["support2"] = [guarded(lambda d=d: c.support_function(np.array(d, dtype=float)))
                       for d in case["probe_dirs"][:3]]
    return out


def run_case(case):
    out = {}
    try:
        _BUF.clear()
        pose0 = arr44(case["pose0"])
        c = wrap(make(case["cls"], case["params"], pose0), case["margins"])
        out["flags0"] = flags(c)
        last = pose0
        trace = []

        def fresh_now():
            """a NEW object built directly at the pose the history has reached (reference for THIS operation)"""
            return wrap(make(case["cls"], case["params"], np.array(last, dtype=float, order="C", copy=True)),
                        case["margins"])

        for op in case["ops"]:
            k = op["op"]
            ref = None
            if k == "update":
                A = materialise_pose(op)
                layout = dict(c=bool(A.flags.c_contiguous), f=bool(A.flags.f_contiguous),
                              shape=list(A.shape), dtype=str(A.dtype))
                last = A
                r = guarded(lambda: c.update_pose(A))
                r["pose_layout"] = layout
            elif k == "support":
                d = materialise_dir(op["d"], op.get("dsrc", "fresh"))
                r = guarded(lambda: c.support_function(d))
                if op.get("dsrc", "fresh") == "fresh":
                    ref = guarded(lambda: fresh_now().support_function(np.array(op["d"], dtype=float)))
            elif k == "aabb":
                r = guarded(c.aabb)
                ref = guarded(lambda: fresh_now().aabb())
            elif k == "center":
                r = guarded(c.center)
                ref = guarded(lambda: fresh_now().center())
            elif k == "first_vertex":
                r = guarded(c.first_vertex)
                ref = guarded(lambda: fresh_now().first_vertex())
            elif k == "c2o":
                r = guarded(c.collider2origin)
                ref = guarded(lambda: fresh_now().collider2origin())
            elif k == "gjk":
                o = op["other"]
                oc = make(o["cls"], o["params"], arr44(o["pose"]))
                r = guarded(lambda: gjk_dist(c, oc))
                oc2 = make(o["cls"], o["params"], arr44(o["pose"]))
                ref = guarded(lambda: gjk_dist(fresh_now(), oc2))
            else:
                raise ValueError(k)
            r["flags"] = flags(c)
            if ref is not None:
                r["ref"] = ref
            trace.append(r)
        out["trace"] = trace
        out["last_pose"] = np.asarray(last, dtype=float).reshape(-1).tolist()
        fresh_pose = np.array(last, dtype=float, order="C", copy=True)
        f = wrap(make(case["cls"], case["params"], fresh_pose), case["margins"])
        out["flags_fresh"] = flags(f)
        out["upd"] = battery(c, case)
        out["fresh"] = battery(f, case)
        # the fresh object must not have been disturbed through aliasing with `last`
        out["last_pose_after"] = np.asarray(last, dtype=float).reshape(-1).tolist()
    except CaseTimeout:
        raise
    except BaseException as e:  # noqa
        out["harness_exc"] = type(e).__name__
        out["harness_msg"] = str(e)[:300]
        out["tb"] = traceback.format_exc()[-1500:]
    return out


def main():
    payload = json.load(open(sys.argv[1]))
    limit = int(payload.get("case_limit_s", 0))
    signal.signal(signal.SIGALRM, _on_alarm)
    res = []
    for k, c in enumerate(payload["cases"]):
        # the first case of a worker also pays for loading / compiling the numba functions
        signal.alarm(limit * (4 if k == 0 else 1) if limit else 0)
        try:
            res.append(run_case(c))
        except CaseTimeout:
            res.append(dict(harness_exc="CASE-TIMEOUT", harness_msg=f"case exceeded {limit} s inside the worker"))
        finally:
            signal.alarm(0)
    json.dump(dict(results=res), open(sys.argv[2], "w"))


if __name__ == "__main__":
    main()
