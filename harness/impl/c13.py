"""Worker: run /repo's containment_test.points_in_* predicates, the point_to_<shape> distance
functions and the colliders' support functions on the same shapes (C13)."""
import json
import sys
import traceback

from harness import compat  # noqa: F401
import numpy as np
from distance3d import containment_test as ct, mesh
from harness.impl.c03 import build, pose4, arr, fl
from harness.impl import shapes_trace as st


def call_args(sh, pts):
    """(function, argument list) - the argument objects are kept so that the caller can check that
    they are not modified and call the function again with the very same objects"""
    k = sh["kind"]
    P = np.ascontiguousarray(np.array(pts, dtype=float).reshape(-1, 3))
    if k == "sphere":
        return ct.points_in_sphere, [P, arr(sh["c"]), float(sh["r"])]
    if k == "capsule":
        return ct.points_in_capsule, [P, pose4(sh["R"], sh["t"]), float(sh["r"]), float(sh["h"])]
    if k == "ellipsoid":
        return ct.points_in_ellipsoid, [P, pose4(sh["R"], sh["t"]), arr(sh["radii"])]
    if k == "disk":
        return ct.points_in_disk, [P, arr(sh["c"]), float(sh["r"]), arr(sh["n"])]
    if k == "cone":
        return ct.points_in_cone, [P, pose4(sh["R"], sh["t"]), float(sh["r"]), float(sh["h"])]
    if k == "cylinder":
        return ct.points_in_cylinder, [P, pose4(sh["R"], sh["t"]), float(sh["r"]), float(sh["l"])]
    if k == "box":
        return ct.points_in_box, [P, pose4(sh["R"], sh["t"]), arr(sh["size"])]
    if k == "mesh":
        return ct.points_in_convex_mesh, [P, pose4(sh["R"], sh["t"]), arr(sh["vs"]), np.array(sh["triangles"], dtype=int)]
    raise ValueError(k)


def predicate(sh, pts):
    f, args = call_args(sh, pts)
    return f(*args)


def predicate_checked(sh, pts, out):
    """first call, argument integrity, second call with the same objects"""
    f, args = call_args(sh, pts)
    copies = [a.copy() if isinstance(a, np.ndarray) else a for a in args]
    res = f(*args)
    mod = [i for i, (a, b) in enumerate(zip(args, copies))
           if isinstance(a, np.ndarray) and not np.array_equal(a, b, equal_nan=True)]
    out["args_modified"] = mod
    res2 = f(*args)
    out["second_call_same"] = bool(np.array_equal(np.asarray(res), np.asarray(res2)))
    return res


def distance_fn(sh):
    from distance3d import distance as D
    k = sh["kind"]
    if k == "cylinder":
        T = pose4(sh["R"], sh["t"])
        return lambda p: D.point_to_cylinder(p, T, float(sh["r"]), float(sh["l"]))[0]
    if k == "disk":
        c, n = arr(sh["c"]), arr(sh["n"])
        return lambda p: D.point_to_disk(p, c, float(sh["r"]), n)[0]
    if k == "box":
        T = pose4(sh["R"], sh["t"])
        return lambda p: D.point_to_box(p, T, arr(sh["size"]))[0]
    if k == "ellipsoid":
        T = pose4(sh["R"], sh["t"])
        return lambda p: D.point_to_ellipsoid(p, T, arr(sh["radii"]))[0]
    return None


TRACER = None


def traced(f, *a):
    """only the predicate under test runs under the line tracer (tracing numba's compiler or the
    distance functions would cost minutes)"""
    if TRACER is None:
        return f(*a)
    with TRACER:
        return f(*a)


def inplace_history(sh, sh2, pts):
    """call with the arrays of `sh`, overwrite the very same array objects with the values of `sh2`
    (same kind, same array shapes), call again, and compare with a call on fresh arrays of `sh2`:
    a result cached per array object (identity) or a stale intermediate shows up as a difference"""
    f, args = call_args(sh, pts)
    f(*args)
    _, args2 = call_args(sh2, pts)
    call = []
    for a, b in zip(args, args2):
        if isinstance(a, np.ndarray):
            if a.shape != np.asarray(b).shape:
                return None
            a[...] = b
            call.append(a)              # the SAME object, new content
        else:
            call.append(b)              # scalars are passed by value
    got = np.asarray(f(*call))
    _, fresh_args = call_args(sh2, pts)
    want = np.asarray(f(*fresh_args))
    return dict(same=bool(np.array_equal(got, want)), got=[bool(x) for x in got[:8]], want=[bool(x) for x in want[:8]])


def run_case(case):
    out = {}
    sh = case["shape"]
    try:
        if sh["kind"] == "mesh" and sh.get("triangles") is None:
            out["triangles"] = np.asarray(mesh.make_convex_mesh(arr(sh["vs"]))).astype(int).tolist()
            sh = dict(sh, triangles=out["triangles"])
    except BaseException as e:  # noqa
        out["build_exc"] = type(e).__name__
        out["build_msg"] = str(e)[:300]
        return out
    try:
        res = traced(predicate_checked, sh, case["points"], out)
        res = np.asarray(res)
        if res.shape != (len(case["points"]),) or res.dtype != np.bool_:
            raise AssertionError(f"result shape {res.shape} dtype {res.dtype}")
        out["contained"] = [bool(x) for x in res]
        # element-wise: the same points one at a time
        out["single"] = [bool(predicate(sh, [p])[0]) for p in case["points"][:4]]
        # and in reversed order
        out["reversed"] = [bool(x) for x in predicate(sh, list(reversed(case["points"])))][::-1]
    except BaseException as e:  # noqa
        out["exc"] = type(e).__name__
        out["exc_msg"] = str(e)[:300]
        out["tb"] = traceback.format_exc()[-1200:]
        return out
    if case.get("shape2") is not None:
        try:
            sh2 = case["shape2"]
            if sh2["kind"] == "mesh":
                sh2 = dict(sh2, triangles=sh["triangles"])
            out["inplace"] = traced(inplace_history, sh, sh2, case["points"])
        except BaseException as e:  # noqa
            out["inplace_exc"] = f"{type(e).__name__}: {str(e)[:200]}"
    try:
        f = distance_fn(sh)
        if f is not None:
            out["dist"] = [float(f(arr(p))) for p in case["points"]]
    except BaseException as e:  # noqa
        out["dist_exc"] = f"{type(e).__name__}: {str(e)[:200]}"
    try:
        c, _ = build(sh)
        out["sup"] = [fl(c.support_function(arr(d))) for d in case["dirs"]]
    except BaseException as e:  # noqa
        out["sup_exc"] = f"{type(e).__name__}: {str(e)[:200]}"
    return out


def main():
    payload = json.load(open(sys.argv[1]))
    global TRACER
    tracer = st.LineTracer([ct.__file__])
    TRACER = tracer
    res = [run_case(c) for c in payload["cases"]]
    hits = {k.split("/")[-1]: v for k, v in tracer.result().items()}
    json.dump(dict(results=res, line_hits=hits), open(sys.argv[2], "w"))


if __name__ == "__main__":
    main()
