"""Worker for the narrow-phase checks: builds /repo's colliders from JSON specs and
runs the requested queries, counting support evaluations and catching exceptions."""
import json
import math
import signal
import sys
import time
import traceback

from harness import compat  # noqa: F401
import numpy as np
from distance3d import colliders as C
from distance3d import gjk, mpr, epa as EPA


def _pose_from(spec):
    """the 4x4 pose that update_pose must be given to bring a collider of this kind to the spec's placement"""
    k = spec["kind"]
    if "pose" in spec:
        return np.array(spec["pose"], dtype=float)
    T = np.eye(4)
    if k == "sphere":
        T[:3, 3] = spec["center"]
    elif k == "disk":
        from distance3d.utils import plane_basis_from_normal
        n = np.array(spec["normal"], dtype=float)
        x, y = plane_basis_from_normal(n)
        T[:3, 0], T[:3, 1], T[:3, 2], T[:3, 3] = x, y, n, spec["center"]
    elif k == "ellipse":
        ax = np.array(spec["axes"], dtype=float)
        T[:3, 0], T[:3, 1], T[:3, 2], T[:3, 3] = ax[0], ax[1], np.cross(ax[0], ax[1]), spec["center"]
    else:
        return None
    return T


def build(spec):
    """spec["via_update"]: the collider is constructed at another placement and brought to the spec's
    placement by update_pose (a collider that was moved must answer like a freshly built one)."""
    if spec.get("via_update") and spec["kind"] != "hull":
        target = _pose_from(spec)
        first = dict(spec)
        first.pop("via_update")
        first.pop("margin", None)
        start = np.eye(4)
        start[:3, 3] = [0.5, -0.25, 0.125]
        if "pose" in first:
            first["pose"] = start.tolist()
        else:
            first["center"] = start[:3, 3].tolist()
            if first["kind"] == "disk":
                first["normal"] = [0.0, 0.0, 1.0]
            elif first["kind"] == "ellipse":
                first["axes"] = [[1.0, 0.0, 0.0], [0.0, 1.0, 0.0]]
        c = build(first)
        c.update_pose(np.ascontiguousarray(target))
        if "margin" in spec:
            c = C.Margin(c, float(spec["margin"]))
        return c
    k = spec["kind"]
    if k == "sphere":
        c = C.Sphere(np.array(spec["center"], dtype=float), float(spec["radius"]))
    elif k == "ellipsoid":
        c = C.Ellipsoid(np.array(spec["pose"], dtype=float), np.array(spec["radii"], dtype=float))
    elif k == "capsule":
        c = C.Capsule(np.array(spec["pose"], dtype=float), float(spec["radius"]), float(spec["height"]))
    elif k == "cylinder":
        c = C.Cylinder(np.array(spec["pose"], dtype=float), float(spec["radius"]), float(spec["length"]))
    elif k == "cone":
        c = C.Cone(np.array(spec["pose"], dtype=float), float(spec["radius"]), float(spec["height"]))
    elif k == "box":
        c = C.Box(np.array(spec["pose"], dtype=float), np.array(spec["size"], dtype=float))
    elif k == "disk":
        c = C.Disk(np.array(spec["center"], dtype=float), float(spec["radius"]), np.array(spec["normal"], dtype=float))
    elif k == "ellipse":
        c = C.Ellipse(np.array(spec["center"], dtype=float), np.array(spec["axes"], dtype=float),
                      np.array(spec["radii"], dtype=float))
    elif k == "hull":
        c = C.ConvexHullVertices(np.array(spec["vertices"], dtype=float))
    elif k == "mesh":
        from scipy.spatial import ConvexHull
        V = np.array(spec["vertices"], dtype=float)
        tri = ConvexHull(V).simplices
        c = C.MeshGraph(np.array(spec["pose"], dtype=float), V, np.ascontiguousarray(tri))
    else:
        raise ValueError(k)
    if "margin" in spec:
        c = C.Margin(c, float(spec["margin"]))
    return c


class Counter:
    def __init__(self):
        self.n = 0


def instrument(col, counter):
    inner = col.support_function

    def counted(d, _inner=inner):
        counter.n += 1
        return _inner(d)
    col.support_function = counted
    return col


def arr(x):
    if x is None:
        return None
    a = np.asarray(x, dtype=float)
    return a.tolist()


class Timeout(Exception):
    pass


def _alarm(signum, frame):
    raise Timeout()


def run_op(op, s1, s2):
    cnt = Counter()
    c1 = instrument(build(s1), cnt)
    c2 = c1 if op.get("same_object") else instrument(build(s2), cnt)
    name = op["fn"]
    out = dict(fn=name)
    kw = op.get("kw", {})
    t0 = time.time()
    signal.signal(signal.SIGALRM, _alarm)
    signal.alarm(int(op.get("timeout", 60)))
    try:
        if name == "gjk_jolt":
            d, a, b, simplex = gjk.gjk_distance_jolt(c1, c2, **kw)
            out.update(d=float(d), a=arr(a), b=arr(b), simplex=arr(simplex))
        elif name == "gjk_jolt_iterations":
            from distance3d.gjk._gjk_jolt import gjk_distance_jolt_iterations
            r = gjk_distance_jolt_iterations(c1, c2)
            out.update(ret=[arr(x) if isinstance(x, np.ndarray) else (None if x is None else float(x)) for x in (r if isinstance(r, tuple) else (r,))])
        elif name == "gjk_original":
            r = gjk.gjk_distance_original(c1, c2)
            out.update(d=float(r[0]), a=arr(r[1]), b=arr(r[2]))
        elif name == "gjk_original_iterations":
            from distance3d.gjk._gjk_original import gjk_distance_iterations
            out.update(iterations=int(gjk_distance_iterations(c1, c2)))
        elif name == "nesterov":
            r = gjk.gjk_nesterov_accelerated(c1, c2, **kw)
            out.update(contact=bool(r[0]), d=float(r[1]), iterations=int(r[3]) if len(r) > 3 else None)
        elif name == "nesterov_distance":
            out.update(d=float(gjk.gjk_nesterov_accelerated_distance(c1, c2)))
        elif name == "nesterov_prim":
            r = gjk.gjk_nesterov_accelerated_primitives(c1, c2, **kw)
            out.update(contact=bool(r[0]), d=float(r[1]), iterations=int(r[3]) if len(r) > 3 else None)
        elif name == "nesterov_prim_distance":
            out.update(d=float(gjk.gjk_nesterov_accelerated_primitives_distance(c1, c2)))
        elif name == "isect_jolt":
            out.update(ans=bool(gjk.gjk_intersection_jolt(c1, c2)))
        elif name == "isect_libccd":
            out.update(ans=bool(gjk.gjk_intersection_libccd(c1, c2)))
        elif name == "isect_mpr":
            out.update(ans=bool(mpr.mpr_intersection(c1, c2)))
        elif name == "isect_nesterov":
            out.update(ans=bool(gjk.gjk_nesterov_accelerated_intersection(c1, c2)))
        elif name == "isect_nesterov_prim":
            out.update(ans=bool(gjk.gjk_nesterov_accelerated_primitives_intersection(c1, c2)))
        elif name == "epa":
            d, a, b, simplex = gjk.gjk_distance_jolt(c1, c2)
            out.update(d=float(d), simplex=arr(simplex))
            n_gjk = cnt.n
            if d == 0.0 or d < 1e-12:
                if op.get("flip_simplex") and simplex is not None:
                    simplex = np.ascontiguousarray(simplex[[0, 2, 1, 3]])
                mtv, faces, success = EPA.epa(simplex, c1, c2, **kw)
                out.update(mtv=arr(mtv), success=bool(success), n_faces=int(len(faces)) if faces is not None else None,
                           n_gjk=n_gjk)
            else:
                out.update(skipped="gjk reports no overlap")
        elif name == "mpr_pen":
            inter, depth, pdir, pos = mpr.mpr_penetration(c1, c2, **kw)
            out.update(ans=bool(inter), depth=None if depth is None else float(depth),
                       dir=arr(pdir), pos=arr(pos))
        else:
            raise ValueError(name)
    except Timeout:
        out["exc"] = "TIMEOUT"
    except BaseException as e:  # noqa
        out["exc"] = type(e).__name__
        out["exc_msg"] = str(e)[:200]
        out["tb"] = traceback.format_exc()[-800:]
    finally:
        signal.alarm(0)
    out["support_calls"] = cnt.n
    out["wall"] = round(time.time() - t0, 4)
    return out


WARM1 = dict(kind="sphere", center=[0.0, 0.0, 0.0], radius=1.0)
WARM2 = dict(kind="box", pose=[[1.0, 0.0, 0.0, 3.0], [0.0, 1.0, 0.0, 0.2], [0.0, 0.0, 1.0, 0.1], [0.0, 0.0, 0.0, 1.0]],
             size=[1.0, 1.0, 1.0])
WARM3 = dict(kind="box", pose=[[1.0, 0.0, 0.0, 0.6], [0.0, 1.0, 0.0, 0.2], [0.0, 0.0, 1.0, 0.1], [0.0, 0.0, 0.0, 1.0]],
             size=[1.0, 1.0, 1.0])


def warm_up(cases):
    """Compile (or load from the numba cache) everything the requested operations need BEFORE any
    per-call time limit applies: a cold cache (fresh checkout, changed source file) costs tens of
    seconds per function and must never be mistaken for a hanging query."""
    done = set()
    for case in cases:
        for op in case["ops"]:
            if op["fn"] in done:
                continue
            done.add(op["fn"])
            for other in (WARM2, WARM3):
                try:
                    run_op(dict(op, timeout=0), WARM1, other)
                except BaseException:  # noqa
                    pass
    kinds = set()
    for case in cases:
        for spec in (case["c1"], case["c2"]):
            k = (spec["kind"], "margin" in spec)
            if k in kinds:
                continue
            kinds.add(k)
            try:
                c = build(spec)
                c.support_function(np.array([0.3, -0.5, 0.8]))
                c.aabb()
            except BaseException:  # noqa
                pass


def main():
    payload = json.load(open(sys.argv[1]))
    warm_up(payload["cases"])
    res = []
    for case in payload["cases"]:
        r = []
        for op in case["ops"]:
            r.append(run_op(op, case["c1"], case["c2"]))
        res.append(r)
    json.dump(dict(results=res), open(sys.argv[2], "w"))


if __name__ == "__main__":
    main()
