"""Line-hit measurement of /repo's implementation files for the C03 / C04 / C13 workers.

`LineTracer(files)` records, via sys.settrace, which source lines of the given files are
executed while it is active.  `executable_lines(file, names)` lists the lines that carry
code inside the named top-level functions / methods (from the compiled code objects'
line tables), so the harness can print "lines hit / executable lines" per function and
the list of lines never reached by the generated inputs.

numba-compiled functions are not visible to the tracer; the workers additionally call
their `.py_func` (the same source, interpreted) on the same inputs while tracing and
compare the results with the compiled ones.
"""
import os
import sys


class LineTracer:
    def __init__(self, files):
        self.files = {os.path.realpath(f) for f in files}
        self.hits = {f: set() for f in self.files}
        self._old = None

    def _local(self, frame, event, arg):
        if event == "line":
            self.hits[self._fn(frame)].add(frame.f_lineno)
        return self._local

    @staticmethod
    def _fn(frame):
        return os.path.realpath(frame.f_code.co_filename)

    def _global(self, frame, event, arg):
        if event == "call" and self._fn(frame) in self.files:
            # the 'def' line itself does not produce a line event; the first body line does
            return self._local
        return None

    def __enter__(self):
        self._old = sys.gettrace()
        sys.settrace(self._global)
        return self

    def __exit__(self, *a):
        sys.settrace(self._old)
        return False

    def result(self):
        return {f: sorted(v) for f, v in self.hits.items()}


def _walk_code(co, qual, out):
    for c in co.co_consts:
        if hasattr(c, "co_code"):
            name = (qual + "." if qual else "") + c.co_name
            lines = set()
            for item in c.co_lines():
                ln = item[2]
                if ln is not None and ln != c.co_firstlineno:
                    lines.add(ln)
            # nested code objects (comprehensions, lambdas) belong to the enclosing function
            nested = {}
            _walk_code(c, name, nested)
            for v in nested.values():
                if "<" in v["name"].rsplit(".", 1)[-1]:
                    lines |= set(v["lines"])
            out[name] = dict(name=name, first=c.co_firstlineno, lines=sorted(lines))
            for k, v in nested.items():
                if "<" not in v["name"].rsplit(".", 1)[-1]:
                    out[k] = v


def executable_lines(path, names=None):
    """{qualified function name: sorted executable line numbers (docstring / def line excluded)}"""
    src = open(path).read()
    co = compile(src, path, "exec")
    out = {}
    _walk_code(co, "", out)
    res = {}
    for k, v in out.items():
        if names is None or k in names:
            lines = v["lines"]
            res[k] = lines
    # drop pure docstring lines: a function whose first statement is a string constant gets a
    # line entry for it only on some Python versions; remove lines that hold only a string literal
    import ast
    tree = ast.parse(src)
    doc_lines = set()
    for node in ast.walk(tree):
        if isinstance(node, (ast.FunctionDef, ast.ClassDef, ast.Module)):
            b = node.body
            if b and isinstance(b[0], ast.Expr) and isinstance(getattr(b[0], "value", None), ast.Constant) \
                    and isinstance(b[0].value.value, str):
                doc_lines |= set(range(b[0].lineno, b[0].end_lineno + 1))
    return {k: [ln for ln in v if ln not in doc_lines] for k, v in res.items()}


def summarize(hits_by_file, scope):
    """scope: {path: [function names]} -> {"file:function": dict(executable=n, hit=m, missed=[lines])}"""
    out = {}
    for path, names in scope.items():
        rp = os.path.realpath(path)
        ex = executable_lines(rp, set(names))
        hit = set(hits_by_file.get(rp, []))
        for fn in names:
            lines = ex.get(fn)
            if lines is None:
                out[f"{os.path.basename(path)}:{fn}"] = dict(executable=0, hit=0, missed=["<function not found>"])
                continue
            missed = [ln for ln in lines if ln not in hit]
            out[f"{os.path.basename(path)}:{fn}"] = dict(executable=len(lines), hit=len(lines) - len(missed), missed=missed)
    return out


class interpreted:
    """Context manager: inside it, the numba dispatchers that are module attributes of the given
    modules are replaced by their interpreted `.py_func`, so that calls between them are visible
    to the tracer.  Restored on exit."""

    def __init__(self, modules):
        self.modules = modules
        self.saved = []

    def __enter__(self):
        for m in self.modules:
            for name, val in list(vars(m).items()):
                pf = getattr(val, "py_func", None)
                if pf is not None and callable(pf):
                    self.saved.append((m, name, val))
                    setattr(m, name, pf)
        return self

    def __exit__(self, *a):
        for m, name, val in self.saved:
            setattr(m, name, val)
        self.saved = []
        return False
