(** * Certificate for one result of mpr_penetration (C08). *)
From Coq Require Import QArith Qabs Qreals Reals Lra Lia ZArith List Psatz Bool.
From D3 Require Import Base.Ops Base.Vec Base.RVec Spec.Convex Checker.Shapes Checker.Narrow Checker.Pen.
Import ListNotations.

Definition vq_is_zero (u : VQ) : bool :=
  Qeq_bool (vx u) 0 && Qeq_bool (vy u) 0 && Qeq_bool (vz u) 0.

(** depth >= 0 and (| |u|^2 - 1 | <= eps, or depth <= tiny and u = 0); the harness passes
    tiny = 2^-52, one machine epsilon: "the depth is 0" up to the rounding of a single operation *)
Definition dir_ok (t : Q) (u : VQ) (eps tiny : Q) : bool :=
  Qle_bool 0 t &&
  ((Qle_bool (qnorm2 u - 1) eps && Qle_bool (1 - qnorm2 u) eps && Qle_bool eps 1) ||
   (Qle_bool t tiny && vq_is_zero u)).

Lemma vq_is_zero_sound u : vq_is_zero u = true -> v2r u = vzero.
Proof.
  unfold vq_is_zero. intros H. apply andb_true_iff in H as (H & H3). apply andb_true_iff in H as (H1 & H2).
  apply Qeq_bool_eq in H1, H2, H3. apply Qeq_eqR in H1, H2, H3. rewrite Q2R_0 in *.
  unfold v2r, vzero. cbn. rewrite H1, H2, H3. reflexivity.
Qed.

Theorem dir_ok_sound t u eps tiny :
  dir_ok t u eps tiny = true ->
  (0 <= Q2R t)%R /\
  ((Rabs (norm (v2r u) - 1) <= Q2R eps)%R \/ ((Q2R t <= Q2R tiny)%R /\ v2r u = vzero)).
Proof.
  unfold dir_ok. intros H. apply andb_true_iff in H as (H0 & H).
  apply Qle_bool_R in H0. rewrite Q2R_0 in H0. split; auto.
  apply orb_true_iff in H as [H|H].
  - left. apply andb_true_iff in H as (H & H3). apply andb_true_iff in H as (H1 & H2).
    apply Qle_bool_R in H1, H2, H3. rewrite Q2R_1 in H3. unfold qnorm2 in *. q2r. rewrite qdot_r, Q2R_1 in *.
    pose proof (norm_nonneg (v2r u)) as Hn. pose proof (norm_sq (v2r u)) as Hs.
    set (x := norm (v2r u)) in *. clearbody x.
    unfold Rabs. destruct (Rcase_abs (x - 1)); nra.
  - right. apply andb_true_iff in H as (H1 & H2). apply Qle_bool_R in H1.
    split; auto. apply vq_is_zero_sound; auto.
Qed.

(** the result (t, u, pos) of a penetration query: n1 witnesses the residual overlap after moving
    B by t*u, n2 witnesses depth <= t + tol, wa / wb witness pos in A / B *)
Definition pen_cert (A B : sh) (t : Q) (u pos n1 n2 : VQ) (wa wb : wit) (tol eps tiny : Q) : bool :=
  dir_ok t u eps tiny &&
  overlap_le_cert A (shift (qscale t u) B) n1 tol &&
  overlap_le_cert A B n2 (t + tol) &&
  in_shape_tol A wa pos tol && in_shape_tol B wb pos tol.

Theorem pen_cert_sound A B t u pos n1 n2 wa wb tol eps tiny :
  pen_cert A B t u pos n1 n2 wa wb tol eps tiny = true ->
  (0 <= Q2R t)%R /\
  ((Rabs (norm (v2r u) - 1) <= Q2R eps)%R \/ ((Q2R t <= Q2R tiny)%R /\ v2r u = vzero)) /\
  depth_le (sem A) (translate (vscale (Q2R t) (v2r u)) (sem B)) (Q2R tol) /\
  depth_le (sem A) (sem B) (Q2R t + Q2R tol) /\
  (exists qa, sem A qa /\ (norm (vsub (v2r pos) qa) <= Q2R tol)%R) /\
  (exists qb, sem B qb /\ (norm (vsub (v2r pos) qb) <= Q2R tol)%R).
Proof.
  unfold pen_cert. intros H.
  apply andb_true_iff in H as (H & H5). apply andb_true_iff in H as (H & H4).
  apply andb_true_iff in H as (H & H3). apply andb_true_iff in H as (H1 & H2).
  destruct (dir_ok_sound _ _ _ _ H1) as (D1 & D2).
  split; auto. split; auto. split; [|split; [|split]].
  - pose proof (overlap_le_depth_le _ _ _ _ H2) as (m & Hm & HD).
    exists m. split; auto. intros a b Ha Hb. apply HD; auto.
    apply shift_sem. rewrite qscale_r. exact Hb.
  - pose proof (overlap_le_depth_le _ _ _ _ H3) as HD. rewrite Q2R_plus in HD. exact HD.
  - apply in_shape_tol_sound in H4. exact H4.
  - apply in_shape_tol_sound in H5. exact H5.
Qed.

(** a pair reported as NOT intersecting overlaps by at most tol (direction n) *)
Definition no_deep_overlap_cert (A B : sh) (n : VQ) (tol : Q) : bool := overlap_le_cert A B n tol.
Theorem no_deep_overlap_cert_sound A B n tol :
  no_deep_overlap_cert A B n tol = true -> depth_le (sem A) (sem B) (Q2R tol).
Proof. apply overlap_le_depth_le. Qed.
