(** * The shape expressions of Checker/Shapes.v denote the point sets of Spec/Shapes.v.

    The certificates of Checker/ShapesCert.v speak about [sem S] for a shape expression [S];
    the universal theorems of Props/C03.v, C04.v, C13.v speak about the sets of Spec/Shapes.v.
    These lemmas identify the two, for the expression the harness builds for each collider
    kind (harness/narrow.py [parts] / [sh_expr]): a point [c] plus segments / ellipsoidal
    discs spanned by the (scaled) columns of the pose. *)
From Coq Require Import QArith Qreals Reals Lra Psatz List.
From D3 Require Import Base.Ops Base.Vec Base.RVec Base.RVec2 Spec.Convex Spec.Shapes Checker.Shapes.
Import ListNotations.
Local Open Scope R_scope.

(** ** real-valued reading of the building blocks *)
Lemma sem_Pt c x : sem (Pt c) x <-> x = v2r c.
Proof. reflexivity. Qed.

Lemma sem_Sum_Pt c s x : sem (Sum (Pt c) s) x <-> sem s (vsub x (v2r c)).
Proof. apply (shift_sem c s x). Qed.

(** a shape expression [s] placed at [c] whose body is described in coordinates by [K] under the
    matrix with columns [u v w] *)
Definition frame (c u v w : VQ) : Pose R := P (of_cols (v2r u) (v2r v) (v2r w)) (v2r c).

Lemma frame_point (c u v w : VQ) (k : V3R) :
  transform_point (frame c u v w) k
  = vadd (v2r c) (vadd (vscale (vx k) (v2r u)) (vadd (vscale (vy k) (v2r v)) (vscale (vz k) (v2r w)))).
Proof. unfold frame, of_cols. destruct k as [k0 k1 k2]. generalize (v2r c) (v2r u) (v2r v) (v2r w). intros. vsimp. f_equal; ring. Qed.

Lemma Rabs_le_iff' (a : R) : Rabs a <= 1 <-> -1 <= a <= 1.
Proof. unfold Rabs. destruct (Rcase_abs a); lra. Qed.

Lemma vsub_eq_iff (x c y : V3R) : vsub x c = y <-> x = vadd c y.
Proof.
  split; intros H.
  - rewrite <- H. vsimp. f_equal; ring.
  - rewrite H. vsimp. f_equal; ring.
Qed.

(** ** box: point + three segments = image of the cube [-1,1]^3 *)
Theorem bridge_box (c u v w : VQ) (x : V3R) :
  sem (Sum (Pt c) (Sum (Seg u) (Sum (Seg v) (Seg w)))) x <->
  image (frame c u v w) (box_K (V 1 1 1)) x.
Proof.
  rewrite sem_Sum_Pt. cbn [sem]. split.
  - intros (y & z & (t1 & Ht1 & ->) & (y2 & z2 & (t2 & Ht2 & ->) & (t3 & Ht3 & ->) & ->) & E).
    exists (V t1 t2 t3). split.
    + unfold box_K. cbn [vx vy vz]. rewrite !Rabs_le_iff'. auto.
    + rewrite frame_point. cbn [vx vy vz]. apply vsub_eq_iff. exact E.
  - intros (k & (K0 & K1 & K2) & ->). cbn [vx vy vz] in *. rewrite frame_point.
    exists (vscale (vx k) (v2r u)), (vadd (vscale (vy k) (v2r v)) (vscale (vz k) (v2r w))).
    split; [exists (vx k); split; [apply Rabs_le_iff'; auto|reflexivity]|]. split.
    + exists (vscale (vy k) (v2r v)), (vscale (vz k) (v2r w)).
      split; [exists (vy k); split; [apply Rabs_le_iff'; auto|reflexivity]|].
      split; [exists (vz k); split; [apply Rabs_le_iff'; auto|reflexivity]|reflexivity].
    + apply vsub_eq_iff. reflexivity.
Qed.

(** ** ellipsoid / ball: point + Ell with three axes = image of the unit ball *)
Theorem bridge_ellipsoid (c u v w : VQ) (x : V3R) :
  sem (Sum (Pt c) (Ell u v w)) x <-> image (frame c u v w) (ball_K 1) x.
Proof.
  rewrite sem_Sum_Pt. cbn [sem]. split.
  - intros (t1 & t2 & t3 & Ht & E). exists (V t1 t2 t3). split.
    + unfold ball_K. vunfold. cbn [vx vy vz]. lra.
    + rewrite frame_point. cbn [vx vy vz]. apply vsub_eq_iff. exact E.
  - intros ([k0 k1 k2] & Hk & ->). unfold ball_K, dot in Hk. cbn [vx vy vz add mul one ROps] in Hk.
    exists k0, k1, k2. split; [lra|]. rewrite frame_point. cbn [vx vy vz]. apply vsub_eq_iff. reflexivity.
Qed.

(** the ball of radius r: axes r*e1, r*e2, r*e3 (sphere collider, capsule, Margin) *)
Definition qball (r : Q) : sh := Ell (V r 0%Q 0%Q) (V 0%Q r 0%Q) (V 0%Q 0%Q r).

Theorem bridge_sphere (c : VQ) (r : Q) (x : V3R) : 0 <= Q2R r ->
  (sem (Sum (Pt c) (qball r)) x <-> sphere_set (v2r c) (Q2R r) x).
Proof.
  intros Hr. unfold qball. rewrite bridge_ellipsoid, sphere_set_iff. split.
  - intros ([k0 k1 k2] & Hk & ->). unfold ball_K, dot in Hk. cbn [vx vy vz add mul one ROps] in Hk.
    rewrite frame_point. unfold v2r. cbn [vx vy vz]. rewrite Q2R_0. vunfold. cbn [vx vy vz].
    ring_simplify. nra.
  - intros H. destruct (Req_dec (Q2R r) 0) as [Z|NZ].
    + exists (V 0 0 0). split; [unfold ball_K; vunfold; cbn [vx vy vz]; lra|].
      rewrite frame_point. cbn [vx vy vz].
      assert (E : vsub x (v2r c) = vzero).
      { apply dot_self_zero. rewrite Z in H. pose proof (dot_self_nonneg (vsub x (v2r c))). lra. }
      apply (proj1 (vsub_eq_iff _ _ _)) in E. rewrite E. vsimp. f_equal; ring.
    + assert (Hp : 0 < Q2R r) by lra.
      set (d := vsub x (v2r c)) in *.
      exists (V (vx d / Q2R r) (vy d / Q2R r) (vz d / Q2R r)). split.
      * unfold ball_K. vunfold. cbn [vx vy vz].
        replace (vx d / Q2R r * (vx d / Q2R r) + vy d / Q2R r * (vy d / Q2R r) + vz d / Q2R r * (vz d / Q2R r))
          with (dot d d / (Q2R r * Q2R r)) by (vunfold; field; auto).
        assert (Hrr : 0 < Q2R r * Q2R r) by nra.
        apply Rmult_le_reg_r with (Q2R r * Q2R r); [exact Hrr|].
        unfold Rdiv. rewrite Rmult_assoc, Rinv_l by lra. unfold dot. cbn [add mul ROps]. lra.
      * rewrite frame_point. cbn [vx vy vz]. unfold v2r at 2 3 4. cbn [vx vy vz]. rewrite Q2R_0.
        assert (E : x = vadd (v2r c) d) by (apply vsub_eq_iff; reflexivity).
        rewrite E at 1. destruct d as [d0 d1 d2]. vunfold. cbn [vx vy vz]. f_equal; field; auto.
Qed.

(** ** cylinder: point + axis segment + flat disc = image of the cylinder of radius 1, |z| <= 1 *)
Theorem bridge_cylinder (c u v w : VQ) (x : V3R) :
  sem (Sum (Pt c) (Sum (Seg w) (Ell u v qzero))) x <-> image (frame c u v w) (cylinder_K 1 2) x.
Proof.
  rewrite sem_Sum_Pt. cbn [sem]. rewrite qzero_r. split.
  - intros (y & z & (t & Ht & ->) & (t1 & t2 & t3 & Ht3 & ->) & E). exists (V t1 t2 t).
    split.
    + unfold cylinder_K. cbn [vx vy vz]. split; [nra|]. assert (Rabs t <= 1) by (apply Rabs_le_iff'; lra). lra.
    + rewrite frame_point. cbn [vx vy vz]. apply vsub_eq_iff. rewrite E. vsimp. f_equal; ring.
  - intros ([k0 k1 k2] & [Hk Hz] & ->). cbn [vx vy vz] in *. rewrite frame_point. cbn [vx vy vz].
    exists (vscale k2 (v2r w)), (vadd (vscale k0 (v2r u)) (vadd (vscale k1 (v2r v)) (vscale 0 vzero))).
    assert (Hz1 : Rabs k2 <= 1) by lra.
    split; [exists k2; split; [apply Rabs_le_iff'; exact Hz1|reflexivity]|]. split.
    + exists k0, k1, 0. split; [nra|reflexivity].
    + apply vsub_eq_iff. generalize (v2r c) (v2r u) (v2r v) (v2r w). intros. vsimp. f_equal; ring.
Qed.

(** ** flat shapes (disk, ellipse): point + flat disc = image of the unit disk in the plane z = 0,
       whatever third column completes the frame *)
Theorem bridge_flat (c u v w : VQ) (x : V3R) :
  sem (Sum (Pt c) (Ell u v qzero)) x <-> image (frame c u v w) (disk_K 1) x.
Proof.
  rewrite sem_Sum_Pt. cbn [sem]. rewrite qzero_r. split.
  - intros (t1 & t2 & t3 & Ht & E). exists (V t1 t2 0). split.
    + unfold disk_K. cbn [vx vy vz]. split; [reflexivity|nra].
    + rewrite frame_point. cbn [vx vy vz]. apply vsub_eq_iff. rewrite E. vsimp. f_equal; ring.
  - intros ([k0 k1 k2] & [Hz Hk] & ->). cbn [vx vy vz] in *. subst k2. rewrite frame_point. cbn [vx vy vz].
    exists k0, k1, 0. split; [nra|]. apply vsub_eq_iff. generalize (v2r c) (v2r u) (v2r v) (v2r w). intros. vsimp. f_equal; ring.
Qed.

(** ** capsule: point + axis segment + ball of radius r = all points within r of the segment *)
Theorem bridge_capsule (c w : VQ) (r : Q) (x : V3R) : 0 <= Q2R r ->
  (sem (Sum (Pt c) (Sum (Seg w) (qball r))) x <->
   exists t, -1 <= t <= 1 /\ dot (vsub x (vadd (v2r c) (vscale t (v2r w)))) (vsub x (vadd (v2r c) (vscale t (v2r w)))) <= Q2R r * Q2R r).
Proof.
  intros Hr. rewrite sem_Sum_Pt. split.
  - intros (y & z & (t & Ht & ->) & Hz & E). exists t. split; auto.
    assert (Hb : sphere_set (v2r qzero) (Q2R r) z).
    { apply bridge_sphere; auto. cbn [sem]. exists (v2r qzero), z. repeat split; auto. rewrite qzero_r. vsimp. f_equal; ring. }
    apply sphere_set_iff in Hb. rewrite qzero_r in Hb.
    replace (vsub x (vadd (v2r c) (vscale t (v2r w)))) with (vsub z vzero); auto.
    apply (proj1 (vsub_eq_iff _ _ _)) in E. rewrite E. generalize (v2r c) (v2r w). intros. vsimp. f_equal; ring.
  - intros (t & Ht & Hd).
    set (z := vsub x (vadd (v2r c) (vscale t (v2r w)))) in *.
    assert (Hb : sphere_set (v2r qzero) (Q2R r) z).
    { apply sphere_set_iff. rewrite qzero_r. replace (vsub z vzero) with z by (vsimp; f_equal; ring). exact Hd. }
    apply (bridge_sphere qzero r z Hr) in Hb. cbn [sem] in Hb. destruct Hb as (y0 & z0 & -> & Hz0 & E0).
    cbn [sem]. exists (vscale t (v2r w)), z0. split; [exists t; auto|]. split; auto.
    rewrite qzero_r in E0. subst z. apply vsub_eq_iff.
    assert (E1 : z0 = vsub x (vadd (v2r c) (vscale t (v2r w)))) by (rewrite E0; vsimp; f_equal; ring).
    rewrite E1. generalize (v2r c) (v2r w). intros. vsimp. f_equal; ring.
Qed.

(** ** cone: hull of the apex and the base disc *)
Theorem bridge_cone (a c u v : VQ) (x : V3R) :
  sem (HullU (Pt a) (Sum (Pt c) (Ell u v qzero))) x <->
  exists t t1 t2, 0 <= t <= 1 /\ t1 * t1 + t2 * t2 <= 1 /\
    x = vadd (vscale (1 - t) (v2r a)) (vscale t (vadd (v2r c) (vadd (vscale t1 (v2r u)) (vscale t2 (v2r v))))).
Proof.
  cbn [sem]. rewrite qzero_r. split.
  - intros (y & z & t & -> & (y1 & z1 & -> & (t1 & t2 & t3 & Ht & ->) & ->) & Hr & ->).
    exists t, t1, t2. split; auto. split; [nra|]. generalize (v2r a) (v2r c) (v2r u) (v2r v). intros. vsimp. f_equal; ring.
  - intros (t & t1 & t2 & Ht & Hk & ->).
    exists (v2r a), (vadd (v2r c) (vadd (vscale t1 (v2r u)) (vscale t2 (v2r v)))), t.
    split; [reflexivity|]. split.
    + exists (v2r c), (vadd (vscale t1 (v2r u)) (vadd (vscale t2 (v2r v)) (vscale 0 vzero))).
      split; [reflexivity|]. split.
      * exists t1, t2, 0. split; [nra|reflexivity].
      * generalize (v2r c) (v2r u) (v2r v). intros. vsimp. f_equal; ring.
    + split; auto.
Qed.

(** ** Margin: Minkowski sum with the ball of radius m *)
Theorem bridge_margin (s : sh) (m : Q) (x : V3R) : 0 <= Q2R m ->
  (sem (Sum s (qball m)) x <-> inflate (sem s) (Q2R m) x).
Proof.
  intros Hm. split.
  - intros (y & z & Hy & Hz & ->). exists y, z. split; auto. split; auto.
    assert (Hb : sphere_set (v2r qzero) (Q2R m) z).
    { apply bridge_sphere; auto. cbn [sem]. exists (v2r qzero), z. repeat split; auto. rewrite qzero_r. vsimp. f_equal; ring. }
    apply sphere_set_iff in Hb. rewrite qzero_r in Hb.
    replace (vsub z vzero) with z in Hb by (vsimp; f_equal; ring). exact Hb.
  - intros (y & b & Hy & Hb & ->).
    assert (Hs : sphere_set (v2r qzero) (Q2R m) b).
    { apply sphere_set_iff. rewrite qzero_r. replace (vsub b vzero) with b by (vsimp; f_equal; ring). exact Hb. }
    apply (bridge_sphere qzero m b Hm) in Hs. cbn [sem] in Hs. destruct Hs as (y0 & z0 & -> & Hz0 & E0).
    cbn [sem]. exists y, z0. split; auto. split; auto.
    rewrite qzero_r in E0. rewrite E0. f_equal. vsimp. f_equal; ring.
Qed.

(** ** vertex hulls and meshes are the hull of the (world) vertices by definition *)
Theorem bridge_hull (ps : list VQ) (x : V3R) : sem (HullPts ps) x <-> conv_hull (map v2r ps) x.
Proof. reflexivity. Qed.

(** ** from the unit canonical sets to the sized sets of Spec/Shapes.v: scaling the columns of
       the pose by the sizes.  With these, e.g.
       [sem (Sum (Pt c) (Sum (Seg u) (Sum (Seg v) (Seg w)))) = box_set T size] whenever
       [u, v, w] are the columns of [rot T] scaled by the half sizes and [c = trans T]. *)
Definition scale_cols (m : M3 R) (a : V3R) : M3 R :=
  of_cols (vscale (vx a) (col m 0)) (vscale (vy a) (col m 1)) (vscale (vz a) (col m 2)).

Lemma scale_cols_point (T : Pose R) (a k : V3R) :
  transform_point (P (scale_cols (rot T) a) (trans T)) k = transform_point T (vmul a k).
Proof. unfold scale_cols, of_cols. destruct T as [[[m00 m01 m02] [m10 m11 m12] [m20 m21 m22]] [t0 t1 t2]].
  destruct a as [a0 a1 a2], k as [k0 k1 k2]. vunfold. cbn. f_equal; ring. Qed.

Lemma image_scale (T : Pose R) (a : V3R) (K K' : set3) :
  0 < vx a -> 0 < vy a -> 0 < vz a ->
  (forall k, K (vmul a k) <-> K' k) ->
  forall x, image T K x <-> image (P (scale_cols (rot T) a) (trans T)) K' x.
Proof.
  intros A0 A1 A2 HK x. split.
  - intros (k & Hk & ->).
    exists (V (vx k / vx a) (vy k / vy a) (vz k / vz a)).
    assert (E : vmul a (V (vx k / vx a) (vy k / vy a) (vz k / vz a)) = k).
    { destruct a as [a0 a1 a2], k as [k0 k1 k2]. cbn [vx vy vz] in *. vunfold. cbn [vx vy vz]. f_equal; field; lra. }
    split; [apply HK; rewrite E; exact Hk|]. rewrite scale_cols_point, E. reflexivity.
  - intros (k & Hk & ->). exists (vmul a k). split; [apply HK; exact Hk|]. apply scale_cols_point.
Qed.

Theorem box_set_unit (T : Pose R) (size : V3R) (x : V3R) : 0 < vx size -> 0 < vy size -> 0 < vz size ->
  (box_set T size x <-> image (P (scale_cols (rot T) (vscale (/ 2) size)) (trans T)) (box_K (V 1 1 1)) x).
Proof.
  intros S0 S1 S2. unfold box_set. apply image_scale.
  - destruct size as [s0 s1 s2]; vunfold; cbn [vx vy vz] in *; lra.
  - destruct size as [s0 s1 s2]; vunfold; cbn [vx vy vz] in *; lra.
  - destruct size as [s0 s1 s2]; vunfold; cbn [vx vy vz] in *; lra.
  - intros [k0 k1 k2]. destruct size as [s0 s1 s2]. unfold box_K, vmul, vscale. cbn [vx vy vz] in *.
    assert (A : forall s k, 0 < s -> (Rabs (/ 2 * s * k) <= / 2 * s <-> Rabs k <= 1)).
    { intros s k Hs. rewrite Rabs_mult, (Rabs_pos_eq (/ 2 * s)) by lra. split; intros H; nra. }
    rewrite !A by auto. tauto.
Qed.

Theorem ellipsoid_set_unit (T : Pose R) (radii : V3R) (x : V3R) : 0 < vx radii -> 0 < vy radii -> 0 < vz radii ->
  (ellipsoid_set T radii x <-> image (P (scale_cols (rot T) radii) (trans T)) (ball_K 1) x).
Proof.
  intros A0 A1 A2. unfold ellipsoid_set. apply image_scale; auto.
  intros [k0 k1 k2]. destruct radii as [a0 a1 a2]. unfold ellipsoid_K, ball_K, vmul. vunfold. cbn [vx vy vz] in *.
  replace (a0 * k0 / a0) with k0 by (field; lra). replace (a1 * k1 / a1) with k1 by (field; lra).
  replace (a2 * k2 / a2) with k2 by (field; lra). lra.
Qed.

Theorem cylinder_set_unit (T : Pose R) (r l : R) (x : V3R) : 0 < r -> 0 < l ->
  (cylinder_set T r l x <-> image (P (scale_cols (rot T) (V r r (l / 2))) (trans T)) (cylinder_K 1 2) x).
Proof.
  intros Hr Hl. unfold cylinder_set. apply image_scale; cbn [vx vy vz]; try lra.
  intros [k0 k1 k2]. unfold cylinder_K, vmul. cbn [vx vy vz].
  assert (A : Rabs (l / 2 * k2) <= l / 2 <-> Rabs k2 <= 2 / 2).
  { rewrite Rabs_mult, (Rabs_pos_eq (l / 2)) by lra. split; intros H; nra. }
  rewrite A. cbn [mul ROps]. assert (Hrr : 0 < r * r) by nra.
  assert (E : r * k0 * (r * k0) + r * k1 * (r * k1) = r * r * (k0 * k0 + k1 * k1)) by ring.
  rewrite E. split; intros [B C]; split; auto.
  - apply Rmult_le_reg_l with (r * r); auto. lra.
  - apply Rmult_le_compat_l with (r := r * r) in B; lra.
Qed.
