(** * Executable certificates over exact rationals for "p is the minimum-norm point of
      the convex hull of a finite point list" (C18), with soundness over the reals.

    Everything here is sqrt-free and runs under [vm_compute].  The harness passes the
    implementation's inputs and outputs as the exact rationals of their binary64 values
    and an *untrusted* witness (weights, the exact optimum computed by a Python oracle);
    the verdict for that input is then a consequence of the theorems below. *)
From Coq Require Import List QArith Qabs Qreals Reals Lra Lia Bool Psatz.
From D3 Require Import Base.Ops Base.Vec Base.RVec Spec.Convex Spec.ConvexHull.
Import ListNotations.

(** ** rational vectors *)
Section QVec.
  Local Open Scope Q_scope.
  Definition qdot (a b : V3 Q) : Q := vx a * vx b + vy a * vy b + vz a * vz b.
  Definition qadd (a b : V3 Q) : V3 Q := V (vx a + vx b) (vy a + vy b) (vz a + vz b).
  Definition qsub (a b : V3 Q) : V3 Q := V (vx a - vx b) (vy a - vy b) (vz a - vz b).
  Definition qscale (s : Q) (a : V3 Q) : V3 Q := V (s * vx a) (s * vy a) (s * vz a).
  Definition qzero : V3 Q := V 0 0 0.
  Fixpoint qcomb (ws : list Q) (ps : list (V3 Q)) : V3 Q :=
    match ws, ps with
    | w :: ws', p :: ps' => qadd (qscale w p) (qcomb ws' ps')
    | _, _ => qzero
    end.
  Fixpoint qsum (ws : list Q) : Q := match ws with [] => 0 | w :: ws' => w + qsum ws' end.
  Definition qveq (a b : V3 Q) : bool :=
    Qeq_bool (vx a) (vx b) && Qeq_bool (vy a) (vy b) && Qeq_bool (vz a) (vz b).
  (** the points named by an index list; [None] if an index is out of range *)
  Fixpoint select (Y : list (V3 Q)) (sub : list nat) : option (list (V3 Q)) :=
    match sub with
    | [] => Some []
    | i :: sub' =>
      match nth_error Y i, select Y sub' with
      | Some y, Some r => Some (y :: r)
      | _, _ => None
      end
    end.
  (** largest coordinate magnitude, at least 1: the scale [L] of a configuration *)
  Definition qmax (a b : Q) : Q := if Qle_bool a b then b else a.
  Definition vmaxabs (a : V3 Q) : Q := qmax (Qabs (vx a)) (qmax (Qabs (vy a)) (Qabs (vz a))).
  Definition scale_of (Y : list (V3 Q)) : Q := fold_right (fun y m => qmax (vmaxabs y) m) 1 Y.

  (** *** the certificates *)
  (** weights are a convex combination over the selected points *)
  Definition weights_ok (lam : list Q) (ps : list (V3 Q)) : bool :=
    Nat.eqb (length lam) (length ps) && forallb (fun l => Qle_bool 0 l) lam && Qeq_bool (qsum lam) 1.

  (** [kkt_cert Y p subset lam tau]: [p] is exactly the combination [lam] of the points
      [Y[subset]] (so it lies in their hull) and satisfies the variational inequality
      [p.(y - p) >= -tau] at every input point.  With [tau = 0]: exact optimality. *)
  Definition kkt_cert (Y : list (V3 Q)) (p : V3 Q) (subset : list nat) (lam : list Q) (tau : Q) : bool :=
    match select Y subset with
    | None => false
    | Some ps =>
      weights_ok lam ps && qveq p (qcomb lam ps) &&
      forallb (fun y => Qle_bool (qdot p p - tau) (qdot p y)) Y
    end.

  (** [|p| <= |q| + e] without square roots:
      with [D = |p|^2 - |q|^2 - e^2]:  [D <= 0  \/  D^2 <= 4 e^2 |q|^2]. *)
  Definition norm_le_plus (p q : V3 Q) (e : Q) : bool :=
    let D := qdot p p - qdot q q - e * e in
    Qle_bool 0 e && (Qle_bool D 0 || Qle_bool (D * D) (4 * (e * e) * qdot q q)).

  (** [p] is within [e] of the combination [lam] of [Y[subset]] *)
  Definition near_hull_cert (Y : list (V3 Q)) (p : V3 Q) (subset : list nat) (lam : list Q) (e : Q) : bool :=
    match select Y subset with
    | None => false
    | Some ps =>
      let r := qsub p (qcomb lam ps) in
      weights_ok lam ps && Qle_bool 0 e && Qle_bool (qdot r r) (e * e)
    end.

  (** returned (binary64) barycentric weights: non-negative, sum to 1 within [e1],
      reproduce [p] from [Y[subset]] in order within [e] *)
  Definition bary_cert (Y : list (V3 Q)) (p : V3 Q) (subset : list nat) (w : list Q) (e1 e : Q) : bool :=
    match select Y subset with
    | None => false
    | Some ps =>
      let r := qsub p (qcomb w ps) in
      Nat.eqb (length w) (length ps) && forallb (fun l => Qle_bool 0 l) w &&
      Qle_bool (Qabs (qsum w - 1)) e1 && Qle_bool 0 e && Qle_bool (qdot r r) (e * e)
    end.

  (** the C18 verdict for one solver result:
      [q] (witness) is the exact minimum-norm point of conv Y  (carrier [qs], weights [lamq]);
      the returned point [p] has [| |p| - |q| | <= e] and lies within [e] of the hull of
      the returned subset [sub] (witness weights [lamp]);  [e = rel * scale_of Y]. *)
  Definition c18_tol (rel : Q) (Y : list (V3 Q)) : Q := rel * scale_of Y.
  Definition c18_cert (rel : Q) (Y : list (V3 Q)) (p : V3 Q) (sub : list nat) (lamp : list Q)
             (q : V3 Q) (qs : list nat) (lamq : list Q) : bool * bool * bool :=
    let e := c18_tol rel Y in
    (kkt_cert Y q qs lamq 0,
     norm_le_plus p q e && norm_le_plus q p e,
     near_hull_cert Y p sub lamp e).
End QVec.

(** ** soundness over R *)
Local Open Scope R_scope.
Definition Q2V (v : V3 Q) : V3R := V (Q2R (vx v)) (Q2R (vy v)) (Q2R (vz v)).

Lemma Q2R_0 : Q2R 0 = 0. Proof. unfold Q2R; simpl; lra. Qed.
Lemma Q2R_1 : Q2R 1 = 1. Proof. unfold Q2R; simpl; lra. Qed.

Lemma Q2R_qdot a b : Q2R (qdot a b) = dot (Q2V a) (Q2V b).
Proof. unfold qdot, Q2V. vunfold. rewrite !Q2R_plus, !Q2R_mult. reflexivity. Qed.
Lemma Q2V_qadd a b : Q2V (qadd a b) = vadd (Q2V a) (Q2V b).
Proof. unfold qadd, Q2V. vunfold. cbn [vx vy vz]. rewrite !Q2R_plus. reflexivity. Qed.
Lemma Q2V_qsub a b : Q2V (qsub a b) = vsub (Q2V a) (Q2V b).
Proof. unfold qsub, Q2V. vunfold. cbn [vx vy vz]. rewrite !Q2R_minus. reflexivity. Qed.
Lemma Q2V_qscale s a : Q2V (qscale s a) = vscale (Q2R s) (Q2V a).
Proof. unfold qscale, Q2V. vunfold. cbn [vx vy vz]. rewrite !Q2R_mult. reflexivity. Qed.
Lemma Q2V_qzero : Q2V qzero = vzero.
Proof. unfold qzero, Q2V. vunfold. cbn [vx vy vz]. rewrite Q2R_0. reflexivity. Qed.
Lemma Q2V_qcomb ws ps : Q2V (qcomb ws ps) = comb (map Q2R ws) (map Q2V ps).
Proof.
  revert ps; induction ws as [|w ws IH]; intros [|p ps]; cbn [qcomb comb map]; try apply Q2V_qzero.
  rewrite Q2V_qadd, Q2V_qscale, IH. reflexivity.
Qed.
Lemma Q2R_qsum ws : Q2R (qsum ws) = sum (map Q2R ws).
Proof. induction ws as [|w ws IH]; cbn [qsum sum map]; [apply Q2R_0|]. rewrite Q2R_plus, IH. reflexivity. Qed.
Lemma qveq_sound a b : qveq a b = true -> Q2V a = Q2V b.
Proof.
  unfold qveq. rewrite !andb_true_iff, !Qeq_bool_iff. intros [[H1 H2] H3].
  unfold Q2V. rewrite (Qeq_eqR _ _ H1), (Qeq_eqR _ _ H2), (Qeq_eqR _ _ H3). reflexivity.
Qed.
Lemma Qle_bool_R a b : Qle_bool a b = true -> Q2R a <= Q2R b.
Proof. rewrite Qle_bool_iff. apply Qle_Rle. Qed.

Lemma select_In Y sub ps : select Y sub = Some ps -> incl ps Y.
Proof.
  revert ps; induction sub as [|i sub IH]; intros ps H; cbn [select] in H.
  - injection H as <-. intros x [].
  - destruct (nth_error Y i) as [y|] eqn:E; [|discriminate].
    destruct (select Y sub) as [r|]; [|discriminate]. injection H as <-.
    intros x [<-|Hx]; [eapply nth_error_In; eauto | apply (IH r); auto].
Qed.
Lemma select_nth Y sub ps :
  select Y sub = Some ps -> ps = map (fun i => nth i Y qzero) sub /\ Forall (fun i => (i < length Y)%nat) sub.
Proof.
  revert ps; induction sub as [|i sub IH]; intros ps H; cbn [select] in H.
  - injection H as <-. split; auto.
  - destruct (nth_error Y i) as [y|] eqn:E; [|discriminate].
    destruct (select Y sub) as [r|]; [|discriminate]. injection H as <-.
    destruct (IH r eq_refl) as [-> HF]. split.
    + cbn [map]. f_equal. symmetry. apply nth_error_nth; auto.
    + constructor; auto. apply nth_error_Some. congruence.
Qed.

Lemma weights_ok_sound lam ps :
  weights_ok lam ps = true ->
  length (map Q2R lam) = length (map Q2V ps) /\ Forall (fun w => 0 <= w) (map Q2R lam) /\
  sum (map Q2R lam) = 1.
Proof.
  unfold weights_ok. rewrite !andb_true_iff. intros [[Hl Hn] Hs].
  apply Nat.eqb_eq in Hl. rewrite !map_length. split; auto. split.
  - rewrite forallb_forall in Hn. apply Forall_forall. intros w Hw.
    apply in_map_iff in Hw. destruct Hw as (l & <- & Hin).
    specialize (Hn l Hin). apply Qle_bool_R in Hn. rewrite Q2R_0 in Hn. exact Hn.
  - rewrite <- Q2R_qsum. apply Qeq_bool_iff in Hs. rewrite (Qeq_eqR _ _ Hs). apply Q2R_1.
Qed.

Lemma weights_ok_hull lam ps :
  weights_ok lam ps = true -> conv_hull (map Q2V ps) (Q2V (qcomb lam ps)).
Proof.
  intros H. destruct (weights_ok_sound _ _ H) as (Hl & Hn & Hs).
  exists (map Q2R lam). repeat split; auto. apply Q2V_qcomb.
Qed.

(** *** [kkt_cert] *)
Theorem kkt_cert_sound Y p subset lam tau :
  kkt_cert Y p subset lam tau = true ->
  exists ps, select Y subset = Some ps /\
    conv_hull (map Q2V ps) (Q2V p) /\
    conv_hull (map Q2V Y) (Q2V p) /\
    forall x, conv_hull (map Q2V Y) x ->
              dot (Q2V p) (Q2V p) <= dot x x + 2 * Q2R tau.
Proof.
  unfold kkt_cert. destruct (select Y subset) as [ps|] eqn:Es; [|discriminate].
  rewrite !andb_true_iff. intros [[Hw Hp] Hk].
  assert (Hin : conv_hull (map Q2V ps) (Q2V p)).
  { rewrite (qveq_sound _ _ Hp). apply weights_ok_hull; auto. }
  exists ps. split; auto. split; auto. split.
  - revert Hin. apply conv_hull_incl. intros v Hv.
    apply in_map_iff in Hv. destruct Hv as (y & <- & Hy).
    apply in_map. eapply select_In; eauto.
  - apply min_norm_sq_slack. intros y Hy.
    apply in_map_iff in Hy. destruct Hy as (y0 & <- & Hy0).
    rewrite forallb_forall in Hk. specialize (Hk y0 Hy0). apply Qle_bool_R in Hk.
    rewrite Q2R_minus, !Q2R_qdot in Hk. exact Hk.
Qed.

(** exact optimality: [tau = 0] *)
Theorem kkt_cert_exact Y p subset lam :
  kkt_cert Y p subset lam 0 = true ->
  is_min_norm (map Q2V Y) (Q2V p) /\
  exists ps, select Y subset = Some ps /\ conv_hull (map Q2V ps) (Q2V p).
Proof.
  intros H. destruct (kkt_cert_sound _ _ _ _ _ H) as (ps & Hs & Hin & HinY & Hopt).
  split; [|eauto]. split; auto.
  intros x Hx. apply norm_le_of_sq. specialize (Hopt x Hx). rewrite Q2R_0 in Hopt. lra.
Qed.

(** *** [norm_le_plus] *)
Lemma norm_le_plus_sound p q e :
  norm_le_plus p q e = true -> norm (Q2V p) <= norm (Q2V q) + Q2R e.
Proof.
  unfold norm_le_plus. rewrite andb_true_iff, orb_true_iff. intros [He H].
  apply Qle_bool_R in He. rewrite Q2R_0 in He.
  pose proof (norm_nonneg (Q2V p)) as Hp0. pose proof (norm_nonneg (Q2V q)) as Hq0.
  pose proof (norm_sq (Q2V p)) as Hp. pose proof (norm_sq (Q2V q)) as Hq.
  set (P := norm (Q2V p)) in *. set (N := norm (Q2V q)) in *. set (E := Q2R e) in *.
  assert (HD : P * P - N * N - E * E <= 0 \/
               (P * P - N * N - E * E) * (P * P - N * N - E * E) <= 4 * (E * E) * (N * N)).
  { destruct H as [H|H]; apply Qle_bool_R in H; [left|right].
    - rewrite !Q2R_minus, Q2R_mult, !Q2R_qdot, Q2R_0 in H. fold E in H. rewrite Hp, Hq. exact H.
    - rewrite !Q2R_mult, !Q2R_minus, !Q2R_mult, !Q2R_qdot in H. fold E in H.
      assert (E4 : Q2R 4 = 4) by (unfold Q2R; simpl; lra).
      rewrite E4 in H. rewrite Hp, Hq. exact H. }
  clearbody P N E. clear Hp Hq H.
  apply Rsqr_incr_0_var; [|lra]. unfold Rsqr.
  destruct HD as [HD|HD]; [nra|].
  destruct (Rle_dec (P * P - N * N - E * E) 0) as [Hn|Hn]; [nra|].
  apply Rnot_le_lt in Hn.
  assert (P * P - N * N - E * E <= 2 * E * N).
  { apply Rsqr_incr_0_var; [|nra]. unfold Rsqr. nra. }
  nra.
Qed.

(** *** [near_hull_cert] *)
Lemma near_hull_cert_sound Y p subset lam e :
  near_hull_cert Y p subset lam e = true ->
  exists ps z, select Y subset = Some ps /\ conv_hull (map Q2V ps) z /\
               norm (vsub (Q2V p) z) <= Q2R e.
Proof.
  unfold near_hull_cert. destruct (select Y subset) as [ps|] eqn:Es; [|discriminate].
  rewrite !andb_true_iff. intros [[Hw He] Hr].
  exists ps, (Q2V (qcomb lam ps)). split; auto. split; [apply weights_ok_hull; auto|].
  apply Qle_bool_R in He, Hr. rewrite Q2R_0 in He.
  rewrite Q2R_qdot, Q2R_mult, Q2V_qsub in Hr.
  set (r := vsub (Q2V p) (Q2V (qcomb lam ps))) in *.
  pose proof (norm_nonneg r). pose proof (norm_sq r).
  apply Rsqr_incr_0_var; [|lra]. unfold Rsqr. lra.
Qed.

(** *** [bary_cert] (statement of the property's clause about returned weights) *)
Lemma bary_cert_sound Y p subset w e1 e :
  bary_cert Y p subset w e1 e = true ->
  exists ps, select Y subset = Some ps /\ length w = length ps /\
    Forall (fun l => 0 <= l) (map Q2R w) /\
    Rabs (sum (map Q2R w) - 1) <= Q2R e1 /\
    norm (vsub (Q2V p) (comb (map Q2R w) (map Q2V ps))) <= Q2R e.
Proof.
  unfold bary_cert. destruct (select Y subset) as [ps|] eqn:Es; [|discriminate].
  rewrite !andb_true_iff. intros [[[[Hl Hn] Hs] He] Hr].
  exists ps. split; auto. apply Nat.eqb_eq in Hl. split; auto. split; [|split].
  - rewrite forallb_forall in Hn. apply Forall_forall. intros x Hx.
    apply in_map_iff in Hx. destruct Hx as (l & <- & Hin).
    specialize (Hn l Hin). apply Qle_bool_R in Hn. rewrite Q2R_0 in Hn. exact Hn.
  - apply Qle_bool_R in Hs. rewrite <- Q2R_qsum.
    replace (Q2R (qsum w) - 1) with (Q2R (qsum w - 1)) by (rewrite Q2R_minus, Q2R_1; ring).
    revert Hs. generalize (qsum w - 1)%Q. intros x Hx.
    unfold Rabs. destruct (Rcase_abs (Q2R x)) as [Hneg|Hpos].
    + assert (Qabs x == - x)%Q.
      { apply Qabs_neg. apply Rle_Qle. rewrite Q2R_0. lra. }
      rewrite (Qeq_eqR _ _ H), Q2R_opp in Hx. exact Hx.
    + assert (Qabs x == x)%Q.
      { apply Qabs_pos. apply Rle_Qle. rewrite Q2R_0. lra. }
      rewrite (Qeq_eqR _ _ H) in Hx. exact Hx.
  - apply Qle_bool_R in He, Hr. rewrite Q2R_0 in He.
    rewrite Q2R_qdot, Q2R_mult, Q2V_qsub, Q2V_qcomb in Hr.
    set (r := vsub (Q2V p) (comb (map Q2R w) (map Q2V ps))) in *.
    pose proof (norm_nonneg r). pose proof (norm_sq r).
    apply Rsqr_incr_0_var; [|lra]. unfold Rsqr. lra.
Qed.

(** *** the combined verdict *)
Theorem c18_cert_sound rel Y p sub lamp q qs lamq :
  c18_cert rel Y p sub lamp q qs lamq = (true, true, true) ->
  let e := Q2R (c18_tol rel Y) in
  (* q is the minimum-norm point of the hull of the input points ... *)
  is_min_norm (map Q2V Y) (Q2V q) /\
  (* ... the returned point's norm is within e of the minimum ... *)
  Rabs (norm (Q2V p) - norm (Q2V q)) <= e /\
  (* ... and the returned point is within e of the hull of the returned subset,
     which consists of input points *)
  exists ps z, select Y sub = Some ps /\ incl ps Y /\ conv_hull (map Q2V ps) z /\
               norm (vsub (Q2V p) z) <= e.
Proof.
  intros H e. unfold c18_cert in H. injection H as Hk Hn Hm.
  apply andb_true_iff in Hn. destruct Hn as [Hn1 Hn2].
  apply norm_le_plus_sound in Hn1, Hn2.
  destruct (kkt_cert_exact _ _ _ _ Hk) as [Hmin _].
  split; auto. split.
  - fold e in Hn1, Hn2. unfold Rabs. destruct (Rcase_abs _); lra.
  - destruct (near_hull_cert_sound _ _ _ _ _ Hm) as (ps & z & Hs & Hz & Hd).
    exists ps, z. repeat split; auto. eapply select_In; eauto.
Qed.

(** the scale is at least 1 and bounds every coordinate of every input point *)
Lemma qmax_l a b : (a <= qmax a b)%Q.
Proof. unfold qmax. destruct (Qle_bool a b) eqn:E; [apply Qle_bool_iff; auto|apply Qle_refl]. Qed.
Lemma qmax_r a b : (b <= qmax a b)%Q.
Proof.
  unfold qmax. destruct (Qle_bool a b) eqn:E; [apply Qle_refl|].
  destruct (Qlt_le_dec b a) as [H|H]; [apply Qlt_le_weak; auto|].
  apply Qle_bool_iff in H. congruence.
Qed.
Lemma scale_of_ge_1 Y : (1 <= scale_of Y)%Q.
Proof.
  induction Y as [|y Y IH]; cbn [scale_of fold_right]; [apply Qle_refl|].
  eapply Qle_trans; [exact IH|apply qmax_r].
Qed.
Lemma scale_of_bound Y y : In y Y -> (vmaxabs y <= scale_of Y)%Q.
Proof.
  induction Y as [|y0 Y IH]; intros H; [destruct H|].
  cbn [scale_of fold_right]. destruct H as [->|H]; [apply qmax_l|].
  eapply Qle_trans; [apply IH; auto|apply qmax_r].
Qed.

(** the weights accepted by [kkt_cert] are barycentric coordinates of [p] over the subset, in order *)
Lemma kkt_cert_weights Y p subset lam tau :
  kkt_cert Y p subset lam tau = true ->
  exists ps, select Y subset = Some ps /\ length lam = length ps /\
    Forall (fun w => 0 <= w) (map Q2R lam) /\ sum (map Q2R lam) = 1 /\
    Q2V p = comb (map Q2R lam) (map Q2V ps).
Proof.
  unfold kkt_cert. destruct (select Y subset) as [ps|] eqn:Es; [|discriminate].
  rewrite !andb_true_iff. intros [[Hw Hp] _].
  exists ps. split; auto.
  destruct (weights_ok_sound _ _ Hw) as (Hl & Hn & Hs). rewrite !map_length in Hl.
  split; auto. split; auto. split; auto.
  rewrite (qveq_sound _ _ Hp). apply Q2V_qcomb.
Qed.
