(** * Certificates for the boolean narrow-phase tests (C02) and for C09:
      "the ball of radius delta around p lies inside the collider A", for every
      shape expression of [Checker/Shapes.v].

    Two routes, both with soundness theorems over the reals:
    - [Deep.deep_cert] (owned by Checker/Deep.v) for shapes whose last Minkowski
      summand is an axis-aligned ball (sphere, capsule, Margin wrappers);
    - [para_cert] (this file) for every shape: eight certified members
      p +- w1 +- w2 +- w3 of A (the corners of a parallelepiped around p, each an
      exact rational point reconstructed from a membership witness) plus the exact
      rational test  delta^2 |w_i x w_j|^2 <= det(w1,w2,w3)^2  (the ball of radius
      delta fits into the parallelepiped).  Soundness rests on [sem_convex]: every
      shape expression denotes a convex set. *)
From Coq Require Import QArith Qabs Qreals Reals Lra Lia ZArith List Psatz Bool.
From D3 Require Import Base.Ops Base.Vec Base.RVec Spec.Convex Checker.Shapes Checker.Deep.
Import ListNotations.

(** ** convexity of the denotation of every shape expression *)
Local Open Scope R_scope.

Definition cc (t : R) (x y : V3R) : V3R := vadd (vscale (1 - t) x) (vscale t y).

Fixpoint mix (t : R) (ws ws' : list R) : list R :=
  match ws, ws' with
  | w :: a, w' :: b => ((1 - t) * w + t * w') :: mix t a b
  | _, _ => []
  end.

Lemma mix_length t : forall ws ws' n, length ws = n -> length ws' = n -> length (mix t ws ws') = n.
Proof.
  induction ws as [|w ws IH]; intros [|w' ws'] n H1 H2; simpl in *; try congruence.
  destruct n; [discriminate|]. f_equal. apply IH; congruence.
Qed.

Lemma mix_sum t : forall ws ws', length ws = length ws' ->
  Convex.sum (mix t ws ws') = (1 - t) * Convex.sum ws + t * Convex.sum ws'.
Proof.
  induction ws as [|w ws IH]; intros [|w' ws'] H; simpl in *; try discriminate; [ring|].
  rewrite IH by congruence. ring.
Qed.

Lemma mix_nonneg t : 0 <= t <= 1 -> forall ws ws',
  Forall (fun w => 0 <= w) ws -> Forall (fun w => 0 <= w) ws' -> Forall (fun w => 0 <= w) (mix t ws ws').
Proof.
  intros Ht. induction ws as [|w ws IH]; intros [|w' ws'] H1 H2; simpl; try constructor.
  - inversion H1; inversion H2; subst. nra.
  - inversion H1; inversion H2; subst. apply IH; auto.
Qed.

Lemma mix_comb t : forall ps ws ws', length ws = length ps -> length ws' = length ps ->
  comb (mix t ws ws') ps = cc t (comb ws ps) (comb ws' ps).
Proof.
  unfold cc.
  induction ps as [|p ps IH]; intros [|w ws] [|w' ws'] H1 H2; simpl in *; try discriminate.
  - vunfold. f_equal; ring.
  - rewrite IH by congruence.
    destruct p as [p1 p2 p3]. destruct (comb ws ps) as [a1 a2 a3]. destruct (comb ws' ps) as [b1 b2 b3].
    vunfold. f_equal; ring.
Qed.

Lemma conv_hull_convex ps : convex (conv_hull ps).
Proof.
  intros x y t (ws & Hl & Hn & Hs & ->) (ws' & Hl' & Hn' & Hs' & ->) Ht.
  exists (mix t ws ws'). split; [apply mix_length; auto|]. split; [apply mix_nonneg; auto|]. split.
  - rewrite mix_sum by congruence. rewrite Hs, Hs'. ring.
  - symmetry. apply mix_comb; auto.
Qed.

Lemma cc_cc_l (a b : R) (x y : V3R) (s : R) :
  0 < a + b -> s = b / (a + b) ->
  vadd (vscale a x) (vscale b y) = vscale (a + b) (cc s x y).
Proof.
  intros H ->. unfold cc. destruct x, y. vunfold. f_equal; field; lra.
Qed.

Theorem sem_convex : forall s, convex (sem s).
Proof.
  induction s as [c|v|a1 a2 a3|a IHa b IHb|ps|a IHa b IHb]; intros x y t Hx Hy Ht; simpl in Hx, Hy |- *.
  - subst. destruct (v2r c). vunfold. f_equal; ring.
  - destruct Hx as (s & Hs & ->). destruct Hy as (s' & Hs' & ->).
    exists ((1 - t) * s + t * s'). split; [nra|].
    destruct (v2r v). vunfold. f_equal; ring.
  - destruct Hx as (t1 & t2 & t3 & Hn & ->). destruct Hy as (u1 & u2 & u3 & Hn' & ->).
    exists ((1 - t) * t1 + t * u1), ((1 - t) * t2 + t * u2), ((1 - t) * t3 + t * u3). split.
    + assert (E : ((1 - t) * t1 + t * u1) * ((1 - t) * t1 + t * u1) + ((1 - t) * t2 + t * u2) * ((1 - t) * t2 + t * u2)
                  + ((1 - t) * t3 + t * u3) * ((1 - t) * t3 + t * u3)
                  = (1 - t) * (t1 * t1 + t2 * t2 + t3 * t3) + t * (u1 * u1 + u2 * u2 + u3 * u3)
                    - t * (1 - t) * ((t1 - u1) * (t1 - u1) + (t2 - u2) * (t2 - u2) + (t3 - u3) * (t3 - u3))) by ring.
      rewrite E.
      assert (0 <= t * (1 - t)) by nra.
      assert (0 <= (t1 - u1) * (t1 - u1) + (t2 - u2) * (t2 - u2) + (t3 - u3) * (t3 - u3)).
      { pose proof (Rle_0_sqr (t1 - u1)). pose proof (Rle_0_sqr (t2 - u2)). pose proof (Rle_0_sqr (t3 - u3)).
        unfold Rsqr in *. lra. }
      assert (0 <= t * (1 - t) * ((t1 - u1) * (t1 - u1) + (t2 - u2) * (t2 - u2) + (t3 - u3) * (t3 - u3)))
        by (apply Rmult_le_pos; auto).
      assert (0 <= (1 - t) * (1 - (t1 * t1 + t2 * t2 + t3 * t3))) by (apply Rmult_le_pos; lra).
      assert (0 <= t * (1 - (u1 * u1 + u2 * u2 + u3 * u3))) by (apply Rmult_le_pos; lra).
      lra.
    + destruct (v2r a1), (v2r a2), (v2r a3). vunfold. f_equal; ring.
  - destruct Hx as (x1 & x2 & H1 & H2 & ->). destruct Hy as (y1 & y2 & H3 & H4 & ->).
    exists (cc t x1 y1), (cc t x2 y2). split; [apply IHa; auto|]. split; [apply IHb; auto|].
    unfold cc. destruct x1, x2, y1, y2. vunfold. f_equal; ring.
  - apply conv_hull_convex; auto.
  - destruct Hx as (x1 & x2 & s & H1 & H2 & Hs & ->). destruct Hy as (y1 & y2 & s' & H3 & H4 & Hs' & ->).
    set (al := (1 - t) * (1 - s) + t * (1 - s')).
    set (be := (1 - t) * s + t * s').
    assert (Hab : al + be = 1) by (unfold al, be; ring).
    assert (Hal : 0 <= al) by (unfold al; nra).
    assert (Hbe : 0 <= be) by (unfold be; nra).
    (* the A-part and the B-part of the combination *)
    assert (HA : exists ya, sem a ya /\ vadd (vscale ((1 - t) * (1 - s)) x1) (vscale (t * (1 - s')) y1) = vscale al ya).
    { destruct (Req_dec al 0) as [E|E].
      - exists x1. split; auto.
        assert ((1 - t) * (1 - s) = 0) by (unfold al in E; nra).
        assert (t * (1 - s') = 0) by (unfold al in E; nra).
        rewrite H, H0, E. destruct x1, y1. vunfold. f_equal; ring.
      - exists (cc (t * (1 - s') / al) x1 y1). split.
        + apply IHa; auto. split.
          * apply Rmult_le_pos; [nra|]. left. apply Rinv_0_lt_compat. lra.
          * apply Rmult_le_reg_r with al; [lra|]. unfold Rdiv. rewrite Rmult_assoc, Rinv_l by auto.
            unfold al. nra.
        + unfold al. apply cc_cc_l; [fold al; lra|reflexivity]. }
    assert (HB : exists zb, sem b zb /\ vadd (vscale ((1 - t) * s) x2) (vscale (t * s') y2) = vscale be zb).
    { destruct (Req_dec be 0) as [E|E].
      - exists x2. split; auto.
        assert ((1 - t) * s = 0) by (unfold be in E; nra).
        assert (t * s' = 0) by (unfold be in E; nra).
        rewrite H, H0, E. destruct x2, y2. vunfold. f_equal; ring.
      - exists (cc (t * s' / be) x2 y2). split.
        + apply IHb; auto. split.
          * apply Rmult_le_pos; [nra|]. left. apply Rinv_0_lt_compat. lra.
          * apply Rmult_le_reg_r with be; [lra|]. unfold Rdiv. rewrite Rmult_assoc, Rinv_l by auto.
            unfold be. nra.
        + unfold be. apply cc_cc_l; [fold be; lra|reflexivity]. }
    destruct HA as (ya & Hya & Ea). destruct HB as (zb & Hzb & Eb).
    exists ya, zb, be. split; auto. split; auto. split; [lra|].
    replace (1 - be) with al by lra. rewrite <- Ea, <- Eb.
    destruct x1, x2, y1, y2. vunfold. f_equal; ring.
Qed.

(** ** a convex set containing the eight corners contains the parallelepiped *)
Lemma convex_seg (S : set3) (x w : V3R) (t : R) :
  convex S -> S (vadd x w) -> S (vsub x w) -> -1 <= t <= 1 -> S (vadd x (vscale t w)).
Proof.
  intros HS H1 H2 Ht.
  replace (vadd x (vscale t w)) with (cc ((1 + t) / 2) (vsub x w) (vadd x w)).
  - apply HS; auto. lra.
  - unfold cc. destruct x, w. vunfold. f_equal; field.
Qed.

Definition corner (p w1 w2 w3 : V3R) (s1 s2 s3 : R) : V3R :=
  vadd p (vadd (vscale s1 w1) (vadd (vscale s2 w2) (vscale s3 w3))).

Lemma convex_para (S : set3) (p w1 w2 w3 : V3R) :
  convex S ->
  (forall s1 s2 s3, (s1 = 1 \/ s1 = -1) -> (s2 = 1 \/ s2 = -1) -> (s3 = 1 \/ s3 = -1) ->
     S (corner p w1 w2 w3 s1 s2 s3)) ->
  forall t1 t2 t3, -1 <= t1 <= 1 -> -1 <= t2 <= 1 -> -1 <= t3 <= 1 -> S (corner p w1 w2 w3 t1 t2 t3).
Proof.
  intros HS HC t1 t2 t3 H1 H2 H3.
  assert (L3 : forall s1 s2, (s1 = 1 \/ s1 = -1) -> (s2 = 1 \/ s2 = -1) -> S (corner p w1 w2 w3 s1 s2 t3)).
  { intros s1 s2 Hs1 Hs2.
    replace (corner p w1 w2 w3 s1 s2 t3) with (vadd (corner p w1 w2 w3 s1 s2 0) (vscale t3 w3))
      by (unfold corner; destruct p, w1, w2, w3; vunfold; f_equal; ring).
    apply convex_seg; auto.
    - replace (vadd (corner p w1 w2 w3 s1 s2 0) w3) with (corner p w1 w2 w3 s1 s2 1)
        by (unfold corner; destruct p, w1, w2, w3; vunfold; f_equal; ring).
      apply HC; auto.
    - replace (vsub (corner p w1 w2 w3 s1 s2 0) w3) with (corner p w1 w2 w3 s1 s2 (-1))
        by (unfold corner; destruct p, w1, w2, w3; vunfold; f_equal; ring).
      apply HC; auto. }
  assert (L2 : forall s1, (s1 = 1 \/ s1 = -1) -> S (corner p w1 w2 w3 s1 t2 t3)).
  { intros s1 Hs1.
    replace (corner p w1 w2 w3 s1 t2 t3) with (vadd (corner p w1 w2 w3 s1 0 t3) (vscale t2 w2))
      by (unfold corner; destruct p, w1, w2, w3; vunfold; f_equal; ring).
    apply convex_seg; auto.
    - replace (vadd (corner p w1 w2 w3 s1 0 t3) w2) with (corner p w1 w2 w3 s1 1 t3)
        by (unfold corner; destruct p, w1, w2, w3; vunfold; f_equal; ring).
      apply L3; auto.
    - replace (vsub (corner p w1 w2 w3 s1 0 t3) w2) with (corner p w1 w2 w3 s1 (-1) t3)
        by (unfold corner; destruct p, w1, w2, w3; vunfold; f_equal; ring).
      apply L3; auto. }
  replace (corner p w1 w2 w3 t1 t2 t3) with (vadd (corner p w1 w2 w3 0 t2 t3) (vscale t1 w1))
    by (unfold corner; destruct p, w1, w2, w3; vunfold; f_equal; ring).
  apply convex_seg; auto.
  - replace (vadd (corner p w1 w2 w3 0 t2 t3) w1) with (corner p w1 w2 w3 1 t2 t3)
      by (unfold corner; destruct p, w1, w2, w3; vunfold; f_equal; ring).
    apply L2; auto.
  - replace (vsub (corner p w1 w2 w3 0 t2 t3) w1) with (corner p w1 w2 w3 (-1) t2 t3)
      by (unfold corner; destruct p, w1, w2, w3; vunfold; f_equal; ring).
    apply L2; auto.
Qed.

(** ** Cramer: coordinates of [u] in the frame (w1,w2,w3) and their bound on a ball *)
Definition det3 (w1 w2 w3 : V3R) : R := dot w1 (cross w2 w3).

Lemma cramer (u w1 w2 w3 : V3R) :
  vscale (det3 w1 w2 w3) u =
  vadd (vscale (dot u (cross w2 w3)) w1)
       (vadd (vscale (dot u (cross w3 w1)) w2) (vscale (dot u (cross w1 w2)) w3)).
Proof. unfold det3. destruct u, w1, w2, w3. vunfold. f_equal; ring. Qed.

Lemma coord_bound (u n : V3R) (delta D : R) :
  0 <= delta -> norm u <= delta -> D <> 0 ->
  delta * delta * dot n n <= D * D ->
  -1 <= dot u n / D <= 1.
Proof.
  intros Hd Hu HD Hb.
  pose proof (cauchy_schwarz_sq u n) as HC.
  pose proof (norm_sq u) as Hs. pose proof (norm_nonneg u) as Hn.
  pose proof (dot_self_nonneg n) as Hnn.
  assert (Huu : dot u u <= delta * delta) by nra.
  assert (H2 : dot u n * dot u n <= D * D).
  { assert (dot u u * dot n n <= delta * delta * dot n n) by (apply Rmult_le_compat_r; auto). lra. }
  assert (HDD : 0 < D * D) by nra.
  assert (Hq : (dot u n / D) * (dot u n / D) <= 1).
  { replace (dot u n / D * (dot u n / D)) with (dot u n * dot u n / (D * D)) by (field; auto).
    apply Rmult_le_reg_r with (D * D); auto. unfold Rdiv. rewrite Rmult_assoc, Rinv_l by lra. lra. }
  nra.
Qed.

Lemma ball_in_para (S : set3) (p w1 w2 w3 : V3R) (delta : R) :
  convex S ->
  (forall s1 s2 s3, (s1 = 1 \/ s1 = -1) -> (s2 = 1 \/ s2 = -1) -> (s3 = 1 \/ s3 = -1) ->
     S (corner p w1 w2 w3 s1 s2 s3)) ->
  0 <= delta -> det3 w1 w2 w3 <> 0 ->
  delta * delta * dot (cross w2 w3) (cross w2 w3) <= det3 w1 w2 w3 * det3 w1 w2 w3 ->
  delta * delta * dot (cross w3 w1) (cross w3 w1) <= det3 w1 w2 w3 * det3 w1 w2 w3 ->
  delta * delta * dot (cross w1 w2) (cross w1 w2) <= det3 w1 w2 w3 * det3 w1 w2 w3 ->
  forall u, norm u <= delta -> S (vadd p u).
Proof.
  intros HS HC Hd HD B1 B2 B3 u Hu.
  set (D := det3 w1 w2 w3) in *.
  pose proof (coord_bound u _ delta D Hd Hu HD B1) as C1.
  pose proof (coord_bound u _ delta D Hd Hu HD B2) as C2.
  pose proof (coord_bound u _ delta D Hd Hu HD B3) as C3.
  pose proof (convex_para S p w1 w2 w3 HS HC _ _ _ C1 C2 C3) as H.
  replace (vadd p u) with (corner p w1 w2 w3 (dot u (cross w2 w3) / D) (dot u (cross w3 w1) / D) (dot u (cross w1 w2) / D)); auto.
  unfold corner. f_equal.
  pose proof (cramer u w1 w2 w3) as E. fold D in E.
  assert (E2 : u = vscale (/ D) (vscale D u)).
  { destruct u. vunfold. f_equal; field; auto. }
  rewrite E2 at 4. rewrite E.
  destruct w1, w2, w3, u. vunfold. f_equal; field; auto.
Qed.

Local Close Scope R_scope.

(** ** the executable certificate *)
Definition qcross (a b : VQ) : VQ :=
  V (vy a * vz b - vz a * vy b)%Q (vz a * vx b - vx a * vz b)%Q (vx a * vy b - vy a * vx b)%Q.
Lemma qcross_r a b : v2r (qcross a b) = cross (v2r a) (v2r b).
Proof. unfold qcross, v2r. vunfold. cbn [vx vy vz]. q2r. reflexivity. Qed.

Definition qcorner (p w1 w2 w3 : VQ) (s1 s2 s3 : Q) : VQ :=
  qadd p (qadd (qscale s1 w1) (qadd (qscale s2 w2) (qscale s3 w3))).

(** the witness [w] denotes exactly the point [q] of [A] *)
Definition is_point (A : sh) (w : wit) (q : VQ) : bool :=
  match point_of A w with Some q' => veqb q' q | None => false end.

Lemma is_point_sound A w q : is_point A w q = true -> sem A (v2r q).
Proof.
  unfold is_point. destruct (point_of A w) as [q'|] eqn:E; [|discriminate].
  intros H. apply veqb_r in H. rewrite <- H. eapply point_of_sound; eauto.
Qed.

Definition signs : list (Q * Q * Q) :=
  [(1, 1, 1); (1, 1, -1); (1, -1, 1); (1, -1, -1); (-1, 1, 1); (-1, 1, -1); (-1, -1, 1); (-1, -1, -1)]%Q.

Fixpoint corners_ok (A : sh) (p w1 w2 w3 : VQ) (ss : list (Q * Q * Q)) (ws : list wit) : bool :=
  match ss, ws with
  | [], [] => true
  | (s1, s2, s3) :: ss', w :: ws' => is_point A w (qcorner p w1 w2 w3 s1 s2 s3) && corners_ok A p w1 w2 w3 ss' ws'
  | _, _ => false
  end.

(** [ws]: eight membership witnesses, in the order of [signs] *)
Definition para_cert (A : sh) (ws : list wit) (p w1 w2 w3 : VQ) (delta : Q) : bool :=
  let D := qdot w1 (qcross w2 w3) in
  let dd := (delta * delta)%Q in
  Qle_bool 0 delta && negb (Qeq_bool D 0) &&
  Qle_bool (dd * qnorm2 (qcross w2 w3)) (D * D) &&
  Qle_bool (dd * qnorm2 (qcross w3 w1)) (D * D) &&
  Qle_bool (dd * qnorm2 (qcross w1 w2)) (D * D) &&
  corners_ok A p w1 w2 w3 signs ws.

Lemma qcorner_r p w1 w2 w3 s1 s2 s3 :
  v2r (qcorner p w1 w2 w3 s1 s2 s3) = corner (v2r p) (v2r w1) (v2r w2) (v2r w3) (Q2R s1) (Q2R s2) (Q2R s3).
Proof. unfold qcorner, corner. rewrite !qadd_r, !qscale_r. reflexivity. Qed.

Theorem para_cert_sound A ws p w1 w2 w3 delta :
  para_cert A ws p w1 w2 w3 delta = true ->
  forall u, (norm u <= Q2R delta)%R -> sem A (vadd (v2r p) u).
Proof.
  unfold para_cert. intros H.
  apply andb_true_iff in H as (H & HC). apply andb_true_iff in H as (H & B3).
  apply andb_true_iff in H as (H & B2). apply andb_true_iff in H as (H & B1).
  apply andb_true_iff in H as (H0 & HD).
  apply Qle_bool_R in H0, B1, B2, B3. rewrite Q2R_0 in H0.
  unfold qnorm2 in *. q2r. rewrite !qdot_r, !qcross_r in *.
  apply ball_in_para with (w1 := v2r w1) (w2 := v2r w2) (w3 := v2r w3); auto.
  - apply sem_convex.
  - (* the eight corners *)
    unfold signs in HC. cbn [corners_ok] in HC.
    destruct ws as [|x1 [|x2 [|x3 [|x4 [|x5 [|x6 [|x7 [|x8 [|? ?]]]]]]]]]; try discriminate;
      try (repeat (apply andb_true_iff in HC as (? & HC)); discriminate).
    repeat (let Hn := fresh "K" in apply andb_true_iff in HC as (Hn & HC)).
    repeat match goal with K : is_point _ _ _ = true |- _ => apply is_point_sound in K; rewrite qcorner_r in K end.
    rewrite ?Q2R_1, ?Q2R_m1 in *.
    intros s1 s2 s3 [->| ->] [->| ->] [->| ->]; assumption.
  - unfold det3. intros E. apply negb_true_iff in HD.
    assert (Qeq_bool (qdot w1 (qcross w2 w3)) 0 = true); [|congruence].
    apply Qeq_bool_iff. apply eqR_Qeq. rewrite Q2R_0, qdot_r, qcross_r. exact E.
Qed.

(** ** one deep-membership witness type for both routes *)
Inductive deepw :=
| DBall (w : wit) (sigma : Q)                     (* Deep.deep_cert, last summand a ball *)
| DPara (ws : list wit) (w1 w2 w3 : VQ).         (* para_cert *)

Definition deep_any (A : sh) (dw : deepw) (p : VQ) (delta : Q) : bool :=
  match dw with
  | DBall w sigma => deep_cert A w p (delta + sigma) sigma
  | DPara ws w1 w2 w3 => para_cert A ws p w1 w2 w3 delta
  end.

Theorem deep_any_sound A dw p delta :
  deep_any A dw p delta = true ->
  forall u, (norm u <= Q2R delta)%R -> sem A (vadd (v2r p) u).
Proof.
  destruct dw as [w sigma|ws w1 w2 w3]; cbn [deep_any]; intros H u Hu.
  - apply (deep_cert_sound A w p (delta + sigma)%Q sigma H). rewrite Q2R_plus. lra.
  - eapply para_cert_sound; eauto.
Qed.

(** ** C02 ground truth *)
(** overlap class: the ball of radius delta around p lies in A and in B *)
Definition overlap_cert (A B : sh) (da db : deepw) (p : VQ) (delta : Q) : bool :=
  Qlt_bool 0 delta && deep_any A da p delta && deep_any B db p delta.

Definition deep_in (S : set3) (p : V3R) (delta : R) : Prop :=
  forall u, (norm u <= delta)%R -> S (vadd p u).

Theorem overlap_cert_sound A B da db p delta :
  overlap_cert A B da db p delta = true ->
  (0 < Q2R delta)%R /\ deep_in (sem A) (v2r p) (Q2R delta) /\ deep_in (sem B) (v2r p) (Q2R delta) /\
  intersect (sem A) (sem B).
Proof.
  unfold overlap_cert. intros H. apply andb_true_iff in H as (H & HB). apply andb_true_iff in H as (H0 & HA).
  apply Qlt_bool_R in H0. rewrite Q2R_0 in H0.
  pose proof (deep_any_sound _ _ _ _ HA) as DA. pose proof (deep_any_sound _ _ _ _ HB) as DB.
  split; auto. split; auto. split; auto.
  exists (v2r p). assert (E : v2r p = vadd (v2r p) vzero) by (destruct (v2r p); vunfold; f_equal; ring).
  assert (Hz : (norm (@vzero R _) <= Q2R delta)%R).
  { assert (norm (@vzero R _) = 0%R) by (apply norm_zero_iff; reflexivity). lra. }
  rewrite E. split; [apply DA|apply DB]; auto.
Qed.

(** gap class: a direction proves the distance is at least delta > 0 *)
Definition gap_cert (A B : sh) (n : VQ) (delta : Q) : bool := Qlt_bool 0 delta && sep_cert A B n delta.

Theorem gap_cert_sound A B n delta :
  gap_cert A B n delta = true ->
  (0 < Q2R delta)%R /\ dist_ge (sem A) (sem B) (Q2R delta) /\ ~ intersect (sem A) (sem B).
Proof.
  unfold gap_cert. intros H. apply andb_true_iff in H as (H0 & H).
  apply Qlt_bool_R in H0. rewrite Q2R_0 in H0. apply sep_cert_sound in H.
  split; auto. split; auto. eapply dist_ge_pos_disjoint; eauto.
Qed.

(** the two classes exclude each other: no pair carries both certificates *)
Theorem classes_disjoint A B da db p n d1 d2 :
  overlap_cert A B da db p d1 = true -> gap_cert A B n d2 = true -> False.
Proof.
  intros H1 H2. apply overlap_cert_sound in H1 as (_ & _ & _ & HI).
  apply gap_cert_sound in H2 as (_ & _ & HN). auto.
Qed.

(** ** C09: values returned by distance-only algorithms, judged against a certified enclosure *)
From D3 Require Import Checker.Narrow.

(** every value of [ds] lies in [lo - tau, up + tau], where [lo, up] is a certified enclosure of
    the true distance (two untrusted member witnesses, one untrusted direction) *)
Definition dist_values_cert (A B : sh) (wa wb : wit) (n : VQ) (lo up : Q) (ds : list Q) (tau : Q) : bool :=
  enclosure_cert A B wa wb n lo up && Qle_bool 0 tau &&
  forallb (fun d => Qle_bool (lo - tau) d && Qle_bool d (up + tau)) ds.

(** [g] is the distance of the two sets: no pair is closer, some pair is that close *)
Definition is_dist (A B : set3) (g : R) : Prop := dist_ge A B g /\ dist_le A B g.

Theorem dist_values_cert_sound A B wa wb n lo up ds tau :
  dist_values_cert A B wa wb n lo up ds tau = true ->
  dist_ge (sem A) (sem B) (Q2R lo) /\ dist_le (sem A) (sem B) (Q2R up) /\
  forall g, is_dist (sem A) (sem B) g ->
    (Q2R lo <= g <= Q2R up)%R /\
    forall d, In d ds -> (Rabs (Q2R d - g) <= Q2R tau + (Q2R up - Q2R lo))%R.
Proof.
  unfold dist_values_cert. intros H. apply andb_true_iff in H as (H & HF). apply andb_true_iff in H as (HE & HT).
  apply enclosure_cert_sound in HE as (Hlo & Hup). apply Qle_bool_R in HT. rewrite Q2R_0 in HT.
  split; auto. split; auto. intros g (Hg1 & Hg2).
  assert (Hb : (Q2R lo <= g <= Q2R up)%R).
  { destruct Hup as (a & b & Ha & Hb & Hab). destruct Hg2 as (a' & b' & Ha' & Hb' & Hab').
    pose proof (Hg1 a b Ha Hb). pose proof (Hlo a' b' Ha' Hb'). lra. }
  split; auto. intros d Hd. rewrite forallb_forall in HF. specialize (HF d Hd).
  apply andb_true_iff in HF as (H1 & H2). apply Qle_bool_R in H1, H2. q2r.
  unfold Rabs. destruct (Rcase_abs (Q2R d - g)); lra.
Qed.
