(** * "p lies at least delta inside A" for shapes whose last Minkowski summand is an
      axis-aligned ball (sphere, capsule, every Margin-wrapped collider): the ball is
      shrunk by delta and a membership witness for the shrunk shape is checked. *)
From Coq Require Import QArith Qabs Qreals Reals Lra Lia ZArith List Psatz Bool.
From D3 Require Import Base.Ops Base.Vec Base.RVec Spec.Convex Checker.Shapes.
Import ListNotations.

Definition qball (r : Q) : sh := Ell (V r 0 0) (V 0 r 0) (V 0 0 r).

Lemma qball_sem_intro r y : (0 <= Q2R r)%R -> (norm y <= Q2R r)%R -> sem (qball r) y.
Proof.
  intros Hr Hy. simpl.
  destruct (Req_dec (Q2R r) 0) as [E|E].
  - exists 0%R, 0%R, 0%R. split; [lra|].
    assert (y = vzero). { apply norm_zero_iff. pose proof (norm_nonneg y). lra. }
    subst y. unfold v2r. cbn [vx vy vz]. rewrite !Q2R_0. vunfold. f_equal; ring.
  - assert (Hp : (0 < Q2R r)%R) by lra.
    destruct y as [y1 y2 y3].
    exists (y1 / Q2R r)%R, (y2 / Q2R r)%R, (y3 / Q2R r)%R. split.
    + pose proof (norm_sq (V y1 y2 y3)) as Hs. pose proof (norm_nonneg (V y1 y2 y3)) as Hn.
      assert (Hd : (dot (V y1 y2 y3) (V y1 y2 y3) = y1 * y1 + y2 * y2 + y3 * y3)%R) by (vunfold; ring).
      assert (Hle : (y1 * y1 + y2 * y2 + y3 * y3 <= Q2R r * Q2R r)%R) by nra.
      replace (y1 / Q2R r * (y1 / Q2R r) + y2 / Q2R r * (y2 / Q2R r) + y3 / Q2R r * (y3 / Q2R r))%R
        with ((y1 * y1 + y2 * y2 + y3 * y3) / (Q2R r * Q2R r))%R by (field; lra).
      apply Rmult_le_reg_r with (Q2R r * Q2R r)%R; [nra|].
      unfold Rdiv. rewrite Rmult_assoc, Rinv_l by nra. lra.
    + unfold v2r. cbn [vx vy vz]. rewrite !Q2R_0. vunfold. f_equal; field; lra.
Qed.

Lemma qball_sem_elim r y : (0 <= Q2R r)%R -> sem (qball r) y -> (norm y <= Q2R r)%R.
Proof.
  intros Hr (t1 & t2 & t3 & Ht & ->).
  unfold v2r. cbn [vx vy vz]. rewrite !Q2R_0.
  set (R0 := Q2R r) in *.
  replace (vadd (vscale t1 (V R0 0 0)) (vadd (vscale t2 (V 0 R0 0)) (vscale t3 (V 0 0 R0))))%R
    with (vscale R0 (V t1 t2 t3)) by (vunfold; f_equal; ring).
  rewrite norm_scale. rewrite Rabs_right by lra.
  assert (norm (V t1 t2 t3) <= 1)%R.
  { unfold norm. cbn [sqrt ROps]. rewrite <- sqrt_1. apply sqrt_le_1; vunfold; nra. }
  pose proof (norm_nonneg (V t1 t2 t3)). nra.
Qed.

Definition veqb (a b : VQ) : bool :=
  Qeq_bool (vx a) (vx b) && Qeq_bool (vy a) (vy b) && Qeq_bool (vz a) (vz b).

(** radius of the last summand if it is syntactically an axis-aligned ball *)
Fixpoint last_ball (s : sh) : option Q :=
  match s with
  | Sum a b => last_ball b
  | Ell a1 a2 a3 =>
    let r := vx a1 in
    if Qle_bool 0 r && veqb a1 (V r 0 0) && veqb a2 (V 0 r 0) && veqb a3 (V 0 0 r) then Some r else None
  | _ => None
  end.
Fixpoint set_last_ball (s : sh) (r' : Q) : sh :=
  match s with
  | Sum a b => Sum a (set_last_ball b r')
  | Ell _ _ _ => qball r'
  | _ => s
  end.

Lemma veqb_r a b : veqb a b = true -> v2r a = v2r b.
Proof.
  unfold veqb. intros H. apply andb_true_iff in H as (H & H3). apply andb_true_iff in H as (H1 & H2).
  apply Qeq_bool_eq in H1, H2, H3. apply Qeq_eqR in H1, H2, H3. unfold v2r. congruence.
Qed.

Lemma grow_last_ball : forall s r r' y u,
  last_ball s = Some r -> (0 <= Q2R r')%R -> (Q2R r' + norm u <= Q2R r)%R ->
  sem (set_last_ball s r') y -> sem s (vadd y u).
Proof.
  induction s as [c|v|a1 a2 a3|a IHa b IHb|ps|a IHa b IHb]; intros r r' y u Hl Hr' Hu Hy; simpl in Hl; try discriminate.
  - destruct (Qle_bool 0 (vx a1) && veqb a1 (V (vx a1) 0 0) && veqb a2 (V 0 (vx a1) 0) && veqb a3 (V 0 0 (vx a1))) eqn:E; [|discriminate].
    inversion Hl; subst r. clear Hl.
    apply andb_true_iff in E as (E & E3). apply andb_true_iff in E as (E & E2). apply andb_true_iff in E as (E0 & E1).
    apply Qle_bool_R in E0. rewrite Q2R_0 in E0.
    cbn [set_last_ball] in Hy. apply qball_sem_elim in Hy; auto.
    assert (Hb : sem (qball (vx a1)) (vadd y u)).
    { apply qball_sem_intro; auto. pose proof (norm_triangle y u). lra. }
    simpl in Hb. simpl. apply veqb_r in E1, E2, E3. rewrite E1, E2, E3. exact Hb.
  - cbn [set_last_ball sem] in Hy. destruct Hy as (y1 & y2 & H1 & H2 & ->).
    simpl. exists y1, (vadd y2 u). repeat split; auto.
    + eapply IHb; eauto.
    + vsimp. f_equal; ring.
Qed.

(** [p] (within sigma of the witnessed point) is at least [delta - sigma] inside [A] *)
Definition deep_cert (A : sh) (w : wit) (p : VQ) (delta sigma : Q) : bool :=
  match last_ball A with
  | Some r =>
    Qle_bool 0 sigma && Qle_bool sigma delta && Qle_bool delta r &&
    match point_of (set_last_ball A (r - delta)) w with
    | Some q => Qle_bool (qnorm2 (qsub p q)) (sigma * sigma)
    | None => false
    end
  | None => false
  end.

Theorem deep_cert_sound A w p delta sigma :
  deep_cert A w p delta sigma = true ->
  forall u, (norm u <= Q2R delta - Q2R sigma)%R -> sem A (vadd (v2r p) u).
Proof.
  unfold deep_cert. destruct (last_ball A) as [r|] eqn:El; [|discriminate].
  intros H u Hu. apply andb_true_iff in H as (H & H4). apply andb_true_iff in H as (H & H3).
  apply andb_true_iff in H as (H1 & H2).
  destruct (point_of (set_last_ball A (r - delta)) w) as [q|] eqn:Ep; [|discriminate].
  apply Qle_bool_R in H1, H2, H3, H4. rewrite Q2R_0 in H1.
  unfold qnorm2 in H4. rewrite qdot_r, qsub_r in H4. q2r.
  apply point_of_sound in Ep.
  replace (vadd (v2r p) u) with (vadd (v2r q) (vadd (vsub (v2r p) (v2r q)) u)) by (vsimp; f_equal; ring).
  apply (grow_last_ball A r (r - delta)%Q (v2r q) _ El); [| |exact Ep].
  - rewrite Q2R_minus. lra.
  - rewrite Q2R_minus.
    pose proof (norm_triangle (vsub (v2r p) (v2r q)) u).
    assert (norm (vsub (v2r p) (v2r q)) <= Q2R sigma)%R.
    { pose proof (norm_nonneg (vsub (v2r p) (v2r q))). pose proof (norm_sq (vsub (v2r p) (v2r q))).
      apply Rsqr_incr_0_var; auto. unfold Rsqr. lra. }
    lra.
Qed.
