(** * Per-mesh certificate for the hypothesis of the mesh support theorem (C03).

    [LocalMaxGlobal d vs conn delta] ("a vertex without a neighbour better by more than 10*eps is
    within delta of the maximum") is a property of the input mesh.  For the edge graph of a convex
    polytope it follows from the fact that the polytope lies in the cone spanned at each vertex by
    the edges to its neighbours.  That cone property has a finite, exactly checkable certificate:
    for every vertex v (with adjacency entry) and every vertex u, non-negative rationals mu_w with
        u - v = sum over neighbours w of v of  mu_w * (w - v),      sum mu_w <= M.
    [cone_cert] checks such a certificate in exact rational arithmetic; [cone_cert_sound] proves
    that it implies [LocalMaxGlobal d vs conn (M * 10 eps)] for EVERY direction d.  Together with
    [mesh_support_partial] the hill climbing answer is then a global maximiser up to M*10*eps for
    every direction and every cached start vertex - for the certified mesh, with no hypothesis left. *)
From Coq Require Import QArith Qreals Reals Lra Lia List Bool Arith Psatz.
From D3 Require Import Base.Ops Base.Vec Base.RVec Base.RVec2 Spec.Convex Spec.Shapes Model.Support
  Proofs.ShapesTac Proofs.SupportA Proofs.MeshClimb Checker.Shapes Checker.ShapesCert.
Import ListNotations.
Local Close Scope Q_scope.

(** a coefficient list with a common positive denominator [D]:  D * (u - v) = sum N_w * (w - v)
    (integers in practice, so that every intermediate number stays a dyadic rational) *)
Definition coef := (Q * list (nat * Q))%type.

Fixpoint cone_sum (vs : list VQ) (pv : VQ) (c : list (nat * Q)) : option VQ :=
  match c with
  | [] => Some qzero
  | (w, mu) :: c' =>
      match nth_error vs w, cone_sum vs pv c' with
      | Some pw, Some acc => Some (qaddD (qscaleD mu (qsubD pw pv)) acc)
      | _, _ => None
      end
  end.
Fixpoint mu_sum (c : list (nat * Q)) : Q := match c with [] => 0%Q | (_, mu) :: c' => dred (mu + mu_sum c')%Q end.

Definition pair_ok (vs : list VQ) (nb : list nat) (pv pu : VQ) (c : coef) (M : Q) : bool :=
  let '(D, l) := c in
  Qlt_bool 0 D &&
  forallb (fun wm => Qle_bool 0 (snd wm) && existsb (Nat.eqb (fst wm)) nb) l &&
  Qle_bool (mu_sum l) (M * D) &&
  match cone_sum vs pv l with
  | Some s => veq_bool (qscaleD D (qsubD pu pv)) s
  | None => false
  end.

(** [cert] : for every vertex index v (row) and every vertex index u (column) a coefficient list;
    rows of vertices without adjacency entry are ignored *)
Definition row_ok (vs : list VQ) (conn : list (nat * list nat)) (M : Q) (v : nat) (row : list coef) : bool :=
  match lookup v conn, nth_error vs v with
  | Some nb, Some pv =>
      (length row =? length vs)%nat &&
      forallb (fun uc => pair_ok vs nb pv (fst uc) (snd uc) M) (combine vs row)
  | Some _, None => false
  | None, _ => true
  end.
Definition cone_cert (vs : list VQ) (conn : list (nat * list nat)) (cert : list (list coef)) (M : Q) : bool :=
  Qle_bool 0 M && (length cert =? length vs)%nat &&
  forallb (fun vr => row_ok vs conn M (fst vr) (snd vr)) (combine (seq 0 (length vs)) cert).

Local Open Scope R_scope.

Lemma cone_sum_bound (d : V3R) (vs : list VQ) (nb : list nat) (pv : VQ) (e : R) : forall c s,
  0 <= e ->
  forallb (fun wm => Qle_bool 0 (snd wm) && existsb (Nat.eqb (fst wm)) nb) c = true ->
  cone_sum vs pv c = Some s ->
  (forall j pj, In j nb -> nth_error vs j = Some pj -> dot d (vsub (v2r pj) (v2r pv)) <= e) ->
  dot d (v2r s) <= Q2R (mu_sum c) * e.
Proof.
  induction c as [|[w mu] c IH]; intros s He Hf Hs Hall; cbn [cone_sum mu_sum forallb] in *.
  - injection Hs as <-. rewrite qzero_r, Q2R_0. vsimp. lra.
  - destruct (nth_error vs w) as [pw|] eqn:Ew; [|discriminate].
    destruct (cone_sum vs pv c) as [acc|] eqn:Ec; [|discriminate].
    injection Hs as <-.
    apply andb_true_iff in Hf as (Hf1 & Hf2). apply andb_true_iff in Hf1 as (Hmu & Hin).
    apply Qle_bool_R in Hmu. rewrite Q2R_0 in Hmu. cbn [fst snd] in *.
    apply existsb_exists in Hin. destruct Hin as (w' & Hin & Ew'). apply Nat.eqb_eq in Ew'. subst w'.
    specialize (IH acc He Hf2 eq_refl Hall).
    specialize (Hall w pw Hin Ew).
    rewrite qaddD_r, qscaleD_r, qsubD_r, dot_add_r, dot_scale_r. rewrite dred_r, Q2R_plus. nra.
Qed.

Lemma veq_bool_r a b : veq_bool a b = true -> v2r a = v2r b.
Proof.
  unfold veq_bool. intros H. apply andb_true_iff in H as (H & Hz). apply andb_true_iff in H as (Hx & Hy).
  apply Qeq_bool_eq in Hx, Hy, Hz. apply Qeq_eqR in Hx, Hy, Hz. unfold v2r. rewrite Hx, Hy, Hz. reflexivity.
Qed.

Lemma forallb_combine_nth {A B : Type} (f : A * B -> bool) : forall (la : list A) (lb : list B) i a b,
  forallb f (combine la lb) = true -> nth_error la i = Some a -> nth_error lb i = Some b -> f (a, b) = true.
Proof.
  induction la as [|x la IH]; intros [|y lb] [|i] a b H Ha Hb; cbn in *; try discriminate.
  - injection Ha as <-. injection Hb as <-. apply andb_true_iff in H. tauto.
  - apply andb_true_iff in H. eapply IH; eauto. tauto.
Qed.

Theorem cone_cert_sound (vs : list VQ) conn cert M :
  cone_cert vs conn cert M = true ->
  forall d : V3R, LocalMaxGlobal d (map v2r vs) conn (Q2R M * @EPSILON10 R ROps).
Proof.
  unfold cone_cert. intros H d i vi (vi' & nb & Evi' & Enb & Hall) Evi v Hin.
  apply andb_true_iff in H as (H & Hrows). apply andb_true_iff in H as (HM & Hlen).
  apply Qle_bool_R in HM. rewrite Q2R_0 in HM. apply Nat.eqb_eq in Hlen.
  pose proof EPSILON10_R_pos as He.
  (* the row of vertex i *)
  assert (Hi : (i < length vs)%nat).
  { rewrite <- (map_length v2r). apply nth_error_Some. congruence. }
  destruct (nth_error cert i) as [row|] eqn:Erow; [|apply nth_error_None in Erow; lia].
  assert (Hseq : nth_error (seq 0 (length vs)) i = Some i).
  { rewrite nth_error_nth' with (d := 0%nat) by (rewrite seq_length; auto). rewrite seq_nth by auto. reflexivity. }
  pose proof (forallb_combine_nth _ _ _ _ _ _ Hrows Hseq Erow) as Hrow. cbn [fst snd] in Hrow.
  unfold row_ok in Hrow. rewrite Enb in Hrow.
  destruct (nth_error vs i) as [pv|] eqn:Epv; [|discriminate].
  apply andb_true_iff in Hrow as (Hrl & Hpairs). apply Nat.eqb_eq in Hrl.
  assert (Evi2 : vi = v2r pv).
  { rewrite (map_nth_error v2r i vs Epv) in Evi. congruence. }
  (* the column of v *)
  destruct (In_nth_error _ _ Hin) as [u Eu].
  assert (Hu : (u < length vs)%nat).
  { rewrite <- (map_length v2r). apply nth_error_Some. congruence. }
  destruct (nth_error vs u) as [pu|] eqn:Epu; [|apply nth_error_None in Epu; lia].
  assert (Ev : v = v2r pu).
  { rewrite (map_nth_error v2r u vs Epu) in Eu. congruence. }
  destruct (nth_error row u) as [c|] eqn:Ec; [|apply nth_error_None in Ec; lia].
  pose proof (forallb_combine_nth _ _ _ _ _ _ Hpairs Epu Ec) as Hp. cbn [fst snd] in Hp.
  unfold pair_ok in Hp. destruct c as [D l].
  apply andb_true_iff in Hp as (Hp & Hs). apply andb_true_iff in Hp as (Hp & Hmu). apply andb_true_iff in Hp as (HD & Hf).
  destruct (cone_sum vs pv l) as [s|] eqn:Es; [|discriminate].
  apply veq_bool_r in Hs. rewrite qscaleD_r, qsubD_r in Hs. apply Qle_bool_R in Hmu. rewrite Q2R_mult in Hmu.
  apply Qlt_bool_R in HD. rewrite Q2R_0 in HD.
  assert (Hb : dot d (v2r s) <= Q2R (mu_sum l) * @EPSILON10 R ROps).
  { apply (cone_sum_bound d vs nb pv); auto; [lra|].
    intros j pj Hj Ej. assert (vi' = vi) by congruence. subst vi'.
    specialize (Hall j (v2r pj) Hj (map_nth_error v2r j vs Ej)). rewrite Evi2 in Hall. exact Hall. }
  rewrite <- Hs in Hb. rewrite dot_scale_r, dot_sub_r in Hb. subst v vi.
  assert (Q2R D * (dot d (v2r pu) - dot d (v2r pv)) <= Q2R D * (Q2R M * @EPSILON10 R ROps)) by nra.
  apply Rmult_le_reg_l in H; lra.
Qed.

(** consequence: for a mesh with an accepted certificate the support answer is right up to
    M*10*eps, for every direction and every cached start vertex *)
Theorem mesh_support_certified : forall (vs : list VQ) conn cert M fuel (T : Pose R) shortcuts first_idx (d : V3R) idx p,
  cone_cert vs conn cert M = true ->
  mesh_query fuel T (map v2r vs) conn shortcuts first_idx d = Some (idx, p) ->
  hull_set T (map v2r vs) p /\
  forall x, hull_set T (map v2r vs) x -> dot x d <= dot p d + Q2R M * @EPSILON10 R ROps.
Proof.
  intros vs conn cert M fuel T shortcuts first_idx d idx p Hc H.
  eapply mesh_support_partial; eauto. apply cone_cert_sound with (cert := cert); auto.
Qed.
