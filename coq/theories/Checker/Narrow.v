(** * Certificates for the narrow-phase properties (C01, C02, C07, C08, C09),
      built from the shape checkers of [Checker/Shapes.v]. *)
From Coq Require Import QArith Qabs Qreals Reals Lra Lia ZArith List Psatz Bool.
From D3 Require Import Base.Ops Base.Vec Base.RVec Spec.Convex Checker.Shapes.
Import ListNotations.

(** | |a-b| - d | <= tau, without square roots *)
Definition len_ok (a b : VQ) (d tau : Q) : bool :=
  Qle_bool 0 tau && Qle_bool 0 d &&
  Qle_bool (qnorm2 (qsub a b)) ((d + tau) * (d + tau)) &&
  (Qle_bool d tau || Qle_bool ((d - tau) * (d - tau)) (qnorm2 (qsub a b))).

Lemma len_ok_sound a b d tau :
  len_ok a b d tau = true ->
  (Rabs (norm (vsub (v2r a) (v2r b)) - Q2R d) <= Q2R tau)%R.
Proof.
  unfold len_ok. intros H. apply andb_true_iff in H as (H & H3). apply andb_true_iff in H as (H & H2).
  apply andb_true_iff in H as (H0 & H1).
  apply Qle_bool_R in H0, H1, H2. rewrite Q2R_0 in H0, H1.
  unfold qnorm2 in *. rewrite qdot_r, qsub_r in H2. q2r.
  set (l := norm (vsub (v2r a) (v2r b))) in *.
  assert (Hl : (0 <= l)%R) by apply norm_nonneg.
  assert (Hs : (l * l = dot (vsub (v2r a) (v2r b)) (vsub (v2r a) (v2r b)))%R) by apply norm_sq.
  assert (Hup : (l <= Q2R d + Q2R tau)%R).
  { apply Rsqr_incr_0_var; [unfold Rsqr; lra|lra]. }
  assert (Hlo : (Q2R d - Q2R tau <= l)%R).
  { apply orb_true_iff in H3 as [H3|H3].
    - apply Qle_bool_R in H3. lra.
    - apply Qle_bool_R in H3. rewrite qdot_r, qsub_r in H3. q2r.
      destruct (Rle_dec (Q2R d - Q2R tau) 0); [lra|].
      apply Rsqr_incr_0_var; [unfold Rsqr; lra|lra]. }
  unfold Rabs. destruct (Rcase_abs (l - Q2R d)); lra.
Qed.

(** ** C01: the result (d, a, b) of a distance query *)
Definition dist_cert (A B : sh) (wa wb : wit) (a b : VQ) (d tau : Q) : bool :=
  in_shape_tol A wa a tau && in_shape_tol B wb b tau && len_ok a b d tau &&
  (Qle_bool d tau || sep_cert A B (qsub b a) (d - tau)).

Theorem dist_cert_sound A B wa wb a b d tau :
  dist_cert A B wa wb a b d tau = true ->
  (exists qa, sem A qa /\ (norm (vsub (v2r a) qa) <= Q2R tau)%R) /\
  (exists qb, sem B qb /\ (norm (vsub (v2r b) qb) <= Q2R tau)%R) /\
  (Rabs (norm (vsub (v2r a) (v2r b)) - Q2R d) <= Q2R tau)%R /\
  dist_ge (sem A) (sem B) (Q2R d - Q2R tau) /\
  dist_le (sem A) (sem B) (Q2R d + 3 * Q2R tau).
Proof.
  unfold dist_cert. intros H. apply andb_true_iff in H as (H & H4). apply andb_true_iff in H as (H & H3).
  apply andb_true_iff in H as (H1 & H2).
  destruct (in_shape_tol_sound _ _ _ _ H1) as (qa & Hqa & Hda).
  destruct (in_shape_tol_sound _ _ _ _ H2) as (qb & Hqb & Hdb).
  pose proof (len_ok_sound _ _ _ _ H3) as Hl.
  split; [eauto|]. split; [eauto|]. split; [auto|]. split.
  - apply orb_true_iff in H4 as [H4|H4].
    + apply Qle_bool_R in H4. intros x y Hx Hy. pose proof (norm_nonneg (vsub x y)). lra.
    + apply sep_cert_sound in H4. rewrite Q2R_minus in H4. exact H4.
  - exists qa, qb. repeat split; auto.
    (* |qa-qb| <= |qa-a| + |a-b| + |b-qb| *)
    replace (vsub qa qb) with (vadd (vsub qa (v2r a)) (vadd (vsub (v2r a) (v2r b)) (vsub (v2r b) qb)))
      by (vsimp; f_equal; ring).
    pose proof (norm_triangle (vsub qa (v2r a)) (vadd (vsub (v2r a) (v2r b)) (vsub (v2r b) qb))).
    pose proof (norm_triangle (vsub (v2r a) (v2r b)) (vsub (v2r b) qb)).
    rewrite (norm_sub_comm qa (v2r a)) in *.
    unfold Rabs in Hl. destruct (Rcase_abs (norm (vsub (v2r a) (v2r b)) - Q2R d)); lra.
Qed.

(** ** overlap extent along a direction (C07 / C08 "residual overlap") *)
(** every a in A and b in B satisfy  (a - b).n <= tau * |n|   (requires n.n >= 1) *)
Definition overlap_le_cert (A B : sh) (n : VQ) (tau : Q) : bool :=
  Qle_bool 0 tau && Qle_bool 1 (qnorm2 n) && Qle_bool (hi A n + hi B (qneg n)) tau.

Theorem overlap_le_cert_sound A B n tau :
  overlap_le_cert A B n tau = true ->
  forall a b, sem A a -> sem B b ->
    (dot (vsub a b) (v2r n) <= Q2R tau * norm (v2r n))%R /\ (1 <= norm (v2r n))%R.
Proof.
  unfold overlap_le_cert. intros H a b Ha Hb.
  apply andb_true_iff in H as (H & H2). apply andb_true_iff in H as (H0 & H1).
  apply Qle_bool_R in H0, H1, H2. rewrite Q2R_0 in H0. rewrite Q2R_1 in H1. q2r.
  unfold qnorm2 in H1. rewrite qdot_r in H1.
  pose proof (hi_sound A n a Ha) as HA. pose proof (hi_sound B (qneg n) b Hb) as HB.
  rewrite qneg_r in HB. rewrite dot_comm, dot_neg_l, dot_comm in HB.
  pose proof (norm_nonneg (v2r n)) as Hn. pose proof (norm_sq (v2r n)) as Hs.
  assert (H1n : (1 <= norm (v2r n))%R) by nra.
  split; auto. rewrite dot_sub_l. nra.
Qed.

(** the penetration depth is at most D: direction n (n.n >= 1) along which the
    overlap extent is at most D *)
Definition depth_le_cert := overlap_le_cert.

(** ** enclosure of the true distance from two untrusted witnesses (C09) *)
Definition enclosure_cert (A B : sh) (wa wb : wit) (n : VQ) (lo up : Q) : bool :=
  (Qle_bool lo 0 || sep_cert A B n lo) && near_cert A B wa wb up.

Theorem enclosure_cert_sound A B wa wb n lo up :
  enclosure_cert A B wa wb n lo up = true ->
  dist_ge (sem A) (sem B) (Q2R lo) /\ dist_le (sem A) (sem B) (Q2R up).
Proof.
  unfold enclosure_cert. intros H. apply andb_true_iff in H as (H1 & H2). split.
  - apply orb_true_iff in H1 as [H1|H1].
    + apply Qle_bool_R in H1. rewrite Q2R_0 in H1. intros a b _ _. pose proof (norm_nonneg (vsub a b)). lra.
    + apply (sep_cert_sound A B n lo); auto.
  - apply near_cert_sound in H2; auto.
Qed.
