(** * Proof-carrying results for the narrow phase: exact rational certificate
      checkers for "point lies in a collider", "a direction separates two
      colliders by at least g", with soundness theorems over the reals.

    A collider is described to the checker as a *shape expression* built from
    points, centred segments, centred ellipsoidal discs/balls (up to three
    axes, already scaled by the radii), Minkowski sums, convex hulls of finite
    point lists and hulls of two shapes.  Every float handed to or returned by
    the implementation is an exact rational, so poses are judged exactly as
    given (no orthonormality is assumed anywhere).

      sphere      Sum (Pt c) (Ell (r e1) (r e2) (r e3))
      box         Sum (Pt c) (Sum (Seg (h1 a1)) (Sum (Seg (h2 a2)) (Seg (h3 a3))))
      cylinder    Sum (Pt c) (Sum (Seg (l/2 a3)) (Ell (r a1) (r a2) 0))
      capsule     Sum (Pt c) (Sum (Seg (h/2 a3)) (Ell (r e1) (r e2) (r e3)))
      ellipsoid   Sum (Pt c) (Ell (r1 a1) (r2 a2) (r3 a3))
      cone        HullU (Pt apex) (Sum (Pt c) (Ell (r a1) (r a2) 0))
      disk        Sum (Pt c) (Ell (r x) (r y) 0)        ellipse  Sum (Pt c) (Ell (r0 u) (r1 v) 0)
      hull, mesh  HullPts vertices                       Margin   Sum S (Ell (m e1) (m e2) (m e3))
*)
From Coq Require Import QArith Qabs Qreals Reals Lra Lia ZArith List Psatz Bool.
From D3 Require Import Base.Ops Base.Vec Base.RVec Spec.Convex.
Import ListNotations.

Notation VQ := (V3 Q).

(** ** rational vectors and their real images *)
Definition v2r (v : VQ) : V3R := V (Q2R (vx v)) (Q2R (vy v)) (Q2R (vz v)).
Definition qdot (a b : VQ) : Q := (vx a * vx b + vy a * vy b + vz a * vz b)%Q.
Definition qadd (a b : VQ) : VQ := V (vx a + vx b)%Q (vy a + vy b)%Q (vz a + vz b)%Q.
Definition qsub (a b : VQ) : VQ := V (vx a - vx b)%Q (vy a - vy b)%Q (vz a - vz b)%Q.
Definition qscale (s : Q) (a : VQ) : VQ := V (s * vx a)%Q (s * vy a)%Q (s * vz a)%Q.
Definition qneg (a : VQ) : VQ := V (- vx a)%Q (- vy a)%Q (- vz a)%Q.
Definition qzero : VQ := V 0%Q 0%Q 0%Q.

Ltac q2r := repeat (rewrite ?Q2R_plus, ?Q2R_mult, ?Q2R_opp, ?Q2R_minus in * ).

Lemma qdot_r a b : Q2R (qdot a b) = dot (v2r a) (v2r b).
Proof. unfold qdot, v2r. q2r. vunfold. ring. Qed.
Lemma qadd_r a b : v2r (qadd a b) = vadd (v2r a) (v2r b).
Proof. unfold qadd, v2r. vunfold. cbn [vx vy vz]. q2r. reflexivity. Qed.
Lemma qsub_r a b : v2r (qsub a b) = vsub (v2r a) (v2r b).
Proof. unfold qsub, v2r. vunfold. cbn [vx vy vz]. q2r. reflexivity. Qed.
Lemma qscale_r s a : v2r (qscale s a) = vscale (Q2R s) (v2r a).
Proof. unfold qscale, v2r. vunfold. cbn [vx vy vz]. q2r. reflexivity. Qed.
Lemma qneg_r a : v2r (qneg a) = vneg (v2r a).
Proof. unfold qneg, v2r. vunfold. cbn [vx vy vz]. q2r. reflexivity. Qed.
Lemma Q2R_0 : Q2R 0 = 0%R.
Proof. unfold Q2R. simpl. lra. Qed.
Lemma Q2R_1 : Q2R 1 = 1%R.
Proof. unfold Q2R. simpl. lra. Qed.
Lemma Q2R_m1 : Q2R (-1) = (-1)%R.
Proof. unfold Q2R. simpl. lra. Qed.
Lemma qzero_r : v2r qzero = vzero.
Proof. unfold qzero, v2r, vzero. cbn. rewrite Q2R_0. reflexivity. Qed.

Lemma Qle_bool_R a b : Qle_bool a b = true -> (Q2R a <= Q2R b)%R.
Proof. intros H. apply Qle_Rle. apply Qle_bool_iff. exact H. Qed.
Definition Qlt_bool (a b : Q) : bool := negb (Qle_bool b a).
Lemma Qlt_bool_R a b : Qlt_bool a b = true -> (Q2R a < Q2R b)%R.
Proof.
  unfold Qlt_bool. intros H. apply negb_true_iff in H.
  apply Qlt_Rlt. apply Qnot_le_lt. intros Hc. apply Qle_bool_iff in Hc. congruence.
Qed.

(** ** rational upper bound of a square root (via [Z.sqrt], 64 extra bits) *)
Definition qsqrt_hi (x : Q) : Q :=
  if Qle_bool x 0 then 0%Q else
  let n := Qnum x in let d := Zpos (Qden x) in
  let k := (2 ^ 64)%Z in
  ((Z.sqrt (n * d * k * k) + 1) # (Qden x * Z.to_pos k))%Q.

Lemma qsqrt_hi_nonneg x : (0 <= qsqrt_hi x)%Q.
Proof.
  unfold qsqrt_hi. destruct (Qle_bool x 0); [apply Qle_refl|].
  unfold Qle. cbn [Qnum Qden].
  pose proof (Z.sqrt_nonneg (Qnum x * Z.pos (Qden x) * 2 ^ 64 * 2 ^ 64)). lia.
Qed.

Lemma qsqrt_hi_sq x : (x <= qsqrt_hi x * qsqrt_hi x)%Q.
Proof.
  unfold qsqrt_hi. destruct (Qle_bool x 0) eqn:E.
  - apply Qle_bool_iff in E. eapply Qle_trans; [exact E|]. unfold Qle; simpl; lia.
  - destruct x as [n d]. cbn [Qnum Qden].
    set (k := (2 ^ 64)%Z). set (m := (n * Z.pos d * k * k)%Z).
    assert (Hk : (0 < k)%Z) by (unfold k; lia).
    assert (Hn : (0 < n)%Z).
    { destruct (Z.leb_spec n 0); [|lia]. exfalso.
      assert (Qle_bool (n # d) 0 = true); [|congruence].
      apply Qle_bool_iff. unfold Qle; simpl; lia. }
    assert (Hm : (0 <= m)%Z) by (unfold m; nia).
    pose proof (Z.sqrt_spec m Hm) as (_ & Hs). fold m.
    set (s := (Z.sqrt m + 1)%Z) in *.
    replace (Z.succ (Z.sqrt m)) with s in Hs by (unfold s; lia).
    unfold Qle, Qmult. cbn [Qnum Qden].
    rewrite !Pos2Z.inj_mul. rewrite !Z2Pos.id by lia.
    (* n * (d k)(d k) <= s*s*d  <=  m * d <= ... *)
    assert (H1 : (n * (Z.pos d * k * (Z.pos d * k)) = m * Z.pos d)%Z) by (unfold m; ring).
    rewrite H1. nia.
Qed.

Lemma qsqrt_hi_sound x : (R_sqrt.sqrt (Q2R x) <= Q2R (qsqrt_hi x))%R.
Proof.
  pose proof (qsqrt_hi_nonneg x) as H0. pose proof (qsqrt_hi_sq x) as H1.
  apply Qle_Rle in H0. apply Qle_Rle in H1. rewrite Q2R_0 in H0. q2r.
  destruct (Rle_dec (Q2R x) 0) as [Hn|Hp].
  - destruct (Req_dec (Q2R x) 0) as [E|E].
    + rewrite E, sqrt_0. lra.
    + rewrite sqrt_neg_0 by lra. lra.
  - apply Rnot_le_lt in Hp.
    rewrite <- (sqrt_Rsqr (Q2R (qsqrt_hi x))) by lra.
    apply sqrt_le_1; unfold Rsqr; lra.
Qed.

(** ** shape expressions *)
Inductive sh :=
| Pt (c : VQ)
| Seg (v : VQ)
| Ell (a1 a2 a3 : VQ)
| Sum (a b : sh)
| HullPts (ps : list VQ)
| HullU (a b : sh).

Fixpoint sem (s : sh) : set3 :=
  match s with
  | Pt c => fun x => x = v2r c
  | Seg v => fun x => exists t, (-1 <= t <= 1)%R /\ x = vscale t (v2r v)
  | Ell a1 a2 a3 => fun x =>
      exists t1 t2 t3, (t1 * t1 + t2 * t2 + t3 * t3 <= 1)%R /\
        x = vadd (vscale t1 (v2r a1)) (vadd (vscale t2 (v2r a2)) (vscale t3 (v2r a3)))
  | Sum a b => fun x => exists y z, sem a y /\ sem b z /\ x = vadd y z
  | HullPts ps => conv_hull (map v2r ps)
  | HullU a b => fun x =>
      exists y z t, sem a y /\ sem b z /\ (0 <= t <= 1)%R /\
                    x = vadd (vscale (1 - t)%R y) (vscale t z)
  end.

Definition Qmax (a b : Q) : Q := if Qle_bool a b then b else a.
Lemma Qmax_l a b : (Q2R a <= Q2R (Qmax a b))%R.
Proof. unfold Qmax. destruct (Qle_bool a b) eqn:E; [apply Qle_bool_R; auto|lra]. Qed.
Lemma Qmax_r a b : (Q2R b <= Q2R (Qmax a b))%R.
Proof.
  unfold Qmax. destruct (Qle_bool a b) eqn:E; [lra|].
  assert (Qlt_bool b a = true) by (unfold Qlt_bool; rewrite E; auto).
  apply Qlt_bool_R in H. lra.
Qed.

(** upper bound of the support value  sup { x.n | x in s } *)
Fixpoint hi (s : sh) (n : VQ) : Q :=
  match s with
  | Pt c => qdot c n
  | Seg v => Qabs (qdot v n)
  | Ell a1 a2 a3 =>
    let b1 := qdot a1 n in let b2 := qdot a2 n in let b3 := qdot a3 n in
    qsqrt_hi (b1 * b1 + b2 * b2 + b3 * b3)
  | Sum a b => (hi a n + hi b n)%Q
  | HullPts ps =>
    match ps with
    | [] => 0%Q
    | p :: ps' => fold_left (fun m q => Qmax m (qdot q n)) ps' (qdot p n)
    end
  | HullU a b => Qmax (hi a n) (hi b n)
  end.

Lemma fold_max_ge n : forall ps m,
  (Q2R m <= Q2R (fold_left (fun m q => Qmax m (qdot q n)) ps m))%R /\
  forall p, In p ps -> (Q2R (qdot p n) <= Q2R (fold_left (fun m q => Qmax m (qdot q n)) ps m))%R.
Proof.
  induction ps as [|q ps IH]; intros m; simpl.
  - split; [lra|tauto].
  - destruct (IH (Qmax m (qdot q n))) as (H1 & H2). split.
    + pose proof (Qmax_l m (qdot q n)). lra.
    + intros p [->|Hp]; auto. pose proof (Qmax_r m (qdot p n)). lra.
Qed.

Lemma Q2R_Qabs x : Q2R (Qabs x) = Rabs (Q2R x).
Proof.
  destruct (Qlt_le_dec x 0) as [H|H].
  - rewrite Qabs_neg by (apply Qlt_le_weak; auto). q2r.
    apply Qlt_Rlt in H. rewrite Q2R_0 in H. rewrite Rabs_left; lra.
  - rewrite Qabs_pos by auto. apply Qle_Rle in H. rewrite Q2R_0 in H. rewrite Rabs_right; lra.
Qed.

Theorem hi_sound : forall s n x, sem s x -> (dot x (v2r n) <= Q2R (hi s n))%R.
Proof.
  induction s as [c|v|a1 a2 a3|a IHa b IHb|ps|a IHa b IHb]; intros n x Hx; simpl in Hx.
  - subst. cbn [hi]. rewrite qdot_r. apply Rle_refl.
  - destruct Hx as (t & Ht & ->). cbn [hi]. rewrite Q2R_Qabs, qdot_r, dot_scale_l.
    unfold Rabs. destruct (Rcase_abs (dot (v2r v) (v2r n))); nra.
  - destruct Hx as (t1 & t2 & t3 & Ht & ->). cbn [hi].
    set (b1 := qdot a1 n). set (b2 := qdot a2 n). set (b3 := qdot a3 n).
    eapply Rle_trans; [|apply qsqrt_hi_sound]. q2r.
    rewrite !dot_add_l, !dot_scale_l. unfold b1, b2, b3. rewrite !qdot_r.
    set (u1 := dot (v2r a1) (v2r n)). set (u2 := dot (v2r a2) (v2r n)). set (u3 := dot (v2r a3) (v2r n)).
    clearbody u1 u2 u3.
    pose proof (cauchy_schwarz (V t1 t2 t3) (V u1 u2 u3)) as HC.
    assert (Hn : (norm (V t1 t2 t3) <= 1)%R).
    { unfold norm. cbn [sqrt ROps]. rewrite <- sqrt_1. apply sqrt_le_1; vunfold; nra. }
    pose proof (norm_nonneg (V u1 u2 u3)) as Hu.
    assert (HE : norm (V u1 u2 u3) = R_sqrt.sqrt (u1 * u1 + u2 * u2 + u3 * u3)) by (unfold norm; vunfold; reflexivity).
    rewrite <- HE.
    assert (HD : dot (V t1 t2 t3) (V u1 u2 u3) = (t1 * u1 + (t2 * u2 + t3 * u3))%R) by (vunfold; ring).
    pose proof (norm_nonneg (V t1 t2 t3)). nra.
  - destruct Hx as (y & z & Hy & Hz & ->). cbn [hi]. q2r. rewrite dot_add_l.
    specialize (IHa n y Hy). specialize (IHb n z Hz). lra.
  - cbn [hi]. destruct ps as [|p ps].
    + destruct Hx as (ws & Hl & _ & Hs & _). destruct ws; simpl in *; [lra|discriminate].
    + rewrite dot_comm. eapply hull_linear_bound; [|exact Hx].
      intros q Hq. apply in_map_iff in Hq as (q0 & <- & Hq0). rewrite dot_comm, <- qdot_r.
      destruct (fold_max_ge n ps (qdot p n)) as (H1 & H2).
      destruct Hq0 as [<-|Hq0]; auto.
  - destruct Hx as (y & z & t & Hy & Hz & Ht & ->). cbn [hi].
    rewrite dot_add_l, !dot_scale_l.
    specialize (IHa n y Hy). specialize (IHb n z Hz).
    pose proof (Qmax_l (hi a n) (hi b n)). pose proof (Qmax_r (hi a n) (hi b n)). nra.
Qed.

(** ** membership witnesses *)
Inductive wit :=
| WPt
| WSeg (t : Q)
| WEll (t1 t2 t3 : Q)
| WSum (w1 w2 : wit)
| WHull (ws : list Q)
| WHullU (t : Q) (w1 w2 : wit).

Fixpoint qcomb (ws : list Q) (ps : list VQ) : VQ :=
  match ws, ps with
  | w :: ws', p :: ps' => qadd (qscale w p) (qcomb ws' ps')
  | _, _ => qzero
  end.
Fixpoint qsum (ws : list Q) : Q := match ws with [] => 0%Q | w :: ws' => (w + qsum ws')%Q end.

(** the point a witness denotes, if the witness is valid for the shape *)
Fixpoint point_of (s : sh) (w : wit) : option VQ :=
  match s, w with
  | Pt c, WPt => Some c
  | Seg v, WSeg t => if Qle_bool (-1) t && Qle_bool t 1 then Some (qscale t v) else None
  | Ell a1 a2 a3, WEll t1 t2 t3 =>
    if Qle_bool (t1 * t1 + t2 * t2 + t3 * t3) 1
    then Some (qadd (qscale t1 a1) (qadd (qscale t2 a2) (qscale t3 a3))) else None
  | Sum a b, WSum w1 w2 =>
    match point_of a w1, point_of b w2 with
    | Some y, Some z => Some (qadd y z)
    | _, _ => None
    end
  | HullPts ps, WHull ws =>
    if (length ws =? length ps)%nat && forallb (fun w => Qle_bool 0 w) ws && Qeq_bool (qsum ws) 1
    then Some (qcomb ws ps) else None
  | HullU a b, WHullU t w1 w2 =>
    if Qle_bool 0 t && Qle_bool t 1 then
      match point_of a w1, point_of b w2 with
      | Some y, Some z => Some (qadd (qscale (1 - t) y) (qscale t z))
      | _, _ => None
      end
    else None
  | _, _ => None
  end.

Lemma qcomb_r : forall ws ps, v2r (qcomb ws ps) = comb (map Q2R ws) (map v2r ps).
Proof.
  induction ws as [|w ws IH]; intros [|p ps]; simpl; try apply qzero_r.
  rewrite qadd_r, qscale_r, IH. reflexivity.
Qed.
Lemma qsum_r : forall ws, Q2R (qsum ws) = Convex.sum (map Q2R ws).
Proof. induction ws as [|w ws IH]; simpl; [apply Q2R_0|]. q2r. rewrite IH. reflexivity. Qed.

Theorem point_of_sound : forall s w q, point_of s w = Some q -> sem s (v2r q).
Proof.
  induction s as [c|v|a1 a2 a3|a IHa b IHb|ps|a IHa b IHb]; intros w q H; destruct w; simpl in H; try discriminate.
  - inversion H; subst. simpl. reflexivity.
  - destruct (Qle_bool (-1) t) eqn:E1; [|discriminate]. destruct (Qle_bool t 1) eqn:E2; [|discriminate].
    simpl in H. inversion H; subst. simpl. exists (Q2R t).
    apply Qle_bool_R in E1, E2. rewrite Q2R_m1 in E1. rewrite Q2R_1 in E2.
    split; [lra|]. apply qscale_r.
  - destruct (Qle_bool _ 1) eqn:E; [|discriminate]. inversion H; subst. simpl.
    exists (Q2R t1), (Q2R t2), (Q2R t3). apply Qle_bool_R in E. q2r. rewrite Q2R_1 in E.
    split; [lra|]. rewrite !qadd_r, !qscale_r. reflexivity.
  - destruct (point_of a w1) as [y|] eqn:E1; [|discriminate].
    destruct (point_of b w2) as [z|] eqn:E2; [|discriminate].
    inversion H; subst. simpl. exists (v2r y), (v2r z). repeat split; eauto. apply qadd_r.
  - destruct (length ws =? length ps)%nat eqn:E1; [|discriminate].
    destruct (forallb (fun w => Qle_bool 0 w) ws) eqn:E2; [|discriminate].
    destruct (Qeq_bool (qsum ws) 1) eqn:E3; [|discriminate].
    simpl in H. inversion H; subst. simpl. exists (map Q2R ws).
    apply Nat.eqb_eq in E1. rewrite !map_length. split; [auto|]. split; [|split].
    + rewrite forallb_forall in E2. apply Forall_forall. intros r Hr.
      apply in_map_iff in Hr as (w & <- & Hw). specialize (E2 w Hw). apply Qle_bool_R in E2.
      rewrite Q2R_0 in E2. exact E2.
    + apply Qeq_bool_eq in E3. apply Qeq_eqR in E3. rewrite qsum_r, Q2R_1 in E3. exact E3.
    + apply qcomb_r.
  - destruct (Qle_bool 0 t) eqn:E1; [|discriminate]. destruct (Qle_bool t 1) eqn:E2; [|discriminate].
    simpl in H.
    destruct (point_of a w1) as [y|] eqn:E3; [|discriminate].
    destruct (point_of b w2) as [z|] eqn:E4; [|discriminate].
    inversion H; subst. simpl. exists (v2r y), (v2r z), (Q2R t).
    apply Qle_bool_R in E1, E2. rewrite Q2R_0 in E1. rewrite Q2R_1 in E2.
    repeat split; eauto; try lra.
    rewrite qadd_r, !qscale_r. q2r. rewrite Q2R_1. reflexivity.
Qed.

(** ** the certificates *)
Definition qnorm2 (a : VQ) : Q := qdot a a.

(** [p] is within [tau] of the shape: the witness denotes a point of the shape at
    squared distance <= tau^2 from [p] *)
Definition in_shape_tol (s : sh) (w : wit) (p : VQ) (tau : Q) : bool :=
  match point_of s w with
  | Some q => Qle_bool 0 tau && Qle_bool (qnorm2 (qsub p q)) (tau * tau)
  | None => false
  end.

Theorem in_shape_tol_sound s w p tau :
  in_shape_tol s w p tau = true ->
  exists q, sem s q /\ (norm (vsub (v2r p) q) <= Q2R tau)%R.
Proof.
  unfold in_shape_tol. destruct (point_of s w) as [q|] eqn:E; [|discriminate].
  intros H. apply andb_true_iff in H as (H0 & H1).
  exists (v2r q). split; [eapply point_of_sound; eauto|].
  apply Qle_bool_R in H0, H1. rewrite Q2R_0 in H0. unfold qnorm2 in H1. rewrite qdot_r, qsub_r in H1. q2r.
  pose proof (norm_nonneg (vsub (v2r p) (v2r q))) as Hn.
  pose proof (norm_sq (vsub (v2r p) (v2r q))) as Hs.
  apply Rsqr_incr_0_var; auto. unfold Rsqr. lra.
Qed.

(** direction [n] separates [A] (below) from [B] (above) by at least [g]:
      inf_B x.n - sup_A x.n >= g * |n|   with  |n| over-approximated *)
Definition sep_cert (A B : sh) (n : VQ) (g : Q) : bool :=
  Qle_bool 0 g && Qlt_bool 0 (qnorm2 n) &&
  Qle_bool (g * qsqrt_hi (qnorm2 n)) (- hi B (qneg n) - hi A n).

Theorem sep_cert_sound A B n g :
  sep_cert A B n g = true -> dist_ge (sem A) (sem B) (Q2R g).
Proof.
  unfold sep_cert. intros H. apply andb_true_iff in H as (H & H2). apply andb_true_iff in H as (H0 & H1).
  apply Qle_bool_R in H0, H2. apply Qlt_bool_R in H1. rewrite Q2R_0 in H0, H1. q2r.
  unfold qnorm2 in *. rewrite qdot_r in H1.
  intros a b Ha Hb.
  pose proof (hi_sound A n a Ha) as HA. pose proof (hi_sound B (qneg n) b Hb) as HB.
  rewrite qneg_r in HB. rewrite dot_comm, dot_neg_l, dot_comm in HB.
  pose proof (separating_direction_gen (sem A) (sem B) (v2r n) (Q2R (hi A n)) (- Q2R (hi B (qneg n)))) as HS.
  assert (HA' : forall a, sem A a -> (dot a (v2r n) <= Q2R (hi A n))%R) by (intros; apply hi_sound; auto).
  assert (HB' : forall b, sem B b -> (- Q2R (hi B (qneg n)) <= dot b (v2r n))%R).
  { intros b0 Hb0. pose proof (hi_sound B (qneg n) b0 Hb0) as Hx.
    rewrite qneg_r in Hx. rewrite dot_comm, dot_neg_l, dot_comm in Hx. lra. }
  specialize (HS HA' HB' a b Ha Hb).
  pose proof (qsqrt_hi_sound (qdot n n)) as Hq. rewrite qdot_r in Hq.
  assert (Hnn : norm (v2r n) = R_sqrt.sqrt (dot (v2r n) (v2r n))) by reflexivity.
  rewrite <- Hnn in Hq.
  assert (Hpos : (0 < norm (v2r n))%R).
  { pose proof (norm_nonneg (v2r n)). pose proof (norm_sq (v2r n)). nra. }
  pose proof (norm_nonneg (vsub a b)) as Hab.
  (* g * |n| <= g * hi <= beta - alpha <= |a-b| * |n| *)
  assert (Q2R g * norm (v2r n) <= norm (vsub a b) * norm (v2r n))%R by nra.
  apply Rmult_le_reg_r with (norm (v2r n)); auto.
Qed.

(** two witnesses prove the distance is at most [g] *)
Definition near_cert (A B : sh) (wa wb : wit) (g : Q) : bool :=
  match point_of A wa, point_of B wb with
  | Some a, Some b => Qle_bool 0 g && Qle_bool (qnorm2 (qsub a b)) (g * g)
  | _, _ => false
  end.

Theorem near_cert_sound A B wa wb g :
  near_cert A B wa wb g = true -> dist_le (sem A) (sem B) (Q2R g).
Proof.
  unfold near_cert. destruct (point_of A wa) as [a|] eqn:Ea; [|discriminate].
  destruct (point_of B wb) as [b|] eqn:Eb; [|discriminate].
  intros H. apply andb_true_iff in H as (H0 & H1).
  exists (v2r a), (v2r b). split; [eapply point_of_sound; eauto|]. split; [eapply point_of_sound; eauto|].
  apply Qle_bool_R in H0, H1. rewrite Q2R_0 in H0. unfold qnorm2 in H1. rewrite qdot_r, qsub_r in H1. q2r.
  pose proof (norm_nonneg (vsub (v2r a) (v2r b))) as Hn.
  pose proof (norm_sq (vsub (v2r a) (v2r b))) as Hs.
  apply Rsqr_incr_0_var; auto. unfold Rsqr. lra.
Qed.

(** translation of a shape (used for "move B by the returned vector") *)
Definition shift (t : VQ) (s : sh) : sh := Sum (Pt t) s.
Lemma shift_sem t s x : sem (shift t s) x <-> sem s (vsub x (v2r t)).
Proof.
  simpl. split.
  - intros (y & z & -> & Hz & ->). replace (vsub (vadd (v2r t) z) (v2r t)) with z; auto.
    vsimp. f_equal; ring.
  - intros H. exists (v2r t), (vsub x (v2r t)). repeat split; auto. vsimp. f_equal; ring.
Qed.
