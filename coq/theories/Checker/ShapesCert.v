(** * Proof-carrying verdicts for C03 / C04 / C13: exact rational certificate checkers for
      "s is a support point of S along d up to tau", "the box (lo, hi) encloses S and is
      tight up to tau", "p is at least g away from S" and "p is a point of S", built on the
      shape expressions, [hi] (upper bound of the support value) and [point_of] (membership
      witness) of Checker/Shapes.v, with soundness theorems over the reals.

    The harness evaluates these checkers with [vm_compute] on the exact rationals of the
    floats the implementation was given and returned; an accepted certificate makes the
    verdict for that input a consequence of the theorem below (the witnesses are untrusted
    hints computed in floating point). *)
From Coq Require Import QArith Qabs Qreals Reals Lra Lia ZArith List Psatz Bool.
From D3 Require Import Base.Ops Base.Vec Base.RVec Spec.Convex Checker.Shapes.
Import ListNotations.

(** a rational lower bound of |d|: the largest coordinate magnitude *)
Definition qabs_max (d : VQ) : Q := Qmax (Qabs (vx d)) (Qmax (Qabs (vy d)) (Qabs (vz d))).

Lemma Rabs_coord_le_norm (v : V3R) :
  (Rabs (vx v) <= norm v /\ Rabs (vy v) <= norm v /\ Rabs (vz v) <= norm v)%R.
Proof.
  pose proof (norm_nonneg v) as Hn. pose proof (norm_sq v) as Hs.
  destruct v as [a b c]. cbn [vx vy vz]. unfold dot in Hs. cbn [vx vy vz add mul ROps] in Hs.
  assert (forall x, (x * x <= norm (V a b c) * norm (V a b c) -> Rabs x <= norm (V a b c))%R).
  { intros x Hx. unfold Rabs. destruct (Rcase_abs x); nra. }
  repeat split; apply H; nra.
Qed.

Lemma qabs_max_le_norm (d : VQ) : (Q2R (qabs_max d) <= norm (v2r d))%R.
Proof.
  unfold qabs_max.
  destruct (Rabs_coord_le_norm (v2r d)) as (A & B & C). unfold v2r in A, B, C. cbn [vx vy vz] in A, B, C.
  rewrite <- !Q2R_Qabs in A, B, C.
  unfold Qmax. repeat match goal with |- context [Qle_bool ?a ?b] => destruct (Qle_bool a b) end; auto.
Qed.

Lemma qabs_max_nonneg (d : VQ) : (0 <= Q2R (qabs_max d))%R.
Proof.
  pose proof (Qmax_l (Qabs (vx d)) (Qmax (Qabs (vy d)) (Qabs (vz d)))) as H.
  rewrite Q2R_Qabs in H. pose proof (Rabs_pos (Q2R (vx d))). unfold qabs_max. lra.
Qed.

(** ** dyadic normalisation.  Every binary64 number is m * 2^e, but [Qplus] / [Qmult] never
       reduce, so denominators multiply at every step and [vm_compute] ends up multiplying
       numbers of thousands of bits.  [dred] strips the common factors of two (value
       preserved); [hiD] is [hi] with [dred] after every arithmetic step. *)
Fixpoint strip2 (n d : positive) : positive * positive :=
  match n, d with
  | xO n', xO d' => strip2 n' d'
  | _, _ => (n, d)
  end.
Lemma strip2_spec : forall n d, (Zpos n * Zpos (snd (strip2 n d)) = Zpos (fst (strip2 n d)) * Zpos d)%Z.
Proof.
  induction n as [n IH|n IH|]; intros [d|d|]; cbn [strip2 fst snd]; try reflexivity.
  specialize (IH d). rewrite (Pos2Z.inj_xO n), (Pos2Z.inj_xO d). nia.
Qed.
Definition dred (q : Q) : Q :=
  match Qnum q with
  | Z0 => 0%Q
  | Zpos n => let '(n', d') := strip2 n (Qden q) in (Zpos n' # d')
  | Zneg n => let '(n', d') := strip2 n (Qden q) in (Zneg n' # d')
  end.
Lemma dred_eq q : (dred q == q)%Q.
Proof.
  destruct q as [[|n|n] d]; unfold dred; cbn [Qnum Qden].
  - unfold Qeq; cbn; reflexivity.
  - pose proof (strip2_spec n d) as H. destruct (strip2 n d) as [n' d']. cbn [fst snd] in H.
    unfold Qeq; cbn [Qnum Qden]. lia.
  - pose proof (strip2_spec n d) as H. destruct (strip2 n d) as [n' d']. cbn [fst snd] in H.
    unfold Qeq; cbn [Qnum Qden]. rewrite <- !Pos2Z.opp_pos. lia.
Qed.
Lemma dred_r q : Q2R (dred q) = Q2R q.
Proof. apply Qeq_eqR. apply dred_eq. Qed.

Definition qdotD (a b : VQ) : Q :=
  dred (dred (dred (vx a * vx b) + dred (vy a * vy b)) + dred (vz a * vz b)).
Lemma qdotD_r a b : Q2R (qdotD a b) = dot (v2r a) (v2r b).
Proof. unfold qdotD. rewrite !dred_r. q2r. rewrite !dred_r. q2r. rewrite !dred_r. q2r. unfold v2r. vunfold. ring. Qed.

Fixpoint hiD (s : sh) (n : VQ) : Q :=
  match s with
  | Pt c => qdotD c n
  | Seg v => Qabs (qdotD v n)
  | Ell a1 a2 a3 =>
    let b1 := qdotD a1 n in let b2 := qdotD a2 n in let b3 := qdotD a3 n in
    qsqrt_hi (dred (dred (dred (b1 * b1) + dred (b2 * b2)) + dred (b3 * b3)))
  | Sum a b => dred (hiD a n + hiD b n)
  | HullPts ps =>
    match ps with
    | [] => 0%Q
    | p :: ps' => fold_left (fun m q => Qmax m (qdotD q n)) ps' (qdotD p n)
    end
  | HullU a b => Qmax (hiD a n) (hiD b n)
  end.

Lemma fold_maxD_ge n : forall ps m,
  (Q2R m <= Q2R (fold_left (fun m q => Qmax m (qdotD q n)) ps m))%R /\
  forall p, In p ps -> (Q2R (qdotD p n) <= Q2R (fold_left (fun m q => Qmax m (qdotD q n)) ps m))%R.
Proof.
  induction ps as [|q ps IH]; intros m; simpl.
  - split; [lra|tauto].
  - destruct (IH (Qmax m (qdotD q n))) as (H1 & H2). split.
    + pose proof (Qmax_l m (qdotD q n)). lra.
    + intros p [->|Hp]; auto. pose proof (Qmax_r m (qdotD p n)). lra.
Qed.

Theorem hiD_sound : forall s n x, sem s x -> (dot x (v2r n) <= Q2R (hiD s n))%R.
Proof.
  induction s as [c|v|a1 a2 a3|a IHa b IHb|ps|a IHa b IHb]; intros n x Hx; simpl in Hx.
  - subst. cbn [hiD]. rewrite qdotD_r. apply Rle_refl.
  - destruct Hx as (t & Ht & ->). cbn [hiD]. rewrite Q2R_Qabs, qdotD_r, dot_scale_l.
    unfold Rabs. destruct (Rcase_abs (dot (v2r v) (v2r n))); nra.
  - destruct Hx as (t1 & t2 & t3 & Ht & ->). cbn [hiD].
    eapply Rle_trans; [|apply qsqrt_hi_sound].
    rewrite !dred_r. q2r. rewrite !dred_r. q2r. rewrite !dred_r. q2r. rewrite !qdotD_r.
    rewrite !dot_add_l, !dot_scale_l.
    set (u1 := dot (v2r a1) (v2r n)). set (u2 := dot (v2r a2) (v2r n)). set (u3 := dot (v2r a3) (v2r n)).
    clearbody u1 u2 u3.
    pose proof (cauchy_schwarz (V t1 t2 t3) (V u1 u2 u3)) as HC.
    assert (Hn : (norm (V t1 t2 t3) <= 1)%R).
    { unfold norm. cbn [sqrt ROps]. rewrite <- sqrt_1. apply sqrt_le_1; vunfold; nra. }
    pose proof (norm_nonneg (V u1 u2 u3)) as Hu.
    assert (HE : norm (V u1 u2 u3) = R_sqrt.sqrt (u1 * u1 + u2 * u2 + u3 * u3)) by (unfold norm; vunfold; reflexivity).
    rewrite <- HE.
    assert (HD : dot (V t1 t2 t3) (V u1 u2 u3) = (t1 * u1 + (t2 * u2 + t3 * u3))%R) by (vunfold; ring).
    pose proof (norm_nonneg (V t1 t2 t3)). nra.
  - destruct Hx as (y & z & Hy & Hz & ->). cbn [hiD]. rewrite dred_r. q2r. rewrite dot_add_l.
    specialize (IHa n y Hy). specialize (IHb n z Hz). lra.
  - cbn [hiD]. destruct ps as [|p ps].
    + destruct Hx as (ws & Hl & _ & Hs & _). destruct ws; simpl in *; [lra|discriminate].
    + rewrite dot_comm. eapply hull_linear_bound; [|exact Hx].
      intros q Hq. apply in_map_iff in Hq as (q0 & <- & Hq0). rewrite dot_comm, <- qdotD_r.
      destruct (fold_maxD_ge n ps (qdotD p n)) as (H1 & H2).
      destruct Hq0 as [<-|Hq0]; auto.
  - destruct Hx as (y & z & t & Hy & Hz & Ht & ->). cbn [hiD].
    rewrite dot_add_l, !dot_scale_l.
    specialize (IHa n y Hy). specialize (IHb n z Hz).
    pose proof (Qmax_l (hiD a n) (hiD b n)). pose proof (Qmax_r (hiD a n) (hiD b n)). nra.
Qed.

(** the same for membership witnesses: [point_ofD] is [point_of] with [dred] after every step *)
Definition qaddD (a b : VQ) : VQ := V (dred (vx a + vx b)) (dred (vy a + vy b)) (dred (vz a + vz b)).
Definition qsubD (a b : VQ) : VQ := V (dred (vx a - vx b)) (dred (vy a - vy b)) (dred (vz a - vz b)).
Definition qscaleD (s : Q) (a : VQ) : VQ := V (dred (s * vx a)) (dred (s * vy a)) (dred (s * vz a)).
Lemma qaddD_r a b : v2r (qaddD a b) = vadd (v2r a) (v2r b).
Proof. unfold qaddD, v2r. vunfold. cbn [vx vy vz]. rewrite !dred_r. q2r. reflexivity. Qed.
Lemma qsubD_r a b : v2r (qsubD a b) = vsub (v2r a) (v2r b).
Proof. unfold qsubD, v2r. vunfold. cbn [vx vy vz]. rewrite !dred_r. q2r. reflexivity. Qed.
Lemma qscaleD_r s a : v2r (qscaleD s a) = vscale (Q2R s) (v2r a).
Proof. unfold qscaleD, v2r. vunfold. cbn [vx vy vz]. rewrite !dred_r. q2r. reflexivity. Qed.

Fixpoint qcombD (ws : list Q) (ps : list VQ) : VQ :=
  match ws, ps with
  | w :: ws', p :: ps' => qaddD (qscaleD w p) (qcombD ws' ps')
  | _, _ => qzero
  end.
Lemma qcombD_r : forall ws ps, v2r (qcombD ws ps) = comb (map Q2R ws) (map v2r ps).
Proof.
  induction ws as [|w ws IH]; intros [|p ps]; simpl; try apply qzero_r.
  rewrite qaddD_r, qscaleD_r, IH. reflexivity.
Qed.
Fixpoint qsumD (ws : list Q) : Q := match ws with [] => 0%Q | w :: ws' => dred (w + qsumD ws') end.
Lemma qsumD_r : forall ws, Q2R (qsumD ws) = Convex.sum (map Q2R ws).
Proof. induction ws as [|w ws IH]; simpl; [apply Q2R_0|]. rewrite dred_r. q2r. rewrite IH. reflexivity. Qed.

Fixpoint point_ofD (s : sh) (w : wit) : option VQ :=
  match s, w with
  | Pt c, WPt => Some c
  | Seg v, WSeg t => if Qle_bool (-1) t && Qle_bool t 1 then Some (qscaleD t v) else None
  | Ell a1 a2 a3, WEll t1 t2 t3 =>
    if Qle_bool (t1 * t1 + t2 * t2 + t3 * t3) 1
    then Some (qaddD (qscaleD t1 a1) (qaddD (qscaleD t2 a2) (qscaleD t3 a3))) else None
  | Sum a b, WSum w1 w2 =>
    match point_ofD a w1, point_ofD b w2 with
    | Some y, Some z => Some (qaddD y z)
    | _, _ => None
    end
  | HullPts ps, WHull ws =>
    if (length ws =? length ps)%nat && forallb (fun w => Qle_bool 0 w) ws && Qeq_bool (qsumD ws) 1
    then Some (qcombD ws ps) else None
  | HullU a b, WHullU t w1 w2 =>
    if Qle_bool 0 t && Qle_bool t 1 then
      match point_ofD a w1, point_ofD b w2 with
      | Some y, Some z => Some (qaddD (qscaleD (1 - t) y) (qscaleD t z))
      | _, _ => None
      end
    else None
  | _, _ => None
  end.

Theorem point_ofD_sound : forall s w q, point_ofD s w = Some q -> sem s (v2r q).
Proof.
  induction s as [c|v|a1 a2 a3|a IHa b IHb|ps|a IHa b IHb]; intros w q H; destruct w; simpl in H; try discriminate.
  - inversion H; subst. simpl. reflexivity.
  - destruct (Qle_bool (-1) t) eqn:E1; [|discriminate]. destruct (Qle_bool t 1) eqn:E2; [|discriminate].
    simpl in H. inversion H; subst. simpl. exists (Q2R t).
    apply Qle_bool_R in E1, E2. rewrite Q2R_m1 in E1. rewrite Q2R_1 in E2.
    split; [lra|]. apply qscaleD_r.
  - destruct (Qle_bool _ 1) eqn:E; [|discriminate]. inversion H; subst. simpl.
    exists (Q2R t1), (Q2R t2), (Q2R t3). apply Qle_bool_R in E. q2r. rewrite Q2R_1 in E.
    split; [lra|]. rewrite !qaddD_r, !qscaleD_r. reflexivity.
  - destruct (point_ofD a w1) as [y|] eqn:E1; [|discriminate].
    destruct (point_ofD b w2) as [z|] eqn:E2; [|discriminate].
    inversion H; subst. simpl. exists (v2r y), (v2r z). repeat split; eauto. apply qaddD_r.
  - destruct (length ws =? length ps)%nat eqn:E1; [|discriminate].
    destruct (forallb (fun w => Qle_bool 0 w) ws) eqn:E2; [|discriminate].
    destruct (Qeq_bool (qsumD ws) 1) eqn:E3; [|discriminate].
    simpl in H. inversion H; subst. simpl. exists (map Q2R ws).
    apply Nat.eqb_eq in E1. rewrite !map_length. split; [auto|]. split; [|split].
    + rewrite forallb_forall in E2. apply Forall_forall. intros r Hr.
      apply in_map_iff in Hr as (w & <- & Hw). specialize (E2 w Hw). apply Qle_bool_R in E2.
      rewrite Q2R_0 in E2. exact E2.
    + apply Qeq_bool_eq in E3. apply Qeq_eqR in E3. rewrite qsumD_r, Q2R_1 in E3. exact E3.
    + apply qcombD_r.
  - destruct (Qle_bool 0 t) eqn:E1; [|discriminate]. destruct (Qle_bool t 1) eqn:E2; [|discriminate].
    simpl in H.
    destruct (point_ofD a w1) as [y|] eqn:E3; [|discriminate].
    destruct (point_ofD b w2) as [z|] eqn:E4; [|discriminate].
    inversion H; subst. simpl. exists (v2r y), (v2r z), (Q2R t).
    apply Qle_bool_R in E1, E2. rewrite Q2R_0 in E1. rewrite Q2R_1 in E2.
    repeat split; eauto; try lra.
    rewrite qaddD_r, !qscaleD_r. q2r. rewrite Q2R_1. reflexivity.
Qed.

Definition in_shape_tolD (s : sh) (w : wit) (p : VQ) (tau : Q) : bool :=
  match point_ofD s w with
  | Some q => Qle_bool 0 tau && Qle_bool (qdotD (qsubD p q) (qsubD p q)) (tau * tau)
  | None => false
  end.

Theorem in_shape_tolD_sound s w p tau :
  in_shape_tolD s w p tau = true ->
  exists q, sem s q /\ (norm (vsub (v2r p) q) <= Q2R tau)%R.
Proof.
  unfold in_shape_tolD. destruct (point_ofD s w) as [q|] eqn:E; [|discriminate].
  intros H. apply andb_true_iff in H as (H0 & H1).
  exists (v2r q). split; [eapply point_ofD_sound; eauto|].
  apply Qle_bool_R in H0, H1. rewrite Q2R_0 in H0. rewrite qdotD_r, qsubD_r in H1. q2r.
  pose proof (norm_nonneg (vsub (v2r p) (v2r q))) as Hn.
  pose proof (norm_sq (vsub (v2r p) (v2r q))) as Hs.
  apply Rsqr_incr_0_var; auto. unfold Rsqr. lra.
Qed.

(** ** C03: s is within tau of a point of S, and no point of S projects further than
       s.d + sigma (the harness passes sigma = tau, the property's absolute tolerance) *)
Definition support_cert (S : sh) (w : wit) (s d : VQ) (tau sigma : Q) : bool :=
  in_shape_tolD S w s tau && Qle_bool (hiD S d) (qdotD s d + sigma).

Theorem support_cert_sound S w s d tau sigma :
  support_cert S w s d tau sigma = true ->
  (exists q, sem S q /\ (norm (vsub (v2r s) q) <= Q2R tau)%R) /\
  (forall x, sem S x -> (dot x (v2r d) <= dot (v2r s) (v2r d) + Q2R sigma)%R).
Proof.
  unfold support_cert. intros H. apply andb_true_iff in H as (H1 & H2).
  pose proof (in_shape_tolD_sound _ _ _ _ H1) as (q & Hq & Hd).
  split; [eauto|]. intros x Hx.
  pose proof (hiD_sound S d x Hx) as Hh. apply Qle_bool_R in H2. q2r. rewrite qdotD_r in H2. lra.
Qed.

(** scale-free variant: slack tau * max_i |d_i|  (<= tau * |d|) *)
Definition support_cert_rel (S : sh) (w : wit) (s d : VQ) (tau : Q) : bool :=
  support_cert S w s d tau (tau * qabs_max d).

Theorem support_cert_rel_sound S w s d tau :
  support_cert_rel S w s d tau = true ->
  (exists q, sem S q /\ (norm (vsub (v2r s) q) <= Q2R tau)%R) /\
  (forall x, sem S x -> (dot x (v2r d) <= dot (v2r s) (v2r d) + Q2R tau * norm (v2r d))%R).
Proof.
  intros H. apply support_cert_sound in H. destruct H as [(q & Hq & Hd) Hm].
  split; [eauto|]. intros x Hx. specialize (Hm x Hx). q2r.
  pose proof (qabs_max_le_norm d) as Hmx. pose proof (qabs_max_nonneg d) as Hm0.
  assert (Ht : (0 <= Q2R tau)%R).
  { pose proof (norm_nonneg (vsub (v2r s) q)). lra. }
  nra.
Qed.

(** directions of extreme magnitude (components like 1e-300) are rescaled by the harness with a
    power of two [c]: the checker verifies [dc = c * d] exactly and works with [dc] *)
Definition veq_bool (a b : VQ) : bool := Qeq_bool (vx a) (vx b) && Qeq_bool (vy a) (vy b) && Qeq_bool (vz a) (vz b).
Definition support_cert_scaled (S : sh) (w : wit) (s d dc : VQ) (c tau : Q) : bool :=
  Qlt_bool 0 c && veq_bool (qscale c d) dc && support_cert S w s dc tau (c * tau).

Theorem support_cert_scaled_sound S w s d dc c tau :
  support_cert_scaled S w s d dc c tau = true ->
  (exists q, sem S q /\ (norm (vsub (v2r s) q) <= Q2R tau)%R) /\
  (forall x, sem S x -> (dot x (v2r d) <= dot (v2r s) (v2r d) + Q2R tau)%R).
Proof.
  unfold support_cert_scaled. intros H. apply andb_true_iff in H as (H & H3). apply andb_true_iff in H as (H1 & H2).
  apply Qlt_bool_R in H1. rewrite Q2R_0 in H1.
  apply support_cert_sound in H3. destruct H3 as [Hm Hv]. split; auto.
  intros x Hx. specialize (Hv x Hx). q2r.
  assert (E : v2r dc = vscale (Q2R c) (v2r d)).
  { rewrite <- qscale_r. unfold veq_bool in H2.
    apply andb_true_iff in H2 as (H2 & Hz). apply andb_true_iff in H2 as (Hx' & Hy).
    apply Qeq_bool_eq in Hx', Hy, Hz. apply Qeq_eqR in Hx', Hy, Hz.
    unfold v2r. rewrite Hx', Hy, Hz. reflexivity. }
  rewrite E, !dot_scale_r in Hv. nra.
Qed.

(** ** C04: the box (lo, hi) encloses S up to tau and each bound is attained up to tau *)
Definition qe (k : nat) : VQ := match k with 0%nat => V 1 0 0 | 1%nat => V 0 1 0 | _ => V 0 0 1 end.
Definition qnth (v : VQ) (k : nat) : Q := match k with 0%nat => vx v | 1%nat => vy v | _ => vz v end.

Lemma qe_r k : v2r (qe k) = match k with 0%nat => V 1 0 0 | 1%nat => V 0 1 0 | _ => V 0 0 1 end%R.
Proof. destruct k as [|[|k]]; unfold qe, v2r; cbn [vx vy vz]; rewrite ?Q2R_0, ?Q2R_1; reflexivity. Qed.
Lemma dot_qe_r (x : V3R) k : dot x (v2r (qe k)) = nthv x k.
Proof. rewrite qe_r. destruct x as [x0 x1 x2]. destruct k as [|[|k]]; vunfold; cbn [nthv vx vy vz]; ring. Qed.
Lemma qnth_r v k : Q2R (qnth v k) = nthv (v2r v) k.
Proof. destruct k as [|[|k]]; reflexivity. Qed.

Definition axis_cert (S : sh) (wlo whi : wit) (lo hi_ : VQ) (tau : Q) (k : nat) : bool :=
  Qle_bool (hiD S (qe k)) (qnth hi_ k + tau) &&
  Qle_bool (hiD S (qneg (qe k))) (- qnth lo k + tau) &&
  match point_ofD S whi with Some q => Qle_bool (qnth hi_ k - tau) (qnth q k) | None => false end &&
  match point_ofD S wlo with Some q => Qle_bool (qnth q k) (qnth lo k + tau) | None => false end.

(** [ws] = the six witnesses (lo_x, hi_x, lo_y, hi_y, lo_z, hi_z) *)
Definition aabb_cert (S : sh) (ws : wit * wit * wit * wit * wit * wit) (lo hi_ : VQ) (tau : Q) : bool :=
  let '(l0, h0, l1, h1, l2, h2) := ws in
  Qle_bool 0 tau && axis_cert S l0 h0 lo hi_ tau 0 && axis_cert S l1 h1 lo hi_ tau 1 && axis_cert S l2 h2 lo hi_ tau 2.

Lemma axis_cert_sound S wlo whi lo hi_ tau k :
  axis_cert S wlo whi lo hi_ tau k = true ->
  (forall x, sem S x -> (nthv (v2r lo) k - Q2R tau <= nthv x k <= nthv (v2r hi_) k + Q2R tau)%R) /\
  (exists q, sem S q /\ (nthv (v2r hi_) k - Q2R tau <= nthv q k)%R) /\
  (exists q, sem S q /\ (nthv q k <= nthv (v2r lo) k + Q2R tau)%R).
Proof.
  unfold axis_cert. intros H. apply andb_true_iff in H as (H & H4). apply andb_true_iff in H as (H & H3).
  apply andb_true_iff in H as (H1 & H2).
  apply Qle_bool_R in H1, H2. q2r. rewrite !qnth_r in *.
  split; [|split].
  - intros x Hx. pose proof (hiD_sound S (qe k) x Hx) as A. pose proof (hiD_sound S (qneg (qe k)) x Hx) as B.
    rewrite qneg_r in B. rewrite dot_comm, dot_neg_l, dot_comm in B. rewrite dot_qe_r in A, B. lra.
  - destruct (point_ofD S whi) as [q|] eqn:E; [|discriminate].
    exists (v2r q). split; [eapply point_ofD_sound; eauto|].
    apply Qle_bool_R in H3. q2r. rewrite !qnth_r in H3. exact H3.
  - destruct (point_ofD S wlo) as [q|] eqn:E; [|discriminate].
    exists (v2r q). split; [eapply point_ofD_sound; eauto|].
    apply Qle_bool_R in H4. q2r. rewrite !qnth_r in H4. exact H4.
Qed.

Theorem aabb_cert_sound S ws lo hi_ tau :
  aabb_cert S ws lo hi_ tau = true ->
  forall k, (k < 3)%nat ->
  (forall x, sem S x -> (nthv (v2r lo) k - Q2R tau <= nthv x k <= nthv (v2r hi_) k + Q2R tau)%R) /\
  (exists q, sem S q /\ (nthv (v2r hi_) k - Q2R tau <= nthv q k)%R) /\
  (exists q, sem S q /\ (nthv q k <= nthv (v2r lo) k + Q2R tau)%R).
Proof.
  destruct ws as [[[[[l0 h0] l1] h1] l2] h2]. unfold aabb_cert. intros H k Hk.
  apply andb_true_iff in H as (H & C2). apply andb_true_iff in H as (H & C1). apply andb_true_iff in H as (_ & C0).
  destruct k as [|[|[|k]]]; [| | |lia]; eapply axis_cert_sound; eauto.
Qed.

(** ** C13 *)
(** p is at least g away from every point of S (separating direction n):
      p.n - sup_S x.n >= g * |n|   with |n| over-approximated *)
Definition outside_cert (S : sh) (p n : VQ) (g : Q) : bool :=
  Qle_bool 0 g && Qlt_bool 0 (qdotD n n) && Qle_bool (g * qsqrt_hi (qdotD n n) + hiD S n) (qdotD p n).

Theorem outside_cert_sound S p n g :
  outside_cert S p n g = true -> forall x, sem S x -> (Q2R g <= norm (vsub x (v2r p)))%R.
Proof.
  unfold outside_cert. intros H x Hx.
  apply andb_true_iff in H as (H & H2). apply andb_true_iff in H as (H0 & H1).
  apply Qle_bool_R in H0, H2. apply Qlt_bool_R in H1. rewrite Q2R_0 in H0, H1. q2r. rewrite !qdotD_r in *.
  pose proof (hiD_sound S n x Hx) as Hh.
  pose proof (qsqrt_hi_sound (qdotD n n)) as Hq. rewrite qdotD_r in Hq.
  assert (Hnn : norm (v2r n) = R_sqrt.sqrt (dot (v2r n) (v2r n))) by reflexivity.
  rewrite <- Hnn in Hq.
  assert (Hpos : (0 < norm (v2r n))%R).
  { pose proof (norm_nonneg (v2r n)). pose proof (norm_sq (v2r n)). nra. }
  pose proof (cauchy_schwarz (vsub (v2r p) x) (v2r n)) as Hc. rewrite dot_sub_l in Hc.
  rewrite norm_sub_comm.
  pose proof (norm_nonneg (vsub (v2r p) x)) as Hab.
  assert (Q2R g * norm (v2r n) <= norm (vsub (v2r p) x) * norm (v2r n))%R by nra.
  apply Rmult_le_reg_r with (norm (v2r n)); auto.
Qed.

(** p is a point of S (exact membership witness) *)
Definition member_cert (S : sh) (w : wit) (p : VQ) : bool :=
  match point_of S w with
  | Some q => Qeq_bool (vx q) (vx p) && Qeq_bool (vy q) (vy p) && Qeq_bool (vz q) (vz p)
  | None => false
  end.

Theorem member_cert_sound S w p : member_cert S w p = true -> sem S (v2r p).
Proof.
  unfold member_cert. destruct (point_of S w) as [q|] eqn:E; [|discriminate]. intros H.
  apply andb_true_iff in H as (H & H3). apply andb_true_iff in H as (H1 & H2).
  apply Qeq_bool_eq in H1, H2, H3. apply Qeq_eqR in H1, H2, H3.
  pose proof (point_of_sound _ _ _ E) as Hq.
  replace (v2r p) with (v2r q); auto. unfold v2r. rewrite H1, H2, H3. reflexivity.
Qed.
