(** * Proof-carrying results for the primitive distance functions (C10 / C11).

    Executable checkers over Q (run by the harness with [vm_compute] on the exact rationals
    of the implementation's inputs and outputs) and their soundness over R with respect to
    the point sets of [Spec/Prims.v].  The tests mirror [harness/primlib.py]
    ([member], [dist2_upper], [sup_upper], [sep_cert]); poses, axes and normals are used as
    given (no unit length / orthonormality is assumed anywhere).

      member P y w            y is a point of P, w = up to three rational parameters proving it
      on_prim_tol P x y w t2  some point of P is within squared distance t2 of x
      consistent d p1 p2 tol  0 <= d and | |p1-p2| - d | <= tol
      c10_check               the three C10 verdicts of one result (d, p1, p2)
      phi P n                 rational upper bound of sup { x.n | x in P } (None: unbounded/unchecked)
      sep_cert A B n g        direction n proves dist(A, B) >= g
*)
From Coq Require Import QArith Qabs Qreals Reals Lra Lia ZArith List Psatz Bool.
From D3 Require Import Base.Ops Base.Vec Base.RVec Base.RVec2 Spec.Convex Spec.Prims Checker.Shapes.
Import ListNotations.

(** ** 1. the primitives *)
Inductive prim :=
| PPoint (p : VQ)
| PLine (p d : VQ)
| PSegment (s e : VQ)
| PPlane (p n : VQ)
| PTriangle (a b c : VQ)
| PRectangle (c a0 a1 : VQ) (l0 l1 : Q)
| PDisk (c : VQ) (r : Q) (n : VQ)
| PCircle (c : VQ) (r : Q) (n : VQ)
| PBox (c X Y Z sz : VQ)
| PEllipsoid (c X Y Z radii : VQ)
| PCylinder (c X Y Z : VQ) (r l : Q).

Definition prim_set (P : prim) : set3 :=
  match P with
  | PPoint p => point_set (v2r p)
  | PLine p d => line_set (v2r p) (v2r d)
  | PSegment s e => segment_set (v2r s) (v2r e)
  | PPlane p n => plane_set (v2r p) (v2r n)
  | PTriangle a b c => triangle_set (v2r a) (v2r b) (v2r c)
  | PRectangle c a0 a1 l0 l1 => rectangle_set (v2r c) (v2r a0) (v2r a1) (Q2R l0) (Q2R l1)
  | PDisk c r n => disk_set (v2r c) (Q2R r) (v2r n)
  | PCircle c r n => circle_set (v2r c) (Q2R r) (v2r n)
  | PBox c X Y Z sz => box_set (v2r c) (v2r X) (v2r Y) (v2r Z) (v2r sz)
  | PEllipsoid c X Y Z radii => ellipsoid_set (v2r c) (v2r X) (v2r Y) (v2r Z) (v2r radii)
  | PCylinder c X Y Z r l => cylinder_set (v2r c) (v2r X) (v2r Y) (v2r Z) (Q2R r) (Q2R l)
  end.

(** ** rational helpers *)
Definition qeqv (a b : VQ) : bool :=
  Qeq_bool (vx a) (vx b) && Qeq_bool (vy a) (vy b) && Qeq_bool (vz a) (vz b).
Definition qhalf (x : Q) : Q := (x * (1 # 2))%Q.
Definition qcross (a b : VQ) : VQ :=
  V (vy a * vz b - vz a * vy b)%Q (vz a * vx b - vx a * vz b)%Q (vx a * vy b - vy a * vx b)%Q.
Definition qabs_le (x b : Q) : bool := Qle_bool (Qabs x) b.

Lemma Qeq_bool_R a b : Qeq_bool a b = true -> Q2R a = Q2R b.
Proof. intros H. apply Qeq_eqR. apply Qeq_bool_eq. exact H. Qed.
Lemma qeqv_r a b : qeqv a b = true -> v2r a = v2r b.
Proof.
  unfold qeqv. intros H. apply andb_true_iff in H as (H & H3). apply andb_true_iff in H as (H1 & H2).
  apply Qeq_bool_R in H1, H2, H3. unfold v2r. rewrite H1, H2, H3. reflexivity.
Qed.
Lemma qhalf_r x : Q2R (qhalf x) = (Q2R x / 2)%R.
Proof. unfold qhalf. rewrite Q2R_mult. unfold Q2R at 2. simpl. lra. Qed.
Lemma qabs_le_R x b : qabs_le x b = true -> (Rabs (Q2R x) <= Q2R b)%R.
Proof. unfold qabs_le. intros H. apply Qle_bool_R in H. rewrite Q2R_Qabs in H. exact H. Qed.
Lemma qcross_r a b : v2r (qcross a b) = cross (v2r a) (v2r b).
Proof. unfold qcross, v2r. vunfold. cbn [vx vy vz]. q2r. reflexivity. Qed.
Lemma vx_v2r v : vx (v2r v) = Q2R (vx v). Proof. reflexivity. Qed.
Lemma vy_v2r v : vy (v2r v) = Q2R (vy v). Proof. reflexivity. Qed.
Lemma vz_v2r v : vz (v2r v) = Q2R (vz v). Proof. reflexivity. Qed.

(** boolean hypotheses of the checkers -> facts over R *)
Ltac b2r :=
  repeat match goal with
  | H : (_ && _)%bool = true |- _ => apply andb_true_iff in H; destruct H
  | H : Qle_bool _ _ = true |- _ => apply Qle_bool_R in H
  | H : Qlt_bool _ _ = true |- _ => apply Qlt_bool_R in H
  | H : Qeq_bool _ _ = true |- _ => apply Qeq_bool_R in H
  | H : qeqv _ _ = true |- _ => apply qeqv_r in H
  | H : qabs_le _ _ = true |- _ => apply qabs_le_R in H
  end.
Ltac qr :=
  repeat (rewrite ?Q2R_plus, ?Q2R_mult, ?Q2R_opp, ?Q2R_minus, ?Q2R_0, ?Q2R_1, ?qhalf_r,
                  ?qdot_r, ?qadd_r, ?qsub_r, ?qscale_r, ?qneg_r, ?qcross_r, ?qzero_r in * ).

(** ** 2. membership with a rational witness *)
Definition member (P : prim) (y w : VQ) : bool :=
  let w0 := vx w in let w1 := vy w in let w2 := vz w in
  match P with
  | PPoint p => qeqv y p
  | PLine p d => qeqv y (qadd p (qscale w0 d))
  | PSegment s e => Qle_bool 0 w0 && Qle_bool w0 1 && qeqv y (qadd s (qscale w0 (qsub e s)))
  | PPlane p n => Qeq_bool (qdot (qsub y p) n) 0
  | PTriangle a b c =>
    Qle_bool 0 w0 && Qle_bool 0 w1 && Qle_bool (w0 + w1) 1 &&
    qeqv y (qadd a (qadd (qscale w0 (qsub b a)) (qscale w1 (qsub c a))))
  | PRectangle c a0 a1 l0 l1 =>
    qabs_le w0 (qhalf l0) && qabs_le w1 (qhalf l1) &&
    qeqv y (qadd c (qadd (qscale w0 a0) (qscale w1 a1)))
  | PDisk c r n =>
    let d := qsub y c in Qeq_bool (qdot d n) 0 && Qle_bool (qdot d d) (r * r)
  | PCircle _ _ _ => false
  | PBox c X Y Z sz =>
    qabs_le w0 (qhalf (vx sz)) && qabs_le w1 (qhalf (vy sz)) && qabs_le w2 (qhalf (vz sz)) &&
    qeqv y (qadd c (qadd (qscale w0 X) (qadd (qscale w1 Y) (qscale w2 Z))))
  | PEllipsoid c X Y Z radii =>
    Qle_bool (w0 * w0 + w1 * w1 + w2 * w2) 1 &&
    qeqv y (qadd c (qadd (qscale (w0 * vx radii) X)
                    (qadd (qscale (w1 * vy radii) Y) (qscale (w2 * vz radii) Z))))
  | PCylinder c X Y Z r l =>
    Qle_bool (w0 * w0 + w1 * w1) (r * r) && qabs_le w2 (qhalf l) &&
    qeqv y (qadd c (qadd (qscale w0 X) (qadd (qscale w1 Y) (qscale w2 Z))))
  end.

Theorem member_sound P y w : member P y w = true -> prim_set P (v2r y).
Proof.
  destruct P; cbn [member prim_set]; intros H; try discriminate; b2r; qr.
  - assumption.
  - exists (Q2R (vx w)). assumption.
  - exists (Q2R (vx w)). split; [lra|assumption].
  - assumption.
  - exists (Q2R (vx w)), (Q2R (vy w)). repeat split; try lra; assumption.
  - exists (Q2R (vx w)), (Q2R (vy w)). repeat split; assumption.
  - split; assumption.
  - exists (Q2R (vx w)), (Q2R (vy w)), (Q2R (vz w)). rewrite vx_v2r, vy_v2r, vz_v2r. repeat split; assumption.
  - exists (Q2R (vx w)), (Q2R (vy w)), (Q2R (vz w)). rewrite vx_v2r, vy_v2r, vz_v2r. split; [lra|assumption].
  - exists (Q2R (vx w)), (Q2R (vy w)), (Q2R (vz w)). repeat split; assumption.
Qed.

(** ** 4. the reported distance is the distance of the reported points, up to [tol] *)
Definition consistent (d : Q) (p1 p2 : VQ) (tol : Q) : bool :=
  let D2 := qnorm2 (qsub p1 p2) in
  Qle_bool 0 d && Qle_bool 0 tol && Qle_bool D2 ((d + tol) * (d + tol)) &&
  (Qle_bool d tol || Qle_bool ((d - tol) * (d - tol)) D2).

Theorem consistent_sound d p1 p2 tol :
  consistent d p1 p2 tol = true ->
  (0 <= Q2R d /\ Rabs (norm (vsub (v2r p1) (v2r p2)) - Q2R d) <= Q2R tol)%R.
Proof.
  unfold consistent, qnorm2. intros H. apply andb_true_iff in H as (H & H4).
  b2r. qr.
  assert (H4' : (Q2R d <= Q2R tol \/
                 (Q2R d - Q2R tol) * (Q2R d - Q2R tol) <= dot (vsub (v2r p1) (v2r p2)) (vsub (v2r p1) (v2r p2)))%R).
  { apply orb_true_iff in H4 as [H4|H4]; b2r; qr; auto. }
  clear H4. split; [assumption|].
  set (v := vsub (v2r p1) (v2r p2)) in *.
  pose proof (norm_nonneg v) as Hn. pose proof (norm_sq v) as Hs.
  set (N := norm v) in *. set (D2 := dot v v) in *. clearbody N D2.
  assert (Hup : (N <= Q2R d + Q2R tol)%R).
  { destruct (Rle_dec N (Q2R d + Q2R tol)); auto. nra. }
  assert (Hlo : (Q2R d - Q2R tol <= N)%R).
  { destruct H4' as [H4|H4]; [lra|].
    destruct (Rle_dec (Q2R d - Q2R tol) N); auto. nra. }
  apply Rabs_le. lra.
Qed.

(** ** 6. support bounds and the separating-direction certificate *)

Lemma Some_inj {A : Type} (a b : A) : Some a = Some b -> a = b.
Proof. intros H. inversion H. reflexivity. Qed.

(** *** facts over R *)
Lemma mul_abs_bound (k u h : R) : (Rabs k <= h -> k * u <= h * Rabs u)%R.
Proof.
  intros H. pose proof (mul_le_abs k u). pose proof (Rabs_pos u). pose proof (Rabs_pos k). nra.
Qed.

(** [n] parallel to [m <> 0]: a vector orthogonal to [m] is orthogonal to [n] *)
Lemma parallel_orth (m n v : V3R) :
  cross m n = vzero -> (0 < dot m m)%R -> dot v m = 0%R -> dot v n = 0%R.
Proof.
  intros Hc Hm Hv.
  assert (E : (dot m m * dot v n = dot m n * dot v m)%R).
  { destruct m as [m0 m1 m2], n as [n0 n1 n2], v as [v0 v1 v2]. unfold cross, vzero in Hc.
    cbn [vx vy vz sub mul zero ROps] in Hc. injection Hc as C0 C1 C2. clear Hm Hv.
    unfold dot. cbn [vx vy vz add mul ROps].
    replace ((m0 * m0 + m1 * m1 + m2 * m2) * (v0 * n0 + v1 * n1 + v2 * n2))%R with
      ((m0 * n0 + m1 * n1 + m2 * n2) * (v0 * m0 + v1 * m1 + v2 * m2)
       + v0 * (m2 * (m2 * n0 - m0 * n2) - m1 * (m0 * n1 - m1 * n0))
       + v1 * (m0 * (m0 * n1 - m1 * n0) - m2 * (m1 * n2 - m2 * n1))
       + v2 * (m1 * (m1 * n2 - m2 * n1) - m0 * (m2 * n0 - m0 * n2)))%R by ring.
    rewrite C0, C1, C2. ring. }
  rewrite Hv in E. nra.
Qed.

(** support of a flat disk of radius [r] with normal [m] (not necessarily unit) *)
Lemma disk_support (v n m : V3R) (r : R) :
  (0 <= r)%R -> (0 < dot m m)%R -> dot v m = 0%R -> (dot v v <= r * r)%R ->
  (dot v n <= r * R_sqrt.sqrt (dot n n - dot n m * dot n m / dot m m))%R.
Proof.
  intros Hr Hm Hv Hvv.
  set (t := (dot n m / dot m m)%R).
  set (np := vsub n (vscale t m)).
  assert (E1 : dot v np = dot v n).
  { unfold np. rewrite dot_sub_r, dot_scale_r, Hv. ring. }
  assert (E2 : (dot np np = dot n n - dot n m * dot n m / dot m m)%R).
  { unfold np. rewrite dot_sub_l, !dot_sub_r, !dot_scale_l, !dot_scale_r.
    rewrite (dot_comm m n). unfold t. field. lra. }
  pose proof (cs3_radius v np r Hr Hvv) as H.
  rewrite E1 in H. unfold norm in H. cbn [sqrt ROps] in H. rewrite E2 in H. exact H.
Qed.

Lemma ell_support (k0 k1 k2 u0 u1 u2 : R) :
  (k0 * k0 + k1 * k1 + k2 * k2 <= 1 ->
   k0 * u0 + k1 * u1 + k2 * u2 <= R_sqrt.sqrt (u0 * u0 + u1 * u1 + u2 * u2))%R.
Proof.
  intros Hk.
  pose proof (cs3_radius (V k0 k1 k2) (V u0 u1 u2) 1) as H.
  unfold norm, dot in H. cbn [sqrt add mul ROps vx vy vz] in H.
  assert (H1 : (1 * 1 = 1)%R) by ring. rewrite H1 in H. lra.
Qed.

(** *** the bound
    Same formulas as [primlib.sup_upper].  Differences, all on the safe side: the square roots
    are over-approximated by [qsqrt_hi] (64 extra bits; the Python oracle uses 80), so the two
    values of a curved kind agree to ~2^-64 relative; the side conditions the soundness proof
    needs are tested instead of assumed (plane: normal <> 0; disk/circle: 0 <= r, normal <> 0;
    cylinder: 0 <= r, 0 <= l) and yield [None] when they fail.  Rectangle and box use
    c.n + sum (l_i/2) |a_i.n|, which equals the maximum over the corners when l_i >= 0 (and is
    a sound bound of the then empty set otherwise). *)
Definition phi (P : prim) (n : VQ) : option Q :=
  match P with
  | PPoint p => Some (qdot p n)
  | PLine p d => if Qeq_bool (qdot d n) 0 then Some (qdot p n) else None
  | PSegment s e => Some (Qmax (qdot s n) (qdot e n))
  | PPlane p m =>
    if qeqv (qcross m n) qzero && Qlt_bool 0 (qdot m m) then Some (qdot p n) else None
  | PTriangle a b c => Some (Qmax (Qmax (qdot a n) (qdot b n)) (qdot c n))
  | PRectangle c a0 a1 l0 l1 =>
    Some (qdot c n + qhalf l0 * Qabs (qdot a0 n) + qhalf l1 * Qabs (qdot a1 n))%Q
  | PDisk c r nr | PCircle c r nr =>
    if Qle_bool 0 r && Qlt_bool 0 (qdot nr nr)
    then Some (qdot c n + r * qsqrt_hi (qdot n n - qdot n nr * qdot n nr / qdot nr nr))%Q
    else None
  | PBox c X Y Z sz =>
    Some (qdot c n + qhalf (vx sz) * Qabs (qdot X n) + qhalf (vy sz) * Qabs (qdot Y n)
          + qhalf (vz sz) * Qabs (qdot Z n))%Q
  | PEllipsoid c X Y Z radii =>
    let b0 := (vx radii * qdot n X)%Q in
    let b1 := (vy radii * qdot n Y)%Q in
    let b2 := (vz radii * qdot n Z)%Q in
    Some (qdot c n + qsqrt_hi (b0 * b0 + b1 * b1 + b2 * b2))%Q
  | PCylinder c X Y Z r l =>
    if Qle_bool 0 r && Qle_bool 0 l
    then Some (qdot c n + r * qsqrt_hi (qdot n X * qdot n X + qdot n Y * qdot n Y)
               + qhalf l * Qabs (qdot n Z))%Q
    else None
  end.

Lemma phi_disk_sound c r nr n h x :
  (if Qle_bool 0 r && Qlt_bool 0 (qdot nr nr)
   then Some (qdot c n + r * qsqrt_hi (qdot n n - qdot n nr * qdot n nr / qdot nr nr))%Q
   else None) = Some h ->
  dot (vsub x (v2r c)) (v2r nr) = 0%R ->
  (dot (vsub x (v2r c)) (vsub x (v2r c)) <= Q2R r * Q2R r)%R ->
  (dot x (v2r n) <= Q2R h)%R.
Proof.
  destruct (Qle_bool 0 r && Qlt_bool 0 (qdot nr nr)) eqn:E; [|discriminate].
  intros H Hn Hr. apply Some_inj in H; subst h. b2r. qr.
  assert (Hnz : ~ (qdot nr nr == 0)%Q).
  { intros Hc. apply Qeq_eqR in Hc. qr. lra. }
  pose proof (disk_support (vsub x (v2r c)) (v2r n) (v2r nr) (Q2R r) H H0 Hn Hr) as HD.
  pose proof (qsqrt_hi_sound (qdot n n - qdot n nr * qdot n nr / qdot nr nr)) as HS.
  rewrite Q2R_minus, Q2R_div, Q2R_mult in HS by exact Hnz. rewrite !qdot_r in HS.
  rewrite dot_sub_l in HD.
  set (s := R_sqrt.sqrt _) in *. clearbody s.
  set (q := Q2R (qsqrt_hi _)) in *. clearbody q.
  nra.
Qed.

Theorem phi_sound P n h : phi P n = Some h -> forall x, prim_set P x -> (dot x (v2r n) <= Q2R h)%R.
Proof.
  destruct P as [p|p d|s e|p m|a b c|c a0 a1 l0 l1|c r nr|c r nr|c X Y Z sz|c X Y Z radii|c X Y Z r l];
    cbn [phi prim_set]; intros H x Hx.
  - (* point *) apply Some_inj in H; subst h. red in Hx. subst x. qr. lra.
  - (* line *)
    destruct (Qeq_bool (qdot d n) 0) eqn:E; [|discriminate]. apply Some_inj in H; subst h.
    destruct Hx as (t & ->). b2r. qr. rewrite dot_add_l, dot_scale_l, E. lra.
  - (* segment *)
    apply Some_inj in H; subst h. destruct Hx as (t & Ht & ->).
    pose proof (Qmax_l (qdot s n) (qdot e n)) as H1. pose proof (Qmax_r (qdot s n) (qdot e n)) as H2.
    qr. rewrite dot_add_l, dot_scale_l, dot_sub_l. nra.
  - (* plane *)
    destruct (qeqv (qcross m n) qzero && Qlt_bool 0 (qdot m m)) eqn:E; [|discriminate].
    apply Some_inj in H; subst h. b2r. qr. red in Hx.
    pose proof (parallel_orth (v2r m) (v2r n) (vsub x (v2r p)) H H0 Hx) as HP.
    rewrite dot_sub_l in HP. lra.
  - (* triangle *)
    apply Some_inj in H; subst h. destruct Hx as (v & w & Hv & Hw & Hvw & ->).
    pose proof (Qmax_l (Qmax (qdot a n) (qdot b n)) (qdot c n)) as H1.
    pose proof (Qmax_r (Qmax (qdot a n) (qdot b n)) (qdot c n)) as H2.
    pose proof (Qmax_l (qdot a n) (qdot b n)) as H3. pose proof (Qmax_r (qdot a n) (qdot b n)) as H4.
    qr. rewrite !dot_add_l, !dot_scale_l, !dot_sub_l.
    set (M := Q2R (Qmax (Qmax (qdot a n) (qdot b n)) (qdot c n))) in *. clearbody M.
    set (ua := dot (v2r a) (v2r n)) in *. set (ub := dot (v2r b) (v2r n)) in *.
    set (uc := dot (v2r c) (v2r n)) in *. clearbody ua ub uc.
    assert (ua <= M /\ ub <= M /\ uc <= M)%R as (Ha & Hb & Hc) by lra.
    nra.
  - (* rectangle *)
    apply Some_inj in H; subst h. destruct Hx as (k0 & k1 & H0 & H1 & ->).
    qr. rewrite !Q2R_Qabs. qr. rewrite !dot_add_l, !dot_scale_l.
    pose proof (mul_abs_bound _ (dot (v2r a0) (v2r n)) _ H0).
    pose proof (mul_abs_bound _ (dot (v2r a1) (v2r n)) _ H1). lra.
  - (* disk *)
    destruct Hx as (Hn & Hr). eapply phi_disk_sound; eauto.
  - (* circle *)
    destruct Hx as (Hn & Hr). eapply phi_disk_sound; eauto. rewrite Hr. lra.
  - (* box *)
    apply Some_inj in H; subst h. destruct Hx as (k0 & k1 & k2 & H0 & H1 & H2 & ->).
    rewrite vx_v2r in H0. rewrite vy_v2r in H1. rewrite vz_v2r in H2.
    qr. rewrite !Q2R_Qabs. qr. rewrite !dot_add_l, !dot_scale_l.
    pose proof (mul_abs_bound _ (dot (v2r X) (v2r n)) _ H0).
    pose proof (mul_abs_bound _ (dot (v2r Y) (v2r n)) _ H1).
    pose proof (mul_abs_bound _ (dot (v2r Z) (v2r n)) _ H2). lra.
  - (* ellipsoid *)
    cbv zeta in H. apply Some_inj in H; subst h. destruct Hx as (k0 & k1 & k2 & Hk & ->).
    rewrite vx_v2r, vy_v2r, vz_v2r.
    match goal with |- context [qsqrt_hi ?a] => pose proof (qsqrt_hi_sound a) as HS end.
    qr. rewrite !dot_add_l, !dot_scale_l.
    rewrite (dot_comm (v2r X)), (dot_comm (v2r Y)), (dot_comm (v2r Z)).
    pose proof (ell_support k0 k1 k2 (Q2R (vx radii) * dot (v2r n) (v2r X))
                  (Q2R (vy radii) * dot (v2r n) (v2r Y)) (Q2R (vz radii) * dot (v2r n) (v2r Z)) Hk) as HE.
    lra.
  - (* cylinder *)
    destruct (Qle_bool 0 r && Qle_bool 0 l) eqn:E; [|discriminate]. apply Some_inj in H; subst h.
    destruct Hx as (a & b & k & Hab & Hk & ->). b2r.
    match goal with |- context [qsqrt_hi ?a] => pose proof (qsqrt_hi_sound a) as HS end.
    qr. rewrite !Q2R_Qabs. qr. rewrite !dot_add_l, !dot_scale_l.
    rewrite (dot_comm (v2r X)), (dot_comm (v2r Y)), (dot_comm (v2r Z)).
    pose proof (cs2_radius a b (dot (v2r n) (v2r X)) (dot (v2r n) (v2r Y)) (Q2R r) H Hab) as HC.
    pose proof (mul_abs_bound _ (dot (v2r n) (v2r Z)) _ Hk) as HK.
    set (s := R_sqrt.sqrt _) in *. clearbody s.
    set (q := Q2R (qsqrt_hi _)) in *. clearbody q.
    nra.
Qed.

(** *** direction [n] separates [A] (below) from [B] (above) by at least [g]:
        gap := inf_B x.n - sup_A x.n >= 0  and  g^2 |n|^2 <= gap^2  (no square root needed) *)
Definition sep_cert (A B : prim) (n : VQ) (g : Q) : bool :=
  match phi A n, phi B (qneg n) with
  | Some sa, Some sb =>
    let gap := (- sb - sa)%Q in
    Qle_bool 0 g && Qle_bool 0 gap && Qlt_bool 0 (qdot n n) &&
    Qle_bool (g * g * qdot n n) (gap * gap)
  | _, _ => false
  end.

Theorem sep_cert_sound A B n g :
  sep_cert A B n g = true -> dist_ge (prim_set A) (prim_set B) (Q2R g).
Proof.
  unfold sep_cert.
  destruct (phi A n) as [sa|] eqn:EA; [|discriminate].
  destruct (phi B (qneg n)) as [sb|] eqn:EB; [|discriminate].
  cbv zeta. intros H. b2r. qr.
  intros a b Ha Hb.
  assert (HA : forall a, prim_set A a -> (dot a (v2r n) <= Q2R sa)%R) by (apply phi_sound; auto).
  assert (HB : forall b, prim_set B b -> (- Q2R sb <= dot b (v2r n))%R).
  { intros b0 Hb0. pose proof (phi_sound B (qneg n) sb EB b0 Hb0) as Hx.
    rewrite qneg_r in Hx. rewrite dot_comm, dot_neg_l, dot_comm in Hx. lra. }
  pose proof (separating_direction_gen (prim_set A) (prim_set B) (v2r n) (Q2R sa) (- Q2R sb) HA HB a b Ha Hb) as HS.
  pose proof (norm_nonneg (v2r n)) as Hn0. pose proof (norm_sq (v2r n)) as Hn2.
  pose proof (norm_nonneg (vsub a b)) as Hab.
  set (N := norm (v2r n)) in *. set (D := norm (vsub a b)) in *. set (nn := dot (v2r n) (v2r n)) in *.
  set (gap := (- Q2R sb - Q2R sa)%R) in *. clearbody N D nn gap.
  assert (HN : (0 < N)%R) by nra.
  assert (Hg : (Q2R g * N <= gap)%R).
  { destruct (Rle_dec (Q2R g * N) gap); auto.
    assert (0 <= Q2R g * N)%R by nra.
    assert ((Q2R g * N) * (Q2R g * N) <= gap * gap)%R by (rewrite <- Hn2 in *; lra).
    nra. }
  apply Rmult_le_reg_r with N; auto. lra.
Qed.

(** *** the circle: nearest point in closed form *)
Lemma circle_near (c n x : V3R) (r rl tau2 : R) :
  let d := vsub x c in
  let h2 := (dot d n * dot d n / dot n n)%R in
  let rho2 := (dot d d - h2)%R in
  (0 < dot n n -> 0 <= r -> 0 <= rl -> rl * rl <= rho2 -> 0 < rho2 ->
   h2 + rho2 + r * r - 2 * r * rl <= tau2 ->
   exists z, circle_set c r n z /\ dot (vsub x z) (vsub x z) <= tau2)%R.
Proof.
  intros d h2 rho2 Hnn Hr Hrl Hlo Hrho Htau.
  set (t := (dot d n / dot n n)%R).
  set (q := vsub d (vscale t n)).
  assert (Eqn : dot q n = 0%R).
  { unfold q. rewrite dot_sub_l, dot_scale_l. unfold t. field. lra. }
  assert (Eqq : dot q q = rho2).
  { unfold q. rewrite dot_sub_l, !dot_sub_r, !dot_scale_l, !dot_scale_r, (dot_comm n d).
    unfold rho2, h2, t. field. lra. }
  assert (Eh : (t * t * dot n n = h2)%R).
  { unfold h2, t. field. lra. }
  set (rho := R_sqrt.sqrt rho2).
  assert (Hrho0 : (0 < rho)%R) by (apply sqrt_lt_R0; exact Hrho).
  assert (Hrho2 : (rho * rho = rho2)%R) by (apply sqrt_sqrt; lra).
  set (k := (r / rho)%R).
  exists (vadd c (vscale k q)).
  assert (Ez : vsub (vadd c (vscale k q)) c = vscale k q).
  { clearbody k q. clear. vsimp. f_equal; ring. }
  assert (Ex : vsub x (vadd c (vscale k q)) = vadd (vscale t n) (vscale (1 - k)%R q)).
  { unfold q, d. clearbody k t. clear. vsimp. f_equal; ring. }
  split.
  - unfold circle_set. rewrite Ez. split.
    + rewrite dot_scale_l, Eqn. ring.
    + rewrite dot_scale_l, dot_scale_r, Eqq, <- Hrho2. unfold k. field. lra.
  - rewrite Ex. rewrite dot_add_l, !dot_add_r, !dot_scale_l, !dot_scale_r.
    rewrite (dot_comm n q), Eqn, Eqq.
    assert (Ek : ((1 - k) * ((1 - k) * rho2) = (rho - r) * (rho - r))%R).
    { rewrite <- Hrho2. unfold k. field. lra. }
    assert (Hle : (rl <= rho)%R).
    { destruct (Rle_dec rl rho); auto. nra. }
    clearbody rho k t h2 rho2. nra.
Qed.

(** ** 3. a point of the primitive lies within squared distance [tau2] of [x]
    Every kind but the circle: an exactly verified member point [y] (witness [w]) with
    |x - y|^2 <= tau2.  Circle (no rational points in general): closed form of
    [primlib.dist2_upper], h^2 + rho^2 + r^2 - 2 r rl <= tau2 where [rl = vx w] is an untrusted
    rational lower bound of rho (checked: 0 <= rl, rl^2 <= rho^2); [y] is ignored. *)
Definition circle_on_tol (c : VQ) (r : Q) (n x : VQ) (rl tau2 : Q) : bool :=
  let d := qsub x c in
  let dn := qdot d n in
  let nn := qdot n n in
  let h2 := (dn * dn / nn)%Q in
  let rho2 := (qdot d d - h2)%Q in
  Qlt_bool 0 nn && Qle_bool 0 r && Qle_bool 0 rl && Qle_bool (rl * rl) rho2 && Qlt_bool 0 rho2 &&
  Qle_bool (h2 + rho2 + r * r - 2 * r * rl) tau2.

Definition on_prim_tol (P : prim) (x y w : VQ) (tau2 : Q) : bool :=
  match P with
  | PCircle c r n => circle_on_tol c r n x (vx w) tau2
  | _ => member P y w && Qle_bool (qnorm2 (qsub x y)) tau2
  end.

Lemma Q2R_2 : Q2R 2 = 2%R.
Proof. unfold Q2R. simpl. lra. Qed.

Theorem circle_on_tol_sound c r n x rl tau2 :
  circle_on_tol c r n x rl tau2 = true ->
  exists z, circle_set (v2r c) (Q2R r) (v2r n) z /\
            (dot (vsub (v2r x) z) (vsub (v2r x) z) <= Q2R tau2)%R.
Proof.
  unfold circle_on_tol. cbv zeta. intros H. b2r.
  assert (Hnz : ~ (qdot n n == 0)%Q).
  { intros Hc. apply Qeq_eqR in Hc. rewrite Q2R_0 in *. lra. }
  repeat (rewrite ?Q2R_plus, ?Q2R_minus, ?Q2R_mult, ?Q2R_0, ?Q2R_2 in *; rewrite ?Q2R_div in * by exact Hnz).
  qr.
  apply circle_near with (rl := Q2R rl); assumption.
Qed.

Theorem on_prim_tol_sound P x y w tau2 :
  on_prim_tol P x y w tau2 = true ->
  exists z, prim_set P z /\ (dot (vsub (v2r x) z) (vsub (v2r x) z) <= Q2R tau2)%R.
Proof.
  assert (G : member P y w && Qle_bool (qnorm2 (qsub x y)) tau2 = true ->
              exists z, prim_set P z /\ (dot (vsub (v2r x) z) (vsub (v2r x) z) <= Q2R tau2)%R).
  { intros H. apply andb_true_iff in H as (Hm & Hd). exists (v2r y). split.
    - apply member_sound with w. exact Hm.
    - unfold qnorm2 in Hd. b2r. qr. exact Hd. }
  destruct P; cbn [on_prim_tol]; try exact G.
  intros H. cbn [prim_set]. apply circle_on_tol_sound with (vx w). exact H.
Qed.

(** ** 5. the three C10 verdicts of a result [(d, x1, x2)] for the pair [(A, B)] *)
Definition c10_check (A B : prim) (x1 y1 w1 x2 y2 w2 : VQ) (d tau2 tcons : Q) : bool * bool * bool :=
  (on_prim_tol A x1 y1 w1 tau2, on_prim_tol B x2 y2 w2 tau2, consistent d x1 x2 tcons).

Theorem c10_check_sound A B x1 y1 w1 x2 y2 w2 d tau2 tcons :
  c10_check A B x1 y1 w1 x2 y2 w2 d tau2 tcons = (true, true, true) ->
  exists z1 z2,
    prim_set A z1 /\ prim_set B z2 /\
    (dot (vsub (v2r x1) z1) (vsub (v2r x1) z1) <= Q2R tau2)%R /\
    (dot (vsub (v2r x2) z2) (vsub (v2r x2) z2) <= Q2R tau2)%R /\
    (0 <= Q2R d)%R /\
    (Rabs (norm (vsub (v2r x1) (v2r x2)) - Q2R d) <= Q2R tcons)%R.
Proof.
  unfold c10_check. intros H.
  apply pair_equal_spec in H as (H & H3). apply pair_equal_spec in H as (H1 & H2).
  apply on_prim_tol_sound in H1 as (z1 & Hz1 & Hd1).
  apply on_prim_tol_sound in H2 as (z2 & Hz2 & Hd2).
  apply consistent_sound in H3 as (H0 & Hc).
  exists z1, z2. repeat split; assumption.
Qed.

(** the C10 wording: [x] is within [tau] of the primitive *)
Corollary on_prim_tol_near P x y w tau :
  Qle_bool 0 tau = true -> on_prim_tol P x y w (tau * tau) = true ->
  near (prim_set P) (v2r x) (Q2R tau).
Proof.
  intros Ht H. apply on_prim_tol_sound in H as (z & Hz & Hd). b2r. qr.
  exists z. split; [exact Hz|]. apply norm_le_sq; assumption.
Qed.

(** ** 7. non-vacuity: the checkers accept correct results and reject wrong ones *)
Section Examples.
  Local Open Scope Q_scope.

  (** point (0,0,2) against the unit square in the plane z = 0: d = 2, closest points (0,0,2), (0,0,0) *)
  Let sq := PRectangle (V 0 0 0) (V 1 0 0) (V 0 1 0) 1 1.
  Let pt := PPoint (V 0 0 2).
  Example c10_check_nonvacuous :
    c10_check pt sq (V 0 0 2) (V 0 0 2) (V 0 0 0) (V 0 0 0) (V 0 0 0) (V 0 0 0)
              2 (1 # 1000000000000) (1 # 1000000) = (true, true, true).
  Proof. vm_compute. reflexivity. Qed.
  (** wrong distance: only the consistency verdict fails *)
  Example c10_check_rejects_distance :
    c10_check pt sq (V 0 0 2) (V 0 0 2) (V 0 0 0) (V 0 0 0) (V 0 0 0) (V 0 0 0)
              3 (1 # 1000000000000) (1 # 1000000) = (true, true, false).
  Proof. vm_compute. reflexivity. Qed.
  (** second point (1,0,0) is not on the square (nearest member (1/2,0,0) is 1/2 away) *)
  Example c10_check_rejects_point :
    c10_check pt sq (V 0 0 2) (V 0 0 2) (V 0 0 0) (V 1 0 0) (V (1 # 2) 0 0) (V (1 # 2) 0 0)
              2 (1 # 1000000000000) (1 # 1000000) = (true, false, false).
  Proof. vm_compute. reflexivity. Qed.
  (** a membership witness outside the parameter range is refused *)
  Example member_rejects : member sq (V 1 0 0) (V 1 0 0) = false.
  Proof. vm_compute. reflexivity. Qed.
  Example member_nonvacuous :
    member (PEllipsoid (V 1 1 1) (V 1 0 0) (V 0 1 0) (V 0 0 1) (V 2 3 4)) (V 2 1 3) (V (1 # 2) 0 (1 # 2)) = true.
  Proof. vm_compute. reflexivity. Qed.
  Example consistent_nonvacuous : consistent 5 (V 0 0 0) (V 3 4 0) (1 # 1000) = true.
  Proof. vm_compute. reflexivity. Qed.
  Example consistent_rejects : consistent 5 (V 0 0 0) (V 3 4 1) (1 # 1000) = false.
  Proof. vm_compute. reflexivity. Qed.

  (** unit circle in the plane z = 0 (normal of length 2), x = (2,0,1): h^2 = 1, rho = 2, dist^2 = 2 *)
  Example circle_on_tol_nonvacuous :
    on_prim_tol (PCircle (V 0 0 0) 1 (V 0 0 2)) (V 2 0 1) (V 0 0 0) (V 2 0 0) 2 = true.
  Proof. vm_compute. reflexivity. Qed.
  Example circle_on_tol_rejects :
    on_prim_tol (PCircle (V 0 0 0) 1 (V 0 0 2)) (V 2 0 1) (V 0 0 0) (V 2 0 0) (19 # 10) = false.
  Proof. vm_compute. reflexivity. Qed.
  (** an over-estimated "lower bound" of rho is refused *)
  Example circle_on_tol_rejects_bound :
    on_prim_tol (PCircle (V 0 0 0) 1 (V 0 0 2)) (V 2 0 1) (V 0 0 0) (V 3 0 0) 2 = false.
  Proof. vm_compute. reflexivity. Qed.

  (** two parallel segments one apart *)
  Let sa := PSegment (V 0 0 0) (V 1 0 0).
  Let sb := PSegment (V 0 0 1) (V 1 0 1).
  Example sep_cert_nonvacuous : sep_cert sa sb (V 0 0 3) 1 = true.
  Proof. vm_compute. reflexivity. Qed.
  Example sep_cert_rejects : sep_cert sa sb (V 0 0 3) (11 # 10) = false.
  Proof. vm_compute. reflexivity. Qed.
  Example sep_cert_rejects_direction : sep_cert sa sb (V 1 0 0) (1 # 2) = false.
  Proof. vm_compute. reflexivity. Qed.
  (** curved kinds (square-root bounds): cylinder r = 1, l = 2 at the origin against the plane
      3x + 4z = 25 (distance 5 - (3/5 + 4/5) = 18/5); ellipsoid (2,3,4) against the disk z = 6 *)
  Let cyl := PCylinder (V 0 0 0) (V 1 0 0) (V 0 1 0) (V 0 0 1) 1 2.
  Let pln := PPlane (V 3 0 4) (V 3 0 4).
  Example sep_cert_cylinder_plane : sep_cert cyl pln (V 3 0 4) (359 # 100) = true.
  Proof. vm_compute. reflexivity. Qed.
  Example sep_cert_cylinder_plane_rejects : sep_cert cyl pln (V 3 0 4) (361 # 100) = false.
  Proof. vm_compute. reflexivity. Qed.
  Let ell := PEllipsoid (V 0 0 0) (V 1 0 0) (V 0 1 0) (V 0 0 1) (V 2 3 4).
  Let dsk := PDisk (V 0 0 6) 5 (V 0 0 1).
  Example sep_cert_ellipsoid_disk : sep_cert ell dsk (V 0 0 1) (199 # 100) = true.
  Proof. vm_compute. reflexivity. Qed.
  Example sep_cert_ellipsoid_disk_rejects : sep_cert ell dsk (V 0 0 1) (201 # 100) = false.
  Proof. vm_compute. reflexivity. Qed.
  (** a line is only bounded along directions orthogonal to it *)
  Example phi_line_unbounded : phi (PLine (V 0 0 0) (V 1 0 0)) (V 1 0 1) = None.
  Proof. vm_compute. reflexivity. Qed.
  Example phi_box :
    match phi (PBox (V 1 1 1) (V 1 0 0) (V 0 1 0) (V 0 0 1) (V 2 4 6)) (V 1 (-1) 1) with
    | Some h => Qeq_bool h 7 | None => false end = true.
  Proof. vm_compute. reflexivity. Qed.
End Examples.
