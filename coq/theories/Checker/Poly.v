(** * Proven result checker for hydroelastic contact polygons (C15).

    [poly_cert] judges what the implementation returned for ONE tetrahedron pair: the
    two tetrahedra, the reported contact plane (normal [n], offset [d]), the polygon
    vertices and the contact force.  All numbers are the exact rationals of the
    binary64 values, given as integer numerators over ONE common positive denominator
    [D] (a power of two chosen by the harness): the real number meant by [z] is
    [IZR z / IZR D = Q2R (z # D)].  The checker works in integer arithmetic only (no
    division, no square root: magnitudes are compared through their squares, barycentric
    coordinates through Cramer numerators against the exact determinant).

    Soundness ([poly_cert_sound]) is a theorem over the reals with explicit
    tolerances; nothing is assumed about the implementation.  [sep_cert] certifies that
    two point sets have disjoint convex hulls (used to justify "these tetrahedra /
    bodies do not overlap"). *)
From Coq Require Import ZArith QArith Reals Lra Lia Psatz List Bool.
From D3 Require Import Base.Ops Base.Vec Base.RVec Spec.Convex.
Import ListNotations.

Notation VZ := (V3 Z).

(** ** integer vector operations *)
Section ZVec.
  Local Open Scope Z_scope.
  Definition zdot (a b : VZ) : Z := vx a * vx b + vy a * vy b + vz a * vz b.
  Definition zsub (a b : VZ) : VZ := V (vx a - vx b) (vy a - vy b) (vz a - vz b).
  Definition zadd (a b : VZ) : VZ := V (vx a + vx b) (vy a + vy b) (vz a + vz b).
  Definition zcross (a b : VZ) : VZ :=
    V (vy a * vz b - vz a * vy b) (vz a * vx b - vx a * vz b) (vx a * vy b - vy a * vx b).
  Definition zdet3 (a b c : VZ) : Z := zdot a (zcross b c).
  Definition zzero : VZ := V 0 0 0.
End ZVec.

(** ** generic list helpers (used at Z and at R) *)
(** consecutive pairs of a cyclic list: (l0,l1), (l1,l2), ..., (l_last,l0) *)
Fixpoint pairs_from {A} (first : A) (l : list A) : list (A * A) :=
  match l with
  | [] => []
  | [x] => [(x, first)]
  | x :: ((y :: _) as t) => (x, y) :: pairs_from first t
  end.
Definition cyc2 {A} (l : list A) : list (A * A) :=
  match l with [] => [] | x :: _ => pairs_from x l end.
(** consecutive pairs of an open list *)
Fixpoint adj {A} (l : list A) : list (A * A) :=
  match l with
  | x :: ((y :: _) as t) => (x, y) :: adj t
  | _ => []
  end.

Lemma pairs_from_map {A B} (f : A -> B) first (l : list A) :
  pairs_from (f first) (map f l) = map (fun p => (f (fst p), f (snd p))) (pairs_from first l).
Proof.
  induction l as [|x [|y t] IH]; simpl in *; auto. f_equal. exact IH.
Qed.
Lemma cyc2_map {A B} (f : A -> B) (l : list A) :
  cyc2 (map f l) = map (fun p => (f (fst p), f (snd p))) (cyc2 l).
Proof. destruct l; simpl; auto. apply (pairs_from_map f a (a :: l)). Qed.
Lemma adj_map {A B} (f : A -> B) (l : list A) :
  adj (map f l) = map (fun p => (f (fst p), f (snd p))) (adj l).
Proof. induction l as [|x [|y t] IH]; simpl in *; auto. f_equal. exact IH. Qed.

(** ** the checks *)
Section Checks.
  Local Open Scope Z_scope.
  Variable D : positive.
  Notation Dz := (Zpos D).

  Definition tn (tau : Q) : Z := Qnum tau.
  Definition td (tau : Q) : Z := Zpos (Qden tau).

  (** [c] is the numerator (over [D^(k+1)]) of [n_r . x_r] for some vector [x] whose
      numerators live over [D^k]; the test says |c / D^(k+1)| <= tau * |n_r| *)
  Definition abs_le_tol (n : VZ) (tau : Q) (k : nat) (c : Z) : bool :=
    (0 <=? tn tau) && (c * c * (td tau * td tau) <=? tn tau * tn tau * zdot n n * (Dz ^ Z.of_nat k * Dz ^ Z.of_nat k)).
  (** - tau * |n_r| <= c / D^(k+1) *)
  Definition ge_tol (n : VZ) (tau : Q) (k : nat) (c : Z) : bool :=
    (0 <=? tn tau) && ((0 <=? c) || abs_le_tol n tau k c).

  (** vertex on the plane: | n_r . v_r - d_r | <= tau * |n_r| *)
  Definition plane_ok (n : VZ) (d : Z) (tau : Q) (v : VZ) : bool :=
    abs_le_tol n tau 1 (zdot n v - d * Dz).

  (** Cramer numerators of the barycentric coordinates of [v] in the tetrahedron a b c e *)
  Definition tet := (VZ * VZ * VZ * VZ)%type.
  Definition bary_nums (T : tet) (v : VZ) : Z * list Z :=
    let '(a, b, c, e) := T in
    let ba := zsub b a in let ca := zsub c a in let ea := zsub e a in let va := zsub v a in
    let det := zdet3 ba ca ea in
    let nb := zdet3 va ca ea in let nc := zdet3 ba va ea in let ne := zdet3 ba ca va in
    (det, [det - nb - nc - ne; nb; nc; ne]).
  (** all four barycentric coordinates >= - tau *)
  Definition bary_ok (tau : Q) (T : tet) (v : VZ) : bool :=
    let '(det, ns) := bary_nums T v in
    negb (det =? 0) && (0 <=? tn tau) &&
    forallb (fun N => - tn tau * Z.abs det <=? Z.sgn det * N * td tau) ns.

  (** every vertex lies on the inner (left, seen against [n]) side of every edge *)
  Definition side (n u v w : VZ) : Z := zdot n (zcross (zsub v u) (zsub w u)).
  Definition convex_ok (n : VZ) (tau : Q) (poly : list VZ) : bool :=
    forallb (fun e => forallb (fun w => ge_tol n tau 2 (side n (fst e) (snd e) w)) poly) (cyc2 poly).

  (** twice the area vector of the fan triangulation from the first vertex *)
  Definition zfan2 (poly : list VZ) : VZ :=
    match poly with
    | [] => zzero
    | v0 :: rest =>
      fold_right (fun p acc => zadd (zcross (zsub (fst p) v0) (zsub (snd p) v0)) acc) zzero (adj rest)
    end.
  Definition area_ok (n : VZ) (tau : Q) (poly : list VZ) : bool :=
    ge_tol n tau 2 (zdot n (zfan2 poly)).

  (** force parallel to the normal: |F x n|^2 <= tau^2 |F|^2 |n|^2 ; and F . n >= - tau' |n| *)
  Definition par_ok (n F : VZ) (tau : Q) : bool :=
    let x := zcross F n in
    (zdot x x * (td tau * td tau) <=? tn tau * tn tau * (zdot F F * zdot n n)).
  Definition sign_ok (n F : VZ) (tau : Q) : bool := ge_tol n tau 1 (zdot F n).

  Record tols := Tols { t_plane : Q; t_bary : Q; t_area : Q; t_par : Q; t_sign : Q }.

  Definition poly_cert_bits (T1 T2 : tet) (n : VZ) (d : Z) (poly : list VZ) (F : VZ) (tl : tols)
    : list bool :=
    [ 0 <? zdot n n;
      (3 <=? length poly)%nat;
      forallb (plane_ok n d (t_plane tl)) poly;
      forallb (bary_ok (t_bary tl) T1) poly;
      forallb (bary_ok (t_bary tl) T2) poly;
      convex_ok n (t_area tl) poly;
      area_ok n (t_area tl) poly;
      par_ok n F (t_par tl);
      sign_ok n F (t_sign tl) ].
  Definition poly_cert T1 T2 n d poly F tl : bool :=
    forallb (fun b => b) (poly_cert_bits T1 T2 n d poly F tl).

  (** disjointness certificate: the plane [n . x = c] with [c1 < c2] separates the hulls *)
  Definition sep_cert (n : VZ) (c1 c2 : Z) (A B : list VZ) : bool :=
    (c1 <? c2) && forallb (fun a => zdot n a <=? c1) A && forallb (fun b => c2 <=? zdot n b) B.
End Checks.

(** ** the real numbers meant by the integers *)
Local Open Scope R_scope.

Definition iv (v : VZ) : V3R := V (IZR (vx v)) (IZR (vy v)) (IZR (vz v)).
Definition rz (D : positive) (z : Z) : R := IZR z / IZR (Zpos D).
Definition rv (D : positive) (v : VZ) : V3R := V (rz D (vx v)) (rz D (vy v)) (rz D (vz v)).

Lemma rz_Q2R D z : rz D z = Q2R (z # D).
Proof. unfold rz, Q2R. simpl. reflexivity. Qed.

Lemma IZR_Dpos D : 0 < IZR (Zpos D).
Proof. apply IZR_lt. lia. Qed.

Lemma rv_scale D v : rv D v = vscale (/ IZR (Zpos D)) (iv v).
Proof. unfold rv, rz, iv, vscale. cbn [vx vy vz mul ROps]. f_equal; unfold Rdiv; ring. Qed.

Lemma iv_sub a b : iv (zsub a b) = vsub (iv a) (iv b).
Proof. unfold iv, zsub, vsub. cbn [vx vy vz sub ROps]. rewrite !minus_IZR. reflexivity. Qed.
Lemma iv_add a b : iv (zadd a b) = vadd (iv a) (iv b).
Proof. unfold iv, zadd, vadd. cbn [vx vy vz add ROps]. rewrite !plus_IZR. reflexivity. Qed.
Lemma iv_cross a b : iv (zcross a b) = cross (iv a) (iv b).
Proof.
  unfold iv, zcross, cross. cbn [vx vy vz sub mul ROps].
  rewrite !minus_IZR, !mult_IZR. reflexivity.
Qed.
Lemma IZR_zdot a b : IZR (zdot a b) = dot (iv a) (iv b).
Proof.
  unfold iv, zdot, dot. cbn [vx vy vz add mul ROps]. rewrite !plus_IZR, !mult_IZR. reflexivity.
Qed.

Definition tet_r (D : positive) (T : tet) : list V3R :=
  let '(a, b, c, e) := T in [rv D a; rv D b; rv D c; rv D e].

(** weights >= -tau, summing to one, reproducing [v]: "inside the tetrahedron up to tau" *)
Definition bary_in (tau : R) (ps : list V3R) (v : V3R) : Prop :=
  exists ws, length ws = length ps /\ Forall (fun w => - tau <= w) ws /\ sum ws = 1 /\ v = comb ws ps.

Definition side_r (n u v w : V3R) : R := dot n (cross (vsub v u) (vsub w u)).
Definition fan2 (poly : list V3R) : V3R :=
  match poly with
  | [] => vzero
  | v0 :: rest =>
    fold_right (fun p acc => vadd (cross (vsub (fst p) v0) (vsub (snd p) v0)) acc) vzero (adj rest)
  end.

(** ** scalar lemmas *)
Lemma Rabs_le_of_sq_le (x y : R) : 0 <= y -> x * x <= y * y -> Rabs x <= y.
Proof.
  intros Hy H. unfold Rabs. destruct (Rcase_abs x); nra.
Qed.

Lemma pow_IZR_nat (z : Z) (k : nat) : IZR (z ^ Z.of_nat k) = IZR z ^ k.
Proof. rewrite <- pow_IZR. reflexivity. Qed.

Lemma Q2R_split (tau : Q) : Q2R tau = IZR (tn tau) / IZR (td tau).
Proof. unfold Q2R, tn, td, Rdiv. reflexivity. Qed.
Lemma td_pos tau : 0 < IZR (td tau).
Proof. unfold td. apply IZR_lt. lia. Qed.

(** the heart of every tolerance test *)
Lemma abs_le_tol_sound D n tau k c :
  abs_le_tol D n tau k c = true ->
  0 <= Q2R tau /\
  Rabs (IZR c / (IZR (Zpos D) ^ (S k))) <= Q2R tau * norm (rv D n).
Proof.
  unfold abs_le_tol. intros H. apply andb_true_iff in H as [H0 H].
  apply Z.leb_le in H0. apply Z.leb_le in H. apply IZR_le in H0. apply IZR_le in H.
  rewrite !mult_IZR, !pow_IZR_nat, IZR_zdot in H.
  pose proof (IZR_Dpos D) as HD. pose proof (td_pos tau) as Ht.
  set (Dr := IZR (Zpos D)) in *. set (T := IZR (td tau)) in *. set (N := IZR (tn tau)) in *.
  assert (Hq : Q2R tau = N / T) by apply Q2R_split.
  assert (Hq0 : 0 <= Q2R tau).
  { rewrite Hq. unfold Rdiv. apply Rmult_le_pos; [exact H0|]. left. apply Rinv_0_lt_compat. exact Ht. }
  split; [exact Hq0|].
  assert (HDk : 0 < Dr ^ k) by (apply pow_lt; exact HD).
  assert (Hnorm : norm (rv D n) = norm (iv n) / Dr).
  { rewrite rv_scale, norm_scale. rewrite Rabs_right.
    - unfold Rdiv. apply Rmult_comm.
    - left. apply Rinv_0_lt_compat. exact HD. }
  apply Rabs_le_of_sq_le.
  { apply Rmult_le_pos; [exact Hq0|apply norm_nonneg]. }
  rewrite Hnorm, Hq.
  pose proof (norm_sq (iv n)) as Hn2.
  set (c' := IZR c) in *. set (nn := norm (iv n)) in *.
  simpl pow. set (Dk := Dr ^ k) in *.
  assert (E1 : c' / (Dr * Dk) * (c' / (Dr * Dk)) = (c' * c') / (Dr * Dr * (Dk * Dk))).
  { field. split; lra. }
  assert (E2 : N / T * (nn / Dr) * (N / T * (nn / Dr)) = (N * N * (nn * nn)) / (T * T * (Dr * Dr))).
  { field. split; lra. }
  rewrite E1, E2, Hn2.
  assert (P1 : 0 < Dr * Dr * (Dk * Dk)) by (repeat apply Rmult_lt_0_compat; auto).
  assert (P2 : 0 < T * T * (Dr * Dr)) by (repeat apply Rmult_lt_0_compat; auto).
  apply (Rmult_le_reg_r (Dr * Dr * (Dk * Dk) * (T * T * (Dr * Dr)))).
  { apply Rmult_lt_0_compat; auto. }
  replace (c' * c' / (Dr * Dr * (Dk * Dk)) * (Dr * Dr * (Dk * Dk) * (T * T * (Dr * Dr))))
    with (c' * c' * (T * T) * (Dr * Dr)) by (field; split; lra).
  replace (N * N * dot (iv n) (iv n) / (T * T * (Dr * Dr)) * (Dr * Dr * (Dk * Dk) * (T * T * (Dr * Dr))))
    with (N * N * dot (iv n) (iv n) * (Dk * Dk) * (Dr * Dr)) by (field; split; lra).
  apply Rmult_le_compat_r; [nra|]. exact H.
Qed.

Lemma ge_tol_sound D n tau k c :
  ge_tol D n tau k c = true ->
  - (Q2R tau * norm (rv D n)) <= IZR c / (IZR (Zpos D) ^ (S k)).
Proof.
  unfold ge_tol. intros H. apply andb_true_iff in H as [H0 H].
  apply orb_true_iff in H as [H|H].
  - apply Z.leb_le in H. apply IZR_le in H. apply Z.leb_le in H0. apply IZR_le in H0.
    pose proof (IZR_Dpos D) as HD. pose proof (td_pos tau) as Ht.
    assert (0 <= Q2R tau).
    { rewrite Q2R_split. unfold Rdiv. apply Rmult_le_pos; [exact H0|].
      left. apply Rinv_0_lt_compat. exact Ht. }
    pose proof (norm_nonneg (rv D n)).
    assert (0 < IZR (Zpos D) ^ S k) by (apply pow_lt; exact HD).
    assert (0 <= IZR c / IZR (Zpos D) ^ S k).
    { unfold Rdiv. apply Rmult_le_pos; [exact H|]. left. apply Rinv_0_lt_compat. assumption. }
    nra.
  - apply abs_le_tol_sound in H as [_ H].
    revert H. unfold Rabs. destruct (Rcase_abs _); lra.
Qed.

(** ** scaling facts *)
Lemma dot_rv D a b : dot (rv D a) (rv D b) = IZR (zdot a b) / (IZR (Zpos D) ^ 2).
Proof.
  rewrite !rv_scale, dot_scale_l, dot_scale_r, IZR_zdot.
  pose proof (IZR_Dpos D). set (Dr := IZR (Zpos D)) in *. field. lra.
Qed.
Lemma sub_rv D a b : vsub (rv D a) (rv D b) = rv D (zsub a b).
Proof.
  rewrite !rv_scale, iv_sub. set (s := / IZR (Zpos D)).
  destruct (iv a) as [a1 a2 a3], (iv b) as [b1 b2 b3]. unfold vsub, vscale. cbn [vx vy vz sub mul ROps]. f_equal; ring.
Qed.
Lemma cross_scale (s t : R) (a b : V3R) : cross (vscale s a) (vscale t b) = vscale (s * t) (cross a b).
Proof. destruct a as [a1 a2 a3], b as [b1 b2 b3]. unfold cross, vscale. cbn [vx vy vz sub mul ROps]. f_equal; ring. Qed.
Lemma vscale_vscale (s t : R) (a : V3R) : vscale s (vscale t a) = vscale (s * t) a.
Proof. destruct a as [a1 a2 a3]. unfold vscale. cbn [vx vy vz mul ROps]. f_equal; ring. Qed.
Lemma vadd_scale (s : R) (a b : V3R) : vadd (vscale s a) (vscale s b) = vscale s (vadd a b).
Proof. destruct a as [a1 a2 a3], b as [b1 b2 b3]. unfold vadd, vscale. cbn [vx vy vz add mul ROps]. f_equal; ring. Qed.
Lemma cross_rv D a b : cross (rv D a) (rv D b) = vscale (/ IZR (Zpos D) * / IZR (Zpos D)) (iv (zcross a b)).
Proof. rewrite !rv_scale, cross_scale, iv_cross. reflexivity. Qed.

(** ** plane residual *)
Lemma plane_ok_sound D n d tau v :
  plane_ok D n d tau v = true ->
  Rabs (dot (rv D n) (rv D v) - rz D d) <= Q2R tau * norm (rv D n).
Proof.
  unfold plane_ok. intros H. apply abs_le_tol_sound in H as [_ H].
  replace (dot (rv D n) (rv D v) - rz D d)
    with (IZR (zdot n v - d * Zpos D) / IZR (Zpos D) ^ 2); [exact H|].
  rewrite dot_rv, minus_IZR, mult_IZR. unfold rz.
  pose proof (IZR_Dpos D). set (Dr := IZR (Zpos D)) in *. field. lra.
Qed.

(** ** barycentric coordinates: Cramer's rule *)
Definition det3r (a b c : V3R) : R := dot a (cross b c).

Lemma cramer_tet (A B C E P : V3R) :
  let BA := vsub B A in let CA := vsub C A in let EA := vsub E A in let PA := vsub P A in
  let det := det3r BA CA EA in
  let nb := det3r PA CA EA in let nc := det3r BA PA EA in let ne := det3r BA CA PA in
  det <> 0 ->
  P = comb [(det - nb - nc - ne) / det; nb / det; nc / det; ne / det] [A; B; C; E].
Proof.
  intros BA CA EA PA det nb nc ne Hdet.
  assert (Hdet' : det3r (vsub B A) (vsub C A) (vsub E A) <> 0) by exact Hdet.
  unfold det, nb, nc, ne, BA, CA, EA, PA, det3r in *. clear det nb nc ne BA CA EA PA Hdet.
  destruct A as [a1 a2 a3], B as [b1 b2 b3], C as [c1 c2 c3], E as [e1 e2 e3], P as [p1 p2 p3].
  unfold comb, vadd, vscale, vsub, dot, cross, vzero in *.
  cbn [vx vy vz add sub mul zero ROps] in *.
  f_equal; field; exact Hdet'.
Qed.

Lemma comb_scale (s : R) : forall ws ps, comb ws (map (vscale s) ps) = vscale s (comb ws ps).
Proof.
  induction ws as [|w ws IH]; intros [|p ps]; cbn [comb map].
  - unfold vscale, vzero. cbn [vx vy vz mul zero ROps]. f_equal; ring.
  - unfold vscale, vzero. cbn [vx vy vz mul zero ROps]. f_equal; ring.
  - unfold vscale, vzero. cbn [vx vy vz mul zero ROps]. f_equal; ring.
  - rewrite IH. destruct p as [p1 p2 p3], (comb ws ps) as [q1 q2 q3]. unfold vadd, vscale. cbn [vx vy vz add mul ROps]. f_equal; ring.
Qed.

Lemma IZR_zdet3 a b c : IZR (zdet3 a b c) = det3r (iv a) (iv b) (iv c).
Proof. unfold zdet3, det3r. rewrite IZR_zdot, iv_cross. reflexivity. Qed.

Lemma bary_weight_ok (tau : Q) (det N : Z) :
  (det <> 0)%Z -> (0 <= tn tau)%Z ->
  (- tn tau * Z.abs det <= Z.sgn det * N * td tau)%Z ->
  - Q2R tau <= IZR N / IZR det.
Proof.
  intros Hd Ht H. rewrite Q2R_split.
  pose proof (td_pos tau) as HT. apply IZR_le in Ht.
  set (T := IZR (td tau)) in *. set (Nt := IZR (tn tau)) in *.
  destruct (Z_lt_le_dec det 0) as [Hneg|Hpos].
  - rewrite Z.abs_neq, Z.sgn_neg in H by lia.
    apply IZR_le in H. rewrite !mult_IZR, !opp_IZR in H. fold T Nt in H.
    apply IZR_lt in Hneg. set (dr := IZR det) in *. set (n' := IZR N) in *.
    assert (E : n' / dr + Nt / T = (n' * T + Nt * dr) * / (dr * T)) by (field; split; lra).
    assert (Hinv : / (dr * T) < 0) by (apply Rinv_lt_0_compat; nra).
    assert (Hx : n' * T + Nt * dr <= 0) by (simpl in H; lra).
    assert (0 <= (n' * T + Nt * dr) * / (dr * T)) by nra.
    lra.
  - assert (Hp : (0 < det)%Z) by lia.
    rewrite Z.abs_eq, Z.sgn_pos in H by lia.
    apply IZR_le in H. rewrite !mult_IZR, !opp_IZR in H. fold T Nt in H.
    apply IZR_lt in Hp. set (dr := IZR det) in *. set (n' := IZR N) in *.
    assert (E : n' / dr + Nt / T = (n' * T + Nt * dr) * / (dr * T)) by (field; split; lra).
    assert (Hinv : 0 < / (dr * T)) by (apply Rinv_0_lt_compat; nra).
    assert (Hx : 0 <= n' * T + Nt * dr) by (simpl in H; lra).
    assert (0 <= (n' * T + Nt * dr) * / (dr * T)) by nra.
    lra.
Qed.

Lemma bary_ok_sound D tau T v :
  bary_ok tau T v = true -> bary_in (Q2R tau) (tet_r D T) (rv D v).
Proof.
  destruct T as [[[a b] c] e]. unfold bary_ok, bary_nums.
  set (ba := zsub b a). set (ca := zsub c a). set (ea := zsub e a). set (va := zsub v a).
  set (det := zdet3 ba ca ea). set (nb := zdet3 va ca ea). set (nc := zdet3 ba va ea).
  set (ne := zdet3 ba ca va).
  intros H. apply andb_true_iff in H as [H Hall]. apply andb_true_iff in H as [Hdet Ht].
  apply negb_true_iff, Z.eqb_neq in Hdet. apply Z.leb_le in Ht.
  cbn [forallb] in Hall. rewrite !andb_true_iff in Hall.
  destruct Hall as (Ha & Hb & Hc & He & _).
  apply Z.leb_le in Ha, Hb, Hc, He.
  exists [IZR (det - nb - nc - ne) / IZR det; IZR nb / IZR det; IZR nc / IZR det; IZR ne / IZR det].
  assert (Hdr : IZR det <> 0) by (apply not_0_IZR; exact Hdet).
  split; [reflexivity|]. split; [|split].
  - repeat (apply Forall_cons; [apply bary_weight_ok; auto|]). apply Forall_nil.
  - cbn [sum]. rewrite !minus_IZR. field. exact Hdr.
  - unfold tet_r. rewrite !rv_scale.
    change [vscale (/ IZR (Z.pos D)) (iv a); vscale (/ IZR (Z.pos D)) (iv b);
            vscale (/ IZR (Z.pos D)) (iv c); vscale (/ IZR (Z.pos D)) (iv e)]
      with (map (vscale (/ IZR (Z.pos D))) [iv a; iv b; iv c; iv e]).
    rewrite comb_scale. f_equal.
    pose proof (cramer_tet (iv a) (iv b) (iv c) (iv e) (iv v)) as HC. cbv zeta in HC.
    rewrite <- !iv_sub in HC. fold ba ca ea va in HC. rewrite <- !IZR_zdet3 in HC.
    fold det nb nc ne in HC. rewrite !minus_IZR. apply HC. exact Hdr.
Qed.

(** ** convexity and area *)
Lemma side_rv D n u v w :
  side_r (rv D n) (rv D u) (rv D v) (rv D w) = IZR (side n u v w) / IZR (Zpos D) ^ 3.
Proof.
  unfold side_r, side. rewrite !sub_rv, cross_rv, rv_scale, dot_scale_l, dot_scale_r, IZR_zdot.
  pose proof (IZR_Dpos D). set (Dr := IZR (Zpos D)) in *. field. lra.
Qed.

Lemma convex_ok_sound D n tau poly :
  convex_ok D n tau poly = true ->
  forall e, In e (cyc2 (map (rv D) poly)) -> forall w, In w (map (rv D) poly) ->
  - (Q2R tau * norm (rv D n)) <= side_r (rv D n) (fst e) (snd e) w.
Proof.
  unfold convex_ok. intros H e He w Hw.
  rewrite cyc2_map in He. apply in_map_iff in He as ([u v] & <- & He).
  apply in_map_iff in Hw as (w0 & <- & Hw).
  rewrite forallb_forall in H. specialize (H _ He). rewrite forallb_forall in H.
  specialize (H _ Hw). cbn [fst snd] in *.
  apply ge_tol_sound in H. rewrite side_rv. exact H.
Qed.

Lemma fan2_rv D poly :
  fan2 (map (rv D) poly) = vscale (/ IZR (Zpos D) * / IZR (Zpos D)) (iv (zfan2 poly)).
Proof.
  destruct poly as [|v0 rest]; cbn [fan2 zfan2 map].
  - unfold vscale, vzero, iv, zzero. cbn [vx vy vz mul zero ROps]. f_equal; ring.
  - rewrite adj_map. induction (adj rest) as [|[p q] l IH]; cbn [fold_right map fst snd].
    + unfold vscale, vzero, iv, zzero. cbn [vx vy vz mul zero ROps]. f_equal; ring.
    + rewrite IH, !sub_rv, cross_rv, iv_add, vadd_scale. reflexivity.
Qed.

Lemma area_ok_sound D n tau poly :
  area_ok D n tau poly = true ->
  - (Q2R tau * norm (rv D n)) <= dot (rv D n) (fan2 (map (rv D) poly)).
Proof.
  unfold area_ok. intros H. apply ge_tol_sound in H.
  replace (dot (rv D n) (fan2 (map (rv D) poly)))
    with (IZR (zdot n (zfan2 poly)) / IZR (Z.pos D) ^ 3); [exact H|].
  rewrite fan2_rv, rv_scale, dot_scale_l, dot_scale_r, <- IZR_zdot.
  pose proof (IZR_Dpos D). set (Dr := IZR (Zpos D)) in *. field. lra.
Qed.

(** ** force *)
Lemma par_ok_sound D n F tau :
  par_ok n F tau = true ->
  dot (cross (rv D F) (rv D n)) (cross (rv D F) (rv D n))
  <= Q2R tau * Q2R tau * (dot (rv D F) (rv D F) * dot (rv D n) (rv D n)).
Proof.
  unfold par_ok. intros H. apply Z.leb_le in H. apply IZR_le in H.
  rewrite !mult_IZR, !IZR_zdot, iv_cross in H.
  rewrite cross_rv, dot_scale_l, dot_scale_r, !dot_rv, !IZR_zdot, iv_cross, Q2R_split.
  pose proof (IZR_Dpos D) as HD. pose proof (td_pos tau) as HT.
  set (Dr := IZR (Zpos D)) in *. set (T := IZR (td tau)) in *. set (N := IZR (tn tau)) in *.
  set (X := dot (cross (iv F) (iv n)) (cross (iv F) (iv n))) in *.
  set (FF := dot (iv F) (iv F)) in *. set (NN := dot (iv n) (iv n)) in *.
  apply (Rmult_le_reg_r (T * T * (Dr * Dr * Dr * Dr))).
  { repeat apply Rmult_lt_0_compat; auto. }
  replace (/ Dr * / Dr * (/ Dr * / Dr * X) * (T * T * (Dr * Dr * Dr * Dr))) with (X * (T * T))
    by (field; lra).
  replace (N / T * (N / T) * (FF / Dr ^ 2 * (NN / Dr ^ 2)) * (T * T * (Dr * Dr * Dr * Dr)))
    with (N * N * (FF * NN)) by (field; split; lra).
  exact H.
Qed.

Lemma sign_ok_sound D n F tau :
  sign_ok D n F tau = true ->
  - (Q2R tau * norm (rv D n)) <= dot (rv D F) (rv D n).
Proof.
  unfold sign_ok. intros H. apply ge_tol_sound in H. rewrite dot_rv. exact H.
Qed.

(** ** the certificate as a whole *)
Record poly_spec (D : positive) (T1 T2 : tet) (n : VZ) (d : Z) (poly : list VZ) (F : VZ)
       (tl : tols) : Prop := {
  ps_normal : 0 < dot (rv D n) (rv D n);
  ps_size : (3 <= length poly)%nat;
  (** every vertex lies on the reported plane *)
  ps_plane : forall v, In v (map (rv D) poly) ->
      Rabs (dot (rv D n) v - rz D d) <= Q2R (t_plane tl) * norm (rv D n);
  (** ... and inside both tetrahedra: barycentric coordinates >= - t_bary *)
  ps_in1 : forall v, In v (map (rv D) poly) -> bary_in (Q2R (t_bary tl)) (tet_r D T1) v;
  ps_in2 : forall v, In v (map (rv D) poly) -> bary_in (Q2R (t_bary tl)) (tet_r D T2) v;
  (** convex, counter-clockwise about the normal: every vertex is on the inner side of
      every edge (cyclic) *)
  ps_convex : forall e, In e (cyc2 (map (rv D) poly)) -> forall w, In w (map (rv D) poly) ->
      - (Q2R (t_area tl) * norm (rv D n)) <= side_r (rv D n) (fst e) (snd e) w;
  (** twice the signed area about the normal (fan triangulation, as the code integrates) *)
  ps_area : - (Q2R (t_area tl) * norm (rv D n)) <= dot (rv D n) (fan2 (map (rv D) poly));
  (** force along the normal (sin^2 of the angle <= t_par^2), pressure >= 0 *)
  ps_par : dot (cross (rv D F) (rv D n)) (cross (rv D F) (rv D n))
           <= Q2R (t_par tl) * Q2R (t_par tl) * (dot (rv D F) (rv D F) * dot (rv D n) (rv D n));
  ps_sign : - (Q2R (t_sign tl) * norm (rv D n)) <= dot (rv D F) (rv D n)
}.

Theorem poly_cert_sound D T1 T2 n d poly F tl :
  poly_cert D T1 T2 n d poly F tl = true -> poly_spec D T1 T2 n d poly F tl.
Proof.
  unfold poly_cert, poly_cert_bits. cbn [forallb]. rewrite !andb_true_iff.
  intros (H1 & H2 & H3 & H4 & H5 & H6 & H7 & H8 & H9 & _).
  constructor.
  - rewrite dot_rv. apply Z.ltb_lt in H1. apply IZR_lt in H1.
    pose proof (IZR_Dpos D). unfold Rdiv. apply Rmult_lt_0_compat; [exact H1|].
    apply Rinv_0_lt_compat. apply pow_lt. assumption.
  - apply Nat.leb_le in H2. exact H2.
  - intros v Hv. apply in_map_iff in Hv as (v0 & <- & Hv).
    rewrite forallb_forall in H3. apply plane_ok_sound. auto.
  - intros v Hv. apply in_map_iff in Hv as (v0 & <- & Hv).
    rewrite forallb_forall in H4. apply bary_ok_sound. auto.
  - intros v Hv. apply in_map_iff in Hv as (v0 & <- & Hv).
    rewrite forallb_forall in H5. apply bary_ok_sound. auto.
  - apply convex_ok_sound. exact H6.
  - apply area_ok_sound. exact H7.
  - apply par_ok_sound. exact H8.
  - apply sign_ok_sound. exact H9.
Qed.

(** ** disjoint convex hulls *)
Lemma dot_iv_rv D n a : dot (iv n) (rv D a) = IZR (zdot n a) / IZR (Zpos D).
Proof. rewrite rv_scale, dot_scale_r, IZR_zdot. unfold Rdiv. ring. Qed.

Theorem sep_cert_sound D n c1 c2 A B :
  sep_cert n c1 c2 A B = true ->
  forall x, conv_hull (map (rv D) A) x -> conv_hull (map (rv D) B) x -> False.
Proof.
  unfold sep_cert. rewrite !andb_true_iff. intros [[Hc HA] HB] x HxA HxB.
  apply Z.ltb_lt in Hc. apply IZR_lt in Hc.
  pose proof (IZR_Dpos D) as HD.
  assert (H1 : dot (iv n) x <= IZR c1 / IZR (Zpos D)).
  { apply (hull_linear_bound (map (rv D) A)); auto.
    intros p Hp. apply in_map_iff in Hp as (a & <- & Ha).
    rewrite forallb_forall in HA. specialize (HA _ Ha). apply Z.leb_le in HA. apply IZR_le in HA.
    rewrite dot_iv_rv. unfold Rdiv. apply Rmult_le_compat_r; [|exact HA].
    left. apply Rinv_0_lt_compat. exact HD. }
  assert (H2 : IZR c2 / IZR (Zpos D) <= dot (iv n) x).
  { apply (hull_linear_lower (map (rv D) B)); auto.
    intros p Hp. apply in_map_iff in Hp as (b & <- & Hb).
    rewrite forallb_forall in HB. specialize (HB _ Hb). apply Z.leb_le in HB. apply IZR_le in HB.
    rewrite dot_iv_rv. unfold Rdiv. apply Rmult_le_compat_r; [|exact HB].
    left. apply Rinv_0_lt_compat. exact HD. }
  assert (IZR c1 / IZR (Zpos D) < IZR c2 / IZR (Zpos D)).
  { unfold Rdiv. apply Rmult_lt_compat_r; [apply Rinv_0_lt_compat; exact HD|exact Hc]. }
  lra.
Qed.
