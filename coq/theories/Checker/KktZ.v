(** * Integer (homogeneous) certificates for C18 and their soundness over the reals.

    Same verdicts as Checker/Kkt.v, but on INTEGER data, so that evaluation under
    [vm_compute] never builds rational denominators: the harness scales every binary64
    number of a case by one power of two [2^N] (exact) and passes witness weights as
    integers with their sum as the common denominator.  Soundness is stated for an
    arbitrary positive scale factor [s]: the real configuration is [s * Y] (the harness
    uses [s = 2^-N]); minimum-norm statements are homogeneous in [s].

    Also here: [f2z], the decoder from binary64 literals to scaled integers ([m * 2^e]
    from the kernel's [Prim2SF]); it is a definition (the meaning of a float), used only
    to read numbers in; the certificates are about the integers it returns. *)
From Coq Require Import List ZArith Reals Lra Lia Bool Psatz PrimFloat FloatOps SpecFloat.
From D3 Require Import Base.Ops Base.Vec Base.RVec Spec.Convex Spec.ConvexHull.
Import ListNotations.

(** ** integer vectors *)
Section ZVec.
  Local Open Scope Z_scope.
  Definition zdot (a b : V3 Z) : Z := vx a * vx b + vy a * vy b + vz a * vz b.
  Definition zvadd (a b : V3 Z) : V3 Z := V (vx a + vx b) (vy a + vy b) (vz a + vz b).
  Definition zvsub (a b : V3 Z) : V3 Z := V (vx a - vx b) (vy a - vy b) (vz a - vz b).
  Definition zvscale (s : Z) (a : V3 Z) : V3 Z := V (s * vx a) (s * vy a) (s * vz a).
  Definition zvzero : V3 Z := V 0 0 0.
  Fixpoint zcomb (ws : list Z) (ps : list (V3 Z)) : V3 Z :=
    match ws, ps with
    | w :: ws', p :: ps' => zvadd (zvscale w p) (zcomb ws' ps')
    | _, _ => zvzero
    end.
  Fixpoint zsum (ws : list Z) : Z := match ws with [] => 0 | w :: ws' => w + zsum ws' end.
  Fixpoint zselect (Y : list (V3 Z)) (sub : list nat) : option (list (V3 Z)) :=
    match sub with
    | [] => Some []
    | i :: sub' =>
      match nth_error Y i, zselect Y sub' with
      | Some y, Some r => Some (y :: r)
      | _, _ => None
      end
    end.
  Definition zvmaxabs (a : V3 Z) : Z := Z.max (Z.abs (vx a)) (Z.max (Z.abs (vy a)) (Z.abs (vz a))).
  (** the scale of a configuration in integer units: [max(unit, max |coordinate|)] where
      [unit] is the integer that stands for the real number 1 *)
  Definition zscale_of (unit : Z) (Y : list (V3 Z)) : Z := fold_right (fun y m => Z.max (zvmaxabs y) m) unit Y.

  (** integer weights: non-negative, positive sum (the weights proper are [W_i / sum W]) *)
  Definition zweights_ok (W : list Z) (ps : list (V3 Z)) : bool :=
    Nat.eqb (length W) (length ps) && forallb (fun w => 0 <=? w) W && (0 <? zsum W).

  (** [kkt_z Y qs Wq T]: with [S = sum Wq], [Q = sum Wq_i y_i] (so [q = Q / S] lies in the hull of
      [Y[qs]]): [Q.Q - T <= S (Q.y)] for all input points, i.e. [q.q - T/S^2 <= q.y]. *)
  Definition kkt_z (Y : list (V3 Z)) (qs : list nat) (Wq : list Z) (T : Z) : bool :=
    match zselect Y qs with
    | None => false
    | Some ps =>
      let Q := zcomb Wq ps in
      let S := zsum Wq in
      let QQT := zdot Q Q - T in
      zweights_ok Wq ps && (0 <=? T) && forallb (fun y => QQT <=? S * zdot Q y) Y
    end.

  (** [|p| <= |x| + en/ed] for every [x] with [Ssq <= S^2 |x|^2]  (all arguments integers):
      with [P = S ed |p|], [N = ed sqrt Ssq], [E = S en]:  [P <= N + E], tested without roots *)
  Definition norm_ub_z (p : V3 Z) (S Ssq en ed : Z) : bool :=
    let SS := S * S in let dd := ed * ed in
    let P2 := SS * dd * zdot p p in
    let N2 := dd * Ssq in
    let E2 := SS * (en * en) in
    let D := P2 - N2 - E2 in
    (D <=? 0) || (D * D <=? 4 * E2 * N2).

  (** [p] is within [en/ed] of the combination [Wp / sum Wp] of [Y[sub]] *)
  Definition near_z (Y : list (V3 Z)) (p : V3 Z) (sub : list nat) (Wp : list Z) (en ed : Z) : bool :=
    match zselect Y sub with
    | None => false
    | Some ps =>
      let Sp := zsum Wp in
      let r := zvsub (zvscale Sp p) (zcomb Wp ps) in
      zweights_ok Wp ps && (zdot r r * (ed * ed) <=? Sp * Sp * (en * en))
    end.

  (** returned weights [Wb_i / Db] ([Db > 0] a common denominator): non-negative, sum within
      [n1/d1] of 1, reproduce [p] from [Y[sub]] in order within [en/ed] *)
  Definition bary_z (Y : list (V3 Z)) (p : V3 Z) (sub : list nat) (Wb : list Z) (Db n1 d1 en ed : Z) : bool :=
    match zselect Y sub with
    | None => false
    | Some ps =>
      let r := zvsub (zvscale Db p) (zcomb Wb ps) in
      Nat.eqb (length Wb) (length ps) && forallb (fun w => 0 <=? w) Wb && (0 <? Db) && (0 <? d1) &&
      (Z.abs (zsum Wb - Db) * d1 <=? n1 * Db) &&
      (zdot r r * (ed * ed) <=? Db * Db * (en * en))
    end.

  (** the C18 verdict for one solver result, tolerance [en/ed] (in the integer units of [Y]):
      (1) witness accepted: [q = Q/S] in the hull, [|q|^2 <= |x|^2 + 2T/S^2] on the hull;
      (2) [|p| <= |x| + en/ed] on the hull;  (3) [p] within [en/ed] of the hull of [Y[sub]]. *)
  Definition c18_z (Y : list (V3 Z)) (p : V3 Z) (sub : list nat) (Wp : list Z)
             (qs : list nat) (Wq : list Z) (T en ed : Z) : bool * bool * bool :=
    match zselect Y qs with
    | None => (false, false, false)
    | Some ps =>
      let Q := zcomb Wq ps in
      let S := zsum Wq in
      (kkt_z Y qs Wq T,
       (0 <=? en) && (0 <? ed) && norm_ub_z p S (Z.max 0 (zdot Q Q - 2 * T)) en ed,
       (0 <=? en) && (0 <? ed) && near_z Y p sub Wp en ed)
    end.
End ZVec.

(** ** reading binary64 numbers as scaled integers *)
Section Decode.
  Local Open Scope Z_scope.
  (** [f2z N f = Some (f * 2^N)] when that is an integer; [None] for inf/nan or a non-integer *)
  Definition f2z (N : Z) (f : float) : option Z :=
    match Prim2SF f with
    | S754_zero _ => Some 0
    | S754_finite s m e =>
      let sh := e + N in
      let a := if sh <? 0 then
                 (if Z.eqb (Z.land (Zpos m) (Z.ones (- sh))) 0 then Some (Z.shiftr (Zpos m) (- sh)) else None)
               else Some (Z.shiftl (Zpos m) sh) in
      match a with Some z => Some (if s then - z else z) | None => None end
    | _ => None
    end.
  Fixpoint f2z_list (N : Z) (l : list float) : option (list Z) :=
    match l with
    | [] => Some []
    | f :: l' => match f2z N f, f2z_list N l' with Some z, Some r => Some (z :: r) | _, _ => None end
    end.
  (** a number given as an exact sum of floats (a multi-float expansion) *)
  Definition fsum2z (N : Z) (l : list float) : option Z :=
    match f2z_list N l with Some zs => Some (zsum zs) | None => None end.
  Fixpoint fsum2z_list (N : Z) (l : list (list float)) : option (list Z) :=
    match l with
    | [] => Some []
    | f :: l' => match fsum2z N f, fsum2z_list N l' with Some z, Some r => Some (z :: r) | _, _ => None end
    end.
  Fixpoint group3 (l : list Z) : option (list (V3 Z)) :=
    match l with
    | [] => Some []
    | x :: y :: z :: l' => match group3 l' with Some r => Some (V x y z :: r) | None => None end
    | _ => None
    end.
  Definition f2pts (N : Z) (l : list float) : option (list (V3 Z)) :=
    match f2z_list N l with Some zs => group3 zs | None => None end.
End Decode.

(** ** soundness over R *)
Local Open Scope R_scope.
Definition Z2V (v : V3 Z) : V3R := V (IZR (vx v)) (IZR (vy v)) (IZR (vz v)).

Lemma Z2V_zdot a b : IZR (zdot a b) = dot (Z2V a) (Z2V b).
Proof. unfold zdot, Z2V. vunfold. rewrite !plus_IZR, !mult_IZR. reflexivity. Qed.
Lemma Z2V_zvadd a b : Z2V (zvadd a b) = vadd (Z2V a) (Z2V b).
Proof. unfold zvadd, Z2V. vunfold. cbn [vx vy vz]. rewrite !plus_IZR. reflexivity. Qed.
Lemma Z2V_zvsub a b : Z2V (zvsub a b) = vsub (Z2V a) (Z2V b).
Proof. unfold zvsub, Z2V. vunfold. cbn [vx vy vz]. rewrite !minus_IZR. reflexivity. Qed.
Lemma Z2V_zvscale s a : Z2V (zvscale s a) = vscale (IZR s) (Z2V a).
Proof. unfold zvscale, Z2V. vunfold. cbn [vx vy vz]. rewrite !mult_IZR. reflexivity. Qed.
Lemma Z2V_zvzero : Z2V zvzero = vzero.
Proof. reflexivity. Qed.
Lemma Z2V_zcomb ws ps : Z2V (zcomb ws ps) = comb (map IZR ws) (map Z2V ps).
Proof.
  revert ps; induction ws as [|w ws IH]; intros [|p ps]; cbn [zcomb comb map]; try apply Z2V_zvzero.
  rewrite Z2V_zvadd, Z2V_zvscale, IH. reflexivity.
Qed.
Lemma IZR_zsum ws : IZR (zsum ws) = sum (map IZR ws).
Proof. induction ws as [|w ws IH]; cbn [zsum sum map]; [reflexivity|]. rewrite plus_IZR, IH. reflexivity. Qed.

Lemma zselect_In Y sub ps : zselect Y sub = Some ps -> incl ps Y.
Proof.
  revert ps; induction sub as [|i sub IH]; intros ps H; cbn [zselect] in H.
  - injection H as <-. intros x [].
  - destruct (nth_error Y i) as [y|] eqn:E; [|discriminate].
    destruct (zselect Y sub) as [r|]; [|discriminate]. injection H as <-.
    intros x [<-|Hx]; [eapply nth_error_In; eauto | apply (IH r); auto].
Qed.
Lemma zselect_nth Y sub ps :
  zselect Y sub = Some ps -> ps = map (fun i => nth i Y zvzero) sub /\ Forall (fun i => (i < length Y)%nat) sub.
Proof.
  revert ps; induction sub as [|i sub IH]; intros ps H; cbn [zselect] in H.
  - injection H as <-. split; auto.
  - destruct (nth_error Y i) as [y|] eqn:E; [|discriminate].
    destruct (zselect Y sub) as [r|]; [|discriminate]. injection H as <-.
    destruct (IH r eq_refl) as [-> HF]. split.
    + cbn [map]. f_equal. symmetry. apply nth_error_nth; auto.
    + constructor; auto. apply nth_error_Some. congruence.
Qed.

(** the weights proper *)
Definition rweights (W : list Z) : list R := wscale (/ IZR (zsum W)) (map IZR W).

Lemma zweights_ok_sound W ps :
  zweights_ok W ps = true ->
  0 < IZR (zsum W) /\
  length (rweights W) = length (map Z2V ps) /\ Forall (fun w => 0 <= w) (rweights W) /\
  sum (rweights W) = 1.
Proof.
  unfold zweights_ok. rewrite !andb_true_iff. intros [[Hl Hn] Hs].
  apply Nat.eqb_eq in Hl. apply Z.ltb_lt in Hs. apply IZR_lt in Hs.
  split; auto. unfold rweights. rewrite wscale_length, !map_length. split; auto. split.
  - apply Forall_wscale.
    + left. apply Rinv_0_lt_compat. exact Hs.
    + rewrite forallb_forall in Hn. apply Forall_forall. intros w Hw.
      apply in_map_iff in Hw. destruct Hw as (z & <- & Hin).
      specialize (Hn z Hin). apply Z.leb_le in Hn. apply IZR_le. exact Hn.
  - rewrite sum_wscale, <- IZR_zsum. field. lra.
Qed.

Lemma rweights_comb W ps :
  comb (rweights W) (map Z2V ps) = vscale (/ IZR (zsum W)) (Z2V (zcomb W ps)).
Proof. unfold rweights. rewrite comb_wscale, Z2V_zcomb. reflexivity. Qed.

Lemma zweights_ok_hull W ps :
  zweights_ok W ps = true ->
  conv_hull (map Z2V ps) (vscale (/ IZR (zsum W)) (Z2V (zcomb W ps))).
Proof.
  intros H. destruct (zweights_ok_sound _ _ H) as (_ & Hl & Hn & Hs).
  exists (rweights W). repeat split; auto. symmetry. apply rweights_comb.
Qed.

(** *** [kkt_z] *)
Theorem kkt_z_sound Y qs Wq T :
  kkt_z Y qs Wq T = true ->
  exists ps, zselect Y qs = Some ps /\
    let S := IZR (zsum Wq) in
    let q := vscale (/ S) (Z2V (zcomb Wq ps)) in
    0 < S /\ 0 <= IZR T /\
    conv_hull (map Z2V ps) q /\ conv_hull (map Z2V Y) q /\
    forall x, conv_hull (map Z2V Y) x -> dot q q <= dot x x + 2 * (IZR T / (S * S)).
Proof.
  unfold kkt_z. destruct (zselect Y qs) as [ps|] eqn:Es; [|discriminate].
  rewrite !andb_true_iff. intros [[Hw HT] Hk].
  exists ps. split; auto. cbv zeta.
  destruct (zweights_ok_sound _ _ Hw) as (HS & _).
  pose proof (zweights_ok_hull _ _ Hw) as Hin.
  apply Z.leb_le in HT. apply IZR_le in HT.
  split; auto. split; auto. split; auto. split.
  - revert Hin. apply conv_hull_incl. intros v Hv.
    apply in_map_iff in Hv. destruct Hv as (y & <- & Hy).
    apply in_map. eapply zselect_In; eauto.
  - apply min_norm_sq_slack. intros y Hy.
    apply in_map_iff in Hy. destruct Hy as (y0 & <- & Hy0).
    rewrite forallb_forall in Hk. specialize (Hk y0 Hy0). apply Z.leb_le in Hk. apply IZR_le in Hk.
    rewrite minus_IZR, mult_IZR, !Z2V_zdot in Hk.
    rewrite !dot_scale_l, !dot_scale_r.
    set (Q := Z2V (zcomb Wq ps)) in *. set (S := IZR (zsum Wq)) in *.
    set (a := dot Q Q) in *. set (b := dot Q (Z2V y0)) in *. clearbody a b S.
    assert (HSi : 0 < / S) by (apply Rinv_0_lt_compat; auto).
    replace (/ S * (/ S * a) - IZR T / (S * S)) with (/ S * / S * (a - IZR T)) by (field; lra).
    replace (/ S * b) with (/ S * / S * (S * b)) by (field; lra).
    apply Rmult_le_compat_l; [nra|lra].
Qed.

(** lower bound on the hull from an accepted witness *)
Lemma kkt_z_lower Y qs Wq T ps :
  kkt_z Y qs Wq T = true -> zselect Y qs = Some ps ->
  forall x, conv_hull (map Z2V Y) x ->
    IZR (Z.max 0 (zdot (zcomb Wq ps) (zcomb Wq ps) - 2 * T)) <= IZR (zsum Wq) * IZR (zsum Wq) * dot x x.
Proof.
  intros H Es x Hx. destruct (kkt_z_sound _ _ _ _ H) as (ps' & Es' & HS & HT & _ & _ & Hopt).
  rewrite Es in Es'. injection Es' as <-. cbv zeta in *.
  specialize (Hopt x Hx). rewrite !dot_scale_l, !dot_scale_r in Hopt.
  pose proof (dot_self_nonneg x) as Hx0.
  set (S := IZR (zsum Wq)) in *.
  assert (HSS : 0 < S * S) by nra.
  apply Z.max_case_strong; intros Hc.
  - apply Rmult_le_pos; [lra|auto].
  - rewrite minus_IZR, mult_IZR, Z2V_zdot.
    set (a := dot (Z2V (zcomb Wq ps)) (Z2V (zcomb Wq ps))) in *. clearbody a S.
    assert (E : / S * (/ S * a) = a / (S * S)) by (field; lra). rewrite E in Hopt.
    assert (H2 : a / (S * S) - 2 * (IZR T / (S * S)) <= dot x x) by lra.
    replace (a / (S * S) - 2 * (IZR T / (S * S))) with ((a - 2 * IZR T) / (S * S)) in H2 by (field; lra).
    apply (Rmult_le_compat_l (S * S)) in H2; [|lra].
    replace (S * S * ((a - 2 * IZR T) / (S * S))) with (a - 2 * IZR T) in H2 by (field; lra).
    exact H2.
Qed.

(** a root-free test for [P <= N + E] *)
Lemma le_plus_of_sq (P N E : R) :
  0 <= P -> 0 <= N -> 0 <= E ->
  (P * P - N * N - E * E <= 0 \/
   (P * P - N * N - E * E) * (P * P - N * N - E * E) <= 4 * (E * E) * (N * N)) ->
  P <= N + E.
Proof.
  intros HP HN HE HD.
  apply Rsqr_incr_0_var; [|lra]. unfold Rsqr.
  destruct HD as [HD|HD]; [nra|].
  destruct (Rle_dec (P * P - N * N - E * E) 0) as [Hn|Hn]; [nra|].
  apply Rnot_le_lt in Hn.
  assert (P * P - N * N - E * E <= 2 * E * N).
  { apply Rsqr_incr_0_var; [|nra]. unfold Rsqr. nra. }
  nra.
Qed.

(** *** [norm_ub_z] *)
Lemma norm_ub_z_sound p S Ssq en ed (x : V3R) :
  norm_ub_z p S Ssq en ed = true ->
  (0 < S)%Z -> (0 <= Ssq)%Z -> (0 <= en)%Z -> (0 < ed)%Z ->
  IZR Ssq <= IZR S * IZR S * dot x x ->
  norm (Z2V p) <= norm x + IZR en / IZR ed.
Proof.
  unfold norm_ub_z. intros H HS HSsq Hen Hed Hx.
  apply IZR_lt in HS, Hed. apply IZR_le in HSsq, Hen.
  set (s := IZR S) in *. set (d := IZR ed) in *. set (e := IZR en) in *.
  pose proof (norm_nonneg (Z2V p)) as Hp0. pose proof (norm_sq (Z2V p)) as Hp.
  pose proof (norm_nonneg x) as Hx0. pose proof (norm_sq x) as Hxx.
  pose proof (sqrt_pos (IZR Ssq)) as Hr0. pose proof (sqrt_sqrt (IZR Ssq) HSsq) as Hrr.
  set (r := R_sqrt.sqrt (IZR Ssq)) in *.
  (* P = s d |p|, N = d r, E = s e *)
  assert (HPNE : s * d * norm (Z2V p) <= d * r + s * e).
  { apply le_plus_of_sq.
    - apply Rmult_le_pos; [nra|auto].
    - nra.
    - nra.
    - apply orb_true_iff in H. destruct H as [H|H]; apply Z.leb_le in H; apply IZR_le in H;
        [left|right];
        repeat (rewrite ?minus_IZR, ?mult_IZR, ?Z2V_zdot in H);
        fold s d e in H; rewrite <- Hp, <- Hrr in H; nra. }
  (* r <= s |x| *)
  assert (Hr : r <= s * norm x).
  { apply Rsqr_incr_0_var; [|nra]. unfold Rsqr. rewrite Hrr.
    replace (s * norm x * (s * norm x)) with (s * s * (norm x * norm x)) by ring. rewrite Hxx. exact Hx. }
  assert (Hsd : 0 < s * d) by nra.
  apply (Rmult_le_reg_l (s * d)); [exact Hsd|].
  replace (s * d * (norm x + e / d)) with (d * (s * norm x) + s * e) by (field; lra).
  nra.
Qed.

(** *** [near_z] *)
Lemma near_z_sound Y p sub Wp en ed :
  near_z Y p sub Wp en ed = true -> (0 <= en)%Z -> (0 < ed)%Z ->
  exists ps z, zselect Y sub = Some ps /\ incl ps Y /\ conv_hull (map Z2V ps) z /\
               norm (vsub (Z2V p) z) <= IZR en / IZR ed.
Proof.
  unfold near_z. destruct (zselect Y sub) as [ps|] eqn:Es; [|discriminate].
  rewrite andb_true_iff. intros [Hw Hr] Hen Hed.
  destruct (zweights_ok_sound _ _ Hw) as (HS & _).
  exists ps, (vscale (/ IZR (zsum Wp)) (Z2V (zcomb Wp ps))).
  split; auto. split; [eapply zselect_In; eauto|]. split; [apply zweights_ok_hull; auto|].
  apply Z.leb_le in Hr. apply IZR_le in Hr. apply IZR_le in Hen. apply IZR_lt in Hed.
  rewrite !mult_IZR, Z2V_zdot, Z2V_zvsub, Z2V_zvscale in Hr.
  set (s := IZR (zsum Wp)) in *. set (d := IZR ed) in *. set (e := IZR en) in *.
  set (c := Z2V (zcomb Wp ps)) in *. set (pp := Z2V p) in *.
  assert (E : vsub pp (vscale (/ s) c) = vscale (/ s) (vsub (vscale s pp) c)).
  { clearbody c pp s. vsimp. f_equal; field; lra. }
  rewrite E, norm_scale. rewrite Rabs_right by (left; apply Rinv_0_lt_compat; auto).
  set (r := vsub (vscale s pp) c) in *.
  pose proof (norm_nonneg r) as Hr0. pose proof (norm_sq r) as Hrr. rewrite <- Hrr in Hr.
  assert (Hle : norm r * d <= s * e).
  { apply Rsqr_incr_0_var; [|nra]. unfold Rsqr. nra. }
  apply (Rmult_le_reg_l (s * d)); [nra|].
  replace (s * d * (/ s * norm r)) with (norm r * d) by (field; lra).
  replace (s * d * (e / d)) with (s * e) by (field; lra). exact Hle.
Qed.

(** *** [bary_z] *)
Lemma bary_z_sound Y p sub Wb Db n1 d1 en ed :
  bary_z Y p sub Wb Db n1 d1 en ed = true -> (0 <= en)%Z -> (0 < ed)%Z ->
  exists ps, zselect Y sub = Some ps /\ length Wb = length ps /\
    let w := wscale (/ IZR Db) (map IZR Wb) in
    Forall (fun l => 0 <= l) w /\
    Rabs (sum w - 1) <= IZR n1 / IZR d1 /\
    norm (vsub (Z2V p) (comb w (map Z2V ps))) <= IZR en / IZR ed.
Proof.
  unfold bary_z. destruct (zselect Y sub) as [ps|] eqn:Es; [|discriminate].
  rewrite !andb_true_iff. intros [[[[[Hl Hn] HD] Hd1] Hs] Hr] Hen Hed.
  exists ps. split; auto. apply Nat.eqb_eq in Hl. split; auto. cbv zeta.
  apply Z.ltb_lt in HD, Hd1. apply IZR_lt in HD, Hd1. apply IZR_le in Hen. apply IZR_lt in Hed.
  assert (HDi : 0 < / IZR Db) by (apply Rinv_0_lt_compat; auto).
  split; [|split].
  - apply Forall_wscale; [lra|].
    rewrite forallb_forall in Hn. apply Forall_forall. intros w Hw.
    apply in_map_iff in Hw. destruct Hw as (z & <- & Hin).
    specialize (Hn z Hin). apply Z.leb_le in Hn. apply IZR_le. exact Hn.
  - rewrite sum_wscale, <- IZR_zsum.
    apply Z.leb_le in Hs. apply IZR_le in Hs. rewrite !mult_IZR, abs_IZR, minus_IZR in Hs.
    set (a := IZR (zsum Wb)) in *. set (D := IZR Db) in *.
    replace (/ D * a - 1) with ((a - D) / D) by (field; lra).
    unfold Rdiv at 1. rewrite Rabs_mult, (Rabs_right (/ D)) by lra.
    apply (Rmult_le_reg_l (D * IZR d1)); [nra|].
    replace (D * IZR d1 * (Rabs (a - D) * / D)) with (Rabs (a - D) * IZR d1) by (field; lra).
    replace (D * IZR d1 * (IZR n1 / IZR d1)) with (IZR n1 * D) by (field; lra). exact Hs.
  - apply Z.leb_le in Hr. apply IZR_le in Hr.
    rewrite !mult_IZR, Z2V_zdot, Z2V_zvsub, Z2V_zvscale, Z2V_zcomb in Hr.
    rewrite comb_wscale.
    set (D := IZR Db) in *. set (d := IZR ed) in *. set (e := IZR en) in *.
    set (c := comb (map IZR Wb) (map Z2V ps)) in *. set (pp := Z2V p) in *.
    assert (E : vsub pp (vscale (/ D) c) = vscale (/ D) (vsub (vscale D pp) c)).
    { clearbody c pp D. vsimp. f_equal; field; lra. }
    rewrite E, norm_scale. rewrite Rabs_right by lra.
    set (r := vsub (vscale D pp) c) in *.
    pose proof (norm_nonneg r) as Hr0. pose proof (norm_sq r) as Hrr. rewrite <- Hrr in Hr.
    assert (Hle : norm r * d <= D * e).
    { apply Rsqr_incr_0_var; [|nra]. unfold Rsqr. nra. }
    apply (Rmult_le_reg_l (D * d)); [nra|].
    replace (D * d * (/ D * norm r)) with (norm r * d) by (field; lra).
    replace (D * d * (e / d)) with (D * e) by (field; lra). exact Hle.
Qed.

(** ** scaling *)
Lemma comb_map_scale (s : R) ws ps : comb ws (map (vscale s) ps) = vscale s (comb ws ps).
Proof.
  revert ps; induction ws as [|w ws IH]; intros [|p ps]; cbn [comb map]; try (vsimp; f_equal; ring).
  rewrite IH. generalize (comb ws ps). intros a. vsimp; f_equal; ring.
Qed.
Lemma conv_hull_scale (s : R) ps x : conv_hull ps x -> conv_hull (map (vscale s) ps) (vscale s x).
Proof.
  intros (ws & Hl & Hw & Hs & ->). exists ws. rewrite map_length. repeat split; auto.
  symmetry. apply comb_map_scale.
Qed.
Lemma conv_hull_unscale (s : R) ps x :
  conv_hull (map (vscale s) ps) x -> exists x', conv_hull ps x' /\ x = vscale s x'.
Proof.
  intros (ws & Hl & Hw & Hs & ->). rewrite map_length in Hl.
  exists (comb ws ps). split; [exists ws; repeat split; auto|apply comb_map_scale].
Qed.

(** *** the combined verdict, for the real configuration [s * Y] *)
Definition sZ2V (s : R) (v : V3 Z) : V3R := vscale s (Z2V v).

Lemma map_sZ2V s l : map (sZ2V s) l = map (vscale s) (map Z2V l).
Proof. rewrite map_map. reflexivity. Qed.

Theorem c18_z_sound Y p sub Wp qs Wq T en ed :
  c18_z Y p sub Wp qs Wq T en ed = (true, true, true) ->
  forall s, 0 < s ->
  let e := s * (IZR en / IZR ed) in
  (* no point of the hull of the input is closer to the origin than |p| - e ... *)
  (forall x, conv_hull (map (sZ2V s) Y) x -> norm (sZ2V s p) <= norm x + e) /\
  (* ... and the returned point is within e of the hull of the returned subset, which
     consists of input points (hence some hull point has norm <= |p| + e) *)
  (exists ps z, zselect Y sub = Some ps /\ incl ps Y /\ conv_hull (map (sZ2V s) ps) z /\
                conv_hull (map (sZ2V s) Y) z /\ norm (vsub (sZ2V s p) z) <= e).
Proof.
  unfold c18_z. destruct (zselect Y qs) as [ps|] eqn:Es; [|discriminate].
  intros H s Hs. set (e := s * (IZR en / IZR ed)). injection H as Hk Hn Hm.
  rewrite !andb_true_iff in Hn, Hm. destruct Hn as [[Hen Hed] Hn]. destruct Hm as [_ Hm].
  apply Z.leb_le in Hen. apply Z.ltb_lt in Hed.
  split.
  - intros x Hx. rewrite map_sZ2V in Hx.
    destruct (conv_hull_unscale _ _ _ Hx) as (x' & Hx' & ->).
    pose proof (kkt_z_lower _ _ _ _ _ Hk Es x' Hx') as Hlow.
    destruct (kkt_z_sound _ _ _ _ Hk) as (ps' & _ & HS & _).
    cbv zeta in HS. apply lt_IZR in HS.
    pose proof (norm_ub_z_sound _ _ _ _ _ x' Hn HS (Z.le_max_l _ _) Hen Hed Hlow) as Hb.
    unfold sZ2V, e. rewrite !norm_scale, (Rabs_right s) by lra. nra.
  - destruct (near_z_sound _ _ _ _ _ _ Hm Hen Hed) as (ps0 & z & Hs0 & Hincl & Hz & Hd).
    exists ps0, (vscale s z). split; auto. split; auto. split; [|split].
    + rewrite map_sZ2V. apply conv_hull_scale. exact Hz.
    + rewrite map_sZ2V. apply conv_hull_scale. revert Hz. apply conv_hull_incl.
      intros v Hv. apply in_map_iff in Hv. destruct Hv as (y & <- & Hy). apply in_map. auto.
    + unfold sZ2V, e.
      replace (vsub (vscale s (Z2V p)) (vscale s z)) with (vscale s (vsub (Z2V p) z))
        by (generalize (Z2V p); intros a; vsimp; f_equal; ring).
      rewrite norm_scale, (Rabs_right s) by lra. nra.
Qed.

(** consequence in the words of the property: the returned norm is within [e] of the minimum *)
Corollary c18_z_min_norm Y p sub Wp qs Wq T en ed :
  c18_z Y p sub Wp qs Wq T en ed = (true, true, true) ->
  forall s, 0 < s -> forall m, is_min_norm (map (sZ2V s) Y) m ->
  Rabs (norm (sZ2V s p) - norm m) <= s * (IZR en / IZR ed).
Proof.
  intros H s Hs m [Hm Hmin].
  destruct (c18_z_sound _ _ _ _ _ _ _ _ _ H s Hs) as (Hlo & ps & z & _ & _ & _ & Hz & Hd).
  specialize (Hlo m Hm). specialize (Hmin z Hz).
  pose proof (norm_triangle (vsub (sZ2V s p) z) z) as Ht.
  (* |z| <= |p| + |p - z| *)
  assert (Hz2 : norm z <= norm (sZ2V s p) + norm (vsub (sZ2V s p) z)).
  { pose proof (norm_triangle (sZ2V s p) (vsub z (sZ2V s p))) as H1.
    replace (vadd (sZ2V s p) (vsub z (sZ2V s p))) with z in H1
      by (generalize (sZ2V s p); intros a; vsimp; f_equal; ring).
    rewrite (norm_sub_comm z) in H1. exact H1. }
  unfold Rabs. destruct (Rcase_abs _); lra.
Qed.

(** the scale: at least the unit, and bounds every coordinate *)
Lemma zscale_of_ge_unit u Y : (u <= zscale_of u Y)%Z.
Proof. induction Y as [|y Y IH]; cbn [zscale_of fold_right]; [lia|]. unfold zscale_of in IH. lia. Qed.
Lemma zscale_of_bound u Y y : In y Y -> (zvmaxabs y <= zscale_of u Y)%Z.
Proof.
  induction Y as [|y0 Y IH]; intros H; [destruct H|].
  cbn [zscale_of fold_right]. destruct H as [->|H]; [lia|].
  specialize (IH H). unfold zscale_of in IH. lia.
Qed.
